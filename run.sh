#!/bin/sh
# usage: run.sh <property> [quick|thorough]
# Builds the checker if needed (go build is a no-op when up to date) and runs
# one property check against /repo's current working tree.
set -u
export GOFLAGS=-mod=mod GOPROXY=off GOSUMDB=off GOTOOLCHAIN=local GOWORK=off
V=$(cd "$(dirname "$0")" && pwd)
mkdir -p "$V/bin"
( cd "$V/checker" && go build -o "$V/bin/zapxlint" . ) || { echo "VIOLATION property=$1 replay=-"; echo "checker does not build"; exit 1; }
exec "$V/bin/zapxlint" check -property "$1" -tier "${2:-${VERIF_TIER:-quick}}" -repo "${VERIF_REPO:-/repo}" -verif "$V"
