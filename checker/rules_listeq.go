package main

// Recognising "these segments number their fields exactly as the merged field list does": the only thing,
// besides mergeFields' fieldsSame, that makes copying encoded location bytes (which carry field ids) safe.
//
// fieldListEquality(P) holds for a function  P(..., segs []*SegmentBase | seg *SegmentBase, ..., list []string, ...) bool
// whose shape is the one any such comparison has:
//   for every segment looked at:  len(seg.fieldsInv) != len(list)  -> return false   (before the elements)
//                                 for i: list[i] != seg.fieldsInv[i] -> return false
//   return true only after all of that.
// Checked structurally on the SSA: the returns are the constants true/false; there is a length comparison
// and an element comparison between seg.fieldsInv and the list *parameter*, each with its "differs" edge
// going straight to a `return false`; the length comparison dominates the element loop; every `return
// true` is reached only through the exhausted edges of the loops (no other way out of them).
// A predicate that compares the segments with each other (seeded change C06g) has no list parameter on the
// other side of the comparisons and is not recognised.

import (
	"go/token"
	"go/types"

	"golang.org/x/tools/go/ssa"
)

type listEq struct {
	segsParam int // index of the []*SegmentBase / *SegmentBase parameter
	listParam int // index of the []string parameter
}

func isSegmentBasePtr(t types.Type) bool {
	p, ok := t.Underlying().(*types.Pointer)
	return ok && isNamed(p.Elem(), zapPkgPath, "SegmentBase")
}

func fieldListEquality(f *ssa.Function) (listEq, bool) {
	var none listEq
	if f == nil || len(f.Blocks) == 0 {
		return none, false
	}
	res := f.Signature.Results()
	if res.Len() != 1 {
		return none, false
	}
	if bt, ok := res.At(0).Type().Underlying().(*types.Basic); !ok || bt.Kind() != types.Bool {
		return none, false
	}
	segsIdx, listIdx := -1, -1
	for i, p := range f.Params {
		switch t := p.Type().Underlying().(type) {
		case *types.Slice:
			if isSegmentBasePtr(t.Elem()) {
				segsIdx = i
			}
			if bt, ok := t.Elem().Underlying().(*types.Basic); ok && bt.Kind() == types.String {
				if listIdx >= 0 {
					return none, false // two string lists: which one is the merged one is not clear
				}
				listIdx = i
			}
		case *types.Pointer:
			if isSegmentBasePtr(p.Type()) {
				segsIdx = i
			}
		}
	}
	if segsIdx < 0 || listIdx < 0 {
		return none, false
	}
	list := ssa.Value(f.Params[listIdx])
	segs := ssa.Value(f.Params[segsIdx])
	// a segment looked at: the parameter itself, or an element of the parameter
	isSeg := func(v ssa.Value) bool {
		if v == segs && isSegmentBasePtr(segs.Type()) {
			return true
		}
		switch x := v.(type) {
		case *ssa.Extract:
			if nx, ok := x.Tuple.(*ssa.Next); ok && x.Index == 2 {
				if rg, ok := nx.Iter.(*ssa.Range); ok {
					return rg.X == segs
				}
			}
		case *ssa.UnOp:
			if ia, ok := x.X.(*ssa.IndexAddr); ok && x.Op == token.MUL {
				return ia.X == segs
			}
		}
		return false
	}
	isSegFields := func(v ssa.Value) bool {
		sn, fld, base, ok := loadedField(v)
		return ok && sn == "SegmentBase" && fld == "fieldsInv" && isSeg(base)
	}
	lenOf := func(v ssa.Value) ssa.Value {
		call, ok := v.(*ssa.Call)
		if !ok {
			return nil
		}
		if b, ok := call.Call.Value.(*ssa.Builtin); !ok || b.Name() != "len" {
			return nil
		}
		return call.Call.Args[0]
	}
	elemOf := func(v ssa.Value) ssa.Value { // v is an element of which slice?
		switch x := v.(type) {
		case *ssa.UnOp:
			if ia, ok := x.X.(*ssa.IndexAddr); ok && x.Op == token.MUL {
				return ia.X
			}
		case *ssa.Extract:
			if nx, ok := x.Tuple.(*ssa.Next); ok && x.Index == 2 {
				if rg, ok := nx.Iter.(*ssa.Range); ok {
					return rg.X
				}
			}
		}
		return nil
	}
	// returns are constants
	var retTrue, retFalse []*ssa.BasicBlock
	for _, r := range returnsOf(f) {
		if len(r.Results) != 1 {
			return none, false
		}
		k, ok := constBool(r.Results[0])
		if !ok {
			// `return true` through a phi of constants? not the plain shape
			return none, false
		}
		if k {
			retTrue = append(retTrue, r.Block())
		} else {
			retFalse = append(retFalse, r.Block())
		}
	}
	if len(retTrue) == 0 || len(retFalse) == 0 {
		return none, false
	}
	isRetFalse := func(b *ssa.BasicBlock) bool {
		for _, x := range retFalse {
			if x == b {
				return true
			}
		}
		return false
	}
	// the two comparisons
	var lenCmp, elemCmp *ssa.BasicBlock
	for _, b := range f.Blocks {
		iff, ok := b.Instrs[len(b.Instrs)-1].(*ssa.If)
		if !ok {
			continue
		}
		bo, ok := iff.Cond.(*ssa.BinOp)
		if !ok || (bo.Op != token.NEQ && bo.Op != token.EQL) {
			continue
		}
		differs := b.Succs[0]
		if bo.Op == token.EQL {
			differs = b.Succs[1]
		}
		if !isRetFalse(differs) {
			continue
		}
		if lx, ly := lenOf(bo.X), lenOf(bo.Y); lx != nil && ly != nil {
			if (isSegFields(lx) && ly == list) || (isSegFields(ly) && lx == list) {
				lenCmp = b
			}
			continue
		}
		ex, ey := elemOf(bo.X), elemOf(bo.Y)
		if ex != nil && ey != nil {
			if (isSegFields(ex) && ey == list) || (isSegFields(ey) && ex == list) {
				elemCmp = b
			}
		}
	}
	if lenCmp == nil || elemCmp == nil || !lenCmp.Dominates(elemCmp) {
		return none, false
	}
	// every conditional branch other than loop tests and the two comparisons would be a way to skip them
	for _, b := range f.Blocks {
		iff, ok := b.Instrs[len(b.Instrs)-1].(*ssa.If)
		if !ok || b == lenCmp || b == elemCmp {
			continue
		}
		// a loop test: the condition is the `ok` of a range iteration, or an index bound test
		isLoopTest := false
		switch x := iff.Cond.(type) {
		case *ssa.Extract:
			if _, ok := x.Tuple.(*ssa.Next); ok && x.Index == 0 {
				isLoopTest = true
			}
		case *ssa.BinOp:
			if x.Op == token.LSS && lenOf(x.Y) != nil {
				isLoopTest = true
			}
		}
		if !isLoopTest {
			return none, false
		}
	}
	// the element comparison runs on every iteration of its loop: it dominates the latch of the innermost
	// loop that contains it
	var inner *ssa.BasicBlock
	for _, b := range f.Blocks {
		for _, p := range b.Preds {
			if b.Dominates(p) && b.Dominates(elemCmp) && reachesBlock(elemCmp, p) {
				if inner == nil || inner.Dominates(b) {
					inner = b
				}
			}
		}
	}
	if inner == nil {
		return none, false
	}
	for _, p := range inner.Preds {
		if inner.Dominates(p) && !(elemCmp == p || elemCmp.Dominates(p)) {
			return none, false
		}
	}
	return listEq{segsParam: segsIdx, listParam: listIdx}, true
}

// r17EqualityCall: call is a call of a recognised field-list equality predicate in fn, handed fn's merged
// field list and (a compacted table of) fn's input segments.
func r17EqualityCall(c *RuleCtx, fn *ssa.Function, v ssa.Value) bool {
	call, ok := v.(*ssa.Call)
	if !ok {
		return false
	}
	callee := call.Call.StaticCallee()
	if callee == nil || !c.p.InZap(callee) {
		return false
	}
	le, ok := fieldListEquality(callee)
	if !ok {
		return false
	}
	args := call.Call.Args
	if le.listParam >= len(args) || le.segsParam >= len(args) {
		return false
	}
	// the merged field list: fn's own []string parameter
	lp, ok := args[le.listParam].(*ssa.Parameter)
	if !ok || lp.Parent() != fn {
		return false
	}
	if sl, ok := lp.Type().Underlying().(*types.Slice); !ok || !types.Identical(sl.Elem().Underlying(), types.Typ[types.String]) {
		return false
	}
	// the segments: fn's parameter, or a local table filled only with elements of it
	sa := args[le.segsParam]
	var segsParam *ssa.Parameter
	for _, p := range fn.Params {
		if sl, ok := p.Type().Underlying().(*types.Slice); ok && isSegmentBasePtr(sl.Elem()) {
			segsParam = p
		}
	}
	if segsParam == nil {
		return false
	}
	if sa == ssa.Value(segsParam) {
		return true
	}
	return builtOnlyFromElementsOf(sa, segsParam, 0)
}

// builtOnlyFromElementsOf: the slice value v is nil/empty, a truncation, a phi of such, or append(v', e)
// with e an element of `of` (range value or indexed load).
func builtOnlyFromElementsOf(v ssa.Value, of ssa.Value, depth int) bool {
	seen := map[ssa.Value]bool{}
	var ok func(v ssa.Value, d int) bool
	ok = func(v ssa.Value, d int) bool {
		if d > 12 || seen[v] {
			return true
		}
		seen[v] = true
		switch x := v.(type) {
		case *ssa.Const:
			return true
		case *ssa.Slice:
			// the whole table (x[:]) or, where the table is re-initialised, its truncation (x[:0]);
			// any other sub-slice leaves segments out
			if x.Low != nil {
				return false
			}
			if x.High != nil {
				if h, isK := constInt64(x.High); !isK || h != 0 || d == 0 {
					return false
				}
			}
			return ok(x.X, d+1)
		case *ssa.Phi:
			for _, e := range x.Edges {
				if !ok(e, d+1) {
					return false
				}
			}
			return true
		case *ssa.UnOp:
			// a load of a local variable holding the table
			if cell := localCellOfLoad(x); cell != nil {
				for _, st := range cellStores(cell) {
					if !ok(st.Val, d+1) {
						return false
					}
				}
				return true
			}
			return false
		case *ssa.Call:
			b, isB := x.Call.Value.(*ssa.Builtin)
			if !isB || b.Name() != "append" || len(x.Call.Args) != 2 {
				return false
			}
			if !ok(x.Call.Args[0], d+1) {
				return false
			}
			// the appended elements: a slice of a fresh array whose elements are stored once
			sl, isS := x.Call.Args[1].(*ssa.Slice)
			if !isS {
				return false
			}
			al, isA := sl.X.(*ssa.Alloc)
			if !isA {
				return false
			}
			for _, r := range *al.Referrers() {
				ia, isIA := r.(*ssa.IndexAddr)
				if !isIA {
					continue
				}
				for _, r2 := range *ia.Referrers() {
					st, isSt := r2.(*ssa.Store)
					if !isSt {
						continue
					}
					switch e := st.Val.(type) {
					case *ssa.Extract:
						nx, isN := e.Tuple.(*ssa.Next)
						if !isN || e.Index != 2 {
							return false
						}
						rg, isR := nx.Iter.(*ssa.Range)
						if !isR || rg.X != of {
							return false
						}
					case *ssa.UnOp:
						ia2, isIA2 := e.X.(*ssa.IndexAddr)
						if !isIA2 || ia2.X != of {
							return false
						}
					default:
						return false
					}
				}
			}
			return true
		case *ssa.MakeSlice:
			return true
		}
		return false
	}
	return ok(v, depth)
}
