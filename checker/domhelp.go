package main

// E-dep support: post-dominators and control dependence on the go/ssa CFG
// (x/tools only ships dominators).

import (
	"golang.org/x/tools/go/ssa"
)

type postDom struct {
	fn    *ssa.Function
	n     int
	pdom  [][]bool // pdom[b][x]: x post-dominates b (x in set)
	exits []int
}

// newPostDom computes post-dominator sets with a virtual exit node joining
// every block without successors (returns, panics).
func newPostDom(fn *ssa.Function) *postDom {
	n := len(fn.Blocks)
	pd := &postDom{fn: fn, n: n}
	// index n = virtual exit
	sets := make([][]bool, n+1)
	for i := range sets {
		sets[i] = make([]bool, n+1)
		for j := range sets[i] {
			sets[i][j] = true
		}
	}
	for j := range sets[n] {
		sets[n][j] = false
	}
	sets[n][n] = true
	succs := func(i int) []int {
		b := fn.Blocks[i]
		if len(b.Succs) == 0 {
			return []int{n}
		}
		var out []int
		for _, s := range b.Succs {
			out = append(out, s.Index)
		}
		return out
	}
	for changed := true; changed; {
		changed = false
		for i := n - 1; i >= 0; i-- {
			nw := make([]bool, n+1)
			first := true
			for _, s := range succs(i) {
				if first {
					copy(nw, sets[s])
					first = false
				} else {
					for j := range nw {
						nw[j] = nw[j] && sets[s][j]
					}
				}
			}
			nw[i] = true
			for j := range nw {
				if nw[j] != sets[i][j] {
					changed = true
				}
			}
			sets[i] = nw
		}
	}
	pd.pdom = sets
	return pd
}

// postDominates: a post-dominates b (every path from b to exit passes a).
func (pd *postDom) postDominates(a, b *ssa.BasicBlock) bool {
	return pd.pdom[b.Index][a.Index]
}

type ctrlDep struct {
	Branch  *ssa.BasicBlock // block ending in the deciding If
	SuccIdx int             // which successor edge leads (only) towards the dependent block
}

// controlDeps: for each block, the branch edges it is control dependent on
// (Ferrante/Ottenstein/Warren): B depends on edge A->S iff B post-dominates S
// and B does not strictly post-dominate A.
func controlDeps(fn *ssa.Function) map[*ssa.BasicBlock][]ctrlDep {
	pd := newPostDom(fn)
	out := map[*ssa.BasicBlock][]ctrlDep{}
	for _, a := range fn.Blocks {
		if len(a.Succs) < 2 {
			continue
		}
		for si, s := range a.Succs {
			for _, b := range fn.Blocks {
				if !pd.postDominates(b, s) {
					continue
				}
				if b != a && pd.postDominates(b, a) {
					continue
				}
				out[b] = append(out[b], ctrlDep{a, si})
			}
		}
	}
	return out
}

// transitiveControlDeps closes controlDeps over the deciding blocks.
func transitiveControlDeps(fn *ssa.Function) map[*ssa.BasicBlock][]ctrlDep {
	direct := controlDeps(fn)
	out := map[*ssa.BasicBlock][]ctrlDep{}
	for _, b := range fn.Blocks {
		seen := map[ctrlDep]bool{}
		var visit func(x *ssa.BasicBlock)
		visit = func(x *ssa.BasicBlock) {
			for _, d := range direct[x] {
				if seen[d] {
					continue
				}
				seen[d] = true
				out[b] = append(out[b], d)
				visit(d.Branch)
			}
		}
		visit(b)
	}
	return out
}

// branchCond returns the condition of the If terminating block b.
func branchCond(b *ssa.BasicBlock) ssa.Value {
	if len(b.Instrs) == 0 {
		return nil
	}
	if iff, ok := b.Instrs[len(b.Instrs)-1].(*ssa.If); ok {
		return iff.Cond
	}
	return nil
}
