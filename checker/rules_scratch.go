package main

// R38 SCRATCH-IS-CUT — a reusable scratch slice that is only ever grown (`if cap(x.buf) < n { x.buf =
// make(T, n) }`, no else arm that re-cuts it) is longer than what was just put into it whenever an
// earlier, larger use allocated it. The pinned code therefore never lets such a slice out of the function
// as it is: what is returned, handed to a callback or an interface method, or stored into another object
// is a cut of it (`x.buf[:n]`). The rule finds the grow-only fields from the shape of the growing test and
// checks every load of the field in that function: indexing, len/cap, cutting, passing it to a statically
// known routine as space to write into, and storing it back are fine; letting the whole slice escape is
// not (the receiver would see the current values followed by stale ones of an earlier use).

import (
	"fmt"
	"go/token"
	"go/types"
	"sort"

	"golang.org/x/tools/go/ssa"
)

func ruleR38() *Rule {
	return &Rule{
		ID:    "R38",
		Title: "SCRATCH-IS-CUT: a grow-only scratch slice leaves the function only as a cut of the length just filled",
		Props: []string{"C02", "C07"},
		Floor: floorFor("R38"),
		Run: func(c *RuleCtx) {
			p := c.p
			n := 0
			var fns []*ssa.Function
			fns = append(fns, p.ZapFuncs...)
			sort.Slice(fns, func(i, j int) bool { return fns[i].String() < fns[j].String() })
			for _, fn := range fns {
				if len(fn.Blocks) == 0 {
					continue
				}
				type grow struct {
					sn, fld string
					fa      *ssa.FieldAddr
					at      *ssa.If
				}
				var grows []grow
				for _, b := range fn.Blocks {
					iff, ok := b.Instrs[len(b.Instrs)-1].(*ssa.If)
					if !ok {
						continue
					}
					bo, ok := iff.Cond.(*ssa.BinOp)
					if !ok || (bo.Op != token.LSS && bo.Op != token.GTR) {
						continue
					}
					small := bo.X
					if bo.Op == token.GTR {
						small = bo.Y
					}
					call, ok := stripConv(small).(*ssa.Call)
					if !ok {
						continue
					}
					bi, ok := call.Call.Value.(*ssa.Builtin)
					if !ok || (bi.Name() != "len" && bi.Name() != "cap") {
						continue
					}
					ld, ok := call.Call.Args[0].(*ssa.UnOp)
					if !ok || ld.Op != token.MUL {
						continue
					}
					fa, ok := ld.X.(*ssa.FieldAddr)
					if !ok {
						continue
					}
					sn, fld, _, ok := fieldOf(fa)
					if !ok {
						continue
					}
					// the arm taken when it is too small allocates it at a non-zero length
					then := b.Succs[0]
					allocs := false
					for _, in := range then.Instrs {
						st, ok := in.(*ssa.Store)
						if !ok {
							continue
						}
						if s2, f2, _, ok := fieldOf(st.Addr); ok && s2 == sn && f2 == fld {
							if mk, ok := st.Val.(*ssa.MakeSlice); ok {
								if k, isK := constInt64(mk.Len); !(isK && k == 0) {
									allocs = true
								}
							}
						}
					}
					if !allocs {
						continue
					}
					// ... and nothing else in the function assigns the field (no re-cut on the other arm)
					other := false
					eachInstr(fn, func(bb *ssa.BasicBlock, in ssa.Instruction) {
						st, ok := in.(*ssa.Store)
						if !ok || bb == then {
							return
						}
						if s2, f2, _, ok := fieldOf(st.Addr); ok && s2 == sn && f2 == fld {
							other = true
						}
					})
					if other {
						continue
					}
					grows = append(grows, grow{sn, fld, fa, iff})
				}
				for _, g := range grows {
					n++
					var bad []string
					eachInstr(fn, func(_ *ssa.BasicBlock, in ssa.Instruction) {
						ld, ok := in.(*ssa.UnOp)
						if !ok || ld.Op != token.MUL {
							return
						}
						fa, ok := ld.X.(*ssa.FieldAddr)
						if !ok || !sameQuantity(fa, g.fa, 0) {
							return
						}
						if w := scratchEscapes(p, ld, 0, map[ssa.Value]bool{}); w != nil {
							bad = append(bad, describeInstr(p, w))
						}
					})
					c.add(statusOf(len(bad) == 0), fmt.Sprintf("cut/%s/%s.%s", funcShortName(fn), g.sn, g.fld), c.pos(g.at.Block().Instrs[0]),
						fmt.Sprintf("%s.%s is only grown in %s (never re-cut): it leaves the function only as a cut (`[:n]`) of what was just filled", g.sn, g.fld, funcShortName(fn)),
						"the whole scratch slice is returned, handed to a callback or stored elsewhere: after a longer earlier use the receiver sees the current values followed by stale ones", nil, uniq(bad))
				}
			}
			c.check(n >= half(5), "sites", "-", "grow-only scratch slice fields are found (pinned tree: 5 — visitDocumentCtx.arrayPos, PostingsIterator.nextSegmentLocs, chunkedIntCoder.buf, the two grabBuf scratch buffers)", fmt.Sprintf("found %d", n))
		},
	}
}

// scratchEscapes: the whole slice v gets out — returned, passed to a callback / interface method, stored
// into another object, converted to an interface, ranged over. Returns the offending instruction.
func scratchEscapes(p *Program, v ssa.Value, depth int, seen map[ssa.Value]bool) ssa.Instruction {
	if depth > 4 || seen[v] || v.Referrers() == nil {
		return nil
	}
	seen[v] = true
	for _, r := range *v.Referrers() {
		// its whole length bounds a loop (`for i := range vdc.arrayPos`): the extent of an earlier, longer use
		// is taken for this one's
		if x, ok := r.(*ssa.Call); ok {
			if bi, ok := x.Call.Value.(*ssa.Builtin); ok && bi.Name() == "len" && x.Referrers() != nil {
				for _, r2 := range *x.Referrers() {
					bo, ok := r2.(*ssa.BinOp)
					if !ok || bo.Op != token.LSS || bo.Y != ssa.Value(x) {
						continue
					}
					idx := bo.X
					if add, ok := idx.(*ssa.BinOp); ok && add.Op == token.ADD {
						idx = add.X
					}
					if _, isPhi := idx.(*ssa.Phi); isPhi {
						return x
					}
				}
			}
		}
		switch x := r.(type) {
		case *ssa.Return:
			return x
		case *ssa.MakeInterface:
			return x
		case *ssa.Range:
			return x
		case *ssa.Store:
			if x.Val != v {
				continue
			}
			if al := cellOf(x.Addr); al != nil {
				// a local variable: follow its loads
				for _, r2 := range *al.Referrers() {
					if ld, ok := r2.(*ssa.UnOp); ok && ld.Op == token.MUL {
						if w := scratchEscapes(p, ld, depth+1, seen); w != nil {
							return w
						}
					}
				}
				continue
			}
			if _, _, _, ok := fieldOf(x.Addr); ok {
				if ld, ok := v.(*ssa.UnOp); ok {
					if fa, ok := ld.X.(*ssa.FieldAddr); ok {
						if fb, ok := x.Addr.(*ssa.FieldAddr); ok && sameQuantity(fa, fb, 0) {
							continue // stored back
						}
					}
				}
			}
			return x
		case *ssa.MapUpdate:
			if x.Value == v {
				return x
			}
		case *ssa.Phi:
			if w := scratchEscapes(p, x, depth+1, seen); w != nil {
				return w
			}
		case *ssa.ChangeType:
			if w := scratchEscapes(p, x, depth+1, seen); w != nil {
				return w
			}
		case *ssa.Slice:
			if x.X == v && x.High == nil {
				// `buf[:]`, `buf[k:]`: still everything up to the old length
				if w := scratchEscapes(p, x, depth+1, seen); w != nil {
					return w
				}
			}
		case ssa.CallInstruction:
			cc := x.Common()
			if _, isB := cc.Value.(*ssa.Builtin); isB {
				if b := cc.Value.(*ssa.Builtin); b.Name() == "append" && len(cc.Args) > 0 && cc.Args[0] == v {
					return x // appended to at its full length
				}
				continue
			}
			if cc.IsInvoke() {
				return x
			}
			if f := cc.StaticCallee(); f == nil {
				return x // a function value (visitor callback)
			} else if _, isSig := f.Type().(*types.Signature); isSig && f.Parent() != nil {
				return x // a local closure
			}
		}
	}
	return nil
}

// R26d STALE-SEGMENT-STATE (C05, C06) — in a loop over the input segments (or over a per-segment table), a
// variable that holds something looked up for the current segment ("the next deleted document", "this
// segment's reader") and that only some iterations assign would, in the others, still hold what the
// previous segment left in it. Recognised structurally: a variable carried round the loop (a phi at the
// loop head) whose in-loop definitions do not depend on its previous value (so it is not a running total,
// a counter or a recycled buffer, whose new value is made from the old one), that reaches a use inside
// the loop on a path that has not assigned it in this iteration. Constants are fine (a reset).
func r26StaleSegmentState(c *RuleCtx) {
	p := c.p
	props := []string{"C05", "C06"}
	n := 0
	for _, fn := range p.ZapFuncs {
		if len(fn.Blocks) == 0 {
			continue
		}
		for _, l := range naturalLoops(fn) {
			rs := l.rangedSlice()
			if rs == nil || !isPerSegmentSliceType(rs.Type()) {
				continue
			}
			n++
			for _, in := range l.header.Instrs {
				x, ok := in.(*ssa.Phi)
				if !ok {
					break
				}
				if x.Comment == "rangeindex" {
					continue
				}
				// the phis inside the loop through which x travels
				web := map[*ssa.Phi]bool{x: true}
				for changed := true; changed; {
					changed = false
					for b := range l.blocks {
						for _, in2 := range b.Instrs {
							ph, ok := in2.(*ssa.Phi)
							if !ok {
								break
							}
							if web[ph] {
								continue
							}
							for _, e := range ph.Edges {
								if q, ok := e.(*ssa.Phi); ok && web[q] {
									web[ph] = true
									changed = true
								}
							}
						}
					}
				}
				// in-loop definitions: non-phi, non-constant edges of the web
				var defs []ssa.Value
				for ph := range web {
					for i, e := range ph.Edges {
						if ph == x && !l.blocks[ph.Block().Preds[i]] {
							continue // what it enters the loop with
						}
						if q, ok := e.(*ssa.Phi); ok && web[q] {
							continue
						}
						if _, isK := e.(*ssa.Const); isK {
							continue
						}
						defs = append(defs, e)
					}
				}
				if len(defs) == 0 {
					continue
				}
				// a definition made from the old value: a running total / recycled buffer
				dependsOnWeb := false
				for _, d := range defs {
					seen := map[ssa.Value]bool{}
					var dep func(v ssa.Value, depth int) bool
					dep = func(v ssa.Value, depth int) bool {
						if v == nil || depth > 10 || seen[v] {
							return false
						}
						seen[v] = true
						if ph, ok := v.(*ssa.Phi); ok && web[ph] {
							return true
						}
						if in3, ok := v.(ssa.Instruction); ok {
							for _, op := range in3.Operands(nil) {
								if *op != nil && dep(*op, depth+1) {
									return true
								}
							}
						}
						return false
					}
					if dep(d, 0) {
						dependsOnWeb = true
					}
				}
				if dependsOnWeb {
					continue
				}
				// is the carried value used (other than being carried on) inside the loop, through phis that
				// have x itself (the previous iteration's value) as one possibility?
				mayBeOld := map[*ssa.Phi]bool{x: true}
				for changed := true; changed; {
					changed = false
					for ph := range web {
						if mayBeOld[ph] || !l.blocks[ph.Block()] {
							continue
						}
						for _, e := range ph.Edges {
							if q, ok := e.(*ssa.Phi); ok && mayBeOld[q] {
								// the inner loop's own carried phi: old only if it enters from an old one
								mayBeOld[ph] = true
								changed = true
							}
						}
					}
				}
				// accumulators whose new value is not computed from the old one but chosen by looking at it:
				// a flag or-ed / and-ed up (`seen = seen || x`: the carried value is itself a branch condition),
				// a latch (`if first == nil { first = x }`: compared with a constant), a running extreme
				// (`if x > best { best = x }`: compared with the value that replaces it)
				chosenByOld := false
				for b := range l.blocks {
					iff, ok := b.Instrs[len(b.Instrs)-1].(*ssa.If)
					if !ok {
						continue
					}
					cond := iff.Cond
					if u, ok := cond.(*ssa.UnOp); ok && u.Op == token.NOT {
						cond = u.X
					}
					if ph, ok := cond.(*ssa.Phi); ok && web[ph] {
						chosenByOld = true
					}
					if bo, ok := cond.(*ssa.BinOp); ok {
						isWeb := func(v ssa.Value) bool {
							if cv, ok := v.(*ssa.Convert); ok {
								v = cv.X
							}
							if call, ok := v.(*ssa.Call); ok {
								if bi, ok := call.Call.Value.(*ssa.Builtin); ok && (bi.Name() == "len" || bi.Name() == "cap") {
									v = call.Call.Args[0]
								}
							}
							ph, ok := v.(*ssa.Phi)
							return ok && web[ph]
						}
						isKonst := func(v ssa.Value) bool { _, ok := v.(*ssa.Const); return ok }
						isDef := func(v ssa.Value) bool {
							for _, d := range defs {
								if d == v {
									return true
								}
							}
							return false
						}
						if (isWeb(bo.X) && (isKonst(bo.Y) || isDef(bo.Y))) || (isWeb(bo.Y) && (isKonst(bo.X) || isDef(bo.X))) {
							chosenByOld = true
						}
					}
				}
				if chosenByOld {
					continue
				}
				var use ssa.Instruction
				for ph := range mayBeOld {
					if ph.Referrers() == nil {
						continue
					}
					for _, r := range *ph.Referrers() {
						if _, isPhi := r.(*ssa.Phi); isPhi {
							continue
						}
						if _, isDbg := r.(*ssa.DebugRef); isDbg {
							continue
						}
						// the carried value compared with this iteration's own value of the same thing — the very
						// value that may replace it, or the same computation (`index.D() != dims` next to
						// `dims = index.D()`; `sameFieldList(refFields, fields)` next to `refFields = fields`):
						// reading what an earlier segment left is the point (a running extreme, a consistency
						// check against the first segment)
						isCandidate := func(v ssa.Value) bool {
							v = stripConv(v)
							for _, d := range defs {
								d = stripConv(d)
								if d == v || sameValue(d, v) {
									return true
								}
								c1, ok1 := d.(*ssa.Call)
								c2, ok2 := v.(*ssa.Call)
								if ok1 && ok2 && len(c1.Call.Args) == len(c2.Call.Args) {
									same := c1.Call.IsInvoke() == c2.Call.IsInvoke()
									if same && c1.Call.IsInvoke() {
										same = c1.Call.Method == c2.Call.Method && (sameValue(c1.Call.Value, c2.Call.Value) || sameQuantity(c1.Call.Value, c2.Call.Value, 0))
									} else if same {
										same = c1.Call.StaticCallee() != nil && c1.Call.StaticCallee() == c2.Call.StaticCallee()
									}
									for i := range c1.Call.Args {
										if same && !sameValue(c1.Call.Args[i], c2.Call.Args[i]) && !sameQuantity(c1.Call.Args[i], c2.Call.Args[i], 0) {
											same = false
										}
									}
									if same {
										return true
									}
								}
							}
							return false
						}
						if bo, isBO := r.(*ssa.BinOp); isBO {
							switch bo.Op {
							case token.LSS, token.GTR, token.LEQ, token.GEQ, token.EQL, token.NEQ:
								if isCandidate(bo.X) || isCandidate(bo.Y) {
									continue
								}
							}
						}
						if call, isCall := r.(*ssa.Call); isCall {
							cmp := false
							for _, a := range call.Call.Args {
								if a != ssa.Value(ph) && isCandidate(a) {
									cmp = true
								}
							}
							if cmp {
								continue
							}
						}
						if _, isMI := r.(*ssa.MakeInterface); isMI {
							continue // formatted into a message
						}
						if l.blocks[r.Block()] && use == nil {
							use = r
						}
					}
				}
				if use == nil {
					continue
				}
				name := x.Comment
				if name == "" {
					name = "a variable"
				}
				c.add(Violated, fmt.Sprintf("stale-segment-state/%s/%s", funcShortName(fn), name), c.pos(use),
					"a variable of "+funcShortName(fn)+" that holds something looked up for the current segment is assigned in every iteration of the loop over the segments before it is used",
					name+" is carried from one segment to the next, only some iterations assign it, and it is read in the loop: a segment for which it is not assigned sees the previous segment's value", props,
					[]string{"read: " + describeInstr(p, use)})
			}
		}
	}
	c.okP(props, "stale-segment-state/loops", "-", fmt.Sprintf("loops over per-segment tables examined: %d", n))
}
