package main

// R38 SCRATCH-IS-CUT — a reusable scratch slice that is only ever grown (`if cap(x.buf) < n { x.buf =
// make(T, n) }`, no else arm that re-cuts it) is longer than what was just put into it whenever an
// earlier, larger use allocated it. The pinned code therefore never lets such a slice out of the function
// as it is: what is returned, handed to a callback or an interface method, or stored into another object
// is a cut of it (`x.buf[:n]`). The rule finds the grow-only fields from the shape of the growing test and
// checks every load of the field in that function: indexing, len/cap, cutting, passing it to a statically
// known routine as space to write into, and storing it back are fine; letting the whole slice escape is
// not (the receiver would see the current values followed by stale ones of an earlier use).

import (
	"fmt"
	"go/token"
	"go/types"
	"sort"

	"golang.org/x/tools/go/ssa"
)

func ruleR38() *Rule {
	return &Rule{
		ID:    "R38",
		Title: "SCRATCH-IS-CUT: a grow-only scratch slice leaves the function only as a cut of the length just filled",
		Props: []string{"C02", "C07"},
		Floor: floorFor("R38"),
		Run: func(c *RuleCtx) {
			p := c.p
			n := 0
			var fns []*ssa.Function
			fns = append(fns, p.ZapFuncs...)
			sort.Slice(fns, func(i, j int) bool { return fns[i].String() < fns[j].String() })
			for _, fn := range fns {
				if len(fn.Blocks) == 0 {
					continue
				}
				type grow struct {
					sn, fld string
					fa      *ssa.FieldAddr
					at      *ssa.If
				}
				var grows []grow
				for _, b := range fn.Blocks {
					iff, ok := b.Instrs[len(b.Instrs)-1].(*ssa.If)
					if !ok {
						continue
					}
					bo, ok := iff.Cond.(*ssa.BinOp)
					if !ok || (bo.Op != token.LSS && bo.Op != token.GTR) {
						continue
					}
					small := bo.X
					if bo.Op == token.GTR {
						small = bo.Y
					}
					call, ok := stripConv(small).(*ssa.Call)
					if !ok {
						continue
					}
					bi, ok := call.Call.Value.(*ssa.Builtin)
					if !ok || (bi.Name() != "len" && bi.Name() != "cap") {
						continue
					}
					ld, ok := call.Call.Args[0].(*ssa.UnOp)
					if !ok || ld.Op != token.MUL {
						continue
					}
					fa, ok := ld.X.(*ssa.FieldAddr)
					if !ok {
						continue
					}
					sn, fld, _, ok := fieldOf(fa)
					if !ok {
						continue
					}
					// the arm taken when it is too small allocates it at a non-zero length
					then := b.Succs[0]
					allocs := false
					for _, in := range then.Instrs {
						st, ok := in.(*ssa.Store)
						if !ok {
							continue
						}
						if s2, f2, _, ok := fieldOf(st.Addr); ok && s2 == sn && f2 == fld {
							if mk, ok := st.Val.(*ssa.MakeSlice); ok {
								if k, isK := constInt64(mk.Len); !(isK && k == 0) {
									allocs = true
								}
							}
						}
					}
					if !allocs {
						continue
					}
					// ... and nothing else in the function assigns the field (no re-cut on the other arm)
					other := false
					eachInstr(fn, func(bb *ssa.BasicBlock, in ssa.Instruction) {
						st, ok := in.(*ssa.Store)
						if !ok || bb == then {
							return
						}
						if s2, f2, _, ok := fieldOf(st.Addr); ok && s2 == sn && f2 == fld {
							other = true
						}
					})
					if other {
						continue
					}
					grows = append(grows, grow{sn, fld, fa, iff})
				}
				for _, g := range grows {
					n++
					var bad []string
					eachInstr(fn, func(_ *ssa.BasicBlock, in ssa.Instruction) {
						ld, ok := in.(*ssa.UnOp)
						if !ok || ld.Op != token.MUL {
							return
						}
						fa, ok := ld.X.(*ssa.FieldAddr)
						if !ok || !sameQuantity(fa, g.fa, 0) {
							return
						}
						if w := scratchEscapes(p, ld, 0, map[ssa.Value]bool{}); w != nil {
							bad = append(bad, describeInstr(p, w))
						}
					})
					c.add(statusOf(len(bad) == 0), fmt.Sprintf("cut/%s/%s.%s", funcShortName(fn), g.sn, g.fld), c.pos(g.at.Block().Instrs[0]),
						fmt.Sprintf("%s.%s is only grown in %s (never re-cut): it leaves the function only as a cut (`[:n]`) of what was just filled", g.sn, g.fld, funcShortName(fn)),
						"the whole scratch slice is returned, handed to a callback or stored elsewhere: after a longer earlier use the receiver sees the current values followed by stale ones", nil, uniq(bad))
				}
			}
			c.check(n >= half(5), "sites", "-", "grow-only scratch slice fields are found (pinned tree: 5 — visitDocumentCtx.arrayPos, PostingsIterator.nextSegmentLocs, chunkedIntCoder.buf, the two grabBuf scratch buffers)", fmt.Sprintf("found %d", n))
		},
	}
}

// scratchEscapes: the whole slice v gets out — returned, passed to a callback / interface method, stored
// into another object, converted to an interface, ranged over. Returns the offending instruction.
func scratchEscapes(p *Program, v ssa.Value, depth int, seen map[ssa.Value]bool) ssa.Instruction {
	if depth > 4 || seen[v] || v.Referrers() == nil {
		return nil
	}
	seen[v] = true
	for _, r := range *v.Referrers() {
		switch x := r.(type) {
		case *ssa.Return:
			return x
		case *ssa.MakeInterface:
			return x
		case *ssa.Range:
			return x
		case *ssa.Store:
			if x.Val != v {
				continue
			}
			if al := cellOf(x.Addr); al != nil {
				// a local variable: follow its loads
				for _, r2 := range *al.Referrers() {
					if ld, ok := r2.(*ssa.UnOp); ok && ld.Op == token.MUL {
						if w := scratchEscapes(p, ld, depth+1, seen); w != nil {
							return w
						}
					}
				}
				continue
			}
			if _, _, _, ok := fieldOf(x.Addr); ok {
				if ld, ok := v.(*ssa.UnOp); ok {
					if fa, ok := ld.X.(*ssa.FieldAddr); ok {
						if fb, ok := x.Addr.(*ssa.FieldAddr); ok && sameQuantity(fa, fb, 0) {
							continue // stored back
						}
					}
				}
			}
			return x
		case *ssa.MapUpdate:
			if x.Value == v {
				return x
			}
		case *ssa.Phi:
			if w := scratchEscapes(p, x, depth+1, seen); w != nil {
				return w
			}
		case *ssa.ChangeType:
			if w := scratchEscapes(p, x, depth+1, seen); w != nil {
				return w
			}
		case *ssa.Slice:
			if x.X == v && x.High == nil {
				// `buf[:]`, `buf[k:]`: still everything up to the old length
				if w := scratchEscapes(p, x, depth+1, seen); w != nil {
					return w
				}
			}
		case ssa.CallInstruction:
			cc := x.Common()
			if _, isB := cc.Value.(*ssa.Builtin); isB {
				if b := cc.Value.(*ssa.Builtin); b.Name() == "append" && len(cc.Args) > 0 && cc.Args[0] == v {
					return x // appended to at its full length
				}
				continue
			}
			if cc.IsInvoke() {
				return x
			}
			if f := cc.StaticCallee(); f == nil {
				return x // a function value (visitor callback)
			} else if _, isSig := f.Type().(*types.Signature); isSig && f.Parent() != nil {
				return x // a local closure
			}
		}
	}
	return nil
}
