package main

// R13 CHUNK-AGREE and R14 FOOTER-LAYOUT + FORMAT-CONSTANTS.

import (
	"fmt"
	"go/constant"
	"go/token"
	"go/types"
	"sort"
	"strings"

	"golang.org/x/tools/go/ssa"
)

// ---------------------------------------------------------------------------
// R14

type footerField struct {
	fromEnd int // offset of the first byte, counted from the end of the file
	width   int
	name    string
}

// the documented v16 footer (zap.md / write.go), from the end of the file
var v16Footer = []footerField{
	{4, 4, "crc"},
	{8, 4, "version"},
	{12, 4, "chunkMode"},
	{20, 8, "docValueOffset"},
	{28, 8, "sectionsIndexOffset"},
	{36, 8, "fieldsIndexOffset"},
	{44, 8, "storedIndexOffset"},
	{52, 8, "numDocs"},
}

// role of each persistFooter parameter in the order of the v16 footer
// (first written = farthest from the end)
var v16WriterOrder = []string{"numDocs", "storedIndexOffset", "fieldsIndexOffset", "sectionsIndexOffset", "docValueOffset", "chunkMode", "version", "crc"}

type formatConst struct {
	name string
	val  string // exact decimal / string value
}

var v16Constants = []formatConst{
	{"Version", "16"},
	{"IndexSectionsVersion", "16"},
	{"Type", `"zap"`},
	{"SectionInvertedTextIndex", "0"},
	{"SectionFaissVectorIndex", "1"},
	{"SectionSynonymIndex", "2"},
	{"FSTValEncodingMask", "13835058055282163712"}, // 0xc000000000000000
	{"FSTValEncodingGeneral", "0"},
	{"FSTValEncoding1Hit", "9223372036854775808"}, // 0x8000000000000000
	{"mask31Bits", "2147483647"},
	{"DocNum1HitFinished", "18446744073709551615"},
	{"fieldNotUninverted", "18446744073709551615"},
	{"docDropped", "18446744073709551615"},
	{"termNotEncoded", "0"},
	{"FooterSize", "52"},
}

var v16Vars = []formatConst{
	{"termSeparator", "255"},
	{"LegacyChunkMode", "1024"},
	{"DefaultChunkMode", "1026"},
}

func widthOf(t types.Type) int {
	if b, ok := t.Underlying().(*types.Basic); ok {
		switch b.Kind() {
		case types.Uint8, types.Int8:
			return 1
		case types.Uint16, types.Int16:
			return 2
		case types.Uint32, types.Int32:
			return 4
		case types.Uint64, types.Int64:
			return 8
		}
	}
	return 0
}

func ruleR14() *Rule {
	return &Rule{
		ID:    "R14",
		Title: "FOOTER-LAYOUT + FORMAT-CONSTANTS: writer and reader of the footer equal the frozen v16 table; format constants have their v16 values",
		Props: []string{"C04", "C09", "C01"},
		Floor: floorFor("R14"),
		Run: func(c *RuleCtx) {
			r14Constants(c)
			r14Writer(c)
			r14Reader(c)
			r14CallSites(c)
			r14CRC(c)
		},
	}
}

func r14Constants(c *RuleCtx) {
	scope := c.p.ZapTypes.Scope()
	for _, fc := range v16Constants {
		obj := scope.Lookup(fc.name)
		k, ok := obj.(*types.Const)
		if !ok {
			c.undecided("const/"+fc.name, "-", "format constant "+fc.name+" exists", "constant not found (renamed or turned into a variable)")
			continue
		}
		got := k.Val().ExactString()
		if k.Val().Kind() == constant.Int {
			got = k.Val().String()
		}
		c.check(got == fc.val, "const/"+fc.name, c.p.Pos(k.Pos()), fmt.Sprintf("format constant %s has its v16 value %s", fc.name, fc.val),
			fmt.Sprintf("%s = %s: files written by the pinned release would be decoded differently (and new files differently by old readers)", fc.name, got))
	}
	// variables initialised with a constant in the package initialiser
	initFn := c.p.Zap.Func("init")
	for _, fv := range v16Vars {
		g := c.p.Global(fv.name)
		if g == nil || initFn == nil {
			c.undecided("var/"+fv.name, "-", "format variable "+fv.name+" exists", "variable not found")
			continue
		}
		got := ""
		n := 0
		for _, fn := range c.p.ZapFuncs {
			eachInstr(fn, func(_ *ssa.BasicBlock, in ssa.Instruction) {
				if st, ok := in.(*ssa.Store); ok && st.Addr == ssa.Value(g) {
					n++
					if k, ok := st.Val.(*ssa.Const); ok && k.Value != nil {
						got = k.Value.String()
					} else {
						got = "non-constant"
					}
				}
			})
		}
		c.check(n == 1 && got == fv.val, "var/"+fv.name, c.p.Pos(g.Pos()), fmt.Sprintf("format variable %s is initialised to its v16 value %s and assigned nowhere else in the package", fv.name, fv.val),
			fmt.Sprintf("%s: %d assignments in package zap, value %s", fv.name, n, got))
	}
}

// binaryWrites returns the binary.Write(w, order, data) calls of fn in
// execution order (fn must be straight-line with early error returns).
func binaryWrites(fn *ssa.Function) []*ssa.Call {
	var out []*ssa.Call
	eachInstr(fn, func(_ *ssa.BasicBlock, in ssa.Instruction) {
		if call, ok := in.(*ssa.Call); ok {
			if f := call.Call.StaticCallee(); f != nil && f.String() == "encoding/binary.Write" {
				out = append(out, call)
			}
		}
	})
	sort.SliceStable(out, func(i, j int) bool {
		a, b := out[i].Block(), out[j].Block()
		if a == b {
			return false
		}
		return a.Dominates(b)
	})
	return out
}

// footerItem: one value written by the footer writer.
type footerItem struct {
	call *ssa.Call
	data ssa.Value
}

// unrollArrayWrite: `for _, v := range [N]T{a0..aN-1} { binary.Write(w, o, v) }`
// is the sequence of writes of a0..aN-1, provided the array is a local whose
// elements are each stored once at a constant index before the loop, the loop
// runs over all of it from index 0, and is left early only towards a failure
// return. Returns nil when `call` is not of that shape.
func unrollArrayWrite(fn *ssa.Function, call *ssa.Call) []footerItem {
	data := call.Call.Args[2]
	var arr *ssa.Alloc
	var idx ssa.Value
	var sliceOf *ssa.Slice
	switch x := data.(type) {
	case *ssa.Index: // range over a copy of the array value
		if u, ok := x.X.(*ssa.UnOp); ok && u.Op == token.MUL {
			arr, _ = u.X.(*ssa.Alloc)
		}
		idx = x.Index
	case *ssa.UnOp: // *(&arr[i]) or *(&slice[i]) with slice = arr[:] of a literal
		if ia, ok := x.X.(*ssa.IndexAddr); ok && x.Op == token.MUL {
			arr, _ = ia.X.(*ssa.Alloc)
			if sl, isSl := ia.X.(*ssa.Slice); isSl && sl.Low == nil && sl.High == nil && sl.Max == nil {
				arr, _ = sl.X.(*ssa.Alloc)
				sliceOf = sl
			}
			idx = ia.Index
		}
	}
	if arr == nil || idx == nil {
		return nil
	}
	at, ok := derefType(arr.Type()).Underlying().(*types.Array)
	if !ok {
		return nil
	}
	var loop *natLoop
	for _, l := range naturalLoops(fn) {
		if l.blocks[call.Block()] {
			loop = l
		}
	}
	if loop == nil {
		return nil
	}
	if k, ok := loop.startIndex(); !ok || k != 0 {
		return nil
	}
	// bound: index < N
	iff, ok := loop.header.Instrs[len(loop.header.Instrs)-1].(*ssa.If)
	if !ok {
		return nil
	}
	bo, ok := iff.Cond.(*ssa.BinOp)
	if !ok || bo.Op != token.LSS || bo.X != idx {
		return nil
	}
	if n, ok := constInt64(bo.Y); ok {
		if n != at.Len() {
			return nil
		}
	} else {
		// len(slice) of the whole-array slice
		lc, isCall := bo.Y.(*ssa.Call)
		if !isCall || sliceOf == nil {
			return nil
		}
		if bi, isB := lc.Call.Value.(*ssa.Builtin); !isB || bi.Name() != "len" || lc.Call.Args[0] != ssa.Value(sliceOf) {
			return nil
		}
	}
	// early exits fail
	for blk := range loop.blocks {
		for _, sc := range blk.Succs {
			if loop.blocks[sc] || (blk == loop.header && sc == loop.header.Succs[1]) {
				continue
			}
			if !leadsToFailureReturn(sc, loop, 0, map[*ssa.BasicBlock]bool{}) {
				return nil
			}
		}
	}
	// elements: one constant-index store each, before the loop
	elems := make([]ssa.Value, at.Len())
	for _, r := range *arr.Referrers() {
		switch x := r.(type) {
		case *ssa.IndexAddr:
			k, isK := constInt64(x.Index)
			if !isK {
				if x.Index == idx {
					continue // the loop's own read
				}
				return nil
			}
			for _, r2 := range *x.Referrers() {
				st, ok := r2.(*ssa.Store)
				if !ok || st.Addr != ssa.Value(x) {
					return nil
				}
				if k < 0 || k >= at.Len() || elems[k] != nil || loop.blocks[st.Block()] || !st.Block().Dominates(loop.header) {
					return nil
				}
				elems[k] = st.Val
			}
		case *ssa.UnOp, *ssa.DebugRef:
		case *ssa.Slice:
			if x != sliceOf {
				return nil
			}
		default:
			return nil
		}
	}
	var out []footerItem
	for _, e := range elems {
		if e == nil {
			return nil
		}
		out = append(out, footerItem{call, e})
	}
	return out
}

func r14Writer(c *RuleCtx) {
	fn := c.fn("persistFooter")
	if fn == nil {
		return
	}
	writes := binaryWrites(fn)
	// any other kind of write in this function is an idiom we do not read
	other := 0
	for _, cs := range callSites(fn) {
		f := staticCallee(cs)
		name := ""
		if f != nil {
			name = f.Name()
		} else if cs.Common().IsInvoke() {
			name = cs.Common().Method.Name()
		}
		if name == "Write" && (f == nil || f.String() != "encoding/binary.Write") {
			other++
		}
	}
	if other == 1 && len(writes) == 0 && r14AppendWriter(c, fn) {
		return
	}
	if other > 0 || len(writes) == 0 {
		c.undecided("writer/idiom", c.fpos(fn), "persistFooter writes its fields with binary.Write(w, binary.BigEndian, x)", fmt.Sprintf("%d other Write calls, %d binary.Write calls: the footer writer uses an idiom this rule does not read", other, len(writes)))
		return
	}
	// the sequence of written values; a write inside a loop must be the
	// unrollable walk over a fixed local array
	var items []footerItem
	inLoop := map[*ssa.BasicBlock]bool{}
	for _, l := range naturalLoops(fn) {
		for b := range l.blocks {
			inLoop[b] = true
		}
	}
	for _, w := range writes {
		if inLoop[w.Block()] {
			un := unrollArrayWrite(fn, w)
			if un == nil {
				c.undecided("writer/linear", c.pos(w), "the footer writes form one sequence", "a write inside a loop that is not a walk over a fixed local array of the values")
				return
			}
			items = append(items, un...)
			continue
		}
		items = append(items, footerItem{w, w.Call.Args[2]})
	}
	// linear order check: each write dominates the next
	// (an unrolled loop stands where its header stands)
	posBlock := func(w *ssa.Call) *ssa.BasicBlock {
		for _, l := range naturalLoops(fn) {
			if l.blocks[w.Block()] {
				return l.header
			}
		}
		return w.Block()
	}
	for i := 0; i+1 < len(writes); i++ {
		a, b := posBlock(writes[i]), posBlock(writes[i+1])
		if !(a == b || a.Dominates(b)) {
			c.undecided("writer/linear", c.pos(writes[i+1]), "the footer writes form one sequence", "writes are not totally ordered by dominance")
			return
		}
	}
	var got []string
	// the CountHashWriter created in persistFooter: by a constructor or as a literal
	var crcWriter ssa.Value
	for _, cs := range callSites(fn) {
		if f := staticCallee(cs); f != nil && c.p.InZap(f) && f.Signature.Recv() == nil && f.Signature.Results().Len() == 1 && isNamed(f.Signature.Results().At(0).Type(), zapPkgPath, "CountHashWriter") {
			if call, ok := cs.(*ssa.Call); ok {
				crcWriter = call
			}
		}
	}
	if crcWriter == nil {
		eachInstr(fn, func(_ *ssa.BasicBlock, in ssa.Instruction) {
			if al, ok := in.(*ssa.Alloc); ok && isNamed(al.Type(), zapPkgPath, "CountHashWriter") {
				crcWriter = al
			}
		})
	}
	// the accessor of the running CRC, if the writer is read through it
	isCRCAccessor := func(f *ssa.Function) bool {
		if f == nil || f.Signature.Recv() == nil || !isNamed(f.Signature.Recv().Type(), zapPkgPath, "CountHashWriter") || len(f.Blocks) != 1 {
			return false
		}
		rets := returnsOf(f)
		if len(rets) != 1 || len(rets[0].Results) != 1 {
			return false
		}
		sn, fld, base, ok := loadedField(rets[0].Results[0])
		return ok && sn == "CountHashWriter" && fld == "crc" && base == ssa.Value(f.Params[0])
	}
	okAll := len(items) == len(v16WriterOrder)
	var details []string
	for i, it := range items {
		w := it.call
		v := it.data
		if mi, ok := v.(*ssa.MakeInterface); ok {
			v = mi.X
		}
		role := "?"
		width := widthOf(v.Type())
		if pr, ok := paramRole(v); ok {
			role = pr
		}
		switch x := v.(type) {
		case *ssa.Const:
			if k, ok := constUint64(x); ok {
				if ver, ok2 := c.p.ZapTypes.Scope().Lookup("Version").(*types.Const); ok2 && ver.Val().String() == fmt.Sprint(k) {
					role = "version"
				} else {
					role = fmt.Sprintf("const %d", k)
				}
			}
		case *ssa.UnOp:
			if sn, fld, base, ok := loadedField(x); ok && sn == "CountHashWriter" && fld == "crc" && crcWriter != nil && root(base) == crcWriter {
				// the running CRC as it stands after every earlier write
				role = "crc"
				for _, pw := range writes {
					if pw == w && !inLoop[w.Block()] {
						break
					}
					if pw == w {
						// this very write is the unrolled loop: the value was taken before the loop ran
						role = "crc read too early"
						break
					}
					pb := posBlock(pw)
					after := pb.Dominates(x.Block()) && pb != x.Block() || (pb == x.Block() && !inLoop[pw.Block()] && instrIndex(pw) < instrIndex(x))
					if !after || inLoop[x.Block()] {
						role = "crc read too early"
					}
				}
			}
		case *ssa.Call:
			if isCRCAccessor(x.Call.StaticCallee()) && crcWriter != nil && root(x.Call.Args[0]) == crcWriter {
				// read after every earlier write: the call is in the block of
				// the write or in one the previous writes dominate
				role = "crc"
				for _, pw := range writes {
					if pw == w {
						break
					}
					if !(posBlock(pw) == x.Block() || posBlock(pw).Dominates(x.Block())) || inLoop[x.Block()] {
						role = "crc read too early"
					}
				}
			}
		}
		// byte order
		bo := w.Call.Args[1]
		if mi, ok := bo.(*ssa.MakeInterface); ok {
			bo = mi.X
		}
		beOK := false
		if u, ok := bo.(*ssa.UnOp); ok {
			if g, ok := u.X.(*ssa.Global); ok && g.Name() == "BigEndian" {
				beOK = true
			}
		}
		// destination: the local counting writer
		dst := w.Call.Args[0]
		dstOK := crcWriter != nil && root(dst) == crcWriter
		got = append(got, fmt.Sprintf("%s:u%d", role, width*8))
		if i < len(v16WriterOrder) {
			want := v16WriterOrder[i]
			wantW := 8
			if want == "chunkMode" || want == "version" || want == "crc" {
				wantW = 4
			}
			if role != want || width != wantW || !beOK || !dstOK {
				okAll = false
				details = append(details, fmt.Sprintf("write #%d: got %s u%d (bigEndian=%v, through the CRC writer=%v), want %s u%d", i+1, role, width*8, beOK, dstOK, want, wantW*8))
			}
		}
	}
	c.check(okAll, "writer/sequence", c.fpos(fn), "persistFooter writes, big endian and through its CRC-counting writer: "+strings.Join(v16WriterOrder, ", ")+" (u64 x5, u32 x3)",
		"footer written as ["+strings.Join(got, ", ")+"]; "+strings.Join(details, "; "))
	// the running CRC is seeded before the first write
	seeded := false
	eachInstr(fn, func(b *ssa.BasicBlock, in ssa.Instruction) {
		if st, ok := in.(*ssa.Store); ok {
			if sn, fld, base, ok := fieldOf(st.Addr); ok && sn == "CountHashWriter" && fld == "crc" && crcWriter != nil && root(base) == crcWriter {
				if _, ok := paramRole(st.Val); ok && widthOf(st.Val.Type()) == 4 {
					if len(writes) > 0 && (b == writes[0].Block() || b.Dominates(writes[0].Block())) {
						seeded = true
					}
				}
			}
		}
	})
	c.check(seeded, "writer/crc-seeded", c.fpos(fn), "the footer's CRC continues from the CRC of the body (seeded from the parameter before the first write)", "the counting writer of persistFooter is not seeded with the body CRC before the first footer field is written")
}

// affine value: len(mm) + k
type affine struct {
	hasLen bool
	k      int64
	ok     bool
}

// beReadHelper: f is `func(data []byte, at int) uintN { return
// binary.BigEndian.UintN(data[at : at+N/8]) }` (any parameter order, one block).
func beReadHelper(f *ssa.Function) (sliceParam, offParam, width int, ok bool) {
	if f == nil || len(f.Blocks) != 1 || f.Signature.Recv() != nil {
		return
	}
	rets := returnsOf(f)
	if len(rets) != 1 || len(rets[0].Results) != 1 {
		return
	}
	call, isCall := rets[0].Results[0].(*ssa.Call)
	if !isCall {
		return
	}
	g := call.Call.StaticCallee()
	if g == nil {
		return
	}
	switch g.String() {
	case "(encoding/binary.bigEndian).Uint16":
		width = 2
	case "(encoding/binary.bigEndian).Uint32":
		width = 4
	case "(encoding/binary.bigEndian).Uint64":
		width = 8
	default:
		return
	}
	arg := call.Call.Args[len(call.Call.Args)-1]
	if ct, isCT := arg.(*ssa.ChangeType); isCT {
		arg = ct.X
	}
	sl, isSl := arg.(*ssa.Slice)
	if !isSl || sl.Low == nil || sl.High == nil {
		return
	}
	hi, isBO := sl.High.(*ssa.BinOp)
	if !isBO || hi.Op != token.ADD || hi.X != sl.Low {
		return
	}
	if k, isK := constInt64(hi.Y); !isK || int(k) != width {
		return
	}
	sliceParam, offParam = -1, -1
	for i, p := range f.Params {
		if sl.X == ssa.Value(p) {
			sliceParam = i
		}
		if sl.Low == ssa.Value(p) {
			offParam = i
		}
	}
	ok = sliceParam >= 0 && offParam >= 0
	return
}

func r14Reader(c *RuleCtx) {
	fn := c.method("Segment", "loadConfig")
	if fn == nil {
		return
	}
	// loops are not expected
	for _, b := range fn.Blocks {
		for _, s := range b.Succs {
			if s.Index <= b.Index && s.Dominates(b) {
				c.undecided("reader/loop-free", c.fpos(fn), "loadConfig is loop free", "a loop was found: the footer reader uses an idiom this rule does not read")
				return
			}
		}
	}
	type read struct {
		fromEnd, width int
		field          string
	}
	type pathRes struct {
		reads   []read
		memTrim int64
		okRet   bool
	}
	var results []pathRes
	var walk func(b *ssa.BasicBlock, from *ssa.BasicBlock, env map[ssa.Value]affine, acc pathRes, depth int)
	eval := func(v ssa.Value, env map[ssa.Value]affine) affine {
		if a, ok := env[v]; ok {
			return a
		}
		if k, ok := constInt64(v); ok {
			return affine{k: k, ok: true}
		}
		return affine{}
	}
	walk = func(b *ssa.BasicBlock, from *ssa.BasicBlock, env map[ssa.Value]affine, acc pathRes, depth int) {
		if depth > 64 {
			return
		}
		env2 := map[ssa.Value]affine{}
		for k, v := range env {
			env2[k] = v
		}
		env = env2
		acc.reads = append([]read{}, acc.reads...)
		for _, in := range b.Instrs {
			switch x := in.(type) {
			case *ssa.Phi:
				for i, p := range b.Preds {
					if p == from {
						env[x] = eval(x.Edges[i], env)
					}
				}
			case *ssa.Call:
				if bi, ok := x.Call.Value.(*ssa.Builtin); ok && bi.Name() == "len" {
					if isLoadOfField(x.Call.Args[0], "Segment", "mm") {
						env[x] = affine{hasLen: true, ok: true}
					}
				}
				if f := x.Call.StaticCallee(); f != nil && (f.String() == "(encoding/binary.bigEndian).Uint32" || f.String() == "(encoding/binary.bigEndian).Uint64") {
					w := 4
					if strings.HasSuffix(f.String(), "Uint64") {
						w = 8
					}
					arg := x.Call.Args[len(x.Call.Args)-1]
					if ct, ok := arg.(*ssa.ChangeType); ok {
						arg = ct.X
					}
					sl, ok := arg.(*ssa.Slice)
					if !ok || !isLoadOfField(sl.X, "Segment", "mm") {
						acc.reads = append(acc.reads, read{-1, w, "?unreadable-slice"})
						continue
					}
					lo, hi := eval(sl.Low, env), eval(sl.High, env)
					if !lo.ok || !hi.ok || !lo.hasLen || !hi.hasLen {
						acc.reads = append(acc.reads, read{-1, w, "?non-affine-bounds"})
						continue
					}
					// destination
					dest := "?"
					for _, r := range *x.Referrers() {
						if st, ok := r.(*ssa.Store); ok {
							if _, fld, _, ok := fieldOf(st.Addr); ok {
								dest = fld
							}
						}
					}
					if int(hi.k-lo.k) != w {
						dest += fmt.Sprintf("?slice-width-%d", hi.k-lo.k)
					}
					if dest == "?" && onlyCompared(x) {
						// a peek (the version looked at early to size a bounds check): it is stored in no
						// field and decides nothing but a comparison — not part of what the reader decodes
						continue
					}
					acc.reads = append(acc.reads, read{int(-lo.k), w, dest})
				}
				if sp, op, w, ok := beReadHelper(x.Call.StaticCallee()); ok && c.p.InZap(x.Call.StaticCallee()) {
					// data[at:at+w] decoded by a one-line helper
					sarg := x.Call.Args[sp]
					if ct, ok := sarg.(*ssa.ChangeType); ok {
						sarg = ct.X
					}
					if !isLoadOfField(sarg, "Segment", "mm") {
						acc.reads = append(acc.reads, read{-1, w, "?unreadable-slice"})
						continue
					}
					lo := eval(x.Call.Args[op], env)
					if !lo.ok || !lo.hasLen {
						acc.reads = append(acc.reads, read{-1, w, "?non-affine-bounds"})
						continue
					}
					dest := "?"
					for _, r := range *x.Referrers() {
						if st, ok := r.(*ssa.Store); ok {
							if _, fld, _, ok := fieldOf(st.Addr); ok {
								dest = fld
							}
						}
					}
					acc.reads = append(acc.reads, read{int(-lo.k), w, dest})
				}
			case *ssa.Convert:
				// an integer conversion of a length (`bodyLen := uint64(len(s.mm) - footerSize)`) keeps its value
				if bt, ok := x.Type().Underlying().(*types.Basic); ok && bt.Info()&types.IsInteger != 0 {
					if a := eval(x.X, env); a.ok {
						env[x] = a
					}
				}
			case *ssa.BinOp:
				xa, ya := eval(x.X, env), eval(x.Y, env)
				if xa.ok && ya.ok {
					switch x.Op {
					case token.SUB:
						if !ya.hasLen {
							env[x] = affine{hasLen: xa.hasLen, k: xa.k - ya.k, ok: true}
						}
					case token.ADD:
						if !(xa.hasLen && ya.hasLen) {
							env[x] = affine{hasLen: xa.hasLen || ya.hasLen, k: xa.k + ya.k, ok: true}
						}
					}
				}
			case *ssa.Store:
				// s.mem = s.mm[:len(mm)-footerSize]
				if sn, fld, _, ok := fieldOf(x.Addr); ok && sn == "SegmentBase" && fld == "mem" {
					v := x.Val
					if ct, ok := v.(*ssa.ChangeType); ok {
						v = ct.X
					}
					if sl, ok := v.(*ssa.Slice); ok {
						hi := eval(sl.High, env)
						if hi.ok && hi.hasLen {
							acc.memTrim = -hi.k
						}
					}
				}
			case *ssa.Return:
				_, ns := errorOfReturn(x)
				acc.okRet = ns != nonNil // success, or whatever a trailing validation helper answers
				results = append(results, acc)
				return
			case *ssa.If:
				if cb, ok := constBool(x.Cond); ok {
					if cb {
						walk(b.Succs[0], b, env, acc, depth+1)
					} else {
						walk(b.Succs[1], b, env, acc, depth+1)
					}
					return
				}
				walk(b.Succs[0], b, env, acc, depth+1)
				walk(b.Succs[1], b, env, acc, depth+1)
				return
			case *ssa.Jump:
				walk(b.Succs[0], b, env, acc, depth+1)
				return
			}
		}
	}
	walk(fn.Blocks[0], nil, map[ssa.Value]affine{}, pathRes{}, 0)
	// the v16 path: the successful path that reads sectionsIndexOffset
	matched := 0
	nV16 := 0
	var why []string
	for _, r := range results {
		if !r.okRet {
			continue
		}
		isV16 := false
		for _, rd := range r.reads {
			if rd.field == "sectionsIndexOffset" {
				isV16 = true
			}
		}
		if !isV16 {
			continue
		}
		nV16++
		got := map[string]read{}
		var gl []string
		for _, rd := range r.reads {
			got[rd.field] = rd
			gl = append(gl, fmt.Sprintf("%s@-%d/%d", rd.field, rd.fromEnd, rd.width))
		}
		okp := len(r.reads) == len(v16Footer) && r.memTrim == 52
		for _, ff := range v16Footer {
			g, ok := got[ff.name]
			if !ok || g.fromEnd != ff.fromEnd || g.width != ff.width {
				okp = false
			}
		}
		if okp {
			matched++
		} else {
			why = append(why, fmt.Sprintf("v16 path reads [%s], body = mm[:len-%d]", strings.Join(gl, " "), r.memTrim))
		}
	}
	var want []string
	for _, ff := range v16Footer {
		want = append(want, fmt.Sprintf("%s@-%d/%d", ff.name, ff.fromEnd, ff.width))
	}
	c.check(nV16 > 0 && matched == nV16, "reader/layout", c.fpos(fn), "on its v16 path loadConfig reads exactly ["+strings.Join(want, " ")+"] (offset from the end of the file / width) and takes the body as mm[:len-52]",
		fmt.Sprintf("%d v16 paths, %d match: %s", nV16, matched, strings.Join(why, "; ")))
}

// paramRole: the role of a value inside a function by the parameter it comes from: the (pinned) name of a
// parameter, or — when the parameters were folded into a struct (`persistFooter(ft footer, w)`) — the name
// of the field of a struct-typed parameter it is read from.
func paramRole(v ssa.Value) (string, bool) {
	if mi, ok := v.(*ssa.MakeInterface); ok {
		v = mi.X
	}
	switch x := v.(type) {
	case *ssa.Parameter:
		if _, isStruct := derefType(x.Type()).Underlying().(*types.Struct); isStruct {
			return "", false
		}
		return canonParamName(x), true
	case *ssa.Field:
		if p, ok := x.X.(*ssa.Parameter); ok {
			if st, ok := p.Type().Underlying().(*types.Struct); ok {
				return st.Field(x.Field).Name(), true
			}
		}
	case *ssa.UnOp:
		if x.Op != token.MUL {
			return "", false
		}
		fa, ok := x.X.(*ssa.FieldAddr)
		if !ok {
			return "", false
		}
		st, ok := derefType(fa.X.Type()).Underlying().(*types.Struct)
		if !ok {
			return "", false
		}
		switch b := fa.X.(type) {
		case *ssa.Parameter: // a pointer to the struct
			return st.Field(fa.Field).Name(), true
		case *ssa.Alloc: // the struct parameter spilled into its local
			for _, stx := range cellStores(b) {
				if _, isParam := stx.Val.(*ssa.Parameter); !isParam {
					return "", false
				}
			}
			if len(cellStores(b)) == 1 {
				return st.Field(fa.Field).Name(), true
			}
		}
	}
	return "", false
}

// structArgFields: the value handed for a struct-typed parameter, as field name -> value (a composite
// literal; fields it does not mention are the zero value and are absent from the map).
func structArgFields(arg ssa.Value) (map[string]ssa.Value, bool) {
	u, ok := arg.(*ssa.UnOp)
	if !ok || u.Op != token.MUL {
		return nil, false
	}
	al, ok := u.X.(*ssa.Alloc)
	if !ok {
		return nil, false
	}
	st, ok := derefType(al.Type()).Underlying().(*types.Struct)
	if !ok {
		return nil, false
	}
	out := map[string]ssa.Value{}
	for _, r := range *al.Referrers() {
		fa, ok := r.(*ssa.FieldAddr)
		if !ok {
			continue
		}
		for _, r2 := range *fa.Referrers() {
			if stx, ok := r2.(*ssa.Store); ok && stx.Addr == ssa.Value(fa) {
				if _, dup := out[st.Field(fa.Field).Name()]; dup {
					return nil, false
				}
				out[st.Field(fa.Field).Name()] = stx.Val
			}
		}
	}
	return out, true
}

// r14CallSites: the arguments of the two persistFooter calls have the right roles.
func r14CallSites(c *RuleCtx) {
	pf := c.fn("persistFooter")
	if pf == nil {
		return
	}
	// parameter position by role
	roles := []string{}
	for _, p := range pf.Params {
		roles = append(roles, canonParamName(p))
	}
	n := 0
	for _, cs := range c.p.callersOf(pf) {
		caller := cs.Parent()
		if !c.p.InZap(caller) {
			continue
		}
		n++
		args := cs.Common().Args
		var bad []string
		// (role, value) pairs: one per parameter, a struct-typed parameter contributing one per field
		// (fields its literal leaves out are zero)
		type roleArg struct {
			role string
			val  ssa.Value
		}
		var pairs []roleArg
		for i, a := range args {
			if i >= len(roles) {
				break
			}
			if st, ok := pf.Params[i].Type().Underlying().(*types.Struct); ok {
				fields, ok := structArgFields(a)
				if !ok {
					bad = append(bad, "the footer values are not handed over as a composite literal")
					continue
				}
				for j := 0; j < st.NumFields(); j++ {
					nm := st.Field(j).Name()
					if v, has := fields[nm]; has {
						pairs = append(pairs, roleArg{nm, v})
					} else {
						pairs = append(pairs, roleArg{nm, nil})
					}
				}
				continue
			}
			pairs = append(pairs, roleArg{roles[i], a})
		}
		// the chunk mode handed to the footer (for the merge check below)
		var chunkModeArg ssa.Value
		for _, pr := range pairs {
			if pr.role == "chunkMode" {
				chunkModeArg = pr.val
			}
		}
		for _, pr := range pairs {
			role := pr.role
			a := pr.val
			desc := ""
			if a == nil {
				desc = "const 0"
				a = ssa.NewConst(nil, types.Typ[types.Uint64])
			}
			// a value chosen between alternatives (the lone-segment copy takes the segment's own footer
			// values, the general path what mergeToWriter returns) must be in its role either way
			var describe func(v ssa.Value, depth int) []string
			describe = func(v ssa.Value, depth int) []string {
				r := root(v)
				d := ""
				switch x := r.(type) {
				case *ssa.Phi:
					if depth < 3 {
						var out []string
						for _, e := range x.Edges {
							if e == ssa.Value(x) {
								continue
							}
							out = append(out, describe(e, depth+1)...)
						}
						return out
					}
				case *ssa.UnOp:
					if sn, fld, _, ok := loadedField(x); ok {
						d = sn + "." + fld
					}
				case *ssa.Extract:
					if call, ok := x.Tuple.(*ssa.Call); ok {
						if f := call.Call.StaticCallee(); f != nil {
							d = f.Name() + "." + f.Signature.Results().At(x.Index).Name()
						}
					}
				case *ssa.Call:
					if f := x.Call.StaticCallee(); f != nil {
						d = f.Name() + "()"
					}
				case *ssa.Parameter:
					d = "param " + x.Name()
				case *ssa.Const:
					if k, ok := constUint64(x); ok {
						d = fmt.Sprintf("const %d", k)
					}
				}
				return []string{d}
			}
			descs := []string{desc}
			if desc == "" {
				descs = describe(a, 0)
			}
			okArg := true
			for _, desc = range descs {
				okOne := false
				switch role {
				case "numDocs", "storedIndexOffset", "sectionsIndexOffset":
					// (a field or a result of that very name — of the segment, of mergeToWriter, or of the
					// object the merge's results were folded into)
					okOne = desc == "SegmentBase."+role || desc == "mergeToWriter."+role || (strings.HasSuffix(desc, "."+role) && !strings.HasSuffix(desc, "()"))
				case "fieldsIndexOffset":
					// in the sections format the fields index offset points at the sections index
					okOne = desc == "SegmentBase.fieldsIndexOffset" || desc == "mergeToWriter.sectionsIndexOffset" || desc == "SegmentBase.sectionsIndexOffset" ||
						((strings.HasSuffix(desc, ".sectionsIndexOffset") || strings.HasSuffix(desc, ".fieldsIndexOffset")) && !strings.HasSuffix(desc, "()"))
				case "docValueOffset":
					okOne = desc == "SegmentBase.docValueOffset" || desc == "const 0"
				case "chunkMode":
					okOne = desc == "SegmentBase.chunkMode" || desc == "param chunkMode"
				case "crcBeforeFooter":
					okOne = desc == "SegmentBase.memCRC" || desc == "Sum32()"
				default:
					okOne = true
				}
				if !okOne {
					okArg = false
					break
				}
			}
			if !okArg {
				bad = append(bad, fmt.Sprintf("argument for %s is %q", role, desc))
			}
		}
		c.check(len(bad) == 0, "callsite/"+funcShortName(caller), c.pos(cs), "persistFooter is called in "+funcShortName(caller)+" with each argument in its own role (numDocs, stored, fields, sections, docValue, chunkMode, CRC)",
			strings.Join(bad, "; "), "call: "+describeInstr(c.p, cs))
		// merge: the chunk mode in the footer is the one given to the merge
		{
			var mtw ssa.CallInstruction
			for _, cs2 := range callSites(caller) {
				if f := staticCallee(cs2); f != nil && namedFn(f, "mergeToWriter") {
					mtw = cs2
				}
			}
			if mtw != nil && chunkModeArg != nil {
				same := false
				for _, a := range mtw.Common().Args {
					if sameValue(a, chunkModeArg) {
						same = true
					}
				}
				c.check(same, "callsite/"+funcShortName(caller)+"/chunkMode", c.pos(cs), "the chunk mode written to the footer is the one the merge encoded with", "mergeToWriter and persistFooter receive different chunk modes")
			}
		}
	}
	c.check(n >= 2, "callsite/count", "-", "persistFooter has its call sites (pinned tree: persistSegmentBaseToWriter, mergeSegmentBases; each one is judged above)", fmt.Sprintf("found %d", n))

	// InitSegmentBase in newWithChunkMode: CRC, bytes and chunk mode belong together
	nw := c.method("ZapPlugin", "newWithChunkMode")
	if nw == nil {
		return
	}
	for _, cs := range callSites(nw) {
		f := staticCallee(cs)
		if f == nil || f.Name() != "InitSegmentBase" {
			continue
		}
		args := cs.Common().Args
		var bad []string
		// mem = (&br).Bytes()
		var buf ssa.Value
		if call, ok := root(args[0]).(*ssa.Call); ok {
			if cf := call.Call.StaticCallee(); cf != nil && cf.String() == "(*bytes.Buffer).Bytes" {
				buf = root(call.Call.Args[0])
			}
		}
		if buf == nil {
			bad = append(bad, "mem argument is not the Bytes() of the build buffer")
		}
		// crc = s.w.Sum32() with s.w = NewCountHashWriter(&br)
		crcOK := false
		if call, ok := root(args[1]).(*ssa.Call); ok {
			if cf := call.Call.StaticCallee(); cf != nil && cf.Name() == "Sum32" {
				if sn, fld, _, ok := loadedField(call.Call.Args[0]); ok && sn == "interim" && fld == "w" {
					// the store to interim.w in this function
					eachInstr(nw, func(_ *ssa.BasicBlock, in ssa.Instruction) {
						if st, ok := in.(*ssa.Store); ok {
							if sn2, fld2, _, ok := fieldOf(st.Addr); ok && sn2 == "interim" && fld2 == "w" {
								if mk, ok := st.Val.(*ssa.Call); ok && len(mk.Call.Args) > 0 && buf != nil && root(mk.Call.Args[0]) == buf {
									crcOK = true
								}
							}
						}
					})
				}
			}
		}
		// ... or the writer is set up over the buffer by a helper that is handed the buffer (`acquireInterim(&br)`)
		writerSetUpBy := func(g *ssa.Function, pi int) bool {
			if g == nil || !c.p.InZap(g) || len(g.Blocks) == 0 || pi >= len(g.Params) {
				return false
			}
			prm := g.Params[pi]
			over := func(v ssa.Value) bool {
				if mi, ok := v.(*ssa.MakeInterface); ok {
					v = mi.X
				}
				return root(v) == ssa.Value(prm) || v == ssa.Value(prm)
			}
			sub := func(in ssa.Instruction, ev uint64, _ bool) []uint64 {
				switch x := in.(type) {
				case *ssa.Store:
					if sn2, fld2, _, ok := fieldOf(x.Addr); ok && sn2 == "interim" && fld2 == "w" {
						if mk, ok := x.Val.(*ssa.Call); ok && len(mk.Call.Args) > 0 && over(mk.Call.Args[0]) {
							if cf := mk.Call.StaticCallee(); cf != nil && cf.Signature.Recv() == nil && isNamed(cf.Signature.Results().At(0).Type(), zapPkgPath, "CountHashWriter") {
								return []uint64{ev | 1}
							}
						}
						return []uint64{ev &^ 1}
					}
				case ssa.CallInstruction:
					callee := staticCallee(x)
					if callee != nil && c.p.InZap(callee) && callee.Signature.Recv() != nil && len(x.Common().Args) > 1 && isLoadOfField(x.Common().Args[0], "interim", "w") {
						hasBuf := false
						for _, a := range x.Common().Args[1:] {
							if over(a) {
								hasBuf = true
							}
						}
						if hasBuf && c.p.mustStoreField(callee, "CountHashWriter", "crc", 0) && c.p.mustStoreField(callee, "CountHashWriter", "n", 0) && c.p.mustStoreField(callee, "CountHashWriter", "w", 0) {
							return []uint64{ev | 1}
						}
					}
				}
				return nil
			}
			spa := newPathAnalysis(g, sub)
			spa.run(0)
			n := 0
			for _, ret := range returnsOf(g) {
				for _, ev := range spa.statesBefore(ret) {
					n++
					if ev&1 == 0 {
						return false
					}
				}
			}
			return n > 0
		}
		setUpCalls := map[ssa.Instruction]bool{}
		if buf != nil {
			for _, cs2 := range callSites(nw) {
				g := staticCallee(cs2)
				for ai, a := range cs2.Common().Args {
					if mi, ok := a.(*ssa.MakeInterface); ok {
						a = mi.X
					}
					if root(a) == buf && writerSetUpBy(g, ai) {
						setUpCalls[cs2] = true
					}
				}
			}
		}
		if !crcOK && len(setUpCalls) > 0 {
			if call, ok := root(args[1]).(*ssa.Call); ok {
				if cf := call.Call.StaticCallee(); cf != nil && cf.Name() == "Sum32" {
					if sn, fld, _, ok := loadedField(call.Call.Args[0]); ok && sn == "interim" && fld == "w" {
						crcOK = true
					}
				}
			}
		}
		if !crcOK {
			bad = append(bad, "CRC argument is not the Sum32() of the counting writer built over that same buffer")
		}
		// ... and that writer is fresh for this build on every path (the builder is pooled: a reused
		// counting writer must have had its CRC and count zeroed)
		{
			tr := func(in ssa.Instruction, ev uint64, _ bool) []uint64 {
				switch x := in.(type) {
				case *ssa.Store:
					if sn2, fld2, _, ok := fieldOf(x.Addr); ok && sn2 == "interim" && fld2 == "w" {
						if mk, ok := x.Val.(*ssa.Call); ok {
							if cf := mk.Call.StaticCallee(); cf != nil && isNamed(cf.Signature.Results().At(0).Type(), zapPkgPath, "CountHashWriter") && cf.Signature.Recv() == nil {
								return []uint64{ev | 1}
							}
						}
						return []uint64{ev &^ 1}
					}
				case ssa.CallInstruction:
					if setUpCalls[in] {
						return []uint64{ev | 1}
					}
					callee := staticCallee(x)
					if callee != nil && c.p.InZap(callee) && callee.Signature.Recv() != nil && len(x.Common().Args) > 0 && isLoadOfField(x.Common().Args[0], "interim", "w") {
						if c.p.mustStoreField(callee, "CountHashWriter", "crc", 0) && c.p.mustStoreField(callee, "CountHashWriter", "n", 0) {
							return []uint64{ev | 1}
						}
					}
				}
				return nil
			}
			pa := newPathAnalysis(nw, tr)
			pa.run(0)
			fresh := true
			for _, ev := range pa.statesBefore(cs) {
				if ev&1 == 0 {
					fresh = false
				}
			}
			if !fresh {
				bad = append(bad, "on some path the counting writer whose CRC is used was not created (or fully reset) for this build: the CRC would continue from an earlier segment")
			}
		}
		// chunk mode: the same value that was stored into interim.chunkMode
		cmOK := false
		eachInstr(nw, func(_ *ssa.BasicBlock, in ssa.Instruction) {
			if st, ok := in.(*ssa.Store); ok {
				if sn2, fld2, _, ok := fieldOf(st.Addr); ok && sn2 == "interim" && fld2 == "chunkMode" && sameValue(st.Val, args[2]) {
					cmOK = true
				}
			}
		})
		if !cmOK {
			bad = append(bad, "chunk mode given to InitSegmentBase differs from the one the builder encoded with")
		}
		// numDocs = len(results)
		ndOK := false
		if cv, ok := root(args[3]).(*ssa.Convert); ok {
			if call, ok := cv.X.(*ssa.Call); ok {
				if b, ok := call.Call.Value.(*ssa.Builtin); ok && b.Name() == "len" {
					if p, ok := call.Call.Args[0].(*ssa.Parameter); ok && canonParamName(p) == "results" {
						ndOK = true
					}
				}
			}
		}
		if !ndOK {
			bad = append(bad, "numDocs is not len(results)")
		}
		// offsets: results of convert in order
		for i, want := range []int{0, 1} {
			ex, ok := root(args[4+i]).(*ssa.Extract)
			if !ok || ex.Index != want {
				bad = append(bad, fmt.Sprintf("offset argument %d is not result %d of convert", i, want))
				continue
			}
			if call, ok := ex.Tuple.(*ssa.Call); !ok || call.Call.StaticCallee() == nil || call.Call.StaticCallee().Name() != "convert" {
				bad = append(bad, fmt.Sprintf("offset argument %d does not come from convert", i))
			}
		}
		c.check(len(bad) == 0, "callsite/InitSegmentBase", c.pos(cs), "the in-memory segment is initialised with the bytes, CRC, chunk mode, document count and offsets of this very build", strings.Join(bad, "; "))
	}
}

// r14CRC: CountHashWriter.Write folds every forwarded byte into the CRC.
func r14CRC(c *RuleCtx) {
	fn := c.method("CountHashWriter", "Write")
	if fn == nil {
		return
	}
	recv, data := fn.Params[0], fn.Params[1]
	var inner *ssa.Call
	for _, cs := range callSites(fn) {
		cc := cs.Common()
		if cc.IsInvoke() && cc.Method.Name() == "Write" && len(cc.Args) == 1 && cc.Args[0] == ssa.Value(data) {
			inner, _ = cs.(*ssa.Call)
		}
	}
	if inner == nil {
		c.undecided("crc/forward", c.fpos(fn), "CountHashWriter.Write forwards its argument to the wrapped writer", "forwarding call not found")
		return
	}
	nres := extractOf(inner, 0)
	okFold, okCount := false, false
	deps := controlDeps(fn)
	eachInstr(fn, func(b *ssa.BasicBlock, in ssa.Instruction) {
		st, ok := in.(*ssa.Store)
		if !ok {
			return
		}
		sn, fld, base, ok := fieldOf(st.Addr)
		if !ok || sn != "CountHashWriter" || root(base) != ssa.Value(recv) {
			return
		}
		if len(deps[b]) > 0 {
			return // conditional update
		}
		switch fld {
		case "crc":
			if call, ok := st.Val.(*ssa.Call); ok {
				if f := call.Call.StaticCallee(); f != nil && f.String() == "hash/crc32.Update" {
					a := call.Call.Args
					if isLoadOfField(a[0], "CountHashWriter", "crc") {
						if sl, ok := a[2].(*ssa.Slice); ok && sl.X == ssa.Value(data) && sl.Low == nil && sl.High == nres {
							if u, ok := a[1].(*ssa.UnOp); ok {
								if g, ok := u.X.(*ssa.Global); ok && g.Name() == "IEEETable" {
									okFold = true
								}
							}
						}
					}
				}
			}
		case "n":
			if bo, ok := st.Val.(*ssa.BinOp); ok && bo.Op == token.ADD && (bo.Y == nres || bo.X == nres) {
				okCount = true
			}
		}
	})
	c.check(okFold, "crc/fold", c.fpos(fn), "every byte forwarded to the wrapped writer (b[:n]) is folded into the running CRC-32 (IEEE), unconditionally", "the CRC update is missing, conditional, or over a different range than the bytes actually written")
	c.check(okCount, "crc/count", c.fpos(fn), "the byte count advances by the number of bytes actually written, unconditionally", "the offset counter does not advance by n")
}

// ---------------------------------------------------------------------------
// R13

type chunkSite struct {
	call *ssa.Call
	fn   *ssa.Function
	role string // postings | docvalues | unknown
	kind string
	why  []string
}

func ruleR13() *Rule {
	return &Rule{
		ID:    "R13",
		Title: "CHUNK-AGREE: writer and reader derive the chunk size from the same things",
		Props: []string{"C01", "C03", "C04", "C06", "C09"},
		Floor: floorFor("R13"),
		Run: func(c *RuleCtx) {
			gcs := c.fn("getChunkSize")
			if gcs == nil {
				return
			}
			var sites []*chunkSite
			for _, cs := range c.p.callersOf(gcs) {
				call, ok := cs.(*ssa.Call)
				if !ok || !c.p.InZap(cs.Parent()) {
					continue
				}
				sites = append(sites, &chunkSite{call: call, fn: cs.Parent()})
			}
			c.check(len(sites) >= half(6), "sites", "-", "getChunkSize call sites are found (confirmed by hand: 6)", fmt.Sprintf("found %d", len(sites)))
			counts := map[string]int{}
			for _, s := range sites {
				res := extractOf(s.call, 0)
				// a probe: only the error is looked at, no chunk size is used anywhere
				if res == nil || res.Referrers() == nil || len(nonDebugRefs(res)) == 0 {
					c.ok(fmt.Sprintf("site/%s/probe", funcShortName(s.fn)), c.pos(s.call), "getChunkSize is called in "+funcShortName(s.fn)+" for its error only: no chunk size is derived here")
					s.role = "probe"
					// ... which asks "is this mode known?"; ErrChunkSizeZero answers another question (the adaptive
					// modes say it for a segment without documents, which is a valid file)
					if zero := c.p.Global("ErrChunkSizeZero"); zero != nil && !chunkArgsExcludeZero(s.call) {
						if e := extractOf(s.call, 1); e != nil {
							bad := failsWhenErrIs(c.p, s.call, e, zero, 0)
							c.add(statusOf(bad == nil), fmt.Sprintf("site/%s/probe/zero-is-not-invalid", funcShortName(s.fn)), c.pos(s.call),
								"the probe in "+funcShortName(s.fn)+" does not fail on ErrChunkSizeZero (what the adaptive chunk modes answer for a segment without documents)",
								"the probe's error fails the caller without ErrChunkSizeZero being excepted: an empty segment written in chunk mode 1025/1026 is rejected", []string{"C04", "C09"}, witnessOfInstr(c.p, bad))
						}
					}
					continue
				}
				s.role = chunkRole(c.p, res)
				args := s.call.Call.Args
				mode := describeChunkArg(c.p, args[0], 0)
				card := describeChunkArg(c.p, args[1], 0)
				docs := describeChunkArg(c.p, args[2], 0)
				s.kind = mode + " | " + card + " | " + docs
				fname := funcShortName(s.fn)
				counts[fname+"/"+s.role]++
				key := fmt.Sprintf("site/%s/%s", fname, s.role)
				if counts[fname+"/"+s.role] > 1 {
					key += fmt.Sprintf("#%d", counts[fname+"/"+s.role])
				}
				var props []string
				switch s.role {
				case "postings":
					props = []string{"C01", "C06", "C09"}
					okc := strings.HasPrefix(mode, "segment-chunk-mode") && strings.HasPrefix(card, "cardinality") && strings.HasPrefix(docs, "segment-doc-count")
					c.add(statusOf(okc), key, c.pos(s.call), "chunk size of postings in "+fname+" is derived from (the segment's chunk mode, a postings cardinality, the segment's document count)",
						"derived from ("+s.kind+"): the writer and the reader of postings would disagree on chunk boundaries for some cardinalities", props, []string{"call: " + describeInstr(c.p, s.call)})
				case "docvalues":
					props = []string{"C03", "C06", "C09"}
					okc := mode == "legacy-chunk-mode" && card == "const 0" && docs == "const 0"
					c.add(statusOf(okc), key, c.pos(s.call), "chunk size of doc values in "+fname+" is getChunkSize(LegacyChunkMode, 0, 0)",
						"derived from ("+s.kind+"): doc-value writer and reader would disagree on the chunk of a document", props, []string{"call: " + describeInstr(c.p, s.call)})
				default:
					c.undecided(key, c.pos(s.call), "the use of this chunk size is recognised (postings coder / stored in a postings list / doc-value coder / divides a document number)", "result of getChunkSize flows somewhere this rule does not classify")
				}
			}
			// each role must have at least one writer and one reader
			np, nd := 0, 0
			for _, s := range sites {
				if s.role == "postings" {
					np++
				}
				if s.role == "docvalues" {
					nd++
				}
			}
			// (the build and the merge writer may share one routine that derives it: a writer side and the
			// reader side is what there has to be — on the pinned tree three sites each)
			readerSide := func(role string) bool {
				for _, s := range sites {
					if s.role != role {
						continue
					}
					for _, rn := range [][2]string{{"PostingsList", "read"}, {"SegmentBase", "VisitDocValues"}} {
						f := c.p.Method(rn[0], rn[1])
						if f == nil {
							f = c.p.resolveRenamed(rn[0] + "." + rn[1])
						}
						if f != nil && (s.fn == f || c.p.reachableFrom(f)[s.fn]) {
							return true
						}
					}
				}
				return false
			}
			c.add(statusOf(np >= 3 || (np >= 2 && readerSide("postings"))), "role/postings", "-", "postings chunk size is derived on the writer side (build, merge) and at the reader", fmt.Sprintf("only %d postings sites", np), []string{"C01", "C06", "C09"}, nil)
			c.add(statusOf(nd >= 3 || (nd >= 2 && readerSide("docvalues"))), "role/docvalues", "-", "doc-value chunk size is derived on the writer side (build, merge) and at the reader", fmt.Sprintf("only %d doc-value sites", nd), []string{"C03", "C06", "C09"}, nil)
		},
	}
}

// chunkRole classifies where the chunk size flows.
func chunkRole(p *Program, v ssa.Value) string {
	if v == nil {
		return "unknown"
	}
	role := "unknown"
	seen := map[ssa.Value]bool{}
	var visit func(x ssa.Value, depth int)
	visit = func(x ssa.Value, depth int) {
		if seen[x] || depth > 4 {
			return
		}
		seen[x] = true
		refs := x.Referrers()
		if refs == nil {
			return
		}
		for _, r := range *refs {
			switch y := r.(type) {
			case *ssa.Store:
				if sn, fld, _, ok := fieldOf(y.Addr); ok && sn == "PostingsList" && fld == "chunkSize" {
					role = "postings"
				}
			case ssa.CallInstruction:
				f := staticCallee(y)
				if f == nil {
					continue
				}
				switch {
				case f.Name() == "SetChunkSize" && f.Signature.Recv() != nil && isNamed(f.Signature.Recv().Type(), zapPkgPath, "chunkedIntCoder"):
					role = "postings"
				case namedFn(f, "newChunkedIntCoder"):
					role = "postings"
				case namedFn(f, "newChunkedContentCoder"):
					role = "docvalues"
				case f.Name() == "SetChunkSize" && f.Signature.Recv() != nil && isNamed(f.Signature.Recv().Type(), zapPkgPath, "chunkedContentCoder"):
					role = "docvalues"
				default:
					// handed to a helper of the package (`io.docValueCoder(chunkSize, …)`, `c.reinit(chunkSize, …)`):
					// classified by what the helper does with that parameter
					if p.InZap(f) && len(f.Blocks) > 0 && depth < 4 {
						for ai, a := range y.Common().Args {
							if a == x && ai < len(f.Params) {
								visit(f.Params[ai], depth+1)
							}
						}
					}
				}
			case *ssa.BinOp:
				if y.Op == token.QUO && y.Y == x {
					role = "docvalues"
				}
			case *ssa.Phi:
				visit(y, depth+1)
			case *ssa.Convert:
				visit(y, depth+1)
			case *ssa.Return:
				// handed back by a helper (`mergedTermChunkSize`): where its callers put it
				for j, rv := range y.Results {
					if rv != x {
						continue
					}
					for _, cs := range p.callersOf(y.Parent()) {
						if call, ok := cs.(*ssa.Call); ok && p.InZap(cs.Parent()) {
							if res := extractOf(call, j); res != nil {
								visit(res, depth+1)
							}
						}
					}
				}
			}
		}
	}
	visit(v, 0)
	return role
}

// describeChunkArg classifies an argument of getChunkSize by provenance.
func describeChunkArg(p *Program, v ssa.Value, depth int) string {
	if depth > 5 {
		return "?"
	}
	r := root(v)
	switch x := r.(type) {
	case *ssa.Const:
		if k, ok := constUint64(x); ok {
			return fmt.Sprintf("const %d", k)
		}
	case *ssa.UnOp:
		if x.Op == token.MUL {
			if g, ok := x.X.(*ssa.Global); ok {
				if g.Name() == "LegacyChunkMode" {
					return "legacy-chunk-mode"
				}
				return "global " + g.Name()
			}
			if sn, fld, _, ok := loadedField(x); ok {
				switch {
				case fld == "chunkMode" && (sn == "SegmentBase" || sn == "invertedIndexOpaque" || sn == "interim"):
					return "segment-chunk-mode (" + sn + "." + fld + ")"
				case fld == "numDocs" && (sn == "SegmentBase" || sn == "invertedIndexOpaque"):
					return "segment-doc-count (" + sn + "." + fld + ")"
				}
				return "field " + sn + "." + fld
			}
		}
	case *ssa.Convert:
		return describeChunkArg(p, x.X, depth+1)
	case *ssa.Extract:
		// result i of a helper of package zap: what the helper returns there
		// on its successful returns
		if call, ok := x.Tuple.(*ssa.Call); ok {
			if d := describeHelperResult(p, call, x.Index, depth); d != "" {
				return d
			}
		}
	case *ssa.Call:
		if d := describeHelperResult(p, x, 0, depth); d != "" && x.Call.Signature().Results().Len() == 1 {
			return d
		}
		if b, ok := x.Call.Value.(*ssa.Builtin); ok && b.Name() == "len" {
			if sn, fld, _, ok := loadedField(x.Call.Args[0]); ok && fld == "results" {
				return "segment-doc-count (len " + sn + "." + fld + ")"
			}
			return "len(?)"
		}
		if f := x.Call.StaticCallee(); f != nil {
			if f.Name() == "GetCardinality" || f.Name() == "Count" {
				return "cardinality (" + f.Name() + ")"
			}
			return "call " + f.Name()
		}
	case *ssa.Phi:
		// accumulated cardinality / conditional cardinality
		kinds := map[string]bool{}
		for _, e := range x.Edges {
			if e == ssa.Value(x) {
				continue
			}
			d := describeChunkArgNoPhiLoop(p, e, depth+1, x)
			kinds[d] = true
		}
		var ks []string
		for k := range kinds {
			ks = append(ks, k)
		}
		sort.Strings(ks)
		allCard := true
		for _, k := range ks {
			if !strings.HasPrefix(k, "cardinality") && k != "const 0" {
				allCard = false
			}
		}
		if allCard && len(ks) > 0 {
			return "cardinality (sum/phi of " + strings.Join(ks, ",") + ")"
		}
		return "phi(" + strings.Join(ks, ",") + ")"
	case *ssa.BinOp:
		if x.Op == token.ADD {
			a, b := describeChunkArg(p, x.X, depth+1), describeChunkArg(p, x.Y, depth+1)
			if strings.HasPrefix(a, "cardinality") || strings.HasPrefix(b, "cardinality") {
				return "cardinality (sum)"
			}
		}
	case *ssa.Parameter:
		// a parameter is as good as what every caller passes
		fn := x.Parent()
		idx := -1
		for i, pp := range fn.Params {
			if pp == x {
				idx = i
			}
		}
		kinds := map[string]bool{}
		for _, cs := range p.callersOf(fn) {
			if !p.InZap(cs.Parent()) {
				continue
			}
			args := cs.Common().Args
			if idx < len(args) {
				kinds[describeChunkArg(p, args[idx], depth+1)] = true
			}
		}
		var ks []string
		for k := range kinds {
			ks = append(ks, k)
		}
		sort.Strings(ks)
		if len(ks) == 1 {
			return ks[0]
		}
		return "param " + x.Name() + " fed by {" + strings.Join(ks, "; ") + "}"
	}
	return "?"
}

// describeHelperResult: the provenance of result idx of a call to a helper
// that the pinned tree did not have (code moved out of the caller).
func describeHelperResult(p *Program, call *ssa.Call, idx, depth int) string {
	h := call.Call.StaticCallee()
	if !isNewHelper(p, h) || idx >= h.Signature.Results().Len() {
		return ""
	}
	kinds := map[string]bool{}
	for _, ret := range returnsOf(h) {
		if _, ns := errorOfReturn(ret); ns == nonNil {
			continue
		}
		kinds[describeChunkArg(p, returnedValue(ret, idx), depth+1)] = true
	}
	var ks []string
	for k := range kinds {
		ks = append(ks, k)
	}
	sort.Strings(ks)
	if len(ks) == 1 {
		return ks[0]
	}
	if len(ks) == 0 {
		return ""
	}
	return "helper " + h.Name() + " returning {" + strings.Join(ks, "; ") + "}"
}

func describeChunkArgNoPhiLoop(p *Program, v ssa.Value, depth int, loop *ssa.Phi) string {
	if bo, ok := v.(*ssa.BinOp); ok && bo.Op == token.ADD {
		if bo.X == ssa.Value(loop) {
			return describeChunkArg(p, bo.Y, depth)
		}
		if bo.Y == ssa.Value(loop) {
			return describeChunkArg(p, bo.X, depth)
		}
	}
	return describeChunkArg(p, v, depth)
}

func nonDebugRefs(v ssa.Value) []ssa.Instruction {
	var out []ssa.Instruction
	for _, r := range *v.Referrers() {
		if _, ok := r.(*ssa.DebugRef); !ok {
			out = append(out, r)
		}
	}
	return out
}

// onlyCompared: the value is used by comparisons only.
func onlyCompared(v ssa.Value) bool {
	if v.Referrers() == nil {
		return false
	}
	n := 0
	for _, r := range *v.Referrers() {
		switch x := r.(type) {
		case *ssa.DebugRef:
		case *ssa.BinOp:
			switch x.Op {
			case token.EQL, token.NEQ, token.LSS, token.LEQ, token.GTR, token.GEQ:
				n++
			default:
				return false
			}
		default:
			return false
		}
	}
	return n > 0
}

// chunkArgsExcludeZero: a getChunkSize call that cannot answer ErrChunkSizeZero — a constant mode in 1..1024.
func chunkArgsExcludeZero(call *ssa.Call) bool {
	m := call.Call.Args[0]
	if u, ok := m.(*ssa.UnOp); ok && u.Op == token.MUL {
		if g, ok := u.X.(*ssa.Global); ok && g.Name() == "LegacyChunkMode" {
			return true
		}
	}
	if k, ok := constInt64(m); ok && k >= 1 && k <= 1024 {
		return true
	}
	return false
}

func witnessOfInstr(p *Program, in ssa.Instruction) []string {
	if in == nil {
		return nil
	}
	return []string{"fails at " + describeInstr(p, in)}
}

// failsWhenErrIs: e is the error result of `at`; suppose it is the sentinel (a non-nil error). Can the
// function then fail because of it — reach, inside the region guarded by a `e != nil` test, a return whose
// error is non-nil — without a comparison with the sentinel (==, !=, errors.Is) having taken it out? An error
// handed back to the callers unexamined is followed into them. Returns the failing return, or nil.
func failsWhenErrIs(p *Program, at ssa.Instruction, e ssa.Value, sentinel *ssa.Global, depth int) ssa.Instruction {
	fn := at.Parent()
	isSentinel := func(v ssa.Value) bool {
		if u, ok := v.(*ssa.UnOp); ok && u.Op == token.MUL {
			return u.X == ssa.Value(sentinel)
		}
		return false
	}
	// sentinelTest: cond compares a held value with the sentinel; isWhen = the branch outcome (true/false)
	// that means "it is the sentinel"
	var sentinelTest func(cond ssa.Value, st *errPathState) (isWhen bool, ok bool)
	sentinelTest = func(cond ssa.Value, st *errPathState) (bool, bool) {
		switch x := cond.(type) {
		case *ssa.UnOp:
			if x.Op == token.NOT {
				w, ok := sentinelTest(x.X, st)
				return !w, ok
			}
		case *ssa.BinOp:
			if x.Op == token.EQL || x.Op == token.NEQ {
				if (st.holds(x.X) && isSentinel(x.Y)) || (st.holds(x.Y) && isSentinel(x.X)) {
					return x.Op == token.EQL, true
				}
			}
		case *ssa.Call:
			if f := x.Call.StaticCallee(); f != nil && f.String() == "errors.Is" && len(x.Call.Args) == 2 && st.holds(x.Call.Args[0]) && isSentinel(x.Call.Args[1]) {
				return true, true
			}
		}
		return false, false
	}
	type key struct {
		b      *ssa.BasicBlock
		region *ssa.BasicBlock
	}
	seen := map[key]bool{}
	var found ssa.Instruction
	var walk func(b, from, region *ssa.BasicBlock, st *errPathState, startAt int, d int)
	walk = func(b, from, region *ssa.BasicBlock, st *errPathState, startAt int, d int) {
		if found != nil || d > 200 {
			return
		}
		st = st.clone()
		if from != nil {
			st.enter(from, b)
		}
		if region != nil && !region.Dominates(b) {
			region = nil
		}
		k := key{b, region}
		if from != nil {
			if seen[k] {
				return
			}
			seen[k] = true
		}
		for _, in := range b.Instrs[startAt:] {
			st.step(in)
			if ret, ok := in.(*ssa.Return); ok {
				v, ns := errorOfReturn(ret)
				held := v != nil && st.holds(v)
				if region != nil && (ns == nonNil || held) {
					found = ret
					return
				}
				if region == nil && held && depth < 3 {
					// handed back as it is: what do the callers do with it?
					for _, cs := range p.callersOf(fn) {
						call, ok := cs.(*ssa.Call)
						if !ok || !p.InZap(cs.Parent()) {
							continue
						}
						res := fn.Signature.Results()
						var ce ssa.Value
						if res.Len() == 1 {
							ce = call
						} else if x := extractOf(call, res.Len()-1); x != nil {
							ce = x
						}
						if ce == nil {
							continue
						}
						if r := failsWhenErrIs(p, call, ce, sentinel, depth+1); r != nil {
							found = r
							return
						}
					}
				}
				return
			}
		}
		succs := b.Succs
		if iff, ok := b.Instrs[len(b.Instrs)-1].(*ssa.If); ok && len(b.Succs) == 2 {
			if x, nilWhen, ok := errNilTest(iff.Cond); ok && st.holds(x) {
				i := 0
				if nilWhen {
					i = 1
				}
				if region == nil {
					walk(b.Succs[i], b, b.Succs[i], st, 0, d+1)
				} else {
					walk(b.Succs[i], b, region, st, 0, d+1)
				}
				return
			}
			if isWhen, ok := sentinelTest(iff.Cond, st); ok {
				i := 1
				if isWhen {
					i = 0
				}
				// known to be the sentinel and handled as such: no longer "an error" on this path
				walk(b.Succs[i], b, nil, &errPathState{nn: map[ssa.Value]bool{}, cells: map[*ssa.Alloc]bool{}}, 0, d+1)
				return
			}
		}
		for _, sx := range succs {
			walk(sx, b, region, st, 0, d+1)
		}
	}
	st := &errPathState{nn: map[ssa.Value]bool{e: true}, cells: map[*ssa.Alloc]bool{}}
	blk := at.Block()
	idx := 0
	for i, in := range blk.Instrs {
		if in == at {
			idx = i + 1
		}
	}
	walk(blk, nil, nil, st, idx, 0)
	return found
}

// r14AppendWriter: the footer assembled in one buffer and written once —
//
//	buf = binary.BigEndian.AppendUint64(buf, numDocs) … buf = binary.BigEndian.AppendUint32(buf, Version)
//	crc := crc32.Update(crcBeforeFooter, crc32.IEEETable, buf)
//	buf = binary.BigEndian.AppendUint32(buf, crc); _, err := w.Write(buf); return err
//
// The chain of appends is read back from the argument of the single Write: order, widths, roles; the CRC
// is crc32.Update seeded with the body-CRC parameter over exactly the bytes appended before it; the buffer
// starts empty; the Write goes to the writer parameter and its error is what is returned.
func r14AppendWriter(c *RuleCtx, fn *ssa.Function) bool {
	var wcall ssa.CallInstruction
	for _, cs := range callSites(fn) {
		name := ""
		if f := staticCallee(cs); f != nil {
			name = f.Name()
		} else if cs.Common().IsInvoke() {
			name = cs.Common().Method.Name()
		}
		if name == "Write" {
			wcall = cs
		}
	}
	if wcall == nil {
		return false
	}
	args := wcall.Common().Args
	if len(args) == 0 {
		return false
	}
	data := args[len(args)-1]
	type item struct {
		val   ssa.Value
		width int
		prev  ssa.Value
	}
	var rev []item
	cur := data
	for i := 0; i < 32; i++ {
		call, ok := root(cur).(*ssa.Call)
		if !ok {
			break
		}
		f := call.Call.StaticCallee()
		if f == nil {
			break
		}
		w := 0
		switch f.String() {
		case "(encoding/binary.bigEndian).AppendUint64":
			w = 8
		case "(encoding/binary.bigEndian).AppendUint32":
			w = 4
		case "(encoding/binary.bigEndian).AppendUint16":
			w = 2
		}
		if w == 0 || len(call.Call.Args) != 3 {
			break
		}
		rev = append(rev, item{call.Call.Args[2], w, call.Call.Args[1]})
		cur = call.Call.Args[1]
	}
	if len(rev) == 0 {
		return false
	}
	// the buffer starts empty
	startsEmpty := false
	switch x := root(cur).(type) {
	case *ssa.Slice:
		if h, ok := constInt64(x.High); ok && h == 0 {
			startsEmpty = true
		}
	case *ssa.MakeSlice:
		if k, ok := constInt64(x.Len); ok && k == 0 {
			startsEmpty = true
		}
	case *ssa.Const:
		startsEmpty = x.IsNil()
	}
	var got, details []string
	okAll := len(rev) == len(v16WriterOrder) && startsEmpty
	if !startsEmpty {
		details = append(details, "the buffer the fields are appended to does not start empty")
	}
	seeded := false
	for i := len(rev) - 1; i >= 0; i-- {
		it := rev[i]
		v := it.val
		role := "?"
		if pr, ok := paramRole(v); ok {
			role = pr
		}
		switch x := v.(type) {
		case *ssa.Const:
			if k, ok := constUint64(x); ok {
				if ver, ok2 := c.p.ZapTypes.Scope().Lookup("Version").(*types.Const); ok2 && ver.Val().String() == fmt.Sprint(k) {
					role = "version"
				} else {
					role = fmt.Sprintf("const %d", k)
				}
			}
		case *ssa.Call:
			if f := x.Call.StaticCallee(); f != nil && f.String() == "hash/crc32.Update" && len(x.Call.Args) == 3 {
				role = "crc read too early"
				if sameValue(x.Call.Args[2], it.prev) {
					role = "crc"
				}
				if _, isParam := paramRole(x.Call.Args[0]); isParam && widthOf(x.Call.Args[0].Type()) == 4 {
					seeded = true
				}
			}
		}
		n := len(rev) - 1 - i
		got = append(got, fmt.Sprintf("%s:u%d", role, it.width*8))
		if n < len(v16WriterOrder) {
			want := v16WriterOrder[n]
			wantW := 8
			if want == "chunkMode" || want == "version" || want == "crc" {
				wantW = 4
			}
			if role != want || it.width != wantW || widthOf(v.Type()) != wantW {
				okAll = false
				details = append(details, fmt.Sprintf("field #%d: got %s u%d, want %s u%d", n+1, role, it.width*8, want, wantW*8))
			}
		}
	}
	// destination: the writer parameter; the error of the Write is what is returned
	dstOK := false
	if wcall.Common().IsInvoke() {
		_, dstOK = root(wcall.Common().Value).(*ssa.Parameter)
	} else if len(args) > 0 {
		_, dstOK = root(args[0]).(*ssa.Parameter)
	}
	errOK := true
	if ev := errValueOfCall(wcall); ev != nil {
		for _, ret := range returnsOf(fn) {
			v, ns := errorOfReturn(ret)
			if ns == isNil && !(wcall.Block() == ret.Block() || wcall.Block().Dominates(ret.Block())) {
				continue
			}
			if v != nil && !(sameValue(v, ev) || sameValue(resolveLoad(v), ev)) && nilnessAt(ev, ret.Block()) != isNil && ns != nonNil {
				errOK = false
			}
		}
	} else {
		errOK = false
	}
	if !dstOK {
		details = append(details, "the single Write does not go to the writer parameter")
	}
	if !errOK {
		details = append(details, "the error of the single Write is not what is returned")
	}
	c.check(okAll && dstOK && errOK, "writer/sequence", c.fpos(fn), "persistFooter assembles, big endian, "+strings.Join(v16WriterOrder, ", ")+" (u64 x5, u32 x3) in an empty buffer and writes it once to its writer; the CRC is computed over exactly the bytes before it",
		"footer assembled as ["+strings.Join(got, ", ")+"]; "+strings.Join(details, "; "))
	c.check(seeded, "writer/crc-seeded", c.fpos(fn), "the footer's CRC continues from the CRC of the body (crc32.Update seeded with the parameter)", "the footer CRC is not seeded with the body CRC")
	return true
}
