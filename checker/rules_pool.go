package main

// R1 POOL-OWN — single ownership of pooled scratch objects.

import (
	"fmt"
	"go/token"
	"go/types"
	"sort"
	"strings"

	"golang.org/x/tools/go/ssa"
)

// poolGlobals: package-level sync.Pool variables of zap.
func (p *Program) poolGlobals() []*ssa.Global {
	var out []*ssa.Global
	var names []string
	for n := range p.Zap.Members {
		names = append(names, n)
	}
	sort.Strings(names)
	for _, n := range names {
		g, ok := p.Zap.Members[n].(*ssa.Global)
		if !ok {
			continue
		}
		if isNamed(g.Type().(*types.Pointer).Elem(), "sync", "Pool") {
			out = append(out, g)
		}
	}
	return out
}

func poolOp(cs ssa.CallInstruction) (pool *ssa.Global, op string) {
	f := staticCallee(cs)
	if f == nil {
		return nil, ""
	}
	switch f.String() {
	case "(*sync.Pool).Get", "(*sync.Pool).Put":
	default:
		return nil, ""
	}
	g, ok := cs.Common().Args[0].(*ssa.Global)
	if !ok {
		return nil, ""
	}
	return g, f.Name()
}

// sharesMemory: a value of this type can alias memory owned by the pooled
// object (pointers, slices, maps, interfaces, funcs, chans).
func sharesMemory(t types.Type) bool {
	switch t.Underlying().(type) {
	case *types.Pointer, *types.Slice, *types.Map, *types.Interface, *types.Signature, *types.Chan:
		return true
	}
	return false
}

// derivedSet: values that are the object or point into memory it owns.
func derivedSet(fn *ssa.Function, isObj func(ssa.Value) bool) map[ssa.Value]bool {
	d := map[ssa.Value]bool{}
	for changed := true; changed; {
		changed = false
		mark := func(v ssa.Value) {
			if !d[v] {
				d[v] = true
				changed = true
			}
		}
		eachInstr(fn, func(_ *ssa.BasicBlock, in ssa.Instruction) {
			v, ok := in.(ssa.Value)
			if !ok || d[v] {
				return
			}
			if isObj(v) {
				mark(v)
				return
			}
			switch x := in.(type) {
			case *ssa.FieldAddr:
				if d[x.X] {
					mark(v)
				}
			case *ssa.IndexAddr:
				if d[x.X] {
					mark(v)
				}
			case *ssa.Slice:
				if d[x.X] {
					mark(v)
				}
			case *ssa.UnOp:
				if x.Op == token.MUL && d[x.X] && sharesMemory(x.Type()) {
					mark(v)
				}
			case *ssa.Phi:
				for _, e := range x.Edges {
					if d[e] {
						mark(v)
					}
				}
			case *ssa.MakeInterface:
				if d[x.X] {
					mark(v)
				}
			case *ssa.ChangeType:
				if d[x.X] {
					mark(v)
				}
			case *ssa.TypeAssert:
				if d[x.X] {
					mark(v)
				}
			}
		})
		for _, p := range fn.Params {
			if !d[p] && isObj(p) {
				mark(p)
			}
		}
	}
	return d
}

type putSummary int

const (
	putNever putSummary = iota
	putMay
	putMust
)

func (s putSummary) String() string { return [...]string{"never", "may", "must"}[s] }

type poolAnalysis struct {
	p       *Program
	pool    *ssa.Global
	summ    map[string]putSummary // fn + param index
	running map[string]bool
}

// analyse runs the put-count typestate for one object in one function.
// It returns the possible put counts at the returns, and reports through
// `report` double puts and uses after a put.
func (a *poolAnalysis) analyse(fn *ssa.Function, isObj func(ssa.Value) bool, report func(kind string, in ssa.Instruction, detail string)) (counts map[int]bool) {
	d := derivedSet(fn, isObj)
	cnt := func(ev uint64) int { return int(ev & 3) }
	inc := func(ev uint64) uint64 {
		c := cnt(ev)
		if c < 2 {
			c++
		}
		return (ev &^ 3) | uint64(c)
	}
	effect := func(in ssa.Instruction, ev uint64, deferred bool) []uint64 {
		cs, ok := in.(ssa.CallInstruction)
		if !ok {
			return nil
		}
		if _, isDefer := in.(*ssa.Defer); isDefer && !deferred {
			return nil
		}
		if g, op := poolOp(cs); g != nil {
			if op == "Put" && g == a.pool && d[cs.Common().Args[1]] && isObj(root(cs.Common().Args[1])) {
				return []uint64{inc(ev)}
			}
			return nil
		}
		callee := staticCallee(cs)
		if callee == nil || !a.p.InZap(callee) || len(callee.Blocks) == 0 {
			return nil
		}
		args := cs.Common().Args
		res := []uint64{ev}
		for i, arg := range args {
			if !isObj(root(arg)) {
				continue
			}
			if i >= len(callee.Params) {
				continue
			}
			switch a.summary(callee, i) {
			case putMay:
				var n []uint64
				for _, e := range res {
					n = append(n, e, inc(e))
				}
				res = n
			case putMust:
				for j := range res {
					res[j] = inc(res[j])
				}
			}
		}
		return res
	}
	pa := newPathAnalysis(fn, effect)
	pa.run(0)
	reported := map[string]bool{}
	pa.visit(func(in ssa.Instruction, t tuple) {
		c := cnt(t.ev)
		// would this instruction bring the count to 2?
		if _, isDefer := in.(*ssa.Defer); !isDefer {
			if outs := effect(in, t.ev, false); outs != nil {
				for _, o := range outs {
					if cnt(o) >= 2 && c < 2 {
						k := fmt.Sprintf("double/%p", in)
						if !reported[k] {
							reported[k] = true
							report("double-put", in, "the object can be returned to the pool a second time here")
						}
					}
				}
			}
		}
		if rd, ok := in.(*ssa.RunDefers); ok && c >= 1 {
			// deferred Put on top of an earlier put
			for i, df := range pa.defers {
				if t.df&(1<<uint(i)) == 0 {
					continue
				}
				if outs := effect(df, t.ev, true); outs != nil {
					for _, o := range outs {
						if cnt(o) >= 2 {
							k := fmt.Sprintf("double/%p", df)
							if !reported[k] {
								reported[k] = true
								report("double-put", df, "the deferred Put runs after the object was already returned to the pool on some path (two later Gets can receive the same object)")
							}
						}
					}
				}
			}
			_ = rd
		}
		if c >= 1 {
			// any use of the object or of memory it owns after it was given back
			if _, isDbg := in.(*ssa.DebugRef); isDbg {
				return
			}
			if _, isRD := in.(*ssa.RunDefers); isRD {
				return
			}
			if cs, ok := in.(ssa.CallInstruction); ok {
				if g, op := poolOp(cs); g == a.pool && op == "Put" {
					return // counted as double put above
				}
			}
			for _, op := range in.Operands(nil) {
				if *op != nil && d[*op] {
					k := fmt.Sprintf("use/%p", in)
					if !reported[k] {
						reported[k] = true
						report("use-after-put", in, "the pooled object (or a buffer it owns) is used on a path on which it was already returned to the pool")
					}
					break
				}
			}
		}
	})
	counts = map[int]bool{}
	for _, ret := range returnsOf(fn) {
		for _, ev := range pa.statesBefore(ret) {
			counts[cnt(ev)] = true
		}
	}
	return counts
}

func (a *poolAnalysis) summary(fn *ssa.Function, param int) putSummary {
	key := fmt.Sprintf("%s#%d", fn.String(), param)
	if s, ok := a.summ[key]; ok {
		return s
	}
	if a.running[key] {
		return putNever
	}
	a.running[key] = true
	prm := fn.Params[param]
	counts := a.analyse(fn, func(v ssa.Value) bool { return v == ssa.Value(prm) }, func(string, ssa.Instruction, string) {})
	delete(a.running, key)
	s := putNever
	switch {
	case len(counts) == 0:
		s = putNever
	case !counts[0]:
		s = putMust
	case counts[1] || counts[2]:
		s = putMay
	}
	a.summ[key] = s
	return s
}

func ruleR1() *Rule {
	return &Rule{
		ID:    "R1",
		Title: "POOL-OWN: a pooled scratch object is returned at most once and not used afterwards",
		Props: []string{"C11", "C10"},
		Floor: floorFor("R1"),
		Run: func(c *RuleCtx) {
			pools := c.p.poolGlobals()
			c.check(len(pools) >= 2, "pools", "-", "the package-level sync.Pool variables are found (confirmed by hand: visitDocumentCtxPool, interimPool)", fmt.Sprintf("found %d", len(pools)))
			nGet, nPut := 0, 0
			for _, pool := range pools {
				props := []string{"C11"}
				if strings.Contains(strings.ToLower(pool.Name()), "interim") {
					props = []string{"C10", "C11"}
				}
				a := &poolAnalysis{p: c.p, pool: pool, summ: map[string]putSummary{}, running: map[string]bool{}}
				// get wrappers: functions that do nothing with the pool but hand
				// out what Get returned (`func acquireCtx() *T { return pool.Get().(*T) }`)
				wrappers := map[*ssa.Function]bool{}
				for _, fn := range c.p.ZapFuncs {
					if fn.Parent() != nil || len(fn.Blocks) == 0 || fn.Signature.Results().Len() != 1 {
						continue
					}
					isW, hasPut := true, false
					for _, cs := range callSites(fn) {
						if g, op := poolOp(cs); g == pool && op == "Put" {
							hasPut = true
						}
					}
					rets := returnsOf(fn)
					if hasPut || len(rets) == 0 {
						continue
					}
					for _, ret := range rets {
						call, ok := root(ret.Results[0]).(*ssa.Call)
						if !ok {
							isW = false
							break
						}
						if g, op := poolOp(call); g != pool || op != "Get" {
							isW = false
						}
					}
					if isW {
						wrappers[fn] = true
					}
				}
				for _, fn := range c.p.ZapFuncs {
					if wrappers[fn] {
						continue // judged at its call sites
					}
					for _, cs := range callSites(fn) {
						g, op := poolOp(cs)
						if f := staticCallee(cs); f != nil && wrappers[f] {
							g, op = pool, "Get"
						}
						if g != pool {
							continue
						}
						if op == "Put" {
							nPut++
							continue
						}
						get, ok := cs.(*ssa.Call)
						if !ok {
							continue
						}
						nGet++
						fname := funcShortName(fn)
						key := fname + "/" + pool.Name()
						isObj := func(v ssa.Value) bool { return root(v) == ssa.Value(get) || v == ssa.Value(get) }
						var bad []string
						var witness []string
						kinds := map[string]bool{}
						a.analyse(fn, isObj, func(kind string, in ssa.Instruction, detail string) {
							kinds[kind] = true
							bad = append(bad, detail)
							witness = append(witness, kind+": "+describeInstr(c.p, in))
						})
						// callee summaries involved (for the report)
						for _, cs2 := range callSites(fn) {
							callee := staticCallee(cs2)
							if callee == nil || !c.p.InZap(callee) || len(callee.Blocks) == 0 {
								continue
							}
							for i, arg := range cs2.Common().Args {
								if isObj(root(arg)) && i < len(callee.Params) {
									witness = append(witness, fmt.Sprintf("callee %s %s puts its parameter %s", funcShortName(callee), a.summary(callee, i), callee.Params[i].Name()))
								}
							}
						}
						c.add(statusOf(!kinds["double-put"]), key+"/single-put", c.pos(cs),
							"object taken from "+pool.Name()+" in "+fname+" is returned to the pool at most once on every path",
							strings.Join(uniq(bad), "; "), props, witness)
						c.add(statusOf(!kinds["use-after-put"]), key+"/no-use-after-put", c.pos(cs),
							"object taken from "+pool.Name()+" in "+fname+" (and the buffers it owns) is not used after it was returned",
							strings.Join(uniq(bad), "; "), props, witness)
					}
				}
			}
			c.check(nGet >= half(4), "get-sites", "-", "pool Get sites are found (confirmed by hand: 4)", fmt.Sprintf("found %d", nGet))
			c.check(nPut >= half(4), "put-sites", "-", "pool Put sites are found (confirmed by hand: 5 on the pinned tree, 4 after the repair of F1)", fmt.Sprintf("found %d", nPut))
		},
	}
}
