package main

// R6 EXIT-DISCIPLINE — cleanup before failure, completion before success.

import (
	"fmt"
	"go/token"
	"go/types"
	"sort"
	"strings"

	"golang.org/x/tools/go/ssa"
)

// wraps reports whether v is target or a writer constructed around target
// (bufio.NewWriterSize(f), NewCountHashWriter(br), &bufWriter{w: ...}).
func wraps(v, target ssa.Value, depth int) bool {
	if depth > 6 {
		return false
	}
	r := root(v)
	if r == root(target) {
		return true
	}
	// a recycled buffered writer pointed at the target (`bw := pool.Get().(*bufio.Writer); bw.Reset(w)`)
	if resetOnto(r, target, depth) {
		return true
	}
	if prm, isPrm := r.(*ssa.Parameter); isPrm {
		if f := paramWraps(prm); f != nil && ssa.Value(f) == root(target) {
			return true
		}
	}
	switch x := r.(type) {
	case *ssa.UnOp:
		// a local variable assigned on several ways (`var bw *bufio.Writer; if … { bw = cw } else { bw = pooled
		// … }`): every value it is given in this function wraps the target
		if x.Op == token.MUL {
			if cell := cellOf(x.X); cell != nil && !cellEscapes(cell) {
				n, all := 0, true
				for _, st := range cellStores(cell) {
					if st.Parent() != x.Parent() {
						if isNilConst(st.Val) || deferredOnlyClosure(st.Parent()) {
							continue
						}
						all = false
						continue
					}
					if isNilConst(st.Val) {
						continue
					}
					n++
					if st.Val == ssa.Value(x) || !wraps(st.Val, target, depth+1) {
						all = false
					}
				}
				if n > 1 && all {
					return true
				}
			}
		}
	}
	switch x := r.(type) {
	case *ssa.Phi:
		// every way it can have been made wraps the target (`if cw, ok := w.(*bufio.Writer); ok { bw = cw }
		// else { bw = pooled; bw.Reset(w) }`)
		n := 0
		for _, e := range x.Edges {
			if e == ssa.Value(x) || isNilConst(e) {
				continue
			}
			n++
			if !wraps(e, target, depth+1) {
				return false
			}
		}
		return n > 0
	case *ssa.Extract:
		if ta, ok := x.Tuple.(*ssa.TypeAssert); ok && ta.CommaOk && x.Index == 0 {
			return wraps(ta.X, target, depth+1)
		}
		// a writer handed back, with something else, by a constructor that was handed the target
		// (`bw, pooled := acquirePersistWriter(w)`)
		if call, ok := x.Tuple.(*ssa.Call); ok && isWriterInterfaceOrPtr(x.Type()) {
			for _, a := range call.Call.Args {
				if wraps(a, target, depth+1) {
					return true
				}
			}
		}
	case *ssa.Call:
		for _, a := range x.Call.Args {
			if wraps(a, target, depth+1) {
				return true
			}
		}
	case *ssa.Alloc:
		refs := x.Referrers()
		if refs != nil {
			for _, ref := range *refs {
				fa, ok := ref.(*ssa.FieldAddr)
				if !ok {
					continue
				}
				for _, r2 := range *fa.Referrers() {
					if st, ok := r2.(*ssa.Store); ok && st.Addr == fa && wraps(st.Val, target, depth+1) {
						return true
					}
				}
			}
		}
	case *ssa.UnOp:
		if x.Op == token.MUL {
			if fa, ok := x.X.(*ssa.FieldAddr); ok {
				if sv := singleFieldStore(fa); sv != nil {
					return wraps(sv, target, depth+1)
				}
				// a writer that the file's owner keeps stacked on its file (`out.cr`)
				if ownerWrapperField(fa) && root(fa.X) == root(target) {
					return true
				}
			}
		}
	}
	return false
}

// singleFieldStore: for a load of base.f where base is a fresh local struct,
// the unique value stored to that field in the function, or nil.
func singleFieldStore(fa *ssa.FieldAddr) ssa.Value {
	base, ok := root(fa.X).(*ssa.Alloc)
	if !ok {
		return nil
	}
	var vals []ssa.Value
	for _, ref := range *base.Referrers() {
		fa2, ok := ref.(*ssa.FieldAddr)
		if !ok || fa2.Field != fa.Field {
			continue
		}
		for _, r2 := range *fa2.Referrers() {
			if st, ok := r2.(*ssa.Store); ok && st.Addr == fa2 {
				vals = append(vals, st.Val)
			}
		}
	}
	if len(vals) == 1 {
		return vals[0]
	}
	return nil
}

func recvOrArg0(c ssa.CallInstruction) ssa.Value {
	cc := c.Common()
	if cc.IsInvoke() {
		return cc.Value
	}
	if len(cc.Args) > 0 {
		return cc.Args[0]
	}
	return nil
}

func isCallTo(c ssa.CallInstruction, full string) bool {
	f := staticCallee(c)
	return f != nil && f.String() == full
}

// errValueOfCall returns the SSA value holding the error result of a call.
func errValueOfCall(c ssa.CallInstruction) ssa.Value {
	call, ok := c.(*ssa.Call)
	if !ok {
		return nil
	}
	sig := call.Call.Signature()
	idx := errorResultIndex(sig)
	if idx < 0 {
		return nil
	}
	if sig.Results().Len() == 1 {
		return call
	}
	for _, r := range *call.Referrers() {
		if ex, ok := r.(*ssa.Extract); ok && ex.Index == idx {
			return ex
		}
	}
	return nil
}

func extractOf(call *ssa.Call, idx int) ssa.Value {
	if call.Call.Signature().Results().Len() == 1 && idx == 0 {
		return call
	}
	for _, r := range *call.Referrers() {
		if ex, ok := r.(*ssa.Extract); ok && ex.Index == idx {
			return ex
		}
	}
	return nil
}

// mustEvents computes, for a closure body, the event bits that are set on every
// path to every return (used to summarise `cleanup := func(){...}`).
func mustEvents(fn *ssa.Function, tr transferFn) uint64 {
	pa := newPathAnalysis(fn, tr)
	pa.once = true
	pa.run(0)
	must := ^uint64(0)
	any := false
	for _, ret := range returnsOf(fn) {
		for _, ev := range pa.statesBefore(ret) {
			must &= ev
			any = true
		}
	}
	if !any {
		return 0
	}
	return must
}

// r6HelperCleanup summarises a package-level helper that receives the output
// file and/or its path as arguments: the close / remove / sync events (bits 0-2
// of the producer's alphabet) that happen on every path through the helper.
func r6HelperCleanup(p *Program, callee *ssa.Function, args []ssa.Value, file, pathArg ssa.Value, depth int) uint64 {
	if depth > 2 {
		return 0
	}
	pf, pp := r6HelperBind(p, callee, args, file, pathArg)
	if pf == nil && pp == nil {
		return 0
	}
	return mustEvents(callee, r6HelperTr(p, callee, pf, pp, depth)) & 7
}

// r6HelperBind: which parameters of callee receive the file and the path (directly, or as their owner).
func r6HelperBind(p *Program, callee *ssa.Function, args []ssa.Value, file, pathArg ssa.Value) (pf, pp ssa.Value) {
	for i, a := range args {
		if i >= len(callee.Params) {
			break
		}
		if file != nil && sameValue(a, file) {
			pf = callee.Params[i]
		}
		if pathArg != nil && (sameValue(a, pathArg) || ownsPath(p, p.owners, a, pathArg)) {
			pp = callee.Params[i]
		}
	}
	return pf, pp
}

// r6HelperTr: what a package-level helper does to the file pf / the path pp it was handed (bits: 1 closed,
// 2 removed, 4 synced), helpers it calls in turn included.
func r6HelperTr(p *Program, callee *ssa.Function, pf, pp ssa.Value, depth int) transferFn {
	var tr transferFn
	tr = func(in ssa.Instruction, ev uint64, deferred bool) []uint64 {
		cs, ok := in.(ssa.CallInstruction)
		if !ok {
			return nil
		}
		if _, isDefer := in.(*ssa.Defer); isDefer && !deferred {
			return nil
		}
		if _, isGo := in.(*ssa.Go); isGo {
			return nil
		}
		f := staticCallee(cs)
		if f == nil {
			return nil
		}
		switch f.String() {
		case "(*os.File).Close":
			if pf != nil && sameValue(recvOrArg0(cs), pf) {
				return []uint64{ev | 1}
			}
		case "os.Remove":
			if pp != nil && sameValue(cs.Common().Args[0], pp) {
				return []uint64{ev | 2}
			}
		case "(*os.File).Sync":
			if pf != nil && sameValue(recvOrArg0(cs), pf) {
				return []uint64{ev | 4}
			}
		}
		if p.InZap(f) && f.Parent() == nil && len(f.Blocks) > 0 && f != callee {
			if s := r6HelperCleanup(p, f, cs.Common().Args, pf, pp, depth+1); s != 0 {
				return []uint64{ev | s}
			}
		}
		return nil
	}
	return tr
}

// errGuardedHelper: a package-level routine of the shape `func (o *owner) abortOnError(err *error) { if
// *err != nil { cleanup } }` — its first test is on the error its pointer parameter points at. Returns the
// index of that parameter and what the routine certainly does to the file / path on either side.
func errGuardedHelper(p *Program, callee *ssa.Function, args []ssa.Value, file, pathArg ssa.Value) (gi int, whenNonNil, whenNil uint64, ok bool) {
	if callee == nil || len(callee.Blocks) == 0 || callee.Parent() != nil {
		return -1, 0, 0, false
	}
	entry := callee.Blocks[0]
	iff, isIf := entry.Instrs[len(entry.Instrs)-1].(*ssa.If)
	if !isIf {
		return -1, 0, 0, false
	}
	x, nilWhen, isTest := errNilTest(iff.Cond)
	if !isTest {
		return -1, 0, 0, false
	}
	u, isU := x.(*ssa.UnOp)
	if !isU || u.Op != token.MUL {
		return -1, 0, 0, false
	}
	gi = -1
	for i, q := range callee.Params {
		if u.X == ssa.Value(q) && readOnlyPtrParam(q) {
			gi = i
		}
	}
	if gi < 0 || gi >= len(args) {
		return -1, 0, 0, false
	}
	for _, in := range entry.Instrs {
		if _, isCall := in.(ssa.CallInstruction); isCall {
			return -1, 0, 0, false
		}
	}
	pf, pp := r6HelperBind(p, callee, args, file, pathArg)
	if pf == nil && pp == nil {
		return -1, 0, 0, false
	}
	tr := r6HelperTr(p, callee, pf, pp, 0)
	t, f := guardSide(callee, entry, true, tr)&7, guardSide(callee, entry, false, tr)&7
	if nilWhen {
		return gi, f, t, true // true edge = error is nil
	}
	return gi, t, f, true
}

// returnsCellContent: the error result of the return that ends block b is the
// content of `cell` as the deferred calls see it.
func returnsCellContent(b *ssa.BasicBlock, cell *ssa.Alloc) bool {
	ret, ok := b.Instrs[len(b.Instrs)-1].(*ssa.Return)
	if !ok {
		return false
	}
	idx := errorResultIndex(b.Parent().Signature)
	if idx < 0 || idx >= len(ret.Results) {
		return false
	}
	rd := -1
	for i, in := range b.Instrs {
		if _, ok := in.(*ssa.RunDefers); ok {
			rd = i
		}
	}
	// no store into the cell after the deferred calls ran
	for _, st := range cellStores(cell) {
		if st.Block() == b && rd >= 0 && instrIndexIn(st) > rd {
			return false
		}
	}
	// the named result itself, read after the deferred calls
	if u, ok := ret.Results[idx].(*ssa.UnOp); ok && u.Op == token.MUL && u.X == ssa.Value(cell) && u.Block() == b {
		return true
	}
	// unnamed result: what is returned is a load of the variable taken in this
	// block with nothing stored into the variable afterwards (`err = f(); return err`)
	v := returnedValueRaw(ret, idx)
	if u, ok := v.(*ssa.UnOp); ok && u.Op == token.MUL && u.X == ssa.Value(cell) && u.Block() == b {
		for _, st := range cellStores(cell) {
			if st.Block() == b && instrIndexIn(st) > instrIndexIn(u) {
				return false
			}
		}
		return true
	}
	return false
}

// errGuardedClosure: the closure's body is `if *errVar != nil { A } [else { B }]`
// with errVar a captured error variable of the enclosing function. Returns
// that variable's cell and the events certain on each side.
func errGuardedClosure(cl *ssa.Function, tr transferFn) (cell *ssa.Alloc, whenNonNil, whenNil uint64, ok bool) {
	if len(cl.Blocks) == 0 {
		return nil, 0, 0, false
	}
	entry := cl.Blocks[0]
	iff, isIf := entry.Instrs[len(entry.Instrs)-1].(*ssa.If)
	if !isIf {
		return nil, 0, 0, false
	}
	// `r := recover(); if r != nil || err != nil { cleanup }`: without a panic the first test is false
	// and the second one is the guard
	if nb := recoverPrefix(cl); nb != nil {
		entry, iff = nb, nb.Instrs[len(nb.Instrs)-1].(*ssa.If)
	}
	// the guard may also be a captured flag: `done := false; defer func() { if !done { cleanup } }()`,
	// set only where the function is about to report success. "flag false" plays the part of "error
	// non-nil", "flag true" that of "error nil" (see guardStateAt).
	{
		cond, neg := iff.Cond, false
		if u, ok := cond.(*ssa.UnOp); ok && u.Op == token.NOT {
			cond, neg = u.X, true
		}
		if u, ok := cond.(*ssa.UnOp); ok && u.Op == token.MUL && isBoolType(u) {
			if fv, ok := u.X.(*ssa.FreeVar); ok {
				if cell = cellOf(fv); cell != nil {
					for _, in := range entry.Instrs {
						if _, isCall := in.(ssa.CallInstruction); isCall {
							return nil, 0, 0, false
						}
					}
					t, f := guardSide(cl, entry, true, tr), guardSide(cl, entry, false, tr)
					if neg {
						return cell, t, f, true // true edge = flag false
					}
					return cell, f, t, true
				}
			}
		}
	}
	bo, isBO := iff.Cond.(*ssa.BinOp)
	if !isBO || (bo.Op != token.NEQ && bo.Op != token.EQL) {
		return nil, 0, 0, false
	}
	var other ssa.Value
	switch {
	case isNilConst(bo.Y):
		other = bo.X
	case isNilConst(bo.X):
		other = bo.Y
	default:
		return nil, 0, 0, false
	}
	u, isU := other.(*ssa.UnOp)
	if !isU || u.Op != token.MUL || !isErrorType(u.Type()) {
		return nil, 0, 0, false
	}
	fv, isFV := u.X.(*ssa.FreeVar)
	if !isFV {
		return nil, 0, 0, false
	}
	cell = cellOf(fv)
	if cell == nil {
		return nil, 0, 0, false
	}
	// nothing before the test in the entry block may have an effect
	for _, in := range entry.Instrs {
		if _, isCall := in.(ssa.CallInstruction); isCall {
			return nil, 0, 0, false
		}
	}
	t, f := guardSide(cl, entry, true, tr), guardSide(cl, entry, false, tr)
	if bo.Op == token.NEQ {
		return cell, t, f, true
	}
	return cell, f, t, true
}

// guardSide: the events certain on every path through closure cl that leaves its entry test over the
// given edge.
func guardSide(cl *ssa.Function, entry *ssa.BasicBlock, takeTrueEdge bool, tr transferFn) uint64 {
	pa := newPathAnalysis(cl, tr)
	pa.once = true
	pa.edge = func(pred, succ *ssa.BasicBlock, _ uint64) bool {
		if pred != entry {
			return true
		}
		if takeTrueEdge {
			return succ == entry.Succs[0]
		}
		return succ == entry.Succs[1]
	}
	pa.run(0)
	must := ^uint64(0)
	any := false
	for _, ret := range returnsOf(cl) {
		for _, ev := range pa.statesBefore(ret) {
			must &= ev
			any = true
		}
	}
	if !any {
		return 0
	}
	return must
}

// guardStateAt: the state of the variable a deferred cleanup is guarded by, at the end of block b: for an
// error variable its nil-ness; for a bool flag, false counts as "non-nil" (the cleanup runs) and true as
// "nil" (it does not).
func guardStateAt(cell *ssa.Alloc, b *ssa.BasicBlock) nilState {
	if isErrorType(derefType(cell.Type())) {
		return cellNilnessAt(cell, b)
	}
	// the last constant stored on every way to the end of b
	var doms []*ssa.Store
	for _, st := range cellStores(cell) {
		if st.Parent() != b.Parent() {
			return nilUnknown // written inside a closure
		}
		if st.Block() == b || st.Block().Dominates(b) {
			doms = append(doms, st)
		} else if reachesBlock(st.Block(), b) {
			return nilUnknown // a store on some, not all, ways here
		}
	}
	var last *ssa.Store
	for _, st := range doms {
		if last == nil || last.Block().Dominates(st.Block()) && last.Block() != st.Block() || (last.Block() == st.Block() && instrIndexIn(last) < instrIndexIn(st)) {
			last = st
		}
	}
	if last == nil {
		return nonNil // `var flag bool`: still the zero value, false
	}
	k, ok := constBool(last.Val)
	if !ok {
		return nilUnknown
	}
	if k {
		return isNil
	}
	return nonNil
}

// role of a completion call in a file-producing function
type kRole struct {
	name     string
	bit      uint64
	sites    []ssa.CallInstruction
	required bool
}

func ruleR6() *Rule {
	return &Rule{
		ID:    "R6",
		Title: "EXIT-DISCIPLINE: cleanup before failure, completion before success",
		Props: []string{"C17", "C18", "C19", "C20", "C16", "C04"},
		Floor: floorFor("R6"),
		Run: func(c *RuleCtx) {
			r6FileProducers(c)
			r6ToWriter(c)
			r6Open(c)
			if c.p.Cfg.Vectors {
				r6VectorMerge(c)
				r6Detached(c)
				r6FaissProducers(c)
			}
		},
	}
}

// --- R6a: functions that create a file ------------------------------------

func r6FileProducers(c *RuleCtx) {
	props := []string{"C17", "C18", "C19"}
	var producers []*ssa.Function
	for _, fn := range c.p.ZapFuncs {
		for _, cs := range callSites(fn) {
			if isCallTo(cs, "os.OpenFile") || isCallTo(cs, "os.Create") {
				if _, isAcq := fileAcquirer(c.p, fn); isAcq {
					// hands the open file to its callers: they are the producers
					for _, cs2 := range c.p.callersOf(fn) {
						if c.p.InZap(cs2.Parent()) {
							dup := false
							for _, q := range producers {
								if q == cs2.Parent() {
									dup = true
								}
							}
							if !dup {
								producers = append(producers, cs2.Parent())
							}
						}
					}
					break
				}
				producers = append(producers, fn)
				break
			}
		}
	}
	// anchors confirmed by hand: both must be among the producers
	for _, want := range []string{"PersistSegmentBase", "mergeSegmentBases"} {
		found := false
		for _, f := range producers {
			if f.Name() == want {
				found = true
			}
		}
		// a wrapper around the producer (a hook before / after): it hands its path to a producer it calls
		if wf := c.p.Func(want); wf != nil && !found {
			if g := producerCalledWithPath(c.p, wf, producers); g != nil {
				found = true
			}
		}
		// kept as a thin forwarder next to a variant with more parameters that produces the file
		if wf := c.p.Func(want); wf != nil && !found {
			if g := c.p.throughForwarders(wf); g != wf {
				for _, f := range producers {
					if f == g {
						found = true
					}
				}
			}
		}
		if !found {
			c.undecidedP(props, "anchor/"+want, "-", "file-producing function "+want+" is found (calls os.OpenFile/os.Create)",
				want+" no longer creates its output file itself; the exit-discipline rule cannot be applied to it")
		}
	}
	for _, fn := range producers {
		r6OneProducer(c, fn, props)
	}
}

func r6OneProducer(c *RuleCtx, fn *ssa.Function, props []string) {
	name := fn.Name()
	var acq *ssa.Call
	for _, cs := range callSites(fn) {
		if isCallTo(cs, "os.OpenFile") || isCallTo(cs, "os.Create") {
			if call, ok := cs.(*ssa.Call); ok {
				if acq != nil {
					c.undecidedP(props, name+"/single-acquisition", c.pos(cs), "one file acquisition per function", "more than one os.OpenFile/os.Create in "+name)
					return
				}
				acq = call
			}
		}
	}
	if acq == nil {
		// the file is opened by a helper that hands it back (`f, cleanup, err := createSegmentFile(path)`)
		for _, cs := range callSites(fn) {
			k := staticCallee(cs)
			info, ok := fileAcquirer(c.p, k)
			call, isCall := cs.(*ssa.Call)
			if !ok || !isCall {
				continue
			}
			file := extractOf(call, info.fileIdx)
			aerr := extractOf(call, info.errIdx)
			if file == nil || aerr == nil || info.pathIdx >= len(call.Call.Args) {
				continue
			}
			if info.cleanup != nil {
				if c.r6Cleanup == nil {
					c.r6Cleanup = map[*ssa.Call]acquirerInfo{}
				}
				c.r6Cleanup[call] = info
			}
			if o := ownerOfType(c.p.owners, file.Type()); o != nil {
				setAlias(c.p.SSA, file, o.fileField, file)
				setAlias(c.p.SSA, file, o.pathField, root(call.Call.Args[info.pathIdx]))
			}
			r6ProducerBody(c, fn, props, name, call, file, aerr, call.Call.Args[info.pathIdx], 0)
			return
		}
		return
	}
	file := extractOf(acq, 0)
	aerr := extractOf(acq, 1)
	pathArg := acq.Call.Args[0]
	if file == nil || aerr == nil {
		c.undecidedP(props, name+"/acquisition-results", c.pos(acq), "both results of the acquisition are bound", "file or error result of the acquisition is discarded")
		return
	}
	r6ProducerBody(c, fn, props, name, acq, file, aerr, pathArg, 0)
}

// r6ProducerBody applies the exit discipline to fn for the output file `file`.
// With acq == nil, fn is a delegate: a function that was handed the open file
// by the producer and completes it; cleanup after its failure is the caller's
// duty (and is checked at the call site), everything else is the same. Returns
// the close/sync events that are certain whenever fn reports success.
func r6ProducerBody(c *RuleCtx, fn *ssa.Function, props []string, name string, acq *ssa.Call, file, aerr, pathArg ssa.Value, depth int) uint64 {
	delegateMode := acq == nil

	const (
		evClosed  = 1 << 0
		evRemoved = 1 << 1
		evSync    = 1 << 2
		roleBase  = 3
		// the error variable a deferred cleanup is guarded by was assumed
		// non-nil / nil at this exit (it is what the exit returns)
		evAssumeNonNil = 1 << 62
		evAssumeNil    = 1 << 61
		// the file was closed after every completion step (and Sync) had run
		evOrderly = 1 << 60
		// the file's owner was marked as committed (a bool field of the owner set to true): a deferred
		// routine of the owner that is guarded by that field does nothing from here on
		evCommitted = 1 << 63
	)
	// a buffer whose content is handed to the file in one Write (`f.Write(buf.Bytes())`) stands for the
	// file: what is written into it is what the file will contain
	var staged []ssa.Value
	for _, cs := range callSites(fn) {
		if callee := staticCallee(cs); callee != nil && callee.String() == "(*os.File).Write" && len(cs.Common().Args) == 2 && sameValue(cs.Common().Args[0], file) {
			if bc, ok := cs.Common().Args[1].(*ssa.Call); ok {
				if f := bc.Call.StaticCallee(); f != nil && f.String() == "(*bytes.Buffer).Bytes" && len(bc.Call.Args) == 1 {
					staged = append(staged, bc.Call.Args[0])
				}
			}
		}
	}
	wrapsOut := func(v ssa.Value) bool {
		if wraps(v, file, 0) {
			return true
		}
		for _, b := range staged {
			if wraps(v, b, 0) {
				return true
			}
		}
		return false
	}
	// discover completion roles
	var roles []*kRole
	roleOf := map[ssa.CallInstruction]*kRole{}
	addRole := func(nm string, site ssa.CallInstruction, required bool) {
		for _, r := range roles {
			if r.name == nm {
				r.sites = append(r.sites, site)
				roleOf[site] = r
				return
			}
		}
		r := &kRole{name: nm, bit: 1 << uint(roleBase+len(roles)), sites: []ssa.CallInstruction{site}, required: required}
		roles = append(roles, r)
		roleOf[site] = r
	}
	var syncSites, closeSites []ssa.CallInstruction
	delegateSucc := map[ssa.CallInstruction]uint64{} // delegate call -> events certain when it returns nil
	delegateFail := map[ssa.CallInstruction]uint64{} // … and when it returns an error (a delegate that discards the file itself)
	// a deferred closure that assigns the function's error variable completes the output itself
	// (`defer func() { if err == nil { err = br.Flush() } ... }()`): its calls are completion steps too
	var completing []*ssa.Function
	completingCell := map[*ssa.Function]*ssa.FreeVar{}
	eachInstr(fn, func(_ *ssa.BasicBlock, in ssa.Instruction) {
		d, ok := in.(*ssa.Defer)
		if !ok {
			return
		}
		cl := resolvedCallee(d)
		if cl == nil || cl.Parent() != fn {
			return
		}
		if fv := errCellAssignedBy(cl); fv != nil {
			completing = append(completing, cl)
			completingCell[cl] = fv
		}
	})
	var discoverSites []ssa.CallInstruction
	discoverSites = append(discoverSites, callSites(fn)...)
	for _, cl := range completing {
		discoverSites = append(discoverSites, callSites(cl)...)
	}
	for _, cs := range discoverSites {
		if acq != nil && cs == ssa.CallInstruction(acq) {
			continue
		}
		if _, isDefer := cs.(*ssa.Defer); isDefer {
			continue
		}
		callee := staticCallee(cs)
		if callee == nil {
			continue
		}
		switch callee.String() {
		case "(*os.File).Close":
			if sameValue(recvOrArg0(cs), file) {
				closeSites = append(closeSites, cs)
			}
			continue
		case "(*os.File).Sync":
			if sameValue(recvOrArg0(cs), file) {
				syncSites = append(syncSites, cs)
			}
			continue
		case "(*bufio.Writer).Flush":
			if wraps(recvOrArg0(cs), file, 0) {
				addRole("Flush", cs, true)
			}
			continue
		case "(*os.File).Write":
			if sameValue(recvOrArg0(cs), file) {
				addRole("Write", cs, true)
			}
			continue
		}
		if c.p.InZap(callee) && callee.Parent() == nil && errorResultIndex(callee.Signature) >= 0 {
			for ai, a := range cs.Common().Args {
				if wrapsOut(a) {
					addRole(callee.Name(), cs, true)
					if !(sameValue(a, file) || sameValue(root(a), file)) {
						// handed a writer stacked on the file and, next to it, the file itself
						// (`flushSyncClose(br, f)`): the routine is a delegate all the same, and knows its
						// writer parameter for what it is
						for aj, a2 := range cs.Common().Args {
							if aj != ai && aj < len(callee.Params) && ai < len(callee.Params) && (sameValue(a2, file) || sameValue(root(a2), file)) && isNamed(callee.Params[aj].Type(), "os", "File") {
								setParamWrap(c.p.SSA, callee.Params[ai], callee.Params[aj])
								a, ai = a2, aj
								break
							}
						}
					}
					if (sameValue(a, file) || sameValue(root(a), file)) && depth < 2 && ai < len(callee.Params) && len(callee.Blocks) > 0 && (isNamed(callee.Params[ai].Type(), "os", "File") || isWriterInterface(callee.Params[ai].Type()) || ownerOfType(c.p.owners, callee.Params[ai].Type()) != nil) {
						// handed the file itself: a delegate, judged by the same discipline
						if _, done := delegateSucc[cs]; !done {
							// the path, if the delegate is handed it too (it may then discard the file itself)
							var dpath ssa.Value
							if pathArg != nil {
								for aj, a2 := range cs.Common().Args {
									if aj < len(callee.Params) && (sameValue(a2, pathArg) || ownsPath(c.p, c.p.owners, a2, pathArg)) {
										dpath = callee.Params[aj]
									}
								}
							}
							delegateSucc[cs] = r6ProducerBody(c, callee, props, name+">"+callee.Name(), nil, callee.Params[ai], nil, dpath, depth+1)
							if c.r6Fail != nil {
								delegateFail[cs] = c.r6Fail[callee]
							}
						}
					}
					break
				}
			}
		}
	}
	// alternatives: two steps in the function's own body that no path can both pass (the two arms of
	// `if lone segment { cr.Write(sb.mem) } else { mergeToWriter(...) }`) are one step done one way or the other
	for i := 0; i < len(roles); i++ {
		for j := i + 1; j < len(roles); j++ {
			ri, rj := roles[i], roles[j]
			excl := true
			for _, a := range ri.sites {
				for _, b := range rj.sites {
					if a.Parent() != fn || b.Parent() != fn || a.Block() == b.Block() || reachesBlock(a.Block(), b.Block()) || reachesBlock(b.Block(), a.Block()) {
						excl = false
					}
				}
			}
			if !excl {
				continue
			}
			ri.name += "|" + rj.name
			ri.sites = append(ri.sites, rj.sites...)
			for _, b := range rj.sites {
				roleOf[b] = ri
			}
			roles = append(roles[:j], roles[j+1:]...)
			j--
		}
	}
	// a bufio.Writer around the file must be flushed
	hasBufio := false
	eachInstr(fn, func(_ *ssa.BasicBlock, in ssa.Instruction) {
		if call, ok := in.(*ssa.Call); ok {
			if f := call.Call.StaticCallee(); f != nil && strings.HasPrefix(f.String(), "bufio.NewWriter") && wraps(call.Call.Args[0], file, 0) {
				hasBufio = true
			}
		}
	})
	if delegateMode {
		for _, r := range roles {
			if r.name == "Flush" {
				if c.r6Flushes == nil {
					c.r6Flushes = map[*ssa.Function]bool{}
				}
				c.r6Flushes[fn] = true
			}
		}
	}
	if hasBufio {
		found := false
		for _, r := range roles {
			if r.name == "Flush" {
				found = true
			}
		}
		// … or in a delegate that is handed the writer with the file (its exits are judged for the step)
		for dcs := range delegateSucc {
			if dc := staticCallee(dcs); dc != nil && c.r6Flushes[dc] {
				found = true
			}
		}
		c.add(statusOf(found), name+"/flush-exists", c.fpos(fn), "the buffered writer around the output file is flushed in "+name,
			"a bufio.Writer wraps the file but (*bufio.Writer).Flush is never called on it", props, nil)
	}
	if len(roles) == 0 && delegateMode && len(closeSites) == 0 && len(syncSites) == 0 {
		// a helper that is handed the file and neither writes through a routine of the package nor
		// finishes it (`preallocate(f, n)`: f.Truncate): it is one step of its caller, judged there
		return 0
	}
	if len(roles) == 0 && !(delegateMode && (len(closeSites) > 0 || len(syncSites) > 0)) {
		// (a delegate that only finishes the file — `syncAndClose(f)` — has no writer roles)
		c.undecidedP(props, name+"/roles", c.fpos(fn), "completion calls (writer routines receiving the file) are found in "+name, "no call receives the output file: the rule cannot tell what completes the output")
		return 0
	}

	// Path-sensitive knowledge about the errors of the completion calls, for code that folds them into one
	// variable (`if err == nil { err = f.Sync() }`, `if cerr := f.Close(); err == nil { err = cerr }`):
	//   U_s: the error of site s may be non-nil and has not been found nil;   N_s: it was found non-nil;
	//   H_{p,i}: the error-typed phi p currently holds its i-th operand.
	type esite struct {
		cs   ssa.CallInstruction
		errv ssa.Value
		u, n uint64
	}
	var esites []*esite
	siteOfErr := map[ssa.Value]*esite{}
	siteOfCall := map[ssa.Instruction]*esite{}
	knowOverflow := false
	{
		bit := uint(16)
		add := func(cs ssa.CallInstruction) {
			ev := errValueOfCall(cs)
			if ev == nil || siteOfErr[ev] != nil {
				return
			}
			if bit+2 > 40 {
				knowOverflow = true
				return
			}
			e := &esite{cs: cs, errv: ev, u: 1 << bit, n: 1 << (bit + 1)}
			bit += 2
			esites = append(esites, e)
			siteOfErr[ev] = e
			siteOfCall[cs] = e
		}
		for _, r := range roles {
			for _, st := range r.sites {
				add(st)
			}
		}
		for _, st := range syncSites {
			add(st)
		}
		for _, st := range closeSites {
			add(st)
		}
	}
	holder := map[*ssa.Phi][]uint64{}
	{
		hbit := uint(40)
		eachInstr(fn, func(_ *ssa.BasicBlock, in ssa.Instruction) {
			ph, ok := in.(*ssa.Phi)
			if !ok || !isErrorType(ph.Type()) {
				return
			}
			if hbit+uint(len(ph.Edges)) > 60 {
				knowOverflow = true
				return
			}
			bits := make([]uint64, len(ph.Edges))
			for i := range bits {
				bits[i] = 1 << hbit
				hbit++
			}
			holder[ph] = bits
		})
	}
	var resolveErr func(v ssa.Value, ev uint64, depth int) *esite
	resolveErr = func(v ssa.Value, ev uint64, depth int) *esite {
		if depth > 6 || v == nil {
			return nil
		}
		if e := siteOfErr[v]; e != nil {
			return e
		}
		if ph, ok := v.(*ssa.Phi); ok {
			if bits := holder[ph]; bits != nil {
				for i, b := range bits {
					if ev&b != 0 {
						return resolveErr(ph.Edges[i], ev, depth+1)
					}
				}
			}
			return nil
		}
		if r := resolveLoad(v); r != v {
			return resolveErr(r, ev, depth+1)
		}
		return nil
	}
	// nilTestOf: cond is `x == nil` / `x != nil` on an error; returns x and the outcome that means "x is nil"
	nilTestOf := func(cond ssa.Value) (ssa.Value, bool, bool) {
		neg := false
		for {
			if u, ok := cond.(*ssa.UnOp); ok && u.Op == token.NOT {
				cond, neg = u.X, !neg
				continue
			}
			break
		}
		bo, ok := cond.(*ssa.BinOp)
		if !ok || (bo.Op != token.EQL && bo.Op != token.NEQ) {
			return nil, false, false
		}
		var x ssa.Value
		switch {
		case isNilConst(bo.Y):
			x = bo.X
		case isNilConst(bo.X):
			x = bo.Y
		default:
			return nil, false, false
		}
		if !isErrorType(x.Type()) {
			return nil, false, false
		}
		return x, (bo.Op == token.EQL) != neg, true
	}
	learnErr := func(cond ssa.Value, outcome bool, ev uint64) uint64 {
		x, nilWhen, ok := nilTestOf(cond)
		if !ok {
			return ev
		}
		if e := resolveErr(x, ev, 0); e != nil {
			if outcome == nilWhen {
				ev &^= e.u
			} else {
				ev |= e.n
			}
		}
		return ev
	}

	var tr transferFn
	var pa *pathAnalysis
	closureSummary := map[*ssa.Function]uint64{}
	// runCompleting runs a completing deferred closure on top of the state ev of an exit: the closure's own
	// CFG is walked with the same transfer function; the captured error variable is followed as a cell
	// (which completion step's error it holds, or still the value the function was about to return — nil
	// or not, `entry`); tests of the variable prune and teach as in the function body. Every state at a
	// return of the closure is tagged with what the function finally reports (nil / non-nil error).
	const (
		holdShift = 11
		holdMask  = uint64(15) << holdShift
		evEntryNN = uint64(1) << 15 // the function was about to return a non-nil error
	)
	runCompleting := func(cl *ssa.Function, fv *ssa.FreeVar, ev uint64, entry nilState) []uint64 {
		isErrLoad := func(v ssa.Value) bool {
			u, ok := v.(*ssa.UnOp)
			return ok && u.Op == token.MUL && u.X == ssa.Value(fv)
		}
		holderOf := func(e uint64) int { return int((e & holdMask) >> holdShift) } // 0 entry, k+1 = esites[k]
		condOf := func(b *ssa.BasicBlock) (nilWhen bool, ok bool) {
			iff, isIf := b.Instrs[len(b.Instrs)-1].(*ssa.If)
			if !isIf || len(b.Succs) != 2 {
				return false, false
			}
			x, nw, isTest := nilTestOf(iff.Cond)
			if !isTest || !isErrLoad(x) {
				return false, false
			}
			return nw, true
		}
		var out []uint64
		worlds := []nilState{entry}
		if entry == nilUnknown {
			worlds = []nilState{isNil, nonNil}
		}
		for _, w := range worlds {
			init := ev &^ (holdMask | evEntryNN)
			if w == nonNil {
				init |= evEntryNN
			}
			npa := newPathAnalysis(cl, func(in ssa.Instruction, e uint64, d bool) []uint64 {
				if st, ok := in.(*ssa.Store); ok && st.Addr == ssa.Value(fv) {
					// the variable now holds the error of a completion step (or something unknown)
					e &^= holdMask
					if es := siteOfErr[st.Val]; es != nil {
						for k, x := range esites {
							if x == es && k < 14 {
								e |= uint64(k+1) << holdShift
							}
						}
					} else {
						e |= uint64(15) << holdShift // unknown content
					}
					return []uint64{e}
				}
				return tr(in, e, d)
			})
			npa.edge = func(pred, succ *ssa.BasicBlock, e uint64) bool {
				nilWhen, ok := condOf(pred)
				if !ok {
					return true
				}
				saysNil := (succ == pred.Succs[0]) == nilWhen
				switch h := holderOf(e); {
				case h == 0:
					return saysNil == (e&evEntryNN == 0)
				case h >= 1 && h <= len(esites):
					es := esites[h-1]
					if saysNil && e&es.n != 0 {
						return false
					}
				}
				return true
			}
			npa.edgeTr = func(pred *ssa.BasicBlock, succIdx int, e uint64) uint64 {
				nilWhen, ok := condOf(pred)
				if !ok {
					return e
				}
				saysNil := (succIdx == 0) == nilWhen
				if h := holderOf(e); h >= 1 && h <= len(esites) {
					es := esites[h-1]
					if saysNil {
						e &^= es.u
					} else {
						e |= es.n
					}
				}
				return e
			}
			npa.run(init)
			if npa.truncated {
				return []uint64{ev}
			}
			for _, ret := range returnsOf(cl) {
				for _, e := range npa.statesBefore(ret) {
					final := nilUnknown
					switch h := holderOf(e); {
					case h == 0:
						final = isNil
						if e&evEntryNN != 0 {
							final = nonNil
						}
					case h >= 1 && h <= len(esites):
						es := esites[h-1]
						if e&es.n != 0 {
							final = nonNil
						} else if e&es.u == 0 {
							final = isNil
						}
					}
					if !returnsCellContent(pa.cur, cellOf(fv)) {
						// the variable is not the function's (named) result: what the function reports was
						// fixed before the deferred closure ran, whatever the closure assigned
						final = isNil
						if e&evEntryNN != 0 {
							final = nonNil
						}
					}
					e &^= holdMask | evEntryNN
					switch final {
					case isNil:
						out = append(out, e|evAssumeNil)
					case nonNil:
						out = append(out, e|evAssumeNonNil)
					default:
						out = append(out, e|evAssumeNil, e|evAssumeNonNil)
					}
				}
			}
		}
		if len(out) == 0 {
			return []uint64{ev}
		}
		return out
	}
	var tr0 transferFn
	tr = func(in ssa.Instruction, ev uint64, deferred bool) []uint64 {
		out := tr0(in, ev, deferred)
		if e := siteOfCall[in]; e != nil {
			if _, isDefer := in.(*ssa.Defer); !isDefer || deferred {
				if out == nil {
					out = []uint64{ev}
				}
				for i := range out {
					out[i] = (out[i] | e.u) &^ e.n
				}
			}
		}
		return out
	}
	tr0 = func(in ssa.Instruction, ev uint64, deferred bool) []uint64 {
		if st, isSt := in.(*ssa.Store); isSt {
			if fa, isFA := st.Addr.(*ssa.FieldAddr); isFA && ownerOfType(c.p.owners, fa.X.Type()) != nil && sameValue(fa.X, file) {
				if k, isK := constBool(st.Val); isK && k {
					return []uint64{ev | evCommitted}
				}
			}
			return nil
		}
		cs, ok := in.(ssa.CallInstruction)
		if !ok {
			return nil
		}
		if _, isDefer := in.(*ssa.Defer); isDefer && !deferred {
			return nil
		}
		if _, isGo := in.(*ssa.Go); isGo {
			return nil
		}
		callee := resolvedCallee(cs) // also a closure held in a (captured) local variable
		if callee == nil && acq != nil && c.r6Cleanup != nil {
			// the cleanup closure that the acquiring helper handed back with the file
			if info, ok := c.r6Cleanup[acq]; ok {
				if ex, ok := resolveLoad(cs.Common().Value).(*ssa.Extract); ok && ex.Tuple == ssa.Value(acq) && ex.Index == info.cleanupIdx {
					var s uint64
					closes, removes := false, false
					must := mustEvents(info.cleanup, func(in ssa.Instruction, ev uint64, _ bool) []uint64 {
						if c2, ok := in.(ssa.CallInstruction); ok {
							if f := staticCallee(c2); f != nil {
								switch f.String() {
								case "(*os.File).Close":
									return []uint64{ev | 1}
								case "os.Remove":
									return []uint64{ev | 2}
								}
							}
						}
						return nil
					})
					closes, removes = must&1 != 0, must&2 != 0
					if closes {
						s |= evClosed
					}
					if removes {
						s |= evRemoved
					}
					return []uint64{ev | s}
				}
			}
		}
		if callee == nil {
			return nil
		}
		switch callee.String() {
		case "(*os.File).Close":
			if sameValue(recvOrArg0(cs), file) {
				orderly := len(syncSites) == 0 || ev&evSync != 0
				for _, r := range roles {
					if ev&r.bit == 0 {
						orderly = false
					}
				}
				if orderly && ev&evClosed == 0 {
					return []uint64{ev | evClosed | evOrderly}
				}
				return []uint64{ev | evClosed}
			}
		case "(*os.File).Sync":
			if sameValue(recvOrArg0(cs), file) {
				return []uint64{ev | evSync}
			}
		case "os.Remove":
			if sameValue(cs.Common().Args[0], pathArg) {
				return []uint64{ev | evRemoved}
			}
		}
		if s, isDel := delegateSucc[cs]; isDel {
			// what a delegate has done to the file whether it reports success or failure (a `close()` of
			// the owner whose error is folded into another one, never tested on its own)
			ev |= s & delegateFail[cs] & (evClosed | evRemoved)
		}
		if r, ok := roleOf[cs]; ok {
			return []uint64{ev | r.bit}
		}
		if callee.Parent() == fn || (callee.Parent() != nil && rootParent(callee) == rootParent(fn)) {
			// a deferred closure guarded by the function's error variable
			// (`defer func() { if err != nil { cleanup } }()`): what it does
			// depends on that variable at this exit
			if fv := completingCell[callee]; fv != nil && deferred && pa != nil && pa.cur != nil && !knowOverflow {
				return runCompleting(callee, fv, ev, cellNilnessAt(cellOf(fv), pa.cur))
			}
			if deferred && pa != nil && pa.cur != nil {
				if cell, whenNonNil, whenNil, ok := errGuardedClosure(callee, tr); ok {
					switch guardStateAt(cell, pa.cur) {
					case nonNil:
						return []uint64{ev | whenNonNil}
					case isNil:
						return []uint64{ev | whenNil}
					}
					if returnsCellContent(pa.cur, cell) {
						// `return f.Close()` into the named result: the closure
						// sees exactly what is returned — two worlds, each judged
						// by the discipline of its kind of exit
						return []uint64{ev | whenNonNil | evAssumeNonNil, ev | whenNil | evAssumeNil}
					}
					return []uint64{ev | (whenNonNil & whenNil)}
				}
			}
			// local closure: apply what its body does on every path
			s, ok := closureSummary[callee]
			if !ok {
				closureSummary[callee] = 0 // recursion guard
				s = mustEvents(callee, tr)
				closureSummary[callee] = s
			}
			return []uint64{ev | s}
		}
		if c.p.InZap(callee) && callee.Parent() == nil && len(callee.Blocks) > 0 {
			// a deferred routine of the owner guarded by the owner's committed flag
			// (`defer sf.discardUnlessCommitted()`): what it does depends on whether the step that sets the
			// flag has succeeded on this path — or is what this exit returns
			if deferred && pa != nil && pa.cur != nil {
				if whenSet, whenUnset, ok := flagGuardedHelper(c.p, callee, cs.Common().Args, file, pathArg); ok {
					if ev&evCommitted != 0 {
						return []uint64{ev | whenSet}
					}
					// a committing step that may set the flag and still fail, and that may have run on this
					// path: nothing is certain about what the guarded routine does
					for dcs := range delegateSucc {
						if dc := staticCallee(dcs); dc != nil && c.r6FailFlag[dc] {
							if e := siteOfCall[dcs]; e == nil || ev&(e.u|e.n) != 0 || dcs.Block() == pa.cur {
								return []uint64{ev | (whenSet & whenUnset)}
							}
						}
					}
					if ret, isRet := pa.cur.Instrs[len(pa.cur.Instrs)-1].(*ssa.Return); isRet {
						if v, _ := errorOfReturn(ret); v != nil {
							for dcs, sm := range delegateSucc {
								if dv := errValueOfCall(dcs); sm&evCommitted != 0 && dv != nil && (sameValue(dv, v) || sameValue(dv, resolveLoad(v))) {
									return []uint64{ev | whenUnset | evAssumeNonNil, ev | whenSet | evCommitted | evAssumeNil}
								}
							}
						}
					}
					return []uint64{ev | whenUnset}
				}
			}
			// a deferred routine guarded by the error variable it is handed the address of
			// (`defer out.abortOnError(&err)`): what it does depends on that variable at this exit
			if deferred && pa != nil && pa.cur != nil {
				if gi, whenNonNil, whenNil, ok := errGuardedHelper(c.p, callee, cs.Common().Args, file, pathArg); ok {
					if cell := cellOf(cs.Common().Args[gi]); cell != nil && cell.Parent() == fn {
						switch guardStateAt(cell, pa.cur) {
						case nonNil:
							return []uint64{ev | whenNonNil}
						case isNil:
							return []uint64{ev | whenNil}
						}
						if returnsCellContent(pa.cur, cell) {
							return []uint64{ev | whenNonNil | evAssumeNonNil, ev | whenNil | evAssumeNil}
						}
						return []uint64{ev | (whenNonNil & whenNil)}
					}
				}
			}
			// a package-level helper handed the file and/or the path (the
			// closure `cleanup` written as a function): what it does to
			// them on every path
			s := r6HelperCleanup(c.p, callee, cs.Common().Args, file, pathArg, 0)
			if s != 0 {
				return []uint64{ev | s}
			}
		}
		return nil
	}
	pa = newPathAnalysis(fn, tr)
	pa.once = true
	pa.edgeTr = func(pred *ssa.BasicBlock, succIdx int, ev uint64) uint64 {
		succ := pred.Succs[succIdx]
		if len(pred.Succs) == 2 && len(delegateSucc) > 0 {
			// what a delegate has certainly done is known on the edge where its
			// error was found nil
			for cs, s := range delegateSucc {
				dv := errValueOfCall(cs)
				if dv == nil {
					continue
				}
				if branchFact(pred, succ, dv) == isNil {
					ev |= s
				}
			}
		}
		if !knowOverflow {
			if iff, ok := pred.Instrs[len(pred.Instrs)-1].(*ssa.If); ok && len(pred.Succs) == 2 && pred.Succs[0] != pred.Succs[1] {
				ev = learnErr(iff.Cond, succIdx == 0, ev)
			}
			// which operand the error phis of the successor take on this edge
			for _, in := range succ.Instrs {
				ph, ok := in.(*ssa.Phi)
				if !ok {
					break
				}
				bits := holder[ph]
				if bits == nil {
					continue
				}
				for i, p := range succ.Preds {
					if p == pred {
						for _, b := range bits {
							ev &^= b
						}
						ev |= bits[i]
						break
					}
				}
			}
		}
		return ev
	}
	if !knowOverflow {
		pa.edge = func(pred, succ *ssa.BasicBlock, ev uint64) bool {
			iff, ok := pred.Instrs[len(pred.Instrs)-1].(*ssa.If)
			if !ok || len(pred.Succs) != 2 || pred.Succs[0] == pred.Succs[1] {
				return true
			}
			x, nilWhen, ok := nilTestOf(iff.Cond)
			if !ok {
				return true
			}
			e := resolveErr(x, ev, 0)
			if e == nil {
				return true
			}
			saysNil := (succ == pred.Succs[0]) == nilWhen
			if saysNil && ev&e.n != 0 {
				return false // found non-nil before: this branch cannot be taken
			}
			return true
		}
		pa.condTr = func(cond ssa.Value, outcome bool, ev uint64, _ func(ssa.Value) ssa.Value) uint64 {
			return learnErr(cond, outcome, ev)
		}
	}
	pa.run(0)
	if pa.truncated {
		c.undecidedP(props, name+"/state-space", c.fpos(fn), "path analysis of "+name+" completes", "tuple limit reached")
		return 0
	}

	// ordering: each role must come after the roles that precede it in
	// source order of first site; Close after all roles (and after Sync)
	// (the steps of a completing deferred closure come after everything in the body)
	sort.SliceStable(roles, func(i, j int) bool {
		ci, cj := roles[i].sites[0].Parent() != fn, roles[j].sites[0].Parent() != fn
		if ci != cj {
			return cj
		}
		return roles[i].sites[0].Pos() < roles[j].sites[0].Pos()
	})
	for i, r := range roles {
		for _, site := range r.sites {
			okOrder := true
			var missing []string
			for _, ev := range pa.statesBefore(site) {
				for j := 0; j < i; j++ {
					if ev&roles[j].bit == 0 {
						okOrder = false
						missing = append(missing, roles[j].name)
					}
				}
			}
			c.add(statusOf(okOrder), name+"/order/"+r.name, c.pos(site),
				fmt.Sprintf("in %s, %s runs only after the earlier completion steps", name, r.name),
				fmt.Sprintf("%s can run before %s", r.name, strings.Join(uniq(missing), ",")), props, nil)
		}
	}
	// (that Close comes after every completion step and after Sync is judged where it matters: at the
	// exits that report success, below — a Close that doubles as the cleanup of a failed step may well
	// run early)
	// exits
	succMust := uint64(evClosed | evSync | evOrderly | evCommitted)
	failMust := uint64(evClosed | evRemoved)
	failSeen := false
	var failKnown []uint64
	nSucc := 0
	labels := map[string]int{}
	for _, ret := range returnsOf(fn) {
		if !pa.reachable(ret.Block()) {
			continue
		}
		v, ns := errorOfReturn(ret)
		key := name + "/" + exitLabel(ret, labels)
		pos := c.pos(ret)
		states := pa.statesBefore(ret)
		if acq != nil && !(acq.Block() == ret.Block() || acq.Block().Dominates(ret.Block())) {
			// the output file does not exist yet on this path
			switch {
			case ns == nonNil:
				c.okP(props, key, pos, "failure exit before the output file is created: nothing to clean up")
			case delegatesToProducer(c.p, v, pathArg):
				c.okP(props, key, pos, "the whole production is handed to another file-producing function, judged on its own")
			default:
				c.badP(props, key+"/before-acquisition", pos, name+" reports success only after it (or a producer it hands the path to) created and completed the output file",
					"this exit can report success although the output file was never created on this path", exitWitness(c, ret, v)...)
			}
			continue
		}
		if v != nil && aerr != nil && (sameValue(v, aerr) || sameValue(resolveLoad(v), aerr) || sameValue(resolveLoadDeep(v), aerr)) && (ns == nonNil || nilnessAt(aerr, ret.Block()) == nonNil) {
			c.okP(props, key, pos, "exit after failed acquisition needs no cleanup")
			continue
		}
		if len(completing) > 0 {
			// the deferred closure may turn a nil into an error (and says, per state, what is reported)
			ns = nilUnknown
		}
		needFail := ns != isNil
		if delegateMode && needFail {
			needFail = false
			if ns == nonNil {
				c.okP(props, key, pos, "failure exit of a delegate: closing and removing the file is the producer's duty, checked where it tests this error")
			}
		}
		needSucc := ns != nonNil
		if ns == nilUnknown {
			// e.g. `return f.Close()`: both disciplines apply
			key += "/undetermined-error"
		}
		if delegateMode && ns != isNil {
			// what this delegate has certainly done when it reports a failure
			for _, ev := range states {
				if ev&evAssumeNil != 0 {
					continue
				}
				failMust &= ev
				failSeen = true
			}
		}
		// what the returned value is known to be in each state (`return err` where err holds the error of
		// a completion step that was found nil / non-nil on this path)
		retKnown := func(ev uint64) nilState {
			if knowOverflow || v == nil {
				return nilUnknown
			}
			if es := resolveErr(v, ev, 0); es != nil {
				if ev&es.n != 0 {
					return nonNil
				}
				if ev&es.u == 0 {
					return isNil
				}
			}
			return nilUnknown
		}
		if delegateMode && ns != isNil {
			// (recomputed with that knowledge)
			failMust2 := uint64(evClosed | evRemoved)
			seen2 := false
			for _, ev := range states {
				if ev&evAssumeNil != 0 || retKnown(ev) == isNil {
					continue
				}
				failMust2 &= ev
				seen2 = true
				if ev&evCommitted != 0 {
					if c.r6FailFlag == nil {
						c.r6FailFlag = map[*ssa.Function]bool{}
					}
					c.r6FailFlag[fn] = true
				}
			}
			if seen2 {
				failKnown = append(failKnown, failMust2)
			}
		}
		if needFail {
			// a delegate whose error is what is returned here has, in the world where it failed, done what
			// it does on failure (`err = finishSegmentFile(f, path)` discards the file itself)
			var viaFailed uint64
			for dcs, fl := range delegateFail {
				if dv := errValueOfCall(dcs); dv != nil && v != nil && (sameValue(dv, v) || sameValue(dv, resolveLoad(v))) {
					viaFailed |= fl
				}
			}
			okc := true
			for _, ev := range states {
				if ev&evAssumeNil != 0 || retKnown(ev) == isNil {
					continue // the world in which this exit returns nil
				}
				ev |= viaFailed
				if ev&evClosed == 0 || ev&evRemoved == 0 {
					okc = false
				}
			}
			c.add(statusOf(okc), key+"/cleanup", pos,
				fmt.Sprintf("%s: an exit that may return a non-nil error is preceded by close of the file and remove of its path", name),
				"a path reaches this error return without closing the file and removing "+pathName(pathArg)+" (the partial file would be left behind)", props, exitWitness(c, ret, v))
		}
		if needSucc {
			nSucc++
			okc := true
			var why []string
			// a delegate whose error is the very value returned here has, in the
			// world where that value is nil, done what it does on success
			var viaReturned uint64
			for dcs, succ := range delegateSucc {
				if dv := errValueOfCall(dcs); dv != nil && v != nil && (sameValue(dv, v) || sameValue(dv, resolveLoad(v))) {
					viaReturned |= succ
				}
			}
			for _, ev := range states {
				if ev&evAssumeNonNil != 0 || retKnown(ev) == nonNil {
					continue // the world in which this exit returns an error
				}
				ev |= viaReturned
				succMust &= ev
				if ev&evRemoved != 0 {
					okc = false
					why = append(why, "the output path is removed on a success path")
				}
				if ev&evClosed == 0 {
					// a delegate that only writes (and leaves Sync/Close to the producer, which is
					// judged for them) has nothing to close
					if !(delegateMode && len(closeSites) == 0) {
						okc = false
						why = append(why, "the file is not closed before reporting success")
					}
				} else if ev&evOrderly == 0 && viaReturned&evClosed == 0 && len(closeSites) > 0 {
					okc = false
					why = append(why, "the file was closed before every completion step (and Sync) had run")
				}
				for _, r := range roles {
					if r.required && ev&r.bit == 0 {
						okc = false
						why = append(why, "completion step "+r.name+" can be skipped")
					}
				}
			}
			// every completion call that may have happened must have a tested error
			check := func(site ssa.CallInstruction, nm string) {
				ev := errValueOfCall(site)
				if ev == nil {
					if _, isCall := site.(*ssa.Call); isCall && errorResultIndex(site.Common().Signature()) >= 0 {
						okc = false
						why = append(why, "error result of "+nm+" is discarded")
					}
					return
				}
				if sameValue(ev, v) || sameValue(ev, resolveLoad(v)) {
					return // this very error is what is returned
				}
				// folded into one error variable, or called on some paths only? the path analysis knows
				// on which paths the call ran and whether its error was found nil since
				if e := siteOfCall[site]; e != nil && !knowOverflow {
					known := true
					for _, st := range states {
						if st&evAssumeNonNil == 0 && retKnown(st) != nonNil && st&e.u != 0 {
							known = false
						}
					}
					if known {
						return
					}
					if !site.Block().Dominates(ret.Block()) {
						okc = false
						why = append(why, "error of "+nm+" ("+c.pos(site)+") is not known to be nil on a path that ran it and reports success")
						return
					}
				}
				if !site.Block().Dominates(ret.Block()) {
					return
				}
				if nilnessAt(ev, ret.Block()) != isNil {
					okc = false
					why = append(why, "error of "+nm+" ("+c.pos(site)+") is not known to be nil when success is reported")
				}
			}
			for _, r := range roles {
				for _, s := range r.sites {
					check(s, r.name)
				}
			}
			for _, s := range syncSites {
				check(s, "Sync")
			}
			for _, s := range closeSites {
				check(s, "Close")
			}
			c.add(statusOf(okc), key+"/complete", pos,
				fmt.Sprintf("%s: success is reported only after every completion step ran and its error was tested (roles: %s, Close)", name, roleNames(roles)),
				strings.Join(uniq(why), "; "), props, exitWitness(c, ret, v))
		}
	}
	if nSucc == 0 {
		return 0
	}
	if delegateMode {
		if c.r6Fail == nil {
			c.r6Fail = map[*ssa.Function]uint64{}
		}
		if len(failKnown) > 0 {
			m := uint64(evClosed | evRemoved)
			for _, x := range failKnown {
				m &= x
			}
			c.r6Fail[fn] = m
		} else if failSeen {
			c.r6Fail[fn] = failMust & (evClosed | evRemoved)
		} else {
			c.r6Fail[fn] = 0
		}
	}
	return succMust
}

// errCellAssignedBy: closure cl assigns a captured error variable of its parent (returns that free
// variable): it does not merely look at the error, it decides it.
func errCellAssignedBy(cl *ssa.Function) *ssa.FreeVar {
	var out *ssa.FreeVar
	panicOnly := panicOnlyRegion(cl)
	eachInstr(cl, func(b *ssa.BasicBlock, in ssa.Instruction) {
		st, ok := in.(*ssa.Store)
		if !ok {
			return
		}
		if panicOnly != nil && (panicOnly == b || panicOnly.Dominates(b)) {
			return // what a recovered panic is turned into: no exit of the body runs this
		}
		fv, ok := st.Addr.(*ssa.FreeVar)
		if !ok || !isErrorType(derefType(fv.Type())) {
			return
		}
		if cell := cellOf(fv); cell != nil && cell.Parent() == cl.Parent() {
			out = fv
		}
	})
	return out
}

// delegatesToProducer: the error value v returned by an exit is the error result of a call to a function
// of package zap that creates a file itself and is handed the same path.
func delegatesToProducer(p *Program, v, pathArg ssa.Value) bool {
	if v == nil {
		return false
	}
	var call *ssa.Call
	switch x := v.(type) {
	case *ssa.Extract:
		call, _ = x.Tuple.(*ssa.Call)
	case *ssa.Call:
		call = x
	}
	if call == nil {
		return false
	}
	callee := call.Call.StaticCallee()
	if callee == nil || !p.InZap(callee) {
		return false
	}
	creates := false
	for _, cs := range callSites(callee) {
		if isCallTo(cs, "os.OpenFile") || isCallTo(cs, "os.Create") {
			creates = true
		}
	}
	if !creates {
		return false
	}
	for _, a := range call.Call.Args {
		if sameValue(a, pathArg) {
			return true
		}
	}
	return false
}

func statusOf(ok bool) Status {
	if ok {
		return Discharged
	}
	return Violated
}

func uniq(in []string) []string {
	seen := map[string]bool{}
	var out []string
	for _, s := range in {
		if !seen[s] {
			seen[s] = true
			out = append(out, s)
		}
	}
	sort.Strings(out)
	return out
}

func roleNames(rs []*kRole) string {
	var n []string
	for _, r := range rs {
		n = append(n, r.name)
	}
	return strings.Join(n, " -> ")
}

func pathName(v ssa.Value) string {
	r := root(v)
	if p, ok := r.(*ssa.Parameter); ok {
		return "parameter " + p.Name()
	}
	return r.Name()
}

func exitWitness(c *RuleCtx, ret *ssa.Return, v ssa.Value) []string {
	w := []string{"exit: " + describeInstr(c.p, ret)}
	if v != nil {
		if in, ok := v.(ssa.Instruction); ok {
			w = append(w, "returned error defined at "+describeInstr(c.p, in))
		}
	}
	return w
}

// --- R6b: the writer routine shared by Persist and WriteTo ------------------

func r6ToWriter(c *RuleCtx) {
	props := []string{"C17", "C04"}
	fn := c.fn("persistSegmentBaseToWriter")
	if fn == nil {
		return
	}
	// the io.Writer parameter
	var wparam *ssa.Parameter
	for _, p := range fn.Params {
		if types.IsInterface(p.Type()) {
			wparam = p
		}
	}
	if wparam == nil {
		c.undecidedP(props, fn.Name()+"/writer-param", c.fpos(fn), "the destination writer parameter is found", "no interface-typed parameter")
		return
	}
	r6ToWriterIn(c, fn, wparam, props, fn.Name(), 0)
}

// r6ToWriterIn judges fn as (part of) the routine that writes a segment to the destination writer wparam:
// body (SegmentBase.mem), footer, Flush — in that order, each error tested before success is reported.
// A function of the package that is handed (a wrapper of) the writer does part of the job; it is judged
// by the same discipline and what it has certainly done when it reports success counts at its call.
// Returns the steps certain at fn's success exits.
func r6ToWriterIn(c *RuleCtx, fn *ssa.Function, wparam *ssa.Parameter, props []string, name string, depth int) uint64 {
	const (
		evBody   = 1 << 0
		evFooter = 1 << 1
		evFlush  = 1 << 2
	)
	var bodySites, footerSites, flushSites, partSites []ssa.CallInstruction
	partEvents := map[ssa.CallInstruction]uint64{}
	for _, cs := range callSites(fn) {
		callee := staticCallee(cs)
		cc := cs.Common()
		mname := ""
		if callee != nil {
			mname = callee.Name()
		} else if cc.IsInvoke() {
			mname = cc.Method.Name()
		}
		args := cc.Args
		if mname == "Write" {
			// a Write whose data argument is SegmentBase.mem and whose receiver wraps w
			var data ssa.Value
			if len(args) > 0 {
				data = args[len(args)-1]
			}
			if data != nil {
				if sn, fld, _, ok := loadedField(root(data)); ok && sn == "SegmentBase" && fld == "mem" {
					if wraps(recvOrArg0(cs), wparam, 0) {
						bodySites = append(bodySites, cs)
					}
				}
			}
			continue
		}
		if callee != nil && namedFn(callee, "persistFooter") {
			if len(args) > 0 && wraps(args[len(args)-1], wparam, 0) {
				footerSites = append(footerSites, cs)
			}
			continue
		}
		if callee != nil && callee.String() == "(*bufio.Writer).Flush" && wraps(recvOrArg0(cs), wparam, 0) {
			flushSites = append(flushSites, cs)
			continue
		}
		// a helper of the package that is handed the writer
		if callee != nil && c.p.InZap(callee) && len(callee.Blocks) > 0 && depth < 2 && errorResultIndex(callee.Signature) >= 0 {
			for ai, a := range args {
				if ai < len(callee.Params) && types.IsInterface(callee.Params[ai].Type()) && wraps(a, wparam, 0) {
					if ev := r6ToWriterIn(c, callee, callee.Params[ai], props, name+">"+callee.Name(), depth+1); ev != 0 {
						partSites = append(partSites, cs)
						partEvents[cs] = ev
					}
					break
				}
			}
		}
	}
	var partAll uint64
	for _, ev := range partEvents {
		partAll |= ev
	}
	if depth == 0 {
		c.add(statusOf(len(bodySites) > 0 || partAll&evBody != 0), name+"/body-write", c.fpos(fn), "the segment bytes (SegmentBase.mem) are written to the destination", "no Write of SegmentBase.mem to (a wrapper of) the destination writer found", props, nil)
		c.add(statusOf(len(footerSites) > 0 || partAll&evFooter != 0), name+"/footer-write", c.fpos(fn), "persistFooter is called on the destination", "no persistFooter call on (a wrapper of) the destination writer found", props, nil)
		c.add(statusOf(len(flushSites) > 0 || partAll&evFlush != 0), name+"/flush", c.fpos(fn), "the buffered writer around the destination is flushed", "no Flush of the bufio.Writer around the destination found", props, nil)
	}
	if len(bodySites)+len(footerSites)+len(flushSites)+len(partSites) == 0 {
		return 0
	}
	in := func(list []ssa.CallInstruction, x ssa.Instruction) bool {
		for _, s := range list {
			if ssa.Instruction(s) == x {
				return true
			}
		}
		return false
	}
	tr := func(i ssa.Instruction, ev uint64, _ bool) []uint64 {
		switch {
		case in(bodySites, i):
			return []uint64{ev | evBody}
		case in(footerSites, i):
			return []uint64{ev | evFooter}
		case in(flushSites, i):
			return []uint64{ev | evFlush}
		case in(partSites, i):
			return []uint64{ev | partEvents[i.(ssa.CallInstruction)]}
		}
		return nil
	}
	et := newErrTracker(fn, 4)
	pa := newPathAnalysis(fn, et.wrap(tr))
	pa.edgeTr = et.edgeTr
	pa.edge = et.edge
	pa.run(0)
	// order
	for _, s := range footerSites {
		okc := true
		for _, ev := range pa.statesBefore(s) {
			if ev&evBody == 0 {
				okc = false
			}
		}
		// (a helper that is only handed the footer to write has no body in front of it: the order is
		// judged where both are visible)
		if depth > 0 && len(bodySites) == 0 && partAll&evBody == 0 {
			continue
		}
		c.add(statusOf(okc), name+"/order/footer-after-body", c.pos(s), "the footer is written after the segment bytes", "persistFooter can run before the body was written", props, nil)
	}
	for _, s := range flushSites {
		okc := true
		for _, ev := range pa.statesBefore(s) {
			if ev&evFooter == 0 {
				okc = false
			}
		}
		if depth > 0 && len(footerSites) == 0 && partAll&evFooter == 0 {
			continue
		}
		c.add(statusOf(okc), name+"/order/flush-after-footer", c.pos(s), "Flush runs after the footer was written", "Flush can run before persistFooter", props, nil)
	}
	for _, s := range partSites {
		// a part that writes the footer must come after the body, one that flushes after the footer
		okc := true
		for _, ev := range pa.statesBefore(s) {
			pe := partEvents[s]
			if pe&evFooter != 0 && pe&evBody == 0 && ev&evBody == 0 {
				okc = false
			}
			if pe&evFlush != 0 && pe&evFooter == 0 && ev&evFooter == 0 {
				okc = false
			}
		}
		c.add(statusOf(okc), name+"/order/"+calleeName(s), c.pos(s), "the steps of the writer routine keep their order (body, footer, Flush) across helpers", "a helper writes the footer before the body, or flushes before the footer", props, nil)
	}
	must := uint64(evBody | evFooter | evFlush)
	nSucc := 0
	labels := map[string]int{}
	for _, ret := range returnsOf(fn) {
		if !pa.reachable(ret.Block()) {
			continue
		}
		v, ns := errorOfReturn(ret)
		key := name + "/" + exitLabel(ret, labels)
		if ns == nonNil {
			c.okP(props, key, c.pos(ret), "failure exit of the writer routine propagates a non-nil error")
			continue
		}
		nSucc++
		okc := true
		var why []string
		// a part whose error is the very value returned here has, where that value is nil, done its steps
		var viaReturned uint64
		for _, s := range partSites {
			if ev := errValueOfCall(s); ev != nil && v != nil && (sameValue(ev, v) || sameValue(ev, resolveLoad(v))) {
				viaReturned |= partEvents[s]
			}
		}
		for _, ev := range pa.statesBefore(ret) {
			ev |= viaReturned
			must &= ev
			if depth == 0 && (ev&evBody == 0 || ev&evFooter == 0 || ev&evFlush == 0) {
				okc = false
				why = append(why, "a path reports success without body+footer+flush")
			}
		}
		for _, group := range [][]ssa.CallInstruction{bodySites, footerSites, flushSites, partSites} {
			for _, s := range group {
				ev := errValueOfCall(s)
				if ev == nil {
					okc = false
					why = append(why, "error of "+calleeName(s)+" discarded")
					continue
				}
				if sameValue(ev, v) || sameValue(ev, resolveLoad(v)) {
					continue
				}
				if s.Block().Dominates(ret.Block()) && nilnessAt(ev, ret.Block()) == isNil {
					continue
				}
				unknown := false
				for _, st := range pa.statesBefore(ret) {
					if et.notFoundNil(ev, st) {
						unknown = true
					}
				}
				if unknown {
					okc = false
					why = append(why, "error of "+calleeName(s)+" ("+c.pos(s)+") not known nil at success")
				}
			}
		}
		what := "the writer routine reports success only after body, footer and Flush succeeded"
		if depth > 0 {
			what = name + " reports success only after each of its steps succeeded"
		}
		c.add(statusOf(okc), key+"/complete", c.pos(ret), what, strings.Join(uniq(why), "; "), props, exitWitness(c, ret, v))
	}
	if nSucc == 0 {
		return 0
	}
	return must
}

// --- R6c: Open ----------------------------------------------------------------

func r6Open(c *RuleCtx) {
	props := []string{"C20"}
	fn := c.method("ZapPlugin", "Open")
	if fn == nil {
		return
	}
	name := "Open"
	var openCall, mapCall *ssa.Call
	for _, cs := range callSites(fn) {
		call, ok := cs.(*ssa.Call)
		if !ok {
			continue
		}
		if isCallTo(cs, "os.Open") || isCallTo(cs, "os.OpenFile") {
			openCall = call
		}
		if f := staticCallee(cs); f != nil && f.Pkg != nil && f.Pkg.Pkg.Path() == "github.com/blevesearch/mmap-go" && strings.HasPrefix(f.Name(), "Map") {
			mapCall = call
		}
	}
	var file, openErr ssa.Value
	if openCall != nil && mapCall == nil {
		// Open only opens the file and hands it, wholesale, to a function of the package that maps it and
		// builds the segment (`return openFile(f, path)`, shared with a variant that is given an open
		// file): that function is judged, with the file it is handed
		of := extractOf(openCall, 0)
		for _, cs := range callSites(fn) {
			g := staticCallee(cs)
			call, isCall := cs.(*ssa.Call)
			if g == nil || !isCall || !c.p.InZap(g) || len(g.Blocks) == 0 {
				continue
			}
			pi := -1
			for ai, a := range call.Call.Args {
				if sameValue(a, of) && ai < len(g.Params) {
					pi = ai
				}
			}
			if pi < 0 {
				continue
			}
			// its results are what Open returns
			whole := false
			for _, ret := range returnsOf(fn) {
				if len(ret.Results) == 2 {
					if ex, ok := ret.Results[0].(*ssa.Extract); ok && ex.Tuple == ssa.Value(call) {
						whole = true
					}
				}
			}
			if !whole {
				continue
			}
			for _, cs2 := range callSites(g) {
				if f := staticCallee(cs2); f != nil && f.Pkg != nil && f.Pkg.Pkg.Path() == "github.com/blevesearch/mmap-go" && strings.HasPrefix(f.Name(), "Map") {
					mapCall, _ = cs2.(*ssa.Call)
				}
			}
			if mapCall != nil {
				// between os.Open and the hand-over Open itself only returns the open error
				fn, file, openErr = g, g.Params[pi], nil
				name = "Open>" + g.Name()
				openCall = nil
				break
			}
		}
	}
	if (openCall == nil && file == nil) || mapCall == nil {
		c.undecidedP(props, name+"/acquisitions", c.fpos(fn), "os.Open and mmap.Map calls are found in Open", "acquisition calls not found")
		return
	}
	if openCall != nil {
		file = extractOf(openCall, 0)
		openErr = extractOf(openCall, 1)
	}
	mapErr := extractOf(mapCall, 1)
	// the *Segment under construction
	var segAlloc *ssa.Alloc
	eachInstr(fn, func(_ *ssa.BasicBlock, in ssa.Instruction) {
		if a, ok := in.(*ssa.Alloc); ok && a.Heap && isNamed(a.Type(), zapPkgPath, "Segment") {
			segAlloc = a
		}
	})
	if segAlloc == nil {
		c.undecidedP(props, name+"/segment-alloc", c.fpos(fn), "the Segment under construction is found", "no &Segment{...} in Open")
		return
	}
	unmapReach := c.p.reachesFunc(func(f *ssa.Function) bool {
		return f.Name() == "Unmap" && f.Pkg != nil && f.Pkg.Pkg.Path() == "github.com/blevesearch/mmap-go"
	})
	const (
		evFClosed   = 1 << 0
		evSegClosed = 1 << 1
		evSegBuilt  = 1 << 2
		loadBase    = 3
	)
	type loader struct {
		site ssa.CallInstruction
		bit  uint64
		name string
	}
	var loaders []loader
	for _, cs := range callSites(fn) {
		callee := staticCallee(cs)
		if callee == nil || !c.p.InZap(callee) || errorResultIndex(callee.Signature) < 0 {
			continue
		}
		if unmapReach[callee] {
			continue
		}
		rcv := recvOrArg0(cs)
		if rcv == nil {
			continue
		}
		if baseAlloc(rcv) == segAlloc {
			// a method that stores nothing into the segment loads nothing: it is a check (an optional
			// validation of what was loaded), and skipping it leaves no segment half-built
			if !storesIntoReceiver(c.p, callee, 0, map[*ssa.Function]bool{}) {
				continue
			}
			loaders = append(loaders, loader{cs, 1 << uint(loadBase+len(loaders)), callee.Name()})
		}
	}
	want := map[string]bool{"loadConfig": false, "loadFieldsNew": false, "loadDvReaders": false}
	for _, l := range loaders {
		if _, ok := want[l.name]; ok {
			want[l.name] = true
			continue
		}
		// a helper that runs the loaders on its receiver: what it has run,
		// with the error tested, whenever it returns nil
		if callee := staticCallee(l.site); callee != nil {
			if _, pinned := pinnedSigs[fnKey(callee)]; !pinned {
				for _, n := range successMustCalls(c.p, callee, []string{"loadConfig", "loadFieldsNew", "loadDvReaders"}) {
					want[n] = true
				}
			}
		}
	}
	for _, n := range []string{"loadConfig", "loadFieldsNew", "loadDvReaders"} {
		c.add(statusOf(want[n]), name+"/loader/"+n, c.fpos(fn), "Open runs "+n+" on the new segment", n+" is not called on the segment under construction", props, nil)
	}
	var tr transferFn
	tr = func(in ssa.Instruction, ev uint64, _ bool) []uint64 {
		if in == ssa.Instruction(segAlloc) {
			return []uint64{ev | evSegBuilt}
		}
		cs, ok := in.(ssa.CallInstruction)
		if !ok {
			return nil
		}
		callee := staticCallee(cs)
		if callee == nil {
			return nil
		}
		if callee.String() == "(*os.File).Close" && sameValue(recvOrArg0(cs), file) {
			return []uint64{ev | evFClosed}
		}
		if unmapReach[callee] && baseAlloc(recvOrArg0(cs)) == segAlloc {
			return []uint64{ev | evSegClosed}
		}
		for _, l := range loaders {
			if ssa.Instruction(l.site) == in {
				return []uint64{ev | l.bit}
			}
		}
		return nil
	}
	// a local closure (`closeAndFail`) does, at its call, what its body does on every path
	base := tr
	closureSum := map[*ssa.Function]uint64{}
	tr = func(in ssa.Instruction, ev uint64, d bool) []uint64 {
		if r := base(in, ev, d); r != nil {
			return r
		}
		if cs, ok := in.(ssa.CallInstruction); ok {
			if f := resolvedCallee(cs); f != nil && f.Parent() != nil && rootParent(f) == fn {
				s, done := closureSum[f]
				if !done {
					closureSum[f] = 0
					s = mustEvents(f, base) & (evFClosed | evSegClosed)
					closureSum[f] = s
				}
				if s != 0 {
					return []uint64{ev | s}
				}
			}
		}
		return nil
	}
	// errors folded into one variable (`if err == nil { err = rv.loadFieldsNew() }`) are followed
	et := newErrTracker(fn, uint(loadBase+len(loaders)+1))
	pa := newPathAnalysis(fn, et.wrap(tr))
	pa.edgeTr = et.edgeTr
	pa.edge = et.edge
	pa.run(0)
	labels := map[string]int{}
	// deferred closures guarded by the error variable or by a flag (`loaded := false; defer func() { if
	// !loaded { _ = rv.Close() } }()`): what they do at an exit depends on the guard's state there
	type guardedDefer struct {
		at              *ssa.Defer
		cell            *ssa.Alloc
		whenBad, whenOK uint64
	}
	var gdefers []guardedDefer
	eachInstr(fn, func(_ *ssa.BasicBlock, in ssa.Instruction) {
		d, ok := in.(*ssa.Defer)
		if !ok {
			return
		}
		cl := resolvedCallee(d)
		if cl == nil || cl.Parent() != fn {
			return
		}
		if cell, nn, nl, ok := errGuardedClosure(cl, base); ok {
			gdefers = append(gdefers, guardedDefer{d, cell, nn & (evFClosed | evSegClosed), nl & (evFClosed | evSegClosed)})
		}
	})
	deferredAt := func(ret *ssa.Return) (add uint64, known bool) {
		known = true
		for _, g := range gdefers {
			if !(g.at.Block() == ret.Block() || g.at.Block().Dominates(ret.Block())) {
				continue
			}
			switch guardStateAt(g.cell, ret.Block()) {
			case nonNil:
				add |= g.whenBad
			case isNil:
				add |= g.whenOK
			default:
				known = false
			}
		}
		return add, known
	}
	for _, ret := range returnsOf(fn) {
		if !pa.reachable(ret.Block()) {
			continue
		}
		v, ns := errorOfReturn(ret)
		key := name + "/" + exitLabel(ret, labels)
		pos := c.pos(ret)
		if v != nil && openErr != nil && (sameValue(v, openErr) || sameValue(resolveLoad(v), openErr) || sameValue(resolveLoadDeep(v), openErr)) && (ns == nonNil || nilnessAt(openErr, ret.Block()) == nonNil) {
			// (the error variable may live in memory because a deferred closure looks at it)
			c.okP(props, key, pos, "exit after failed os.Open needs no release")
			continue
		}
		dAdd, dKnown := deferredAt(ret)
		if ns != isNil {
			okc := true
			why := ""
			for _, ev := range pa.statesBefore(ret) {
				if dKnown {
					ev |= dAdd
				}
				if ev&evSegBuilt != 0 {
					if ev&evSegClosed == 0 {
						okc = false
						why = "a failure exit after the mapping was created does not close the segment (mapping and descriptor leak)"
					}
				} else if ev&evFClosed == 0 && ev&evSegClosed == 0 {
					okc = false
					why = "a failure exit after os.Open succeeded does not close the file"
				}
			}
			_ = mapErr
			c.add(statusOf(okc), key+"/release", pos, "Open: every failure exit after the file was opened releases it (file Close before the mapping exists, segment Close after)", why, props, exitWitness(c, ret, v))
		}
		if ns != nonNil {
			okc := true
			var why []string
			if !dKnown {
				okc = false
				why = append(why, "a deferred cleanup runs at this exit under a guard whose state is not known here")
			}
			for _, ev := range pa.statesBefore(ret) {
				ev |= dAdd
				if ev&(evFClosed|evSegClosed) != 0 {
					okc = false
					why = append(why, "the segment is closed on a path that returns it")
				}
				for _, l := range loaders {
					if ev&l.bit == 0 {
						okc = false
						why = append(why, l.name+" can be skipped")
					}
				}
			}
			for _, l := range loaders {
				ev := errValueOfCall(l.site)
				if ev == nil {
					okc = false
					why = append(why, "error of "+l.name+" discarded")
					continue
				}
				if sameValue(ev, v) {
					continue
				}
				if l.site.Block().Dominates(ret.Block()) && nilnessAt(ev, ret.Block()) == isNil {
					continue
				}
				// path-sensitively: on no path that returns the segment did this loader run without
				// its error having been found nil since
				unknown := false
				for _, st := range pa.statesBefore(ret) {
					if et.notFoundNil(ev, st) {
						unknown = true
					}
				}
				if unknown {
					okc = false
					why = append(why, "error of "+l.name+" not known nil when the segment is returned")
				}
			}
			c.add(statusOf(okc), key+"/complete", pos, "Open returns a segment only after every loader succeeded", strings.Join(uniq(why), "; "), props, exitWitness(c, ret, v))
		}
	}
}

// successMustCalls: of the named methods, those that `helper` has called on its
// own receiver, with the error found nil, on every path on which it returns a
// nil (or not provably non-nil) error.
func successMustCalls(p *Program, helper *ssa.Function, names []string) []string {
	if len(helper.Params) == 0 || len(helper.Blocks) == 0 || errorResultIndex(helper.Signature) < 0 {
		return nil
	}
	recv := helper.Params[0]
	type site struct {
		cs  ssa.CallInstruction
		bit uint64
	}
	sites := map[string][]site{}
	bitOf := map[string]uint64{}
	for i, n := range names {
		bitOf[n] = 1 << uint(i)
	}
	for _, cs := range callSites(helper) {
		f := staticCallee(cs)
		if f == nil || !p.InZap(f) {
			continue
		}
		for _, n := range names {
			if f.Name() == n && baseOfAddr(recvOrArg0(cs)) == ssa.Value(recv) {
				sites[n] = append(sites[n], site{cs, bitOf[n]})
			}
		}
	}
	tr := func(in ssa.Instruction, ev uint64, _ bool) []uint64 {
		for _, ss := range sites {
			for _, st := range ss {
				if ssa.Instruction(st.cs) == in {
					return []uint64{ev | st.bit}
				}
			}
		}
		return nil
	}
	pa := newPathAnalysis(helper, tr)
	pa.run(0)
	must := ^uint64(0)
	for _, ret := range returnsOf(helper) {
		if !pa.reachable(ret.Block()) {
			continue
		}
		v, ns := errorOfReturn(ret)
		if ns == nonNil {
			continue
		}
		for _, ev := range pa.statesBefore(ret) {
			must &= ev
		}
		// errors of the calls that dominate this return are nil here (or are
		// the very value returned)
		for n, ss := range sites {
			for _, st := range ss {
				ev := errValueOfCall(st.cs)
				if ev == nil {
					must &^= bitOf[n]
					continue
				}
				if st.cs.Block().Dominates(ret.Block()) && !sameValue(ev, v) && nilnessAt(ev, ret.Block()) != isNil {
					must &^= bitOf[n]
				}
			}
		}
	}
	var out []string
	for _, n := range names {
		if len(sites[n]) > 0 && must&bitOf[n] != 0 {
			out = append(out, n)
		}
	}
	return out
}

// baseOfAddr: the value that v points into (v, &v.f, &v.f.g ...), rooted.
func baseOfAddr(v ssa.Value) ssa.Value {
	for i := 0; i < 8 && v != nil; i++ {
		r := root(v)
		fa, ok := r.(*ssa.FieldAddr)
		if !ok {
			return r
		}
		v = fa.X
	}
	return v
}

// baseAlloc: the local allocation that v points into (v = alloc, &alloc.f, ...).
func baseAlloc(v ssa.Value) *ssa.Alloc {
	for i := 0; i < 8 && v != nil; i++ {
		switch x := root(v).(type) {
		case *ssa.Alloc:
			return x
		case *ssa.FieldAddr:
			v = x.X
		default:
			return nil
		}
	}
	return nil
}

// reachesFunc returns the set of functions from which a function satisfying
// pred is reachable in the call graph (including such functions themselves).
func (p *Program) reachesFunc(pred func(*ssa.Function) bool) map[*ssa.Function]bool {
	out := map[*ssa.Function]bool{}
	var work []*ssa.Function
	for fn := range p.CG.Nodes {
		if fn != nil && pred(fn) {
			out[fn] = true
			work = append(work, fn)
		}
	}
	for len(work) > 0 {
		f := work[len(work)-1]
		work = work[:len(work)-1]
		n := p.CG.Nodes[f]
		if n == nil {
			continue
		}
		for _, e := range n.In {
			caller := e.Caller.Func
			if !out[caller] {
				out[caller] = true
				work = append(work, caller)
			}
		}
	}
	return out
}

// --- R6d: reconstructed vector indexes are freed on every exit ---------------

func isFaissIndexPtr(t types.Type) bool {
	return isNamed(t, faissModule, "IndexImpl")
}

// faissMethod decodes a method call on a native index. *faiss.IndexImpl embeds
// the interface faiss.Index, so `idx.Close()` is compiled as
// `invoke (*(&idx.Index)).Close()`; a promoted-method wrapper or a direct
// method would be a static call. Returns the *IndexImpl value and the method.
func faissMethod(cs ssa.CallInstruction) (ssa.Value, string, bool) {
	cc := cs.Common()
	if cc.IsInvoke() {
		if sn, fld, base, ok := loadedField(cc.Value); ok && sn == "IndexImpl" && fld == "Index" && isFaissIndexPtr(base.Type()) {
			return base, cc.Method.Name(), true
		}
		if n := namedOf(cc.Value.Type()); n != nil && n.Obj().Pkg() != nil && n.Obj().Pkg().Path() == faissModule && n.Obj().Name() == "Index" {
			return cc.Value, cc.Method.Name(), true
		}
		return nil, "", false
	}
	f := cc.StaticCallee()
	if f != nil && f.Signature.Recv() != nil && isFaissIndexPtr(f.Signature.Recv().Type()) && len(cc.Args) > 0 {
		return cc.Args[0], f.Name(), true
	}
	return nil, "", false
}

// faissCloseOf: cs closes a native index; returns the index value.
func faissCloseOf(cs ssa.CallInstruction) (ssa.Value, bool) {
	v, m, ok := faissMethod(cs)
	if ok && m == "Close" {
		return v, true
	}
	return nil, false
}

func r6VectorMerge(c *RuleCtx) {
	props := []string{"C19", "C18"}
	// the struct field holding a native index inside a slice element
	// (vecIndexInfo.index), found by type
	type fieldKey struct{ st, fld string }
	var holder fieldKey
	if nt := c.p.NamedType("vecIndexInfo"); nt != nil {
		if st, ok := nt.Underlying().(*types.Struct); ok {
			for i := 0; i < st.NumFields(); i++ {
				if isFaissIndexPtr(st.Field(i).Type()) {
					holder = fieldKey{"vecIndexInfo", canonFieldName("vecIndexInfo", st, i)}
				}
			}
		}
	}
	if holder.st == "" {
		c.undecidedP(props, "anchor/vecIndexInfo.index", "-", "the struct field holding reconstructed native indexes is found", "no field of type *faiss.IndexImpl in vecIndexInfo")
		return
	}
	// closer methods: methods of the holder that Close their own receiver's index (`(vi *vecIndexInfo) release()`)
	closers := map[*ssa.Function]bool{}
	for _, fn := range c.p.ZapFuncs {
		if fn.Parent() != nil || fn.Signature.Recv() == nil || len(fn.Params) == 0 {
			continue
		}
		if pt, ok := fn.Signature.Recv().Type().Underlying().(*types.Pointer); !ok || !isNamed(pt.Elem(), zapPkgPath, holder.st) {
			continue
		}
		closes, stores := false, false
		eachInstr(fn, func(_ *ssa.BasicBlock, in ssa.Instruction) {
			if cs, ok := in.(ssa.CallInstruction); ok {
				if iv, ok := faissCloseOf(cs); ok {
					if sn, fld, base, ok := loadedField(iv); ok && sn == holder.st && fld == holder.fld && root(base) == ssa.Value(fn.Params[0]) {
						closes = true
					}
				}
			}
			if st, ok := in.(*ssa.Store); ok {
				if sn, fld, _, ok := fieldOf(st.Addr); ok && sn == holder.st && fld == holder.fld && !isNilConst(st.Val) {
					stores = true
				}
			}
		})
		if closes && !stores {
			closers[fn] = true
		}
	}
	// free routines: zap functions with a []*vecIndexInfo parameter that Close the field of every element
	freeFns := map[*ssa.Function]bool{}
	for _, fn := range c.p.ZapFuncs {
		if fn.Parent() != nil {
			continue
		}
		takes := false
		for _, p := range fn.Params {
			if sl, ok := p.Type().Underlying().(*types.Slice); ok && isNamed(sl.Elem(), zapPkgPath, "vecIndexInfo") {
				takes = true
			}
		}
		if !takes {
			continue
		}
		closes := false
		stores := false
		eachInstr(fn, func(_ *ssa.BasicBlock, in ssa.Instruction) {
			if cs, ok := in.(ssa.CallInstruction); ok {
				if iv, ok := faissCloseOf(cs); ok {
					if sn, fld, _, ok := loadedField(iv); ok && sn == holder.st && fld == holder.fld {
						closes = true
					}
				}
				if closers[staticCallee(cs)] {
					closes = true
				}
			}
			if st, ok := in.(*ssa.Store); ok {
				if sn, fld, _, ok := fieldOf(st.Addr); ok && sn == holder.st && fld == holder.fld && !isNilConst(st.Val) {
					stores = true
				}
			}
		})
		if closes && !stores {
			freeFns[fn] = true
		}
	}
	// a function that is handed the slice and runs a free routine on it on every
	// path (`abortVectorMerge(vecIndexes, err)`) frees too
	for changed := true; changed; {
		changed = false
		for _, fn := range c.p.ZapFuncs {
			if fn.Parent() != nil || freeFns[fn] || len(fn.Blocks) == 0 {
				continue
			}
			var sliceParam *ssa.Parameter
			for _, p := range fn.Params {
				if sl, ok := p.Type().Underlying().(*types.Slice); ok && isNamed(sl.Elem(), zapPkgPath, "vecIndexInfo") {
					sliceParam = p
				}
			}
			if sliceParam == nil {
				continue
			}
			var freeAt []*ssa.BasicBlock
			storesIdx := false
			for _, cs := range callSites(fn) {
				if g := staticCallee(cs); g != nil && freeFns[g] {
					for _, a := range cs.Common().Args {
						if root(a) == ssa.Value(sliceParam) {
							if _, isDefer := cs.(*ssa.Defer); !isDefer {
								freeAt = append(freeAt, cs.Block())
							}
						}
					}
				}
			}
			eachInstr(fn, func(_ *ssa.BasicBlock, in ssa.Instruction) {
				if st, ok := in.(*ssa.Store); ok {
					if sn, fld, _, ok := fieldOf(st.Addr); ok && sn == holder.st && fld == holder.fld && !isNilConst(st.Val) {
						storesIdx = true
					}
				}
			})
			rets := returnsOf(fn)
			okc := len(freeAt) > 0 && len(rets) > 0 && !storesIdx
			for _, ret := range rets {
				dom := false
				for _, b := range freeAt {
					if b == ret.Block() || b.Dominates(ret.Block()) {
						dom = true
					}
				}
				if !dom {
					okc = false
				}
			}
			if okc {
				freeFns[fn] = true
				changed = true
			}
		}
	}
	c.add(statusOf(len(freeFns) > 0), "free-routine", "-", "a routine that closes every reconstructed index of a []*vecIndexInfo exists", "no such routine found", props, nil)
	// a free routine that forgets each index it closed (`entry.index = nil` right after the Close) can
	// run twice: the second run finds nothing to close
	idempotent := func(f *ssa.Function) bool {
		if f == nil {
			return false
		}
		okAll, n := true, 0
		var visit func(g *ssa.Function, depth int)
		visit = func(g *ssa.Function, depth int) {
			if depth > 3 {
				okAll = false
				return
			}
			for _, cs := range callSites(g) {
				if iv, isClose := faissCloseOf(cs); isClose {
					sn, fld, base, ok := loadedField(iv)
					if !ok || sn != holder.st || fld != holder.fld {
						continue
					}
					n++
					forgot := false
					for _, in := range cs.Block().Instrs[instrIndexIn(cs):] {
						if st, ok := in.(*ssa.Store); ok && isNilConst(st.Val) {
							if sn2, fld2, base2, ok := fieldOf(st.Addr); ok && sn2 == sn && fld2 == fld && root(base2) == root(base) {
								forgot = true
							}
						}
					}
					if !forgot {
						okAll = false
					}
				} else if h := staticCallee(cs); h != nil && (freeFns[h] || closers[h]) && h != g {
					visit(h, depth+1)
				}
			}
		}
		visit(f, 0)
		return okAll && n > 0
	}
	// methods of the holder that store a native index into their own receiver (`(e *vecIndexInfo) load`):
	// the entry owns the index from then on, the duty to free lies with whoever holds the slice of
	// entries — a call of such a method counts as the store
	fillers := map[*ssa.Function]bool{}
	for _, fn := range c.p.ZapFuncs {
		if fn.Signature.Recv() == nil || len(fn.Params) == 0 || fn.Parent() != nil {
			continue
		}
		if pt, ok := fn.Signature.Recv().Type().Underlying().(*types.Pointer); !ok || !isNamed(pt.Elem(), zapPkgPath, holder.st) {
			continue
		}
		n, own := 0, 0
		eachInstr(fn, func(_ *ssa.BasicBlock, in ssa.Instruction) {
			if st, ok := in.(*ssa.Store); ok {
				if sn, fld, base, ok := fieldOf(st.Addr); ok && sn == holder.st && fld == holder.fld && !isNilConst(st.Val) {
					n++
					if root(base) == ssa.Value(fn.Params[0]) {
						own++
					}
				}
			}
		})
		if n > 0 && n == own {
			fillers[fn] = true
		}
	}
	// functions that store a native index into the holder field
	for _, fn := range c.p.ZapFuncs {
		if fillers[fn] {
			continue
		}
		var storeSites []*ssa.Store
		var fillSites []ssa.Instruction
		eachInstr(fn, func(_ *ssa.BasicBlock, in ssa.Instruction) {
			if st, ok := in.(*ssa.Store); ok {
				if sn, fld, _, ok := fieldOf(st.Addr); ok && sn == holder.st && fld == holder.fld && !isNilConst(st.Val) {
					storeSites = append(storeSites, st)
				}
			}
			if cs, ok := in.(ssa.CallInstruction); ok && fillers[staticCallee(cs)] {
				fillSites = append(fillSites, in)
			}
		})
		if len(storeSites) == 0 && len(fillSites) == 0 {
			continue
		}
		name := funcShortName(fn)
		const (
			evStored = 1 << 0
			evFreed  = 1 << 1
			evDouble = 1 << 2
		)
		var pa *pathAnalysis
		tr := func(in ssa.Instruction, ev uint64, deferred bool) []uint64 {
			if st, ok := in.(*ssa.Store); ok {
				for _, s := range storeSites {
					if s == st {
						return []uint64{(ev | evStored) &^ evFreed}
					}
				}
			}
			for _, fs := range fillSites {
				if fs == in {
					return []uint64{(ev | evStored) &^ evFreed}
				}
			}
			if _, isDefer := in.(*ssa.Defer); isDefer && !deferred {
				return nil // registered here, runs at the exits
			}
			if cs, ok := in.(ssa.CallInstruction); ok {
				f := resolvedCallee(cs)
				frees := f != nil && freeFns[f]
				if f != nil && !frees && deferred && f.Parent() != nil && rootParent(f) == rootParent(fn) && pa != nil && pa.cur != nil {
					// `var freed bool; defer func() { if !freed { freeAll(xs) } }()` with the flag set where the
					// function frees early: what the deferred closure does depends on the flag at this exit
					sub := func(in2 ssa.Instruction, ev2 uint64, _ bool) []uint64 {
						if cs2, ok := in2.(ssa.CallInstruction); ok {
							if g := staticCallee(cs2); g != nil && freeFns[g] {
								return []uint64{ev2 | evFreed}
							}
						}
						return nil
					}
					if cell, whenUnset, whenSet, ok := errGuardedClosure(f, sub); ok && !isErrorType(derefType(cell.Type())) && guardStateAt(cell, pa.cur) != nilUnknown {
						var add uint64
						switch guardStateAt(cell, pa.cur) {
						case nonNil:
							add = whenUnset
						case isNil:
							add = whenSet
						}
						if add&evFreed != 0 {
							if ev&evFreed != 0 && ev&evStored != 0 {
								// a second free on this path: harmless only if the routines forget what they closed
								for g := range freeFns {
									if !idempotent(g) {
										return []uint64{ev | evDouble}
									}
								}
							}
							return []uint64{ev | evFreed}
						}
						return nil
					}
				}
				if f != nil && !frees && f.Parent() != nil && rootParent(f) == rootParent(fn) && onceGuardedFree(f, freeFns) {
					// `freed := false; free := func() { if !freed { freed = true; freeAll(xs) } }`: the first
					// call frees, later ones do nothing
					if ev&evFreed != 0 {
						return nil
					}
					return []uint64{ev | evFreed}
				}
				if f != nil && !frees && f.Parent() != nil && rootParent(f) == rootParent(fn) {
					// a local closure that runs the free routine on every path (`abort`)
					var freeAt []*ssa.BasicBlock
					for _, cs2 := range callSites(f) {
						if g := staticCallee(cs2); g != nil && freeFns[g] {
							if _, isDefer := cs2.(*ssa.Defer); !isDefer {
								freeAt = append(freeAt, cs2.Block())
							}
						}
					}
					rets := returnsOf(f)
					frees = len(rets) > 0 && len(freeAt) > 0
					for _, ret := range rets {
						dom := false
						for _, b := range freeAt {
							if b == ret.Block() || b.Dominates(ret.Block()) {
								dom = true
							}
						}
						if !dom {
							frees = false
						}
					}
				}
				if frees {
					if ev&evFreed != 0 && ev&evStored != 0 && !idempotent(f) {
						return []uint64{ev | evDouble}
					}
					return []uint64{ev | evFreed}
				}
			}
			return nil
		}
		pa = newPathAnalysis(fn, tr)
		pa.run(0)
		// a step of the merge that loads the indexes and leaves freeing them to its callers: every caller
		// registered the free (a deferred call of a free routine, or of a closure that runs one) before it
		// called this step
		callersFree := false
		if fn.Parent() == nil && fn.Object() != nil && !fn.Object().Exported() {
			sites := c.p.callersOf(fn)
			callersFree = len(sites) > 0
			for _, cs := range sites {
				g := cs.Parent()
				covered := false
				eachInstr(g, func(b *ssa.BasicBlock, in ssa.Instruction) {
					d, ok := in.(*ssa.Defer)
					if !ok || !(b == cs.Block() || b.Dominates(cs.Block())) {
						return
					}
					h := resolvedCallee(d)
					if h == nil {
						return
					}
					if freeFns[h] {
						covered = true
					}
					for _, cs2 := range callSites(h) {
						if k := staticCallee(cs2); k != nil && freeFns[k] && h.Parent() != nil {
							covered = true
						}
					}
					// a method of the same object that frees (`defer m.free()`)
					for _, cs2 := range callSites(h) {
						if k := staticCallee(cs2); k != nil && freeFns[k] && h.Parent() == nil && h.Signature.Recv() != nil {
							covered = true
						}
					}
				})
				if !covered {
					callersFree = false
				}
			}
		}
		labels := map[string]int{}
		for _, ret := range returnsOf(fn) {
			if !pa.reachable(ret.Block()) {
				continue
			}
			lbl := exitLabel(ret, labels)
			okc, dbl := true, false
			for _, ev := range pa.statesBefore(ret) {
				if ev&evStored != 0 && ev&evFreed == 0 && !callersFree {
					okc = false
				}
				if ev&evDouble != 0 {
					dbl = true
				}
			}
			v, _ := errorOfReturn(ret)
			c.add(statusOf(okc), name+"/"+lbl+"/freed", c.pos(ret),
				name+": every exit reached after a native index was stored into the per-segment slice is preceded by the routine that closes them",
				"a path stores a reconstructed index and leaves without freeing the reconstructed indexes (native memory leak on this exit)", props, exitWitness(c, ret, v))
			c.add(statusOf(!dbl), name+"/"+lbl+"/freed-once", c.pos(ret),
				name+": reconstructed indexes are closed at most once on the way to this exit",
				"the free routine can run twice on a path to this exit (double Close of a native index)", props, exitWitness(c, ret, v))
		}
	}
}

// onceGuardedFree: closure cl is `if !flag { flag = true; <a free routine> }` on a captured bool flag that
// is false until this closure sets it (its only other store is the initial false).
func onceGuardedFree(cl *ssa.Function, freeFns map[*ssa.Function]bool) bool {
	if len(cl.Blocks) == 0 {
		return false
	}
	entry := cl.Blocks[0]
	iff, ok := entry.Instrs[len(entry.Instrs)-1].(*ssa.If)
	if !ok {
		return false
	}
	cond, neg := iff.Cond, false
	if u, ok := cond.(*ssa.UnOp); ok && u.Op == token.NOT {
		cond, neg = u.X, true
	}
	u, ok := cond.(*ssa.UnOp)
	if !ok || u.Op != token.MUL || !isBoolType(u) {
		return false
	}
	fv, ok := u.X.(*ssa.FreeVar)
	if !ok {
		return false
	}
	cell := cellOf(fv)
	if cell == nil {
		return false
	}
	// the branch taken while the flag is false
	first := entry.Succs[1]
	if neg {
		first = entry.Succs[0]
	}
	setsFlag, frees := false, false
	for _, b := range cl.Blocks {
		if !(b == first || first.Dominates(b)) {
			continue
		}
		for _, in := range b.Instrs {
			if st, ok := in.(*ssa.Store); ok && st.Addr == ssa.Value(fv) {
				if k, ok := constBool(st.Val); ok && k {
					setsFlag = true
				}
			}
			if cs, ok := in.(ssa.CallInstruction); ok {
				if g := staticCallee(cs); g != nil && freeFns[g] {
					if _, isDefer := in.(*ssa.Defer); !isDefer {
						frees = true
					}
				}
			}
		}
	}
	if !setsFlag || !frees {
		return false
	}
	// every other store to the flag is the initial false
	for _, st := range cellStores(cell) {
		if st.Parent() == cl {
			continue
		}
		if k, ok := constBool(st.Val); !ok || k {
			return false
		}
	}
	return true
}

// --- R6e: every produced native index is released or handed over ------------

func r6FaissProducers(c *RuleCtx) {
	handed := map[handedKey][]ssa.CallInstruction{}
	props := []string{"C19", "C16"}
	isProducer := func(f *ssa.Function) bool {
		if f == nil || f.Pkg == nil || f.Pkg.Pkg.Path() != faissModule {
			return false
		}
		res := f.Signature.Results()
		return res.Len() >= 1 && isFaissIndexPtr(res.At(0).Type()) && f.Signature.Recv() == nil
	}
	// functions of this package that hand a native index they produced to their caller by returning it
	// (and in no other way): their call sites are producer sites too. Filled in by the first pass below.
	zapProducers := map[*ssa.Function]bool{}
	nsites := 0
	for pass := 0; pass < 3; pass++ {
		emit := pass == 2
		if emit {
			nsites = 0
		}
		for _, fn := range c.p.ZapFuncs {
			for _, cs := range callSites(fn) {
				call, ok := cs.(*ssa.Call)
				if !ok || !(isProducer(staticCallee(cs)) || zapProducers[staticCallee(cs)]) {
					continue
				}
				nsites++
				idx := extractOf(call, 0)
				perr := extractOf(call, 1)
				if ei := errorResultIndex(call.Call.Signature()); ei >= 0 {
					perr = extractOf(call, ei) // (a producer of the package may hand back more than the index)
				}
				name := funcShortName(fn) + "/" + staticCallee(cs).Name()
				if idx == nil {
					if emit {
						c.badP(props, name+"/bound", c.pos(cs), "the produced native index is bound to a variable", "result discarded: the index can never be closed")
					}
					continue
				}
				const (
					evProduced = 1 << 0
					evReleased = 1 << 1
				)
				// the variable the index lives in, when it is captured by a closure
				var idxCell *ssa.Alloc
				if refs := idx.Referrers(); refs != nil {
					for _, r := range *refs {
						if st, ok := r.(*ssa.Store); ok && st.Val == idx {
							if al, ok := st.Addr.(*ssa.Alloc); ok && len(cellStores(al)) == 1 {
								idxCell = al
							}
						}
					}
				}
				// ... or a variable that is assigned more than once (a named result: `return nil, err` stores
				// nil into it): whether it holds the index depends on where one looks
				var multiCell *ssa.Alloc
				var multiStore *ssa.Store
				if idxCell == nil {
					if refs := idx.Referrers(); refs != nil {
						for _, r := range *refs {
							if st, ok := r.(*ssa.Store); ok && st.Val == idx {
								if al, ok := st.Addr.(*ssa.Alloc); ok && len(cellStores(al)) > 1 {
									multiCell, multiStore = al, st
								}
							}
						}
					}
				}
				const evHeld = 1 << 2 // multiCell currently holds the index
				curEv := uint64(0)
				instrIdx := func(in ssa.Instruction) int {
					for i, x := range in.Block().Instrs {
						if x == in {
							return i
						}
					}
					return -1
				}
				staticHeld := func(l *ssa.UnOp) bool {
					if multiCell == nil || l.Parent() != fn || cellOf(l.X) != multiCell {
						return false
					}
					sb, lb := multiStore.Block(), l.Block()
					if !(sb == lb && instrIdx(multiStore) < instrIdx(l)) && !(sb != lb && sb.Dominates(lb)) {
						return false
					}
					for _, s2 := range cellStores(multiCell) {
						if s2 == multiStore || s2.Parent() != fn {
							if s2 != multiStore {
								return false // assigned in a closure: anything goes
							}
							continue
						}
						b2 := s2.Block()
						after := (b2 == sb && instrIdx(s2) > instrIdx(multiStore)) || (b2 != sb && reachesBlock(sb, b2))
						before := (b2 == lb && instrIdx(s2) < instrIdx(l)) || (b2 != lb && reachesBlock(b2, lb))
						if after && before {
							return false
						}
					}
					return true
				}
				isIdx := func(v ssa.Value) bool {
					if v == nil {
						return false
					}
					if root(v) == idx || sameValue(v, idx) {
						return true
					}
					if idxCell != nil {
						if u, ok := v.(*ssa.UnOp); ok && u.Op == token.MUL && cellOf(u.X) == idxCell {
							return true
						}
					}
					if multiCell != nil {
						if u, ok := root(v).(*ssa.UnOp); ok && u.Op == token.MUL && cellOf(u.X) == multiCell {
							if u.Parent() == fn {
								return staticHeld(u)
							}
							return curEv&evHeld != 0 // in a (deferred) closure: what the variable holds at that exit
						}
					}
					return false
				}
				// the producer closes the index itself somewhere (typically `defer idx.Close()`): a routine it
				// hands the index to only borrows it
				closesMemo := 0
				closesItself := func() bool {
					if closesMemo != 0 {
						return closesMemo == 1
					}
					closesMemo = 2
					scan := func(f *ssa.Function) {
						for _, cs2 := range callSites(f) {
							if iv, ok := faissCloseOf(cs2); ok {
								if isIdx(iv) || (f != fn && isFaissIndexPtr(iv.Type())) {
									closesMemo = 1
								}
							}
						}
					}
					scan(fn)
					for _, f2 := range c.p.ZapFuncs {
						if f2.Parent() != nil && rootParent(f2) == fn {
							scan(f2)
						}
					}
					return closesMemo == 1
				}
				var pa *pathAnalysis
				closureSummary := map[*ssa.Function]uint64{}
				var tr transferFn
				tr = func(in ssa.Instruction, ev uint64, deferred bool) []uint64 {
					if in == ssa.Instruction(call) {
						return []uint64{(ev | evProduced) &^ evReleased}
					}
					curEv = ev
					switch x := in.(type) {
					case *ssa.Store:
						if multiCell != nil && cellOf(x.Addr) == multiCell {
							if x.Val == idx || isIdx(x.Val) {
								return []uint64{ev | evHeld}
							}
							return []uint64{ev &^ evHeld}
						}
						if isIdx(x.Val) {
							if _, _, _, ok := fieldOf(x.Addr); ok {
								return []uint64{ev | evReleased} // ownership moved into a structure
							}
							if g, ok := x.Addr.(*ssa.Global); ok && g != nil {
								return []uint64{ev | evReleased}
							}
						}
					case ssa.CallInstruction:
						if _, isDefer := in.(*ssa.Defer); isDefer && !deferred {
							return nil
						}
						f := staticCallee(x)
						if iv, ok := faissCloseOf(x); ok && isIdx(iv) {
							return []uint64{ev | evReleased}
						}
						if cl := resolvedCallee(x); cl != nil && cl.Parent() != nil && rootParent(cl) == rootParent(fn) {
							// a local closure; a deferred one guarded by the function's error variable
							// (`defer func() { if err != nil { idx.Close() } }()`) acts according to that
							// variable at this exit
							if deferred && pa != nil && pa.cur != nil {
								if cell, whenNonNil, whenNil, ok := errGuardedClosure(cl, tr); ok {
									switch guardStateAt(cell, pa.cur) {
									case nonNil:
										return []uint64{ev | whenNonNil}
									case isNil:
										return []uint64{ev | whenNil}
									}
									return []uint64{ev | (whenNonNil & whenNil)}
								}
							}
							sm, ok := closureSummary[cl]
							if !ok {
								closureSummary[cl] = 0
								sm = mustEvents(cl, tr)
								closureSummary[cl] = sm
							}
							if sm != 0 {
								return []uint64{ev | sm}
							}
							return nil
						}
						if f != nil && c.p.InZap(f) {
							for ai, a := range x.Common().Args {
								if isIdx(a) && isFaissIndexPtr(a.Type()) {
									if ai < len(f.Params) && len(f.Blocks) > 0 && !closesItself() {
										handed[handedKey{f, ai}] = appendSite(handed[handedKey{f, ai}], x)
									}
									return []uint64{ev | evReleased} // handed to a zap routine (cache insert)
								}
							}
						}
					}
					return nil
				}
				pa = newPathAnalysis(fn, tr)
				pa.run(0)
				labels := map[string]int{}
				for _, ret := range returnsOf(fn) {
					if !pa.reachable(ret.Block()) {
						continue
					}
					lbl := exitLabel(ret, labels)
					v, ns := errorOfReturn(ret)
					if v != nil && perr != nil && (sameValue(v, perr) || sameValue(resolveLoad(v), perr)) && ns == nonNil {
						continue
					}
					// ... or the exit lies in the branch where the producer's error (possibly kept in the
					// function's error variable) was found non-nil: nothing was produced
					if perr != nil && ns != isNil && underNonNilTestOf(perr, ret.Block()) {
						continue
					}
					// the producer's own error dressed up by a helper (`return wrapErr("creating index", err)`)
					// in the branch where that error was found non-nil: nothing was produced
					if call, ok := v.(*ssa.Call); ok && perr != nil && ns == nonNil && nilnessAt(perr, ret.Block()) == nonNil {
						wraps := false
						for _, a := range expandedArgs(&call.Call) {
							if sameValue(a, perr) || sameValue(resolveLoad(a), perr) {
								wraps = true
							}
						}
						if wraps {
							continue
						}
					}
					returned := false
					for i := range ret.Results {
						if isIdx(returnedValue(ret, i)) {
							returned = true
						}
					}
					okc := true
					produced := false
					for _, ev := range pa.statesBefore(ret) {
						if ev&evProduced != 0 {
							produced = true
						}
						if ev&evProduced != 0 && ev&evReleased == 0 && !returned {
							okc = false
						}
					}
					if !produced {
						continue // exit not reachable after this producer
					}
					if returned && ns != nonNil && isFaissIndexPtrResult(fn) {
						// hands the index to its caller: the caller's duty from here on
						handsOver := true
						for _, ev := range pa.statesBefore(ret) {
							if ev&evReleased != 0 {
								handsOver = false
							}
						}
						if handsOver {
							zapProducers[fn] = true
						}
					}
					if !emit {
						continue
					}
					c.add(statusOf(okc), name+"/"+lbl+"/released", c.pos(ret),
						"a native index produced in "+funcShortName(fn)+" is closed (directly or deferred), stored into its owner, handed to the cache or returned before this exit",
						"a path leaves with the native index neither closed nor handed over", props, exitWitness(c, ret, v))
				}
			}
		}
	}
	r6HandedIndexes(c, props, handed)
	c.add(statusOf(nsites >= half(3)), "producer-sites", "-", "native index producer call sites are found (confirmed by hand: 3)", fmt.Sprintf("found %d", nsites), props, nil)
}

func isFaissIndexPtrResult(fn *ssa.Function) bool {
	res := fn.Signature.Results()
	return res.Len() >= 1 && isFaissIndexPtr(res.At(0).Type())
}

// exitLabel names an exit by where its error comes from ("exit[err=Flush]",
// "exit[nil]"), with an ordinal only when the same label repeats, so that keys
// survive the insertion of unrelated exits.
func exitLabel(ret *ssa.Return, seen map[string]int) string {
	v, ns := errorOfReturn(ret)
	l := "exit"
	switch {
	case v == nil:
		l = "exit[no-error-result]"
	case isNilConst(v):
		l = "exit[nil]"
	default:
		l = "exit[err=" + valueOrigin(v) + "]"
		if ns == isNil {
			l = "exit[nil-after " + valueOrigin(v) + "]"
		}
	}
	seen[l]++
	if seen[l] > 1 {
		l = fmt.Sprintf("%s#%d", l, seen[l])
	}
	return l
}

func valueOrigin(v ssa.Value) string {
	switch x := root(v).(type) {
	case *ssa.Extract:
		if c, ok := x.Tuple.(*ssa.Call); ok {
			return shortCallee(c)
		}
	case *ssa.Call:
		return shortCallee(x)
	case *ssa.UnOp:
		if g, ok := x.X.(*ssa.Global); ok {
			return g.Name()
		}
		if x.Op == token.MUL {
			if c := cellOf(x.X); c != nil {
				return "var " + c.Comment
			}
		}
	case *ssa.Phi:
		return "phi " + x.Comment
	case *ssa.Parameter:
		return "param " + x.Name()
	}
	return "value"
}

func shortCallee(c *ssa.Call) string {
	if f := c.Call.StaticCallee(); f != nil {
		return f.Name()
	}
	if c.Call.IsInvoke() {
		return c.Call.Method.Name()
	}
	return "dynamic"
}

// storesIntoReceiver: the method (or a zap function it hands its receiver to) stores into a field of the
// receiver or updates a map / slice element reached through it.
func storesIntoReceiver(p *Program, f *ssa.Function, depth int, seen map[*ssa.Function]bool) bool {
	if f == nil || len(f.Blocks) == 0 || len(f.Params) == 0 {
		return true // unknown: assume it may
	}
	if seen[f] || depth > 4 {
		return false
	}
	seen[f] = true
	recv := f.Params[0]
	found := false
	eachInstr(f, func(_ *ssa.BasicBlock, in ssa.Instruction) {
		if found {
			return
		}
		switch x := in.(type) {
		case *ssa.Store:
			if reachedThrough(x.Addr, recv) {
				found = true
			}
		case *ssa.MapUpdate:
			if reachedThrough(x.Map, recv) {
				found = true
			}
		case ssa.CallInstruction:
			for i, a := range x.Common().Args {
				if !reachedThrough(a, recv) || !isPointerLike(a.Type()) {
					continue
				}
				g := staticCallee(x)
				if g == nil || !p.InZap(g) {
					// the segment itself handed to code we cannot see; bytes or tables read out of it and
					// given to a library routine (a checksum, a decoder) are read there
					if types.Identical(a.Type(), recv.Type()) {
						found = true
						return
					}
					continue
				}
				if i == 0 && storesIntoReceiver(p, g, depth+1, seen) {
					found = true
				} else if i != 0 {
					found = true
				}
			}
		}
	})
	return found
}

// reachedThrough: v is recv, or an address / value obtained from it through fields, elements and loads.
func reachedThrough(v ssa.Value, recv ssa.Value) bool {
	for i := 0; i < 16; i++ {
		if v == recv {
			return true
		}
		switch x := v.(type) {
		case *ssa.FieldAddr:
			v = x.X
		case *ssa.IndexAddr:
			v = x.X
		case *ssa.UnOp:
			if x.Op != token.MUL {
				return false
			}
			v = x.X
		case *ssa.Slice:
			v = x.X
		case *ssa.ChangeType:
			v = x.X
		default:
			return false
		}
	}
	return false
}

func isPointerLike(t types.Type) bool {
	switch t.Underlying().(type) {
	case *types.Pointer, *types.Map, *types.Slice, *types.Interface, *types.Chan:
		return true
	}
	return false
}

// r6Detached (R6f DETACHED-INDEX, C19): a function that takes a native index out of its holder (loads
// vecIndexInfo.index and then stores nil into that field) has taken over the duty of releasing it — the
// holder's owner will no longer find it. On every way from the detaching store to a return the index is
// closed (directly or by a deferred Close), handed back to a holder, or was found nil.
func r6Detached(c *RuleCtx) {
	p := c.p
	props := []string{"C19"}
	if p.NamedType("vecIndexInfo") == nil {
		return
	}
	n := 0
	for _, fn := range p.ZapFuncs {
		var detaches []*ssa.Store
		eachInstr(fn, func(_ *ssa.BasicBlock, in ssa.Instruction) {
			if st, ok := in.(*ssa.Store); ok && isNilConst(st.Val) {
				if sn, fld, _, ok := fieldOf(st.Addr); ok && sn == "vecIndexInfo" && fld == "index" {
					detaches = append(detaches, st)
				}
			}
		})
		for _, st := range detaches {
			_, _, base, _ := fieldOf(st.Addr)
			// the index taken out: a load of the same field of the same holder that dominates the store
			var taken ssa.Value
			eachInstr(fn, func(b *ssa.BasicBlock, in ssa.Instruction) {
				u, ok := in.(*ssa.UnOp)
				if !ok || u.Op != token.MUL {
					return
				}
				sn, fld, b2, ok := loadedField(u)
				if !ok || sn != "vecIndexInfo" || fld != "index" || root(b2) != root(base) {
					return
				}
				if b == st.Block() && instrIndexIn(u) < instrIndexIn(st) || (b != st.Block() && b.Dominates(st.Block())) {
					taken = u
				}
			})
			if taken == nil {
				continue
			}
			// closed before it is detached (`entry.index.Close(); entry.index = nil`)? then nothing is owed
			const evClosed = 1
			const evDetached = 2
			isTaken := func(v ssa.Value) bool {
				if v == taken || root(v) == taken {
					return true
				}
				// another load of the same field before the detach is the same index
				if sn, fld, b2, ok := loadedField(v); ok && sn == "vecIndexInfo" && fld == "index" && root(b2) == root(base) {
					return true
				}
				return false
			}
			pa := newPathAnalysis(fn, func(in ssa.Instruction, ev uint64, deferred bool) []uint64 {
				if in == ssa.Instruction(st) {
					return []uint64{ev | evDetached}
				}
				if cs, ok := in.(ssa.CallInstruction); ok {
					if v, ok := faissCloseOf(cs); ok && isTaken(v) {
						return []uint64{ev | evClosed}
					}
				}
				if s2, ok := in.(*ssa.Store); ok && isTaken(s2.Val) {
					// put (back) into a holder
					if sn, fld, _, ok := fieldOf(s2.Addr); ok && sn == "vecIndexInfo" && fld == "index" {
						return []uint64{ev | evClosed}
					}
				}
				return nil
			})
			pa.edgeTr = func(pred *ssa.BasicBlock, succIdx int, ev uint64) uint64 {
				iff, ok := pred.Instrs[len(pred.Instrs)-1].(*ssa.If)
				if !ok {
					return ev
				}
				bo, ok := iff.Cond.(*ssa.BinOp)
				if !ok || !(bo.Op == token.EQL || bo.Op == token.NEQ) {
					return ev
				}
				x := bo.X
				if isNilConst(x) {
					x = bo.Y
				} else if !isNilConst(bo.Y) {
					return ev
				}
				if isTaken(x) && ((bo.Op == token.EQL) == (succIdx == 0)) {
					return ev | evClosed // found nil: nothing to release
				}
				return ev
			}
			pa.run(0)
			n++
			var bad []string
			for _, ret := range returnsOf(fn) {
				for _, ev := range pa.statesBefore(ret) {
					if ev&evDetached != 0 && ev&evClosed == 0 {
						// handed back to the caller?
						handed := false
						for _, r := range ret.Results {
							if isTaken(r) {
								handed = true
							}
						}
						if !handed {
							bad = append(bad, "exit without releasing it: "+describeInstr(p, ret))
							break
						}
					}
				}
			}
			c.add(statusOf(len(bad) == 0), fmt.Sprintf("detached-index/%s#%d", funcShortName(fn), n), c.pos(st),
				funcShortName(fn)+" takes a native index out of its holder (vecIndexInfo.index = nil): it releases that index on every way out",
				"the index was detached from its holder and a way out neither closes it nor puts it back: the holder's owner can no longer release it (native memory leaks)", props, uniq(bad))
		}
	}
}

// recoverPrefix: the closure starts with `r := recover(); if r != nil || <guard>`: returns the block that
// holds the <guard> test (reached when nothing panicked), or nil.
func recoverPrefix(cl *ssa.Function) *ssa.BasicBlock {
	if len(cl.Blocks) == 0 {
		return nil
	}
	entry := cl.Blocks[0]
	iff, ok := entry.Instrs[len(entry.Instrs)-1].(*ssa.If)
	if !ok || len(entry.Succs) != 2 {
		return nil
	}
	bo, ok := iff.Cond.(*ssa.BinOp)
	if !ok || bo.Op != token.NEQ || !(isNilConst(bo.X) || isNilConst(bo.Y)) {
		return nil
	}
	x := bo.X
	if isNilConst(x) {
		x = bo.Y
	}
	call, ok := x.(*ssa.Call)
	if !ok {
		return nil
	}
	if b, ok := call.Call.Value.(*ssa.Builtin); !ok || b.Name() != "recover" {
		return nil
	}
	for _, in := range entry.Instrs {
		if c2, isCall := in.(ssa.CallInstruction); isCall && c2 != ssa.CallInstruction(call) {
			return nil
		}
	}
	next := entry.Succs[1]
	if _, ok := next.Instrs[len(next.Instrs)-1].(*ssa.If); !ok || len(next.Preds) != 1 {
		return nil
	}
	return next
}

// producerCalledWithPath: fn calls one of the file producers directly and hands it one of its own string
// parameters (the path): the producer is judged on its own, fn only wraps it.
func producerCalledWithPath(p *Program, fn *ssa.Function, producers []*ssa.Function) *ssa.Function {
	for _, cs := range callSites(fn) {
		g := staticCallee(cs)
		if g == nil {
			continue
		}
		isProd := false
		for _, pr := range producers {
			if pr == g {
				isProd = true
			}
		}
		if !isProd {
			continue
		}
		for _, a := range cs.Common().Args {
			if prm, ok := root(a).(*ssa.Parameter); ok && prm.Parent() == fn {
				if b, ok := prm.Type().Underlying().(*types.Basic); ok && b.Kind() == types.String {
					return g
				}
			}
		}
	}
	return nil
}

// fileAcquirer: K opens (creates) a file from one of its string parameters and hands the open file back to
// its caller — `func createSegmentFile(path string) (f *os.File, cleanup func(), err error)`. Returns the
// result index of the file, of the error, of a cleanup closure (-1 if none) and the parameter index of
// the path; ok=false if K is not of that shape (then K is a producer itself, if it opens a file at all).
type acquirerInfo struct {
	fileIdx, errIdx, cleanupIdx, pathIdx int
	cleanup                              *ssa.Function
}

func fileAcquirer(p *Program, k *ssa.Function) (acquirerInfo, bool) {
	info := acquirerInfo{-1, -1, -1, -1, nil}
	if k == nil || len(k.Blocks) == 0 || k.Parent() != nil {
		return info, false
	}
	for i := range p.owners {
		if p.owners[i].acquirer == k {
			// hands back the owner of the file (owners.go): the owner stands for the file
			return acquirerInfo{0, 1, -1, p.owners[i].pathParam, nil}, true
		}
	}
	var open *ssa.Call
	for _, cs := range callSites(k) {
		if isCallTo(cs, "os.OpenFile") || isCallTo(cs, "os.Create") {
			call, ok := cs.(*ssa.Call)
			if !ok || open != nil {
				return info, false
			}
			open = call
		}
	}
	if open == nil {
		return info, false
	}
	res := k.Signature.Results()
	for i := 0; i < res.Len(); i++ {
		switch {
		case isNamed(res.At(i).Type(), "os", "File"):
			info.fileIdx = i
		case isErrorType(res.At(i).Type()):
			info.errIdx = i
		default:
			if _, ok := res.At(i).Type().Underlying().(*types.Signature); ok {
				info.cleanupIdx = i
			}
		}
	}
	if info.fileIdx < 0 || info.errIdx < 0 {
		return info, false
	}
	prm, ok := root(open.Call.Args[0]).(*ssa.Parameter)
	if !ok {
		return info, false
	}
	for i, q := range k.Params {
		if q == prm {
			info.pathIdx = i
		}
	}
	if info.pathIdx < 0 {
		return info, false
	}
	file := extractOf(open, 0)
	// every return hands back the opened file (or nil with an error)
	for _, ret := range returnsOf(k) {
		rv := returnedValue(ret, info.fileIdx)
		if isNilConst(rv) || sameValue(rv, file) || sameValue(resolveLoad(rv), file) {
			if info.cleanupIdx >= 0 {
				if mc, ok := resolveLoad(returnedValue(ret, info.cleanupIdx)).(*ssa.MakeClosure); ok {
					info.cleanup, _ = mc.Fn.(*ssa.Function)
				}
			}
			continue
		}
		return info, false
	}
	// K itself neither writes nor finishes the file (otherwise it is a producer of its own)
	for _, cs := range callSites(k) {
		if cs == ssa.CallInstruction(open) {
			continue
		}
		for _, a := range cs.Common().Args {
			if sameValue(a, file) {
				return info, false
			}
		}
	}
	return info, true
}

// expandedArgs: the arguments of a call, with a variadic slice built at the call site replaced by the
// values stored into it (interface conversions looked through) — `fmt.Errorf("...: %w", err)` passes err.
func expandedArgs(cc *ssa.CallCommon) []ssa.Value {
	var out []ssa.Value
	for _, a := range cc.Args {
		sl, ok := a.(*ssa.Slice)
		if !ok {
			out = append(out, a)
			continue
		}
		al, ok := sl.X.(*ssa.Alloc)
		if !ok || al.Comment != "varargs" || al.Referrers() == nil {
			out = append(out, a)
			continue
		}
		for _, r := range *al.Referrers() {
			ia, ok := r.(*ssa.IndexAddr)
			if !ok || ia.Referrers() == nil {
				continue
			}
			for _, r2 := range *ia.Referrers() {
				if st, ok := r2.(*ssa.Store); ok && st.Addr == ssa.Value(ia) {
					v := st.Val
					if mi, ok := v.(*ssa.MakeInterface); ok {
						v = mi.X
					}
					if ct, ok := v.(*ssa.ChangeInterface); ok {
						v = ct.X
					}
					out = append(out, v)
				}
			}
		}
	}
	return out
}

// flagGuardedHelper: a package-level routine of a file owner whose first test is on a bool field of the
// owner (`func (sf *segmentFile) discardUnlessCommitted() { if sf.committed { return }; cleanup }`).
// Returns what it certainly does to the file / path when the field is set and when it is not.
func flagGuardedHelper(p *Program, callee *ssa.Function, args []ssa.Value, file, pathArg ssa.Value) (whenSet, whenUnset uint64, ok bool) {
	if callee == nil || len(callee.Blocks) == 0 || callee.Parent() != nil {
		return 0, 0, false
	}
	entry := callee.Blocks[0]
	iff, isIf := entry.Instrs[len(entry.Instrs)-1].(*ssa.If)
	if !isIf {
		return 0, 0, false
	}
	cond, neg := iff.Cond, false
	if u, isU := cond.(*ssa.UnOp); isU && u.Op == token.NOT {
		cond, neg = u.X, true
	}
	u, isU := cond.(*ssa.UnOp)
	if !isU || u.Op != token.MUL || !isBoolType(u) {
		return 0, 0, false
	}
	fa, isFA := u.X.(*ssa.FieldAddr)
	if !isFA || ownerOfType(p.owners, fa.X.Type()) == nil {
		return 0, 0, false
	}
	if _, isPrm := fa.X.(*ssa.Parameter); !isPrm {
		return 0, 0, false
	}
	for _, in := range entry.Instrs {
		if _, isCall := in.(ssa.CallInstruction); isCall {
			return 0, 0, false
		}
	}
	pf, pp := r6HelperBind(p, callee, args, file, pathArg)
	if pf == nil && pp == nil {
		return 0, 0, false
	}
	tr := r6HelperTr(p, callee, pf, pp, 0)
	t, f := guardSide(callee, entry, true, tr)&7, guardSide(callee, entry, false, tr)&7
	if neg {
		return f, t, true // true edge = flag not set
	}
	return t, f, true
}

// underNonNilTestOf: block b is dominated by the non-nil side of a test of the error value e (or of a
// variable that, at the test, holds e).
func underNonNilTestOf(e ssa.Value, b *ssa.BasicBlock) bool {
	for x := b; x != nil; x = x.Idom() {
		pb := x.Idom()
		if pb == nil {
			break
		}
		iff, ok := pb.Instrs[len(pb.Instrs)-1].(*ssa.If)
		if !ok || len(pb.Succs) != 2 || len(x.Preds) != 1 || x.Preds[0] != pb {
			continue
		}
		t, nilWhen, ok := errNilTest(iff.Cond)
		if !ok {
			continue
		}
		if !(sameValue(t, e) || sameValue(resolveLoad(t), e)) {
			continue
		}
		if (pb.Succs[0] == x) != nilWhen {
			return true
		}
	}
	return false
}

type handedKey struct {
	f  *ssa.Function
	pi int
}

// r6HandedIndexes: a routine of the package that a producer hands its native index to (the call counts as
// the release there) owns it from then on: on every path to every return it has closed the index, stored
// it into an owner (a field, a global), handed it on to another routine of the package — judged the same
// way — or returns it. The parameter is followed as a variable: an assignment to it (`index, … =
// entry.load()`) ends what it held.
func appendSite(l []ssa.CallInstruction, x ssa.CallInstruction) []ssa.CallInstruction {
	for _, y := range l {
		if y == x {
			return l
		}
	}
	return append(l, x)
}

// absentAtCall: the call site cs (in its function) is dominated by the "no entry" side of a look-up, in the
// map held in field sn.fld of the value passed as argument `recvArg`, of the value passed as argument
// `keyArg` — `entry := vc.cache[id]; if entry != nil { … return }` or `_, ok := vc.cache[id]; if !ok`.
func absentAtCall(cs ssa.CallInstruction, sn, fld string, recvArg, keyArg int) bool {
	args := cs.Common().Args
	if recvArg >= len(args) || keyArg >= len(args) {
		return false
	}
	fn := cs.Parent()
	found := false
	eachInstr(fn, func(_ *ssa.BasicBlock, in ssa.Instruction) {
		lk, ok := in.(*ssa.Lookup)
		if !ok || found {
			return
		}
		s2, f2, base, ok := loadedField(lk.X)
		if !ok || s2 != sn || f2 != fld || !sameValue(base, args[recvArg]) || !sameValue(lk.Index, args[keyArg]) {
			return
		}
		// the tests of its result
		var val, okv ssa.Value
		if lk.CommaOk {
			val, okv = extractOfTuple(lk, 0), extractOfTuple(lk, 1)
		} else {
			val = lk
		}
		for _, b := range fn.Blocks {
			iff, isIf := b.Instrs[len(b.Instrs)-1].(*ssa.If)
			if !isIf || len(b.Succs) != 2 {
				continue
			}
			absentIdx := -1
			cond, neg := iff.Cond, false
			if u, isU := cond.(*ssa.UnOp); isU && u.Op == token.NOT {
				cond, neg = u.X, true
			}
			if okv != nil && cond == okv {
				absentIdx = 1
				if neg {
					absentIdx = 0
				}
			}
			if bo, isBO := cond.(*ssa.BinOp); isBO && val != nil && (bo.Op == token.EQL || bo.Op == token.NEQ) {
				if (bo.X == val && isNilConst(bo.Y)) || (bo.Y == val && isNilConst(bo.X)) {
					absentIdx = 0
					if bo.Op == token.NEQ {
						absentIdx = 1
					}
					if neg {
						absentIdx = 1 - absentIdx
					}
				}
			}
			if absentIdx < 0 {
				continue
			}
			side := b.Succs[absentIdx]
			if len(side.Preds) == 1 && (side == cs.Block() || side.Dominates(cs.Block())) && !unlockedBetween(lk, cs) {
				found = true
			}
		}
	})
	return found
}

func extractOfTuple(t ssa.Value, idx int) ssa.Value {
	if t.Referrers() == nil {
		return nil
	}
	for _, r := range *t.Referrers() {
		if ex, ok := r.(*ssa.Extract); ok && ex.Index == idx {
			return ex
		}
	}
	return nil
}

func r6HandedIndexes(c *RuleCtx, props []string, handed map[handedKey][]ssa.CallInstruction) {
	done := map[handedKey]bool{}
	n := 0
	for len(handed) > len(done) && n < 32 {
		var keys []handedKey
		for k := range handed {
			if !done[k] {
				keys = append(keys, k)
			}
		}
		sort.Slice(keys, func(i, j int) bool {
			if keys[i].f.String() != keys[j].f.String() {
				return keys[i].f.String() < keys[j].f.String()
			}
			return keys[i].pi < keys[j].pi
		})
		for _, k := range keys {
			done[k] = true
			n++
			fn, prm := k.f, k.f.Params[k.pi]
			// the parameter spilled into a variable (it is assigned to, or captured)
			var cell *ssa.Alloc
			if refs := prm.Referrers(); refs != nil {
				for _, r := range *refs {
					if st, ok := r.(*ssa.Store); ok && st.Val == ssa.Value(prm) {
						if al, ok := st.Addr.(*ssa.Alloc); ok {
							cell = al
						}
					}
				}
			}
			const (
				evHeld     = 1 << 0 // the variable still holds what was handed in
				evReleased = 1 << 1
			)
			cur := uint64(0)
			isIdx := func(v ssa.Value) bool {
				if v == nil {
					return false
				}
				if root(v) == ssa.Value(prm) {
					return true
				}
				if cell != nil {
					if u, ok := root(v).(*ssa.UnOp); ok && u.Op == token.MUL && cellOf(u.X) == cell {
						return cur&evHeld != 0
					}
				}
				return false
			}
			var tr transferFn
			tr = func(in ssa.Instruction, ev uint64, deferred bool) []uint64 {
				cur = ev
				switch x := in.(type) {
				case *ssa.Store:
					if cell != nil && cellOf(x.Addr) == cell {
						if x.Val == ssa.Value(prm) || isIdx(x.Val) {
							return []uint64{ev | evHeld}
						}
						return []uint64{ev &^ evHeld}
					}
					if isIdx(x.Val) {
						if _, _, _, ok := fieldOf(x.Addr); ok {
							return []uint64{ev | evReleased}
						}
						if _, ok := x.Addr.(*ssa.Global); ok {
							return []uint64{ev | evReleased}
						}
					}
				case ssa.CallInstruction:
					if _, isDefer := in.(*ssa.Defer); isDefer && !deferred {
						return nil
					}
					if iv, ok := faissCloseOf(x); ok && isIdx(iv) {
						return []uint64{ev | evReleased}
					}
					if f := staticCallee(x); f != nil && c.p.InZap(f) {
						for ai, a := range x.Common().Args {
							if isIdx(a) && isFaissIndexPtr(a.Type()) {
								if ai < len(f.Params) && len(f.Blocks) > 0 {
									handed[handedKey{f, ai}] = appendSite(handed[handedKey{f, ai}], x)
								}
								return []uint64{ev | evReleased}
							}
						}
					}
				}
				return nil
			}
			pa := newPathAnalysis(fn, tr)
			// a look-up in the owner's table, by a key that is a parameter, that every handing caller has
			// just made itself and found no entry for (under the lock both hold): the "entry exists" side
			// cannot be taken
			infeasible := map[*ssa.BasicBlock]int{}
			for _, b := range fn.Blocks {
				iff, isIf := b.Instrs[len(b.Instrs)-1].(*ssa.If)
				if !isIf || len(b.Succs) != 2 {
					continue
				}
				cond, neg := iff.Cond, false
				if u, isU := cond.(*ssa.UnOp); isU && u.Op == token.NOT {
					cond, neg = u.X, true
				}
				var lk *ssa.Lookup
				presentIdx := -1
				if ex, isEx := cond.(*ssa.Extract); isEx && ex.Index == 1 {
					if l, isL := ex.Tuple.(*ssa.Lookup); isL && l.CommaOk {
						lk, presentIdx = l, 0
					}
				}
				if bo, isBO := cond.(*ssa.BinOp); isBO && (bo.Op == token.EQL || bo.Op == token.NEQ) {
					other := bo.X
					if isNilConst(bo.X) {
						other = bo.Y
					} else if !isNilConst(bo.Y) {
						other = nil
					}
					if other != nil {
						if l, isL := other.(*ssa.Lookup); isL && !l.CommaOk {
							lk, presentIdx = l, 1
							if bo.Op == token.NEQ {
								presentIdx = 0
							}
						} else if ex, isEx := other.(*ssa.Extract); isEx && ex.Index == 0 {
							if l, isL := ex.Tuple.(*ssa.Lookup); isL {
								lk, presentIdx = l, 1
								if bo.Op == token.NEQ {
									presentIdx = 0
								}
							}
						}
					}
				}
				if lk == nil {
					continue
				}
				if neg {
					presentIdx = 1 - presentIdx
				}
				sn, fld, base, ok := loadedField(lk.X)
				if !ok {
					continue
				}
				recvArg, keyArg := -1, -1
				for i, q := range fn.Params {
					if root(base) == ssa.Value(q) {
						recvArg = i
					}
					if root(lk.Index) == ssa.Value(q) {
						keyArg = i
					}
				}
				if recvArg < 0 || keyArg < 0 || len(handed[k]) == 0 {
					continue
				}
				all := true
				for _, cs := range handed[k] {
					if !absentAtCall(cs, sn, fld, recvArg, keyArg) {
						all = false
					}
				}
				if all {
					infeasible[b] = presentIdx
				}
			}
			pa.edge = func(pred, succ *ssa.BasicBlock, _ uint64) bool {
				if i, ok := infeasible[pred]; ok && pred.Succs[i] == succ && pred.Succs[0] != pred.Succs[1] {
					return false
				}
				return true
			}
			init := uint64(evHeld)
			pa.run(init)
			labels := map[string]int{}
			for _, ret := range returnsOf(fn) {
				if !pa.reachable(ret.Block()) {
					continue
				}
				lbl := exitLabel(ret, labels)
				okc := true
				for _, ev := range pa.statesBefore(ret) {
					cur = ev
					returned := false
					for i := range ret.Results {
						if isIdx(returnedValue(ret, i)) {
							returned = true
						}
					}
					if ev&evReleased == 0 && !returned {
						okc = false
					}
				}
				v, _ := errorOfReturn(ret)
				c.add(statusOf(okc), "handed-index/"+funcShortName(fn)+"/"+lbl, c.pos(ret),
					"the native index handed to "+funcShortName(fn)+" (the caller's release) is closed, stored into an owner, handed on or returned before this exit",
					"a path leaves "+funcShortName(fn)+" with the index it was handed neither closed nor kept: nobody can close it any more", props, exitWitness(c, ret, v))
			}
		}
	}
}

// unlockedBetween: some mutex is released (not deferred) on a way from instruction a to instruction b of
// the same function — what was learnt under the lock at a need not hold at b.
func unlockedBetween(a, b ssa.Instruction) bool {
	fn := a.Parent()
	idx := func(in ssa.Instruction) int {
		for i, x := range in.Block().Instrs {
			if x == in {
				return i
			}
		}
		return -1
	}
	bad := false
	eachInstr(fn, func(blk *ssa.BasicBlock, in ssa.Instruction) {
		cs, ok := in.(*ssa.Call)
		if !ok || bad {
			return
		}
		_, op, _ := mutexOp(cs)
		if op != "Unlock" && op != "RUnlock" {
			return
		}
		after := (blk == a.Block() && idx(in) > idx(a)) || (blk != a.Block() && reachesBlock(a.Block(), blk))
		before := (blk == b.Block() && idx(in) < idx(b)) || (blk != b.Block() && reachesBlock(blk, b.Block()))
		if after && before {
			bad = true
		}
	})
	return bad
}

// resetOnto: r is a *bufio.Writer (possibly behind a type assertion) on which Reset(x) is called with an x
// that wraps target.
func resetOnto(r, target ssa.Value, depth int) bool {
	seen := map[ssa.Value]bool{}
	work := []ssa.Value{r}
	for len(work) > 0 && len(seen) < 16 {
		v := work[len(work)-1]
		work = work[:len(work)-1]
		if seen[v] || v.Referrers() == nil {
			continue
		}
		seen[v] = true
		for _, ref := range *v.Referrers() {
			switch x := ref.(type) {
			case *ssa.TypeAssert:
				work = append(work, x)
			case *ssa.ChangeType:
				work = append(work, x)
			case *ssa.Extract:
				work = append(work, x)
			case *ssa.Store:
				// kept in a local variable: the loads that see this very store
				if cell := cellOf(x.Addr); cell != nil && x.Val == v {
					for _, r2 := range *cell.Referrers() {
						if ld, ok := r2.(*ssa.UnOp); ok && ld.Op == token.MUL && resolveLoad(ld) == v {
							work = append(work, ld)
						}
					}
				}
			case ssa.CallInstruction:
				if f := staticCallee(x); f != nil && f.String() == "(*bufio.Writer).Reset" && len(x.Common().Args) == 2 && x.Common().Args[0] == v {
					if !isNilConst(x.Common().Args[1]) && wraps(x.Common().Args[1], target, depth+1) {
						return true
					}
				}
			}
		}
	}
	return false
}

// isWriterInterfaceOrPtr: t has a Write method (an io.Writer, *bufio.Writer, *CountHashWriter, ...).
func isWriterInterfaceOrPtr(t types.Type) bool {
	if isWriterInterface(t) {
		return true
	}
	ms := types.NewMethodSet(t)
	for i := 0; i < ms.Len(); i++ {
		if ms.At(i).Obj().Name() == "Write" {
			return true
		}
	}
	return false
}

// panicOnlyRegion: the closure starts with `if r := recover(); r != nil { … }`: returns the block that is
// entered only when a panic was recovered (nil if the closure is not of that shape).
func panicOnlyRegion(cl *ssa.Function) *ssa.BasicBlock {
	if len(cl.Blocks) == 0 {
		return nil
	}
	entry := cl.Blocks[0]
	iff, ok := entry.Instrs[len(entry.Instrs)-1].(*ssa.If)
	if !ok || len(entry.Succs) != 2 {
		return nil
	}
	bo, ok := iff.Cond.(*ssa.BinOp)
	if !ok || (bo.Op != token.NEQ && bo.Op != token.EQL) || !(isNilConst(bo.X) || isNilConst(bo.Y)) {
		return nil
	}
	x := bo.X
	if isNilConst(x) {
		x = bo.Y
	}
	call, ok := x.(*ssa.Call)
	if !ok {
		return nil
	}
	if b, ok := call.Call.Value.(*ssa.Builtin); !ok || b.Name() != "recover" {
		return nil
	}
	side := entry.Succs[0]
	if bo.Op == token.EQL {
		side = entry.Succs[1]
	}
	if len(side.Preds) != 1 {
		return nil
	}
	return side
}
