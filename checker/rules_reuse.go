package main

// R11 DECODE-TYPESTATE — a decoded postings list has a defined encoding tag.
// R12 REUSE-RESET     — preallocated objects are fully reset before reuse.

import (
	"fmt"
	"go/token"
	"go/types"
	"sort"
	"strings"

	"golang.org/x/tools/go/ssa"
)

// isZeroStructStore: `*p = T{}`.
func isZeroStructStore(st *ssa.Store) bool {
	k, ok := st.Val.(*ssa.Const)
	if !ok || k.Value != nil {
		return false
	}
	_, isStruct := k.Type().Underlying().(*types.Struct)
	return isStruct
}

// storesSubStructWith: st assigns, as a whole, a struct-typed field of the object recv points to that
// holds a field called fld (`rv.oneHit = oneHit{}` for the tag inside the embedded oneHit).
func storesSubStructWith(st *ssa.Store, recv ssa.Value, fld string) bool {
	fa, ok := st.Addr.(*ssa.FieldAddr)
	if !ok || root(fa.X) != recv {
		return false
	}
	inner, ok := derefType(fa.Type()).Underlying().(*types.Struct)
	if !ok {
		return false
	}
	if _, whole := wholeStructStore(st); !whole {
		// a copy of another object's sub-struct (`rv.oneHit = p.oneHit`) assigns every field too
		if _, isLoad := st.Val.(*ssa.UnOp); !isLoad {
			return false
		}
	}
	for j := 0; j < inner.NumFields(); j++ {
		if inner.Field(j).Name() == fld {
			return true
		}
	}
	return false
}

// mustStoreField: on every path of fn to every return, field `fld` of the
// struct its receiver (param 0) points to is stored (directly, by a whole
// struct store, or by a callee on the same receiver).
func (p *Program) mustStoreField(fn *ssa.Function, sn, fld string, depth int) bool {
	if len(fn.Params) == 0 || len(fn.Blocks) == 0 || depth > 3 {
		return false
	}
	recv := fn.Params[0]
	tr := func(in ssa.Instruction, ev uint64, _ bool) []uint64 {
		switch x := in.(type) {
		case *ssa.Store:
			if s, f, base, ok := fieldOf(x.Addr); ok && s == sn && f == fld && root(base) == ssa.Value(recv) {
				return []uint64{ev | 1}
			}
			if x.Addr == ssa.Value(recv) {
				return []uint64{ev | 1}
			}
			if storesSubStructWith(x, recv, fld) {
				return []uint64{ev | 1}
			}
		case ssa.CallInstruction:
			if _, isDefer := in.(*ssa.Defer); isDefer {
				return nil
			}
			callee := staticCallee(x)
			if callee != nil && p.InZap(callee) && len(x.Common().Args) > 0 && root(x.Common().Args[0]) == ssa.Value(recv) && callee.Signature.Recv() != nil {
				if p.mustStoreField(callee, sn, fld, depth+1) {
					return []uint64{ev | 1}
				}
			}
		}
		return nil
	}
	pa := newPathAnalysis(fn, tr)
	pa.run(0)
	any := false
	for _, ret := range returnsOf(fn) {
		for _, ev := range pa.statesBefore(ret) {
			any = true
			if ev&1 == 0 {
				return false
			}
		}
	}
	return any
}

// wholeStructStore: `*p = T{}` (tmp == nil) or `*p = T{f: v, ...}` (tmp is the
// composite literal's temporary, whose field stores say what is kept).
func wholeStructStore(st *ssa.Store) (tmp *ssa.Alloc, ok bool) {
	if isZeroStructStore(st) {
		return nil, true
	}
	u, isU := st.Val.(*ssa.UnOp)
	if !isU || u.Op != token.MUL {
		return nil, false
	}
	al, isA := u.X.(*ssa.Alloc)
	if !isA || al.Comment != "complit" {
		return nil, false
	}
	if _, isStruct := derefType(al.Type()).Underlying().(*types.Struct); !isStruct {
		return nil, false
	}
	return al, true
}

// resetHelper: callee is a method that replaces the whole struct its receiver
// points to on every path (the reset written as a method of the reused type).
func resetHelper(callee *ssa.Function) *ssa.Store {
	if callee == nil || len(callee.Blocks) == 0 || callee.Signature.Recv() == nil || len(callee.Params) == 0 {
		return nil
	}
	var zero *ssa.Store
	eachInstr(callee, func(_ *ssa.BasicBlock, in ssa.Instruction) {
		if st, ok := in.(*ssa.Store); ok && st.Addr == ssa.Value(callee.Params[0]) {
			if _, ok := wholeStructStore(st); ok {
				zero = st
			}
		}
	})
	if zero == nil {
		return nil
	}
	for _, ret := range returnsOf(callee) {
		if !(zero.Block() == ret.Block() || zero.Block().Dominates(ret.Block())) {
			return nil
		}
	}
	return zero
}

type zeroEvent struct {
	at   ssa.Instruction
	addr ssa.Value
}

// returnsFreshOrReset: every value fn returns (result 0) is a fresh allocation
// or a parameter that was whole-struct reset on the way (by a store, or by a
// reset method called on it).
func returnsFreshOrReset(fn *ssa.Function) bool {
	if len(fn.Blocks) == 0 {
		return false
	}
	var zeroStores []zeroEvent
	eachInstr(fn, func(_ *ssa.BasicBlock, in ssa.Instruction) {
		if st, ok := in.(*ssa.Store); ok {
			if _, ok := wholeStructStore(st); ok {
				zeroStores = append(zeroStores, zeroEvent{st, st.Addr})
			}
		}
		if cs, ok := in.(*ssa.Call); ok {
			if resetHelper(cs.Call.StaticCallee()) != nil && len(cs.Call.Args) > 0 {
				zeroStores = append(zeroStores, zeroEvent{cs, cs.Call.Args[0]})
			}
		}
	})
	var okVal func(v ssa.Value, at *ssa.BasicBlock, seen map[ssa.Value]bool) bool
	okVal = func(v ssa.Value, at *ssa.BasicBlock, seen map[ssa.Value]bool) bool {
		// zeroed under this very name (`if rv == nil { rv = &T{} }; rv.reset(); return rv`: the name is a phi)
		for _, st := range zeroStores {
			if st.addr == v && (st.at.Block() == at || st.at.Block().Dominates(at)) {
				return true
			}
		}
		switch x := v.(type) {
		case *ssa.Alloc:
			return true
		case *ssa.Parameter:
			for _, st := range zeroStores {
				if st.addr == ssa.Value(x) && (st.at.Block() == at || st.at.Block().Dominates(at)) {
					return true
				}
			}
			return false
		case *ssa.Phi:
			if seen[v] {
				return true
			}
			seen[v] = true
			for i, e := range x.Edges {
				if !okVal(e, x.Block().Preds[i], seen) {
					return false
				}
			}
			return true
		}
		return false
	}
	rets := returnsOf(fn)
	if len(rets) == 0 {
		return false
	}
	for _, ret := range rets {
		if len(ret.Results) == 0 {
			return false
		}
		if !okVal(ret.Results[0], ret.Block(), map[ssa.Value]bool{}) {
			return false
		}
	}
	return true
}

func ruleR11() *Rule {
	return &Rule{
		ID:    "R11",
		Title: "DECODE-TYPESTATE: after a successful read the postings list's encoding tag describes the entry just decoded",
		Props: []string{"C08", "C07"},
		Floor: floorFor("R11"),
		Run: func(c *RuleCtx) {
			const sn, tag = "PostingsList", "normBits1Hit"
			read := c.method(sn, "read")
			if read == nil {
				return
			}
			if !structHasField(c.p, sn, tag) {
				c.undecided("anchor/"+sn+"."+tag, "-", "the encoding tag field exists", "field not found")
				return
			}
			// readers of the tag (who relies on it)
			nReaders := 0
			for _, fn := range c.p.ZapFuncs {
				eachInstr(fn, func(_ *ssa.BasicBlock, in ssa.Instruction) {
					if u, ok := in.(*ssa.UnOp); ok && isLoadOfField(u, sn, tag) {
						nReaders++
					}
				})
			}
			c.check(nReaders >= half(4), "tag-readers", "-", "functions that discriminate on the tag are found (Count, OrInto, Iterator, iterator)", fmt.Sprintf("found %d loads of the tag", nReaders))

			// (A) every possibly-successful exit of read has the tag stored
			recv := read.Params[0]
			tr := func(in ssa.Instruction, ev uint64, _ bool) []uint64 {
				switch x := in.(type) {
				case *ssa.Store:
					if s, f, base, ok := fieldOf(x.Addr); ok && s == sn && f == tag && root(base) == ssa.Value(recv) {
						return []uint64{ev | 1}
					}
					if x.Addr == ssa.Value(recv) {
						return []uint64{ev | 1}
					}
					if storesSubStructWith(x, recv, tag) {
						return []uint64{ev | 1}
					}
				case ssa.CallInstruction:
					callee := staticCallee(x)
					if callee != nil && c.p.InZap(callee) && callee.Signature.Recv() != nil && len(x.Common().Args) > 0 && root(x.Common().Args[0]) == ssa.Value(recv) {
						if c.p.mustStoreField(callee, sn, tag, 0) {
							return []uint64{ev | 1}
						}
					}
				}
				return nil
			}
			pa := newPathAnalysis(read, tr)
			pa.run(0)
			var failingExits []string
			for _, ret := range returnsOf(read) {
				if !pa.reachable(ret.Block()) {
					continue
				}
				_, ns := errorOfReturn(ret)
				if ns == nonNil {
					continue
				}
				for _, ev := range pa.statesBefore(ret) {
					if ev&1 == 0 {
						failingExits = append(failingExits, "success exit without a store to the tag: "+describeInstr(c.p, ret))
						break
					}
				}
			}
			aHolds := len(failingExits) == 0
			// (B) every call site decodes into a freshly initialised object
			var failingSites []string
			nSites := 0
			for _, cs := range c.p.callersOf(read) {
				if !c.p.InZap(cs.Parent()) {
					continue
				}
				nSites++
				r := root(cs.Common().Args[0])
				ok := false
				switch x := r.(type) {
				case *ssa.Call:
					if f := x.Call.StaticCallee(); f != nil && c.p.InZap(f) && returnsFreshOrReset(f) {
						ok = true
					}
				case *ssa.Alloc:
					ok = x.Parent() == cs.Parent()
					// a second read into the same fresh object is not fresh any more
					n := 0
					for _, cs2 := range callSites(cs.Parent()) {
						if staticCallee(cs2) == read && root(cs2.Common().Args[0]) == r {
							n++
						}
					}
					if n > 1 {
						ok = false
					}
				}
				if ok {
					// also: no other read on the same value before this one in the function
					n := 0
					for _, cs2 := range callSites(cs.Parent()) {
						if staticCallee(cs2) == read && root(cs2.Common().Args[0]) == r {
							n++
						}
					}
					if n > 1 {
						ok = false
					}
				}
				if !ok {
					failingSites = append(failingSites, "decodes into an object that persists across calls: "+describeInstr(c.p, cs)+" in "+funcShortName(cs.Parent()))
				}
			}
			bHolds := nSites > 0 && len(failingSites) == 0
			w := append(append([]string{}, failingExits...), failingSites...)
			c.check(aHolds || bHolds, "PostingsList.read/encoding-tag-defined", c.fpos(read),
				"either read stores the encoding tag on every successful path, or every caller decodes into a freshly initialised list",
				"read leaves the 1-hit tag untouched on a successful path AND some caller reuses the object across entries: after a 1-hit entry every later general entry is interpreted as 1-hit (Count()==1, wrong postings)", w...)
			c.check(nSites >= 1, "PostingsList.read/call-sites", "-", "call sites of read are found (confirmed by hand: 2)", fmt.Sprintf("found %d", nSites))
		},
	}
}

// ---------------------------------------------------------------------------

type reuseSpec struct {
	Type, Method string   // function: method Type.Method
	Struct       string   // the reused struct
	Allow        []string // fields that may be carried over
	Clean        map[string]string
	Vectors      bool
	Props        []string
}

var reuseTable = []reuseSpec{
	// the merges reuse one list and one iterator across all terms, fields and segments: C06 / C13
	{"Dictionary", "postingsListInit", "PostingsList", []string{"postings"}, map[string]string{"postings": "Clear"}, false, []string{"C07", "C06"}},
	{"PostingsList", "iterator", "PostingsIterator", []string{"freqNormReader", "locReader", "nextLocs", "nextSegmentLocs", "buf"},
		map[string]string{"freqNormReader": "reset", "locReader": "reset"}, false, []string{"C07", "C06"}},
	{"Thesaurus", "synonymsListInit", "SynonymsList", []string{"synonyms", "buffer"}, map[string]string{"synonyms": "Clear"}, false, []string{"C07", "C13", "C12"}},
	{"SynonymsList", "iterator", "SynonymsIterator", nil, nil, false, []string{"C07", "C13", "C12"}},
	{"VecPostingsList", "iterator", "VecPostingsIterator", nil, nil, true, []string{"C07"}},
}

func ruleR12() *Rule {
	return &Rule{
		ID:    "R12",
		Title: "REUSE-RESET: a caller-supplied object is zeroed completely before reuse, except tabled buffers that are cleaned",
		Props: []string{"C07", "C06", "C13", "C12"},
		Floor: floorFor("R12"),
		Run: func(c *RuleCtx) {
			for i := range reuseTable {
				sp := &reuseTable[i]
				if sp.Vectors && !c.p.Cfg.Vectors {
					continue
				}
				from := len(c.obs)
				fn := c.p.Method(sp.Type, sp.Method)
				var discovered *ssa.Parameter
				if fn == nil {
					// the reset has moved (onto the reused type itself, say): the routine that replaces the
					// whole struct its parameter or receiver points to is the one to judge
					for _, g := range c.p.ZapFuncs {
						if g.Parent() != nil || len(g.Blocks) == 0 || fn != nil {
							continue
						}
						for _, q := range g.Params {
							if _, isPtr := q.Type().Underlying().(*types.Pointer); !isPtr || !isNamed(q.Type(), zapPkgPath, sp.Struct) {
								continue
							}
							eachInstr(g, func(_ *ssa.BasicBlock, in ssa.Instruction) {
								if st, ok := in.(*ssa.Store); ok && st.Addr == ssa.Value(q) {
									if _, ok := wholeStructStore(st); ok {
										fn, discovered = g, q
									}
								}
							})
						}
					}
				}
				if fn == nil {
					fn = c.method(sp.Type, sp.Method)
				}
				// every obligation of this row serves the row's properties
				defer func(from int, props []string) {
					for j := from; j < len(c.obs); j++ {
						if c.obs[j].Props == nil {
							c.obs[j].Props = props
						}
					}
				}(from, sp.Props)
				if fn == nil {
					continue
				}
				name := sp.Type + "." + sp.Method
				var prm *ssa.Parameter
				for _, p := range fn.Params[1:] {
					if isNamed(p.Type(), zapPkgPath, sp.Struct) {
						if _, ok := p.Type().Underlying().(*types.Pointer); ok {
							prm = p
						}
					}
				}
				if discovered != nil {
					prm, name = discovered, funcShortName(fn)
				}
				if prm == nil {
					c.undecided(name+"/reuse-param", c.fpos(fn), "the reusable *"+sp.Struct+" parameter is found", "no such parameter")
					continue
				}
				nt := c.p.NamedType(sp.Struct)
				st := nt.Underlying().(*types.Struct)
				allow := map[string]bool{}
				for _, f := range sp.Allow {
					allow[f] = true
					if !structHasField(c.p, sp.Struct, f) {
						c.undecided(name+"/allow/"+f, "-", "tabled carry-over field exists", "field "+f+" not found in "+sp.Struct)
					}
				}
				// where the reset is written: in fn itself, or in a reset method
				// called on the parameter; and what the whole-struct store keeps
				vfn, vprm := fn, ssa.Value(prm)
				var zero *ssa.Store
				eachInstr(fn, func(_ *ssa.BasicBlock, in ssa.Instruction) {
					if s, ok := in.(*ssa.Store); ok && s.Addr == ssa.Value(prm) {
						if _, ok := wholeStructStore(s); ok {
							zero = s
						}
					}
				})
				if zero == nil {
					for _, cs := range callSites(fn) {
						callee := staticCallee(cs)
						if callee == nil || !c.p.InZap(callee) || len(cs.Common().Args) == 0 || !valueMayBe(cs.Common().Args[0], prm) {
							continue
						}
						if z := resetHelper(callee); z != nil {
							zero, vfn, vprm = z, callee, callee.Params[0]
						}
					}
				}
				var keptTmp *ssa.Alloc
				if zero != nil {
					keptTmp, _ = wholeStructStore(zero)
				}
				// field stores through the parameter (or into the composite
				// literal that replaces it)
				type fstore struct {
					st  *ssa.Store
					fld string
				}
				var fstores []fstore
				eachInstr(vfn, func(_ *ssa.BasicBlock, in ssa.Instruction) {
					s, ok := in.(*ssa.Store)
					if !ok {
						return
					}
					if sn, fld, base, ok := fieldOf(s.Addr); ok && sn == sp.Struct && (base == vprm || (keptTmp != nil && base == ssa.Value(keptTmp))) {
						fstores = append(fstores, fstore{s, fld})
					}
				})
				prmV := vprm
				_ = prmV
				// carriedFrom: v derives from a load of prm.<f>
				var carriedFrom func(v ssa.Value, depth int) (string, *ssa.UnOp)
				carriedFrom = func(v ssa.Value, depth int) (string, *ssa.UnOp) {
					if depth > 4 {
						return "", nil
					}
					switch x := v.(type) {
					case *ssa.UnOp:
						if x.Op == token.MUL {
							if sn, fld, base, ok := fieldOf(x.X); ok && sn == sp.Struct && base == vprm {
								return fld, x
							}
						}
					case *ssa.Slice:
						return carriedFrom(x.X, depth+1)
					case *ssa.ChangeType:
						return carriedFrom(x.X, depth+1)
					}
					return "", nil
				}
				if zero != nil {
					// the zero store must be on every path that returns the parameter
					resetOK := returnsFreshOrReset(fn)
					if discovered != nil && fn.Signature.Results().Len() == 0 {
						// a reset routine that hands nothing back: the reset is on every way through it
						resetOK = true
						for _, ret := range returnsOf(fn) {
							if !(zero.Block() == ret.Block() || zero.Block().Dominates(ret.Block())) {
								resetOK = false
							}
						}
					}
					c.check(resetOK, name+"/zeroed-on-reuse", c.pos(zero), "in "+name+" every returned object is fresh or was zeroed as a whole (`*rv = "+sp.Struct+"{}`) on the way",
						"a path returns the caller-supplied object without the whole-struct reset")
					carried := map[string]*ssa.UnOp{}
					for _, fs := range fstores {
						intoTmp := false
						if _, _, base, ok := fieldOf(fs.st.Addr); ok && keptTmp != nil && base == ssa.Value(keptTmp) {
							intoTmp = true
						}
						if !intoTmp && !(zero.Block() == fs.st.Block() || zero.Block().Dominates(fs.st.Block())) {
							continue
						}
						if from, ld := carriedFrom(fs.st.Val, 0); from != "" {
							carried[fs.fld] = ld
							if from != fs.fld {
								c.bad(name+"/carry/"+fs.fld, c.pos(fs.st), "a carried-over value goes back into its own field", "field "+fs.fld+" receives the old content of "+from)
							}
						}
					}
					var cf []string
					for f := range carried {
						cf = append(cf, f)
					}
					sort.Strings(cf)
					for _, f := range cf {
						if !allow[f] && reinitialisedBeforeUse(c.p, vfn, sp.Struct, f) {
							c.ok(name+"/carry/"+f, c.pos(carried[f]), "field "+f+" of a reused "+sp.Struct+" is carried over the reset as storage only: nothing reads through it, here or elsewhere, before it has been re-initialised (Initialize / Reset on it, or a fresh object stored)")
							continue
						}
						c.check(allow[f], name+"/carry/"+f, c.pos(carried[f]), "state carried over the reset of a reused "+sp.Struct+" is a tabled buffer (allowed: "+strings.Join(sp.Allow, ",")+")",
							"field "+f+" survives the reset of a reused object: a reused "+sp.Struct+" would behave differently from a fresh one")
					}
					// cleaning of carried buffers whose stale content would be read
					var cleanF []string
					for f := range sp.Clean {
						cleanF = append(cleanF, f)
					}
					sort.Strings(cleanF)
					for _, f := range cleanF {
						ld := carried[f]
						if ld == nil {
							c.ok(name+"/clean/"+f, c.fpos(fn), "field "+f+" is not carried over: nothing to clean")
							continue
						}
						method := sp.Clean[f]
						found := false
						var why string
						deps := controlDeps(vfn)
						for _, cs := range callSites(vfn) {
							callee := staticCallee(cs)
							if callee == nil || callee.Name() != method || len(cs.Common().Args) == 0 {
								continue
							}
							rv := cs.Common().Args[0]
							if rv != ssa.Value(ld) {
								if from, _ := carriedFrom(rv, 0); from != f {
									continue
								}
							}
							// only nil checks of that very value may guard the cleaning
							okDeps := true
							for _, d := range deps[cs.Block()] {
								cond := branchCond(d.Branch)
								bo, ok := cond.(*ssa.BinOp)
								if ok && (bo.Op == token.NEQ || bo.Op == token.EQL) && (isNilConst(bo.X) || isNilConst(bo.Y)) {
									other := bo.X
									if isNilConst(bo.X) {
										other = bo.Y
									}
									if from, _ := carriedFrom(other, 0); from == f {
										continue
									}
									if other == vprm {
										continue
									}
									if g, ok := other.(*ssa.UnOp); ok {
										if _, isG := g.X.(*ssa.Global); isG {
											continue
										}
									}
								}
								if bo, ok := cond.(*ssa.BinOp); ok && (bo.X == vprm || bo.Y == vprm) {
									continue // the `rv == nil || rv == sentinel` test selecting the reuse path
								}
								okDeps = false
								why = "the cleaning call is conditional on " + describeInstr(c.p, d.Branch.Instrs[len(d.Branch.Instrs)-1])
							}
							// and it must happen before the buffer is re-attached
							if okDeps && (cs.Block() == zero.Block() || cs.Block().Dominates(zero.Block()) || zero.Block().Dominates(cs.Block()) || true) {
								found = true
							}
						}
						c.check(found, name+"/clean/"+f, c.pos(ld), fmt.Sprintf("carried-over buffer %s.%s is cleaned (%s) before reuse, guarded only by its own nil check", sp.Struct, f, method),
							"stale content of "+f+" would be read by the next user of the reused object. "+why)
					}
				} else {
					// field by field: every non-allowed field must be assigned a zero constant
					zeroed := map[string]bool{}
					for _, fs := range fstores {
						if k, ok := fs.st.Val.(*ssa.Const); ok && (k.Value == nil || k.IsNil() || isZeroConst(k)) {
							zeroed[fs.fld] = true
						}
					}
					var missing []string
					for i := 0; i < st.NumFields(); i++ {
						f := canonFieldName(sp.Struct, st, i)
						if !allow[f] && !zeroed[f] {
							missing = append(missing, f)
						}
					}
					c.check(len(missing) == 0, name+"/zeroed-on-reuse", c.fpos(fn), "without a whole-struct reset, every field of the reused "+sp.Struct+" except tabled buffers is zeroed individually",
						"fields not reset on reuse: "+strings.Join(missing, ", ")+" (the whole-struct reset `*rv = "+sp.Struct+"{}` is gone)")
				}
			}
		},
	}
}

func isZeroConst(k *ssa.Const) bool {
	if k.Value == nil {
		return true
	}
	switch k.Value.String() {
	case "0", "false", `""`:
		return true
	}
	return false
}

// valueMayBe: v is x, or a phi one of whose edges may be x (`if rv == nil { rv = &T{} }; rv.reset()`).
func valueMayBe(v, x ssa.Value) bool {
	seen := map[ssa.Value]bool{}
	var rec func(v ssa.Value) bool
	rec = func(v ssa.Value) bool {
		if v == x {
			return true
		}
		if seen[v] {
			return false
		}
		seen[v] = true
		if ph, ok := v.(*ssa.Phi); ok {
			for _, e := range ph.Edges {
				if rec(e) {
					return true
				}
			}
		}
		return false
	}
	return rec(v)
}

// reinitialisedBeforeUse: field sn.fld (a pointer to some reusable cursor) is, in fn, only nil-tested,
// re-pointed (a method named Initialize / Reset / reset called on it, or a fresh allocation stored into
// it) and — after such a re-pointing on every path — read; and no other function of the package reads it.
func reinitialisedBeforeUse(p *Program, fn *ssa.Function, sn, fld string) bool {
	for _, g := range p.ZapFuncs {
		if g == fn || rootParent(g) == fn {
			continue
		}
		found := false
		eachInstr(g, func(_ *ssa.BasicBlock, in ssa.Instruction) {
			if u, ok := in.(*ssa.UnOp); ok && isLoadOfField(u, sn, fld) {
				found = true
			}
		})
		if found {
			return false
		}
	}
	isReinit := func(in ssa.Instruction) bool {
		switch x := in.(type) {
		case ssa.CallInstruction:
			f := staticCallee(x)
			if f == nil || len(x.Common().Args) == 0 {
				return false
			}
			switch f.Name() {
			case "Initialize", "Reset", "reset":
				return isLoadOfField(x.Common().Args[0], sn, fld)
			}
		case *ssa.Store:
			if s2, f2, _, ok := fieldOf(x.Addr); ok && s2 == sn && f2 == fld {
				if _, fresh := root(x.Val).(*ssa.Alloc); fresh {
					return true
				}
			}
		}
		return false
	}
	pa := newPathAnalysis(fn, func(in ssa.Instruction, ev uint64, _ bool) []uint64 {
		if isReinit(in) {
			return []uint64{ev | 1}
		}
		return nil
	})
	pa.run(0)
	ok := true
	n := 0
	eachInstr(fn, func(_ *ssa.BasicBlock, in ssa.Instruction) {
		u, isU := in.(*ssa.UnOp)
		if !isU || !isLoadOfField(u, sn, fld) || u.Referrers() == nil {
			return
		}
		for _, r := range *u.Referrers() {
			switch x := r.(type) {
			case *ssa.DebugRef:
				continue
			case *ssa.BinOp:
				if (x.Op == token.EQL || x.Op == token.NEQ) && (isNilConst(x.X) || isNilConst(x.Y)) {
					continue
				}
			case ssa.CallInstruction:
				if isReinit(x) {
					n++
					continue
				}
			case *ssa.Store:
				// carried across the whole-struct reset: stored back into its own field (directly or
				// through the composite literal that replaces the struct)
				if s2, f2, _, okf := fieldOf(x.Addr); okf && s2 == sn && f2 == fld && x.Val == ssa.Value(u) {
					continue
				}
			}
			for _, ev := range pa.statesBefore(r) {
				if ev&1 == 0 {
					ok = false
				}
			}
		}
	})
	return ok && n > 0
}
