package main

// R5 SENTINEL-IMMUTABLE — the shared empty objects are never written.

import (
	"fmt"
	"go/token"
	"go/types"
	"sort"
	"strings"

	"golang.org/x/tools/go/ssa"
)

// sentinelGlobals: package-level pointer variables named empty* that are
// initialised once (in the package initialiser) with a fresh &T{} and never
// assigned again.
func (p *Program) sentinelGlobals() []*ssa.Global {
	var out []*ssa.Global
	var names []string
	for n := range p.Zap.Members {
		names = append(names, n)
	}
	sort.Strings(names)
	for _, n := range names {
		g, ok := p.Zap.Members[n].(*ssa.Global)
		if !ok || !strings.HasPrefix(n, "empty") {
			continue
		}
		pt, ok := g.Type().(*types.Pointer).Elem().Underlying().(*types.Pointer)
		if !ok {
			continue
		}
		if _, ok := pt.Elem().Underlying().(*types.Struct); !ok {
			continue
		}
		stores := 0
		fresh := true
		for _, fn := range p.ZapFuncs {
			eachInstr(fn, func(_ *ssa.BasicBlock, in ssa.Instruction) {
				if st, ok := in.(*ssa.Store); ok && st.Addr == ssa.Value(g) {
					stores++
					if _, isAlloc := st.Val.(*ssa.Alloc); !isAlloc {
						fresh = false
					}
					if fn.Name() != "init" {
						fresh = false
					}
				}
			})
		}
		if stores == 1 && fresh {
			out = append(out, g)
		}
	}
	return out
}

type sentinelCtx struct {
	p       *Program
	g       *ssa.Global
	memo    map[string]string // fn#param -> "" (safe) or description of the unguarded write
	running map[string]bool
}

func isLoadOfGlobal(v ssa.Value, g *ssa.Global) bool {
	u, ok := v.(*ssa.UnOp)
	return ok && u.Op == token.MUL && u.X == ssa.Value(g)
}

// guardedAgainst: block b is reached only when value v is known to differ
// from the sentinel g (false edge of v == g / true edge of v != g).
func guardedAgainst(b *ssa.BasicBlock, v ssa.Value, g *ssa.Global) bool {
	for c := b; c != nil; c = c.Idom() {
		pb := c.Idom()
		if pb == nil {
			break
		}
		if len(c.Preds) != 1 || c.Preds[0] != pb {
			continue
		}
		iff, ok := pb.Instrs[len(pb.Instrs)-1].(*ssa.If)
		if !ok {
			continue
		}
		if pb.Succs[0] == c && predicateExcludesSentinel(iff.Cond, v, g) {
			return true
		}
		bo, ok := iff.Cond.(*ssa.BinOp)
		if !ok || (bo.Op != token.EQL && bo.Op != token.NEQ) {
			continue
		}
		var other ssa.Value
		if isLoadOfGlobal(bo.X, g) {
			other = bo.Y
		} else if isLoadOfGlobal(bo.Y, g) {
			other = bo.X
		} else {
			continue
		}
		if other != v && root(other) != root(v) {
			continue
		}
		differs := (bo.Op == token.NEQ) == (pb.Succs[0] == c)
		if differs {
			return true
		}
	}
	return false
}

// predicateExcludesSentinel: cond is a call `v.m(...)` of a method of the package that answers true only
// where its receiver was found to differ from the sentinel (`if s == nil || s == emptyX { return false }`):
// on the true edge v is not the sentinel.
func predicateExcludesSentinel(cond ssa.Value, v ssa.Value, g *ssa.Global) bool {
	call, ok := cond.(*ssa.Call)
	if !ok || len(call.Call.Args) == 0 {
		return false
	}
	if call.Call.Args[0] != v && root(call.Call.Args[0]) != root(v) {
		return false
	}
	f := call.Call.StaticCallee()
	if f == nil || len(f.Blocks) == 0 || f.Signature.Recv() == nil || f.Signature.Results().Len() != 1 {
		return false
	}
	if b, ok := f.Signature.Results().At(0).Type().Underlying().(*types.Basic); !ok || b.Kind() != types.Bool {
		return false
	}
	recv := f.Params[0]
	n := 0
	for _, ret := range returnsOf(f) {
		if k, ok := constBool(ret.Results[0]); ok && !k {
			continue
		}
		n++
		if !guardedAgainst(ret.Block(), recv, g) {
			// `return a && b` compiles to a phi: the edges that can carry true must be guarded
			ph, isPhi := ret.Results[0].(*ssa.Phi)
			if !isPhi {
				return false
			}
			for i, e := range ph.Edges {
				if k, ok := constBool(e); ok && !k {
					continue
				}
				if !guardedAgainst(ph.Block().Preds[i], recv, g) {
					return false
				}
			}
		}
	}
	return n > 0
}

// edgeDiffers: taking the edge pred->succ establishes v != sentinel.
func edgeDiffers(pred, succ *ssa.BasicBlock, v ssa.Value, g *ssa.Global) bool {
	if len(pred.Instrs) == 0 || len(pred.Succs) != 2 || pred.Succs[0] == pred.Succs[1] {
		return false
	}
	iff, ok := pred.Instrs[len(pred.Instrs)-1].(*ssa.If)
	if !ok {
		return false
	}
	if pred.Succs[0] == succ && predicateExcludesSentinel(iff.Cond, v, g) {
		return true
	}
	bo, ok := iff.Cond.(*ssa.BinOp)
	if !ok || (bo.Op != token.EQL && bo.Op != token.NEQ) {
		return false
	}
	var other ssa.Value
	if isLoadOfGlobal(bo.X, g) {
		other = bo.Y
	} else if isLoadOfGlobal(bo.Y, g) {
		other = bo.X
	} else {
		return false
	}
	if other != v && root(other) != root(v) {
		return false
	}
	return (bo.Op == token.NEQ) == (pred.Succs[0] == succ)
}

// writesThrough: does fn write the object its parameter #idx points to, at a
// point not guarded against the sentinel? Returns "" if not.
func (sc *sentinelCtx) writesThrough(fn *ssa.Function, idx int) string {
	if fn == nil || len(fn.Blocks) == 0 || idx >= len(fn.Params) {
		return ""
	}
	key := fmt.Sprintf("%s#%d", fn.String(), idx)
	if v, ok := sc.memo[key]; ok {
		return v
	}
	if sc.running[key] {
		return ""
	}
	sc.running[key] = true
	defer delete(sc.running, key)
	prm := fn.Params[idx]
	res := ""
	// v may denote the sentinel at block b: the parameter itself where no guard
	// against the sentinel dominates b, or a phi that can receive the parameter
	// from a predecessor that is not guarded
	var maySentinel func(v ssa.Value, b *ssa.BasicBlock, depth int) bool
	maySentinel = func(v ssa.Value, b *ssa.BasicBlock, depth int) bool {
		if depth > 4 {
			return false
		}
		if v == ssa.Value(prm) || (root(v) == ssa.Value(prm) && v != root(v)) {
			return !guardedAgainst(b, prm, sc.g)
		}
		if ph, ok := v.(*ssa.Phi); ok {
			for i, e := range ph.Edges {
				if e == ssa.Value(ph) {
					continue
				}
				if edgeDiffers(ph.Block().Preds[i], ph.Block(), e, sc.g) {
					continue
				}
				if maySentinel(e, ph.Block().Preds[i], depth+1) {
					return true
				}
			}
		}
		return false
	}
	eachInstr(fn, func(b *ssa.BasicBlock, in ssa.Instruction) {
		if res != "" {
			return
		}
		switch x := in.(type) {
		case *ssa.Store:
			if maySentinel(x.Addr, b, 0) {
				res = "whole-struct store " + describeInstr(sc.p, in)
				return
			}
			if _, _, base, ok := fieldOf(x.Addr); ok && maySentinel(base, b, 0) {
				res = "field store " + describeInstr(sc.p, in)
			}
		case ssa.CallInstruction:
			callee := staticCallee(x)
			if callee == nil || !sc.p.InZap(callee) {
				return
			}
			for j, a := range x.Common().Args {
				if !maySentinel(a, b, 0) {
					continue
				}
				if w := sc.writesThrough(callee, j); w != "" {
					res = "passed to " + funcShortName(callee) + " which does: " + w
				}
			}
		}
	})
	sc.memo[key] = res
	return res
}

func ruleR5() *Rule {
	return &Rule{
		ID:    "R5",
		Title: "SENTINEL-IMMUTABLE: the shared empty objects (emptyPostingsList, emptyDictionary, ...) are never written inside the package",
		Props: []string{"C11"},
		Floor: floorFor("R5"),
		Run: func(c *RuleCtx) {
			p := c.p
			gs := p.sentinelGlobals()
			want := 8
			if p.Cfg.Vectors {
				want = 10
			}
			c.check(len(gs) >= half(want), "sentinels", "-", fmt.Sprintf("the shared empty sentinels are found (confirmed by hand: %d)", want), fmt.Sprintf("found %d", len(gs)))
			for _, g := range gs {
				sc := &sentinelCtx{p: p, g: g, memo: map[string]string{}, running: map[string]bool{}}
				elemT := g.Type().(*types.Pointer).Elem() // *T
				nChecked := 0
				var bad []string
				// a value that may be the sentinel: a load of the global, or an object of the
				// sentinel's type that an API caller hands back in (prealloc arguments: the
				// sentinel was returned to callers before, and callers do pass results back)
				isSource := func(v ssa.Value) bool {
					if isLoadOfGlobal(v, g) {
						return true
					}
					var ta *ssa.TypeAssert
					switch x := v.(type) {
					case *ssa.TypeAssert:
						ta = x
					case *ssa.Extract:
						if t2, ok := x.Tuple.(*ssa.TypeAssert); ok && x.Index == 0 {
							ta = t2
						}
					}
					if ta != nil && types.Identical(ta.AssertedType, elemT) {
						if prm, ok := ta.X.(*ssa.Parameter); ok {
							fn := prm.Parent()
							if fn.Object() != nil && fn.Object().Exported() {
								return true
							}
						}
					}
					return false
				}
				var mayBe func(v ssa.Value, b *ssa.BasicBlock, depth int) bool
				mayBe = func(v ssa.Value, b *ssa.BasicBlock, depth int) bool {
					if depth > 5 || v == nil {
						return false
					}
					if guardedAgainst(b, v, g) {
						return false
					}
					if isSource(v) {
						return true
					}
					if ph, ok := v.(*ssa.Phi); ok {
						for i, e := range ph.Edges {
							if e == ssa.Value(ph) {
								continue
							}
							if edgeDiffers(ph.Block().Preds[i], ph.Block(), e, g) {
								continue
							}
							if mayBe(e, ph.Block().Preds[i], depth+1) {
								return true
							}
						}
					}
					return false
				}
				for _, fn := range p.ZapFuncs {
					eachInstr(fn, func(b *ssa.BasicBlock, in ssa.Instruction) {
						switch x := in.(type) {
						case *ssa.Store:
							if mayBe(x.Addr, b, 0) {
								bad = append(bad, "the sentinel may be overwritten as a whole: "+describeInstr(p, in)+" in "+funcShortName(fn))
							}
							if _, _, base, ok := fieldOf(x.Addr); ok && mayBe(base, b, 0) {
								bad = append(bad, "a field of the sentinel may be written: "+describeInstr(p, in)+" in "+funcShortName(fn))
							}
						case ssa.CallInstruction:
							callee := staticCallee(x)
							if callee == nil || !p.InZap(callee) {
								return
							}
							for j, a := range x.Common().Args {
								if !types.Identical(a.Type(), elemT) {
									continue
								}
								nChecked++
								if !mayBe(a, b, 0) {
									continue
								}
								if w := sc.writesThrough(callee, j); w != "" {
									bad = append(bad, fmt.Sprintf("in %s the sentinel can reach parameter %s of %s, which writes it: %s", funcShortName(fn), callee.Params[j].Name(), funcShortName(callee), w))
								}
							}
						}
					})
				}
				c.check(len(bad) == 0, "immutable/"+g.Name(), c.p.Pos(g.Pos()), fmt.Sprintf("%s (also when handed back in by an API caller as preallocation) only reaches parameters that are guarded against it; nothing writes through it (%d pointer arguments of its type examined)", g.Name(), nChecked),
					"the shared sentinel can be written: every goroutine using an empty result would see (and race on) the change", uniq(bad)...)
			}
		},
	}
}
