package main

// R2 LOCKSET — shared mutable fields only under their mutex.

import (
	"fmt"
	"go/token"
	"go/types"
	"sort"
	"strings"

	"golang.org/x/tools/go/ssa"
)

type guardSpec struct {
	Struct, Field   string // guarded field
	MuStruct, MuFld string // guarding mutex (type level)
	SameBase        bool   // the mutex lives in the same struct value as the field
	Vectors         bool
	Props           []string
	Why             string
}

var guardTable = []guardSpec{
	{"SegmentBase", "fieldFSTs", "SegmentBase", "m", true, false, []string{"C11"}, "lazily filled per-field FST cache shared by all readers"},
	{"Segment", "refs", "Segment", "m", true, false, []string{"C20", "C11"}, "reference count of the mapping"},
	{"synonymIndexCache", "cache", "synonymIndexCache", "m", true, false, []string{"C11"}, "per-segment thesaurus cache shared by all readers"},
	{"vectorIndexCache", "cache", "vectorIndexCache", "m", true, true, []string{"C16", "C11"}, "per-segment vector index cache"},
	{"cacheEntry", "docVecIDMap", "vectorIndexCache", "m", false, true, []string{"C16"}, "lazily added doc->vector-ids map of a shared cache entry"},
}

type atomicSpec struct {
	Struct, Field string
	Vectors       bool
	Props         []string
}

var atomicTable = []atomicSpec{
	{"cacheEntry", "refs", true, []string{"C16"}},
	{"ewma", "sample", true, []string{"C16"}},
	{"SegmentBase", "bytesRead", false, []string{"C11"}},
	{"SegmentBase", "bytesWritten", false, []string{"C11"}},
}

// exemptions: (function, struct.field) -> reason
var lockExempt = map[string]string{}

// teardownExempt: an access to a field of a cache entry in the entry's own
// teardown code — cacheEntry.close, a closure in it, or a function reached
// only from it (the goroutine that frees the native index). The entry is
// unreachable by then: it was removed from the map under the write lock at
// zero references (R22c decides that; R22d that close has no other callers).
func teardownExempt(p *Program, fn *ssa.Function, structName string) bool {
	if structName != "cacheEntry" {
		return false
	}
	owner := p.Method("cacheEntry", "close")
	if owner == nil {
		owner = p.resolveRenamed("cacheEntry.close")
	}
	if owner == nil || fn == owner {
		return false // close itself runs under the cache lock; only what it spawns is exempt
	}
	return onlyWithin(p, fn, owner, 0)
}

type lockID struct {
	mu   string // "Struct.field"
	base string // canonical key of the struct value holding the mutex ("" = unknown)
}

// baseKey canonicalises the struct value an address lives in: the root value
// (parameter, allocation, call result ...) plus the path of embedded-field
// selections, so that &s.SegmentBase.m and &s.SegmentBase.fieldFSTs agree on
// their base although go/ssa emits two FieldAddr instructions (no CSE).
func baseKey(v ssa.Value) (ssa.Value, string) {
	path := ""
	for i := 0; i < 8; i++ {
		r := root(v)
		if fa, ok := r.(*ssa.FieldAddr); ok {
			path = fmt.Sprintf(".%d%s", fa.Field, path)
			v = fa.X
			continue
		}
		// a pointer loaded from a field (`d.sb.m`, `d.sb.fieldFSTs`): two loads of the same field of the
		// same value name the same struct (the pointer fields in question are set once, at construction)
		if u, ok := r.(*ssa.UnOp); ok && u.Op == token.MUL {
			if fa, ok := u.X.(*ssa.FieldAddr); ok {
				path = fmt.Sprintf(".*%d%s", fa.Field, path)
				v = fa.X
				continue
			}
		}
		return r, fmt.Sprintf("%p%s", r, path)
	}
	return v, fmt.Sprintf("%p%s", v, path)
}

type access struct {
	in    ssa.Instruction
	write bool
	spec  *guardSpec
	base  string // canonical key of the struct value holding the field
	fresh bool   // the struct value is a fresh allocation of this function
	what  string
}

// mutexOp decodes a Lock/Unlock/RLock/RUnlock call.
func mutexOp(cs ssa.CallInstruction) (id lockID, op string, ok bool) {
	f := staticCallee(cs)
	if f == nil {
		return lockID{}, "", false
	}
	switch f.String() {
	case "(*sync.Mutex).Lock", "(*sync.RWMutex).Lock":
		op = "Lock"
	case "(*sync.Mutex).Unlock", "(*sync.RWMutex).Unlock":
		op = "Unlock"
	case "(*sync.RWMutex).RLock":
		op = "RLock"
	case "(*sync.RWMutex).RUnlock":
		op = "RUnlock"
	default:
		return lockID{}, "", false
	}
	sn, fld, base, isF := fieldOf(cs.Common().Args[0])
	if !isF {
		return lockID{}, op, false
	}
	_, bk := baseKey(base)
	return lockID{mu: sn + "." + fld, base: bk}, op, true
}

// fieldAccesses finds the accesses to guarded fields in fn.
func fieldAccesses(fn *ssa.Function, specs []*guardSpec) []access {
	var out []access
	specOf := func(sn, fld string) *guardSpec {
		for _, s := range specs {
			if s.Struct == sn && s.Field == fld {
				return s
			}
		}
		return nil
	}
	eachInstr(fn, func(_ *ssa.BasicBlock, in ssa.Instruction) {
		fa, ok := in.(*ssa.FieldAddr)
		if !ok {
			return
		}
		sn, fld, base, _ := fieldOf(fa)
		sp := specOf(sn, fld)
		if sp == nil {
			return
		}
		rroot, rb := baseKey(base)
		fresh := false
		if al, ok := rroot.(*ssa.Alloc); ok && al.Parent() == fn {
			fresh = true
		}
		for _, r := range *fa.Referrers() {
			switch x := r.(type) {
			case *ssa.Store:
				if x.Addr == fa {
					out = append(out, access{x, true, sp, rb, fresh, "store to " + sn + "." + fld})
				} else {
					out = append(out, access{x, true, sp, rb, fresh, "address of " + sn + "." + fld + " escapes"})
				}
			case *ssa.UnOp:
				if x.Op != token.MUL {
					continue
				}
				out = append(out, access{x, false, sp, rb, fresh, "load of " + sn + "." + fld})
				// uses of the loaded map/slice
				for _, r2 := range *x.Referrers() {
					switch y := r2.(type) {
					case *ssa.MapUpdate:
						if y.Map == ssa.Value(x) {
							out = append(out, access{y, true, sp, rb, fresh, "map update of " + sn + "." + fld})
						}
					case *ssa.Lookup:
						if y.X == ssa.Value(x) {
							out = append(out, access{y, false, sp, rb, fresh, "lookup in " + sn + "." + fld})
						}
					case *ssa.Range:
						out = append(out, access{y, false, sp, rb, fresh, "range over " + sn + "." + fld})
						for _, r3 := range *y.Referrers() {
							if nx, ok := r3.(*ssa.Next); ok {
								out = append(out, access{nx, false, sp, rb, fresh, "iteration over " + sn + "." + fld})
							}
						}
					case *ssa.Call:
						if b, ok := y.Call.Value.(*ssa.Builtin); ok {
							switch b.Name() {
							case "delete":
								out = append(out, access{y, true, sp, rb, fresh, "delete from " + sn + "." + fld})
							case "len":
								out = append(out, access{y, false, sp, rb, fresh, "len of " + sn + "." + fld})
							}
						}
					}
				}
			case *ssa.DebugRef:
			default:
				// e.g. passed to atomic.* or to a callee
				if cs, ok := r.(ssa.CallInstruction); ok {
					out = append(out, access{cs, true, sp, rb, fresh, "address of " + sn + "." + fld + " passed to a call"})
				}
			}
		}
	})
	return out
}

func ruleR2() *Rule {
	return &Rule{
		ID:    "R2",
		Title: "LOCKSET: guarded fields are only accessed with their mutex held; atomic-only fields only atomically",
		Props: []string{"C11", "C16", "C20"},
		Floor: floorFor("R2"),
		Run: func(c *RuleCtx) {
			var specs []*guardSpec
			for i := range guardTable {
				s := &guardTable[i]
				if s.Vectors && !c.p.Cfg.Vectors {
					continue
				}
				// a count kept in a sync/atomic integer needs no mutex: every access is a method of that type
				if structHasField(c.p, s.Struct, s.Field) && fieldIsSyncAtomic(c.p, s.Struct, s.Field) {
					c.okP(s.Props, "atomic-by-type/"+s.Struct+"."+s.Field, "-", s.Struct+"."+s.Field+" is a sync/atomic value: it can only be accessed atomically")
					continue
				}
				// anchor: field and mutex exist
				if !structHasField(c.p, s.Struct, s.Field) || !structHasField(c.p, s.MuStruct, s.MuFld) {
					c.undecidedP(s.Props, "anchor/"+s.Struct+"."+s.Field, "-", "guarded field "+s.Struct+"."+s.Field+" and its mutex "+s.MuStruct+"."+s.MuFld+" exist", "table line matches nothing (field or mutex renamed/removed)")
					continue
				}
				specs = append(specs, s)
			}
			// fields of a segment that some function writes with the segment's own mutex held (a lazily
			// filled cache next to fieldFSTs): guarded fields by the code's own say-so — every access
			// is held to it
			for _, d := range discoveredGuards(c.p) {
				d := d
				specs = append(specs, &d)
			}
			r2Locksets(c, specs)
			r2Atomics(c)
			r2SectionsRegistry(c)
		},
	}
}

func structHasField(p *Program, sn, fld string) bool {
	nt := p.NamedType(sn)
	if nt == nil {
		return false
	}
	st, ok := nt.Underlying().(*types.Struct)
	if !ok {
		return false
	}
	for i := 0; i < st.NumFields(); i++ {
		if canonFieldName(sn, st, i) == fld {
			return true
		}
	}
	// moved into a struct of its own that sn holds (see liftMovedField)
	for i := 0; i < st.NumFields(); i++ {
		ft := derefType(st.Field(i).Type())
		inner, ok := ft.Underlying().(*types.Struct)
		if !ok {
			continue
		}
		if n := namedOf(ft); n != nil {
			if _, pinned := pinnedFields[n.Obj().Name()]; pinned {
				continue
			}
		}
		for j := 0; j < inner.NumFields(); j++ {
			if inner.Field(j).Name() == fld {
				return true
			}
		}
	}
	return false
}

// requirement of a helper: lock (type level) and mode that its callers must hold
type lockReq struct {
	mu    string
	write bool
	why   string
}

func r2Locksets(c *RuleCtx, specs []*guardSpec) {
	p := c.p
	type fnInfo struct {
		fn       *ssa.Function
		accesses []access
		locks    []lockID // lock objects seen in fn (index = bit pair)
		pa       *pathAnalysis
		assumed  map[string]bool // mu names assumed held (W) at entry: *LOCKED convention
	}
	infos := map[*ssa.Function]*fnInfo{}
	reqs := map[*ssa.Function][]lockReq{}

	isLockedName := func(fn *ssa.Function) bool { return strings.HasSuffix(fn.Name(), "LOCKED") }

	lockIndex := func(fi *fnInfo, id lockID) int {
		for i, l := range fi.locks {
			if l.mu == id.mu && l.base == id.base {
				return i
			}
		}
		fi.locks = append(fi.locks, id)
		return len(fi.locks) - 1
	}
	build := func(fn *ssa.Function) *fnInfo {
		if fi, ok := infos[fn]; ok {
			return fi
		}
		fi := &fnInfo{fn: fn, assumed: map[string]bool{}}
		infos[fn] = fi
		fi.accesses = fieldAccesses(fn, specs)
		for _, cs := range callSites(fn) {
			if id, _, ok := mutexOp(cs); ok {
				lockIndex(fi, id)
			}
		}
		var init uint64
		if isLockedName(fn) && fn.Signature.Recv() != nil && len(fn.Params) > 0 {
			// the receiver's mutex is held for writing at entry
			rn := namedOf(fn.Signature.Recv().Type())
			if rn != nil {
				for _, s := range specs {
					if s.MuStruct == rn.Obj().Name() {
						_, bk := baseKey(fn.Params[0])
						id := lockID{mu: s.MuStruct + "." + s.MuFld, base: bk}
						i := lockIndex(fi, id)
						init |= 2 << (2 * uint(i))
						fi.assumed[id.mu] = true
					}
				}
			}
		}
		tr := func(in ssa.Instruction, ev uint64, deferred bool) []uint64 {
			cs, ok := in.(ssa.CallInstruction)
			if !ok {
				return nil
			}
			if _, isDefer := in.(*ssa.Defer); isDefer && !deferred {
				return nil
			}
			id, op, ok := mutexOp(cs)
			if !ok {
				return nil
			}
			i := uint(lockIndex(fi, id))
			switch op {
			case "Lock":
				return []uint64{ev | 2<<(2*i)}
			case "Unlock":
				return []uint64{ev &^ (2 << (2 * i))}
			case "RLock":
				return []uint64{ev | 1<<(2*i)}
			case "RUnlock":
				return []uint64{ev &^ (1 << (2 * i))}
			}
			return nil
		}
		fi.pa = newPathAnalysis(fn, tr)
		fi.pa.run(init)
		return fi
	}
	// held reports whether, before `in`, every path holds lock mu (on base, when
	// given) in the required mode.
	held := func(fi *fnInfo, in ssa.Instruction, mu string, base string, write bool) bool {
		states := fi.pa.statesBefore(in)
		if len(states) == 0 {
			return true // unreachable
		}
		for _, ev := range states {
			ok := false
			for i, l := range fi.locks {
				if l.mu != mu {
					continue
				}
				if base != "" && l.base != "" && l.base != base {
					continue
				}
				bits := (ev >> (2 * uint(i))) & 3
				if write && bits&2 != 0 {
					ok = true
				}
				if !write && bits != 0 {
					ok = true
				}
			}
			if !ok {
				return false
			}
		}
		return true
	}

	// pass 1: direct accesses
	type pending struct {
		fn  *ssa.Function
		acc access
	}
	var unheld []pending
	nAcc := 0
	perField := map[string]int{}
	for _, fn := range p.ZapFuncs {
		fi := build(fn)
		for _, a := range fi.accesses {
			// fresh allocation in this function: not yet shared
			if a.fresh {
				continue
			}
			if fn.Name() == "init" || strings.HasPrefix(fn.Name(), "init#") {
				continue
			}
			nAcc++
			mu := a.spec.MuStruct + "." + a.spec.MuFld
			base := ""
			if a.spec.SameBase {
				base = a.base
			}
			ex := funcShortName(fn) + "|" + a.spec.Struct + "." + a.spec.Field
			perField[a.spec.Struct+"."+a.spec.Field]++
			key := fmt.Sprintf("lockset/%s.%s/%s#%d", a.spec.Struct, a.spec.Field, funcShortName(fn), perField[a.spec.Struct+"."+a.spec.Field])
			if reason, ok := lockExempt[ex]; ok {
				c.okP(a.spec.Props, key, c.pos(a.in), "tabled exemption: "+reason)
				continue
			}
			if teardownExempt(p, fn, a.spec.Struct) {
				c.okP(a.spec.Props, key, c.pos(a.in), "field clears in the teardown goroutine of a cache entry: the entry is unreachable by then (removed from the map under the write lock at zero references — R22c)")
				continue
			}
			if held(fi, a.in, mu, base, a.write) {
				c.okP(a.spec.Props, key, c.pos(a.in), fmt.Sprintf("%s in %s happens with %s held (%s)", a.what, funcShortName(fn), mu, modeName(a.write)))
				continue
			}
			// not held locally: becomes a requirement on the callers, unless fn is an entry point
			unheld = append(unheld, pending{fn, a})
		}
	}
	// pass 2: propagate requirements of helpers to their callers (fixed point)
	type reqAt struct {
		fn   *ssa.Function
		req  lockReq
		spec *guardSpec
		in   ssa.Instruction
		what string
		base string
		path []string
	}
	var work []reqAt
	for _, u := range unheld {
		work = append(work, reqAt{u.fn, lockReq{u.acc.spec.MuStruct + "." + u.acc.spec.MuFld, u.acc.write, u.acc.what}, u.acc.spec, u.acc.in, u.acc.what, "",
			[]string{describeInstr(p, u.acc.in) + " in " + funcShortName(u.fn)}})
	}
	seen := map[string]bool{}
	for len(work) > 0 {
		r := work[0]
		work = work[1:]
		sk := fmt.Sprintf("%s|%s|%v|%s", r.fn.String(), r.req.mu, r.req.write, r.what)
		if seen[sk] {
			continue
		}
		seen[sk] = true
		reqs[r.fn] = append(reqs[r.fn], r.req)
		var callers []ssa.CallInstruction
		for _, cs := range p.callersOf(r.fn) {
			if p.InZap(cs.Parent()) {
				callers = append(callers, cs)
			}
		}
		// closures: their "callers" are where they are invoked; a `go func(){}` body is an entry point
		isEntry := len(callers) == 0 || r.fn.Object() != nil && r.fn.Object().Exported() && r.fn.Signature.Recv() == nil
		// an exported method of an exported type is an entry point whoever else calls it
		if !isEntry && r.fn.Object() != nil && r.fn.Object().Exported() && r.fn.Signature.Recv() != nil {
			if rn := namedOf(r.fn.Signature.Recv().Type()); rn != nil && rn.Obj().Exported() {
				isEntry = true
			}
		}
		for _, cs := range callers {
			if _, isGo := cs.(*ssa.Go); isGo {
				isEntry = true
			}
		}
		key := fmt.Sprintf("lockset/%s.%s/%s/unlocked", r.spec.Struct, r.spec.Field, funcShortName(r.fn))
		if isEntry || len(r.path) > 6 {
			c.badP(r.spec.Props, key, c.pos(r.in), fmt.Sprintf("every access to %s.%s happens under %s", r.spec.Struct, r.spec.Field, r.req.mu),
				fmt.Sprintf("%s without %s held (%s), reachable from entry point %s", r.what, r.req.mu, modeName(r.req.write), funcShortName(r.fn)), r.path...)
			continue
		}
		for _, cs := range callers {
			caller := cs.Parent()
			fi := build(caller)
			if held(fi, cs, r.req.mu, "", r.req.write) {
				continue
			}
			// the helper is a method called on an object this caller has just allocated and not yet handed
			// out (`rv.initFieldFSTs()` in a constructor): nobody else can see it
			if r.fn.Signature.Recv() != nil && len(cs.Common().Args) > 0 && !cs.Common().IsInvoke() {
				if rroot, _ := baseKey(cs.Common().Args[0]); rroot != nil {
					if al, ok := rroot.(*ssa.Alloc); ok && al.Parent() == caller {
						continue
					}
				}
			}
			np := append(append([]string{}, r.path...), "called from "+describeInstr(p, cs)+" in "+funcShortName(caller))
			work = append(work, reqAt{caller, r.req, r.spec, cs, r.what, "", np})
		}
	}
	// helpers whose requirement was satisfied at all call sites are discharged obligations
	var helperNames []string
	for fn := range reqs {
		helperNames = append(helperNames, funcShortName(fn))
	}
	sort.Strings(helperNames)
	for _, u := range unheld {
		key := fmt.Sprintf("lockset/%s.%s/%s/via-callers", u.acc.spec.Struct, u.acc.spec.Field, funcShortName(u.fn))
		c.okP(u.acc.spec.Props, key, c.pos(u.acc.in), fmt.Sprintf("%s in helper %s: lock requirement handed to its callers (each call site is checked; an unlocked chain to an entry point is reported separately)", u.acc.what, funcShortName(u.fn)))
	}

	// *LOCKED callees are only called with the write lock held
	nLocked := 0
	for _, fn := range p.ZapFuncs {
		if !isLockedName(fn) || fn.Signature.Recv() == nil {
			continue
		}
		rn := namedOf(fn.Signature.Recv().Type())
		if rn == nil {
			continue
		}
		var sp *guardSpec
		for _, s := range specs {
			if s.MuStruct == rn.Obj().Name() {
				sp = s
			}
		}
		if sp == nil {
			continue
		}
		mu := sp.MuStruct + "." + sp.MuFld
		cnt := 0
		for _, cs := range p.callersOf(fn) {
			if !p.InZap(cs.Parent()) {
				continue
			}
			cnt++
			nLocked++
			fi := build(cs.Parent())
			_, rbk := baseKey(cs.Common().Args[0])
			okc := held(fi, cs, mu, rbk, true)
			c.add(statusOf(okc), fmt.Sprintf("locked-callee/%s<-%s#%d", funcShortName(fn), funcShortName(cs.Parent()), cnt), c.pos(cs),
				fmt.Sprintf("%s is only called with %s held for writing", funcShortName(fn), mu),
				"call of a *LOCKED function without the write lock of its receiver", sp.Props, []string{"call: " + describeInstr(p, cs)})
		}
	}
	want := 4
	if p.Cfg.Vectors {
		want = 14
	}
	c.check(nAcc >= half(want), "lockset/access-sites", "-", fmt.Sprintf("accesses to guarded fields are found (at least %d confirmed by hand)", want), fmt.Sprintf("found %d", nAcc))
	// (how many *LOCKED helpers there are is a matter of style: they may be
	// inlined; what must not happen is that such helpers exist and none of
	// their call sites is seen)
	nLockedFns := 0
	for _, fn := range p.ZapFuncs {
		if isLockedName(fn) && fn.Signature.Recv() != nil && fn.Parent() == nil {
			nLockedFns++
		}
	}
	c.check(nLocked >= 1 || nLockedFns == 0, "locked-callee/sites", "-", "call sites of the *LOCKED functions are found (pinned tree: 2, with vectors 6)", fmt.Sprintf("%d *LOCKED functions, %d call sites found", nLockedFns, nLocked))
}

func modeName(w bool) string {
	if w {
		return "write mode"
	}
	return "read or write mode"
}

// --- atomic-only fields -----------------------------------------------------

func r2Atomics(c *RuleCtx) {
	for i := range atomicTable {
		sp := &atomicTable[i]
		if sp.Vectors && !c.p.Cfg.Vectors {
			continue
		}
		if !structHasField(c.p, sp.Struct, sp.Field) {
			c.undecidedP(sp.Props, "anchor/"+sp.Struct+"."+sp.Field, "-", "atomic-only field exists", "table line matches nothing")
			continue
		}
		n := 0
		okAll := true
		var w []string
		for _, fn := range c.p.ZapFuncs {
			eachInstr(fn, func(_ *ssa.BasicBlock, in ssa.Instruction) {
				fa, ok := in.(*ssa.FieldAddr)
				if !ok {
					return
				}
				sn, fld, base, _ := fieldOf(fa)
				if sn != sp.Struct || fld != sp.Field {
					return
				}
				if al, ok := root(base).(*ssa.Alloc); ok && al.Parent() == fn {
					return // composite literal of a fresh value
				}
				for _, r := range *fa.Referrers() {
					if _, ok := r.(*ssa.DebugRef); ok {
						continue
					}
					n++
					cs, isCall := r.(ssa.CallInstruction)
					if isCall {
						if f := staticCallee(cs); f != nil && f.Pkg != nil && f.Pkg.Pkg.Path() == "sync/atomic" {
							continue
						}
					}
					okAll = false
					w = append(w, "non-atomic access: "+describeInstr(c.p, r)+" in "+funcShortName(fn))
				}
			})
		}
		c.add(statusOf(okAll && n > 0), "atomic/"+sp.Struct+"."+sp.Field, "-", fmt.Sprintf("every access to %s.%s is a sync/atomic call (%d sites)", sp.Struct, sp.Field, n),
			"the field is read or written without sync/atomic while other goroutines use atomic operations on it", sp.Props, w)
	}
}

// --- the section registry is only written during package initialisation -----

func r2SectionsRegistry(c *RuleCtx) {
	props := []string{"C11"}
	g := c.p.Global("segmentSections")
	if g == nil {
		c.undecidedP(props, "anchor/segmentSections", "-", "the section registry global exists", "global segmentSections not found")
		return
	}
	initReach := map[*ssa.Function]bool{} // functions only reachable from package init
	var writers []*ssa.Function
	for _, fn := range c.p.ZapFuncs {
		w := false
		eachInstr(fn, func(_ *ssa.BasicBlock, in ssa.Instruction) {
			switch x := in.(type) {
			case *ssa.Store:
				if x.Addr == ssa.Value(g) {
					w = true
				}
			case *ssa.MapUpdate:
				if u, ok := x.Map.(*ssa.UnOp); ok && u.X == ssa.Value(g) {
					w = true
				}
			case *ssa.Call:
				if b, ok := x.Call.Value.(*ssa.Builtin); ok && b.Name() == "delete" {
					if u, ok := x.Call.Args[0].(*ssa.UnOp); ok && u.X == ssa.Value(g) {
						w = true
					}
				}
			}
		})
		if w {
			writers = append(writers, fn)
		}
	}
	var onlyInit func(fn *ssa.Function, depth int) bool
	onlyInit = func(fn *ssa.Function, depth int) bool {
		if fn.Name() == "init" || strings.HasPrefix(fn.Name(), "init#") {
			return true
		}
		if v, ok := initReach[fn]; ok {
			return v
		}
		if depth > 5 {
			return false
		}
		initReach[fn] = false
		callers := c.p.callersOf(fn)
		if len(callers) == 0 {
			return false
		}
		for _, cs := range callers {
			if !onlyInit(cs.Parent(), depth+1) {
				return false
			}
		}
		initReach[fn] = true
		return true
	}
	for _, fn := range writers {
		c.add(statusOf(onlyInit(fn, 0)), "registry/"+funcShortName(fn), c.fpos(fn), "the section registry (read without a lock by every build, merge and open) is written only during package initialisation",
			funcShortName(fn)+" writes segmentSections and is callable after initialisation", props, nil)
	}
	c.add(statusOf(len(writers) >= 1), "registry/writers", "-", "writers of the section registry are found", "none found", props, nil)
}

// discoveredGuards: fields of SegmentBase / Segment, not tabled, that are written somewhere with the mutex
// of the same struct value held in write mode.
func discoveredGuards(p *Program) []guardSpec {
	if p.discGuards != nil {
		return *p.discGuards
	}
	var out []guardSpec
	seen := map[string]bool{}
	tabled := func(sn, fld string) bool {
		for _, g := range guardTable {
			if g.Struct == sn && g.Field == fld {
				return true
			}
		}
		for _, a := range atomicTable {
			if a.Struct == sn && a.Field == fld {
				return true
			}
		}
		return false
	}
	for _, fn := range p.ZapFuncs {
		var pa *pathAnalysis
		locks := map[string]int{}
		held := func(in ssa.Instruction, key string) bool {
			if pa == nil {
				pa = newPathAnalysis(fn, func(in ssa.Instruction, ev uint64, deferred bool) []uint64 {
					cs, ok := in.(ssa.CallInstruction)
					if !ok {
						return nil
					}
					if _, isDefer := in.(*ssa.Defer); isDefer && !deferred {
						return nil
					}
					id, op, ok := mutexOp(cs)
					if !ok {
						return nil
					}
					k := id.mu + "@" + id.base
					bit, have := locks[k]
					if !have {
						bit = len(locks)
						locks[k] = bit
					}
					if bit > 60 {
						return nil
					}
					switch op {
					case "Lock":
						return []uint64{ev | 1<<uint(bit)}
					case "Unlock":
						return []uint64{ev &^ (1 << uint(bit))}
					}
					return nil
				})
				pa.run(0)
			}
			bit, have := locks[key]
			if !have {
				return false
			}
			sts := pa.statesBefore(in)
			if len(sts) == 0 {
				return false
			}
			for _, ev := range sts {
				if ev&(1<<uint(bit)) == 0 {
					return false
				}
			}
			return true
		}
		eachInstr(fn, func(_ *ssa.BasicBlock, in ssa.Instruction) {
			var sn, fld string
			var base ssa.Value
			var ok bool
			switch x := in.(type) {
			case *ssa.Store:
				sn, fld, base, ok = fieldOf(x.Addr)
			case *ssa.MapUpdate:
				sn, fld, base, ok = loadedField(x.Map)
			}
			if !ok || (sn != "SegmentBase" && sn != "Segment") || fld == "m" || tabled(sn, fld) || seen[sn+"."+fld] {
				return
			}
			if al := baseAlloc(base); al != nil && al.Parent() == fn {
				return
			}
			if !structHasField(p, sn, "m") {
				return
			}
			_, bk := baseKey(base)
			if held(in, sn+".m@"+bk) {
				seen[sn+"."+fld] = true
				out = append(out, guardSpec{sn, fld, sn, "m", true, false, []string{"C11"}, "written with " + sn + ".m held in " + funcShortName(fn) + " (discovered)"})
			}
		})
	}
	p.discGuards = &out
	return out
}

// fieldIsSyncAtomic: the field's type is one of the integer types of package sync/atomic.
func fieldIsSyncAtomic(p *Program, sn, fld string) bool {
	nt := p.NamedType(sn)
	if nt == nil {
		return false
	}
	st, ok := nt.Underlying().(*types.Struct)
	if !ok {
		return false
	}
	for i := 0; i < st.NumFields(); i++ {
		if st.Field(i).Name() != fld {
			continue
		}
		if n, ok := types.Unalias(st.Field(i).Type()).(*types.Named); ok && n.Obj().Pkg() != nil && n.Obj().Pkg().Path() == "sync/atomic" {
			return true
		}
	}
	return false
}
