package main

// R28 TERM-ACCUMULATORS — the per-term accumulators that are reused from term
// to term (chunked int coders, the merge's postings bitmap, the last-hit
// scalars that the 1-hit decision reads) are reset after each term is written.

import (
	"fmt"
	"go/token"
	"go/types"
	"sort"
	"strings"

	"golang.org/x/tools/go/ssa"
)

// cellKey identifies the variable a value is loaded from (local cell or
// captured variable), or the value itself for plain SSA values.
func cellKey(v ssa.Value) (string, ssa.Value) {
	if u, ok := v.(*ssa.UnOp); ok && u.Op == token.MUL {
		if c := cellOf(u.X); c != nil {
			return "cell " + c.Comment, c
		}
	}
	return v.Name(), v
}

func ruleR28() *Rule {
	return &Rule{
		ID:    "R28",
		Title: "TERM-ACCUMULATORS: per-term accumulators reused across terms are reset after each term is written",
		Props: []string{"C01", "C06", "C09", "C13", "C08"},
		Floor: floorFor("R28"),
		Run: func(c *RuleCtx) {
			p := c.p
			wp := c.fn("writePostings")
			if wp == nil {
				return
			}
			nSites := 0
			for _, cs := range p.callersOf(wp) {
				fn := cs.Parent()
				if !p.InZap(fn) {
					continue
				}
				nSites++
				props := []string{"C01"}
				if fn.Parent() != nil || strings.Contains(fn.Name(), "merge") {
					props = []string{"C06"}
				}
				fname := funcShortName(fn)
				args := cs.Common().Args
				// accumulators: the two encoders; the postings bitmap when it is a reused variable;
				// the scalars read by the 1-hit decision closure
				type acc struct {
					name string
					id   ssa.Value // cell or value
					kind string    // reset | clear | zero
					bit  uint64
				}
				var accs []acc
				add := func(name string, id ssa.Value, kind string) {
					accs = append(accs, acc{name, id, kind, 1 << uint(len(accs))})
				}
				for i := 1; i <= 2; i++ {
					n, id := cellKey(args[i])
					if !strings.HasPrefix(n, "cell ") && i < len(wp.Params) {
						n = wp.Params[i].Name() // a plain local: name it by its role
					}
					add(n, id, "reset")
				}
				if n, id := cellKey(args[0]); strings.HasPrefix(n, "cell ") {
					add(n, id, "clear")
				}
				// the decision closure
				if u, ok := args[3].(*ssa.UnOp); ok {
					if cell := cellOf(u.X); cell != nil {
						for _, st := range cellStores(cell) {
							if mc, ok := st.Val.(*ssa.MakeClosure); ok {
								cl := mc.Fn.(*ssa.Function)
								eachInstr(cl, func(_ *ssa.BasicBlock, in ssa.Instruction) {
									ld, ok := in.(*ssa.UnOp)
									if !ok || ld.Op != token.MUL {
										return
									}
									cc := cellOf(ld.X)
									if cc == nil {
										return
									}
									if widthOf(ld.Type()) == 0 {
										return // only scalars
									}
									dup := false
									for _, a := range accs {
										if a.id == ssa.Value(cc) {
											dup = true
										}
									}
									if !dup {
										add("cell "+cc.Comment, cc, "zero")
									}
								})
							}
						}
					}
				}
				isAcc := func(v ssa.Value) *acc {
					_, id := cellKey(v)
					for i := range accs {
						if accs[i].id == id {
							return &accs[i]
						}
					}
					return nil
				}
				var all uint64
				for _, a := range accs {
					all |= a.bit
				}
				tr := func(in ssa.Instruction, ev uint64, _ bool) []uint64 {
					if in == ssa.Instruction(cs) {
						return []uint64{ev | all}
					}
					switch x := in.(type) {
					case *ssa.Store:
						if cell := cellOf(x.Addr); cell != nil {
							for _, a := range accs {
								if a.id == ssa.Value(cell) && a.kind == "zero" {
									if k, ok := constUint64(x.Val); ok && k == 0 {
										return []uint64{ev &^ a.bit}
									}
								}
							}
						}
					case ssa.CallInstruction:
						f := staticCallee(x)
						if f == nil || len(x.Common().Args) == 0 {
							return nil
						}
						a := isAcc(x.Common().Args[0])
						if a == nil {
							return nil
						}
						if (a.kind == "reset" && f.Name() == "Reset") || (a.kind == "clear" && f.Name() == "Clear") {
							return []uint64{ev &^ a.bit}
						}
					}
					return nil
				}
				pa := newPathAnalysis(fn, tr)
				pa.run(0)
				report := func(at ssa.Instruction, where string) {
					dirty := uint64(0)
					for _, ev := range pa.statesBefore(at) {
						dirty |= ev
					}
					for _, a := range accs {
						key := fmt.Sprintf("%s/%s/%s", fname, strings.TrimPrefix(a.name, "cell "), where)
						c.add(statusOf(dirty&a.bit == 0), key, c.pos(at),
							fmt.Sprintf("in %s the per-term accumulator %s is %s after a term was written and before %s", fname, strings.TrimPrefix(a.name, "cell "), map[string]string{"reset": "Reset()", "clear": "Clear()ed", "zero": "set to 0"}[a.kind], where),
							"a path gets there with the accumulator still holding the previous term's state: the next term's postings details / 1-hit decision would include the previous term's data", props, nil)
					}
				}
				if fn.Parent() != nil {
					// a per-term closure: at every successful return
					n := 0
					for _, ret := range returnsOf(fn) {
						if _, ns := errorOfReturn(ret); ns == nonNil {
							continue
						}
						if !pa.reachable(ret.Block()) {
							continue
						}
						n++
						report(ret, "the term closure returns success")
					}
				} else {
					// inline in a loop over terms: when the encoders are configured for the next term
					n := 0
					for _, cs2 := range callSites(fn) {
						f := staticCallee(cs2)
						if f == nil || f.Name() != "SetChunkSize" || len(cs2.Common().Args) == 0 {
							continue
						}
						if a := isAcc(cs2.Common().Args[0]); a != nil && n == 0 {
							n++
							report(cs2, "the coders are set up for the next term")
						}
					}
					if n == 0 {
						c.undecidedP(props, fname+"/next-term-point", c.fpos(fn), "the point where the next term starts (SetChunkSize on the coders) is found", "not found")
					}
				}
			}
			r28FlushOnChange(c, wp)
			r28PerRoundMemo(c)
			c.check(nSites >= 2, "sites", "-", "call sites of writePostings are found (confirmed by hand: build writer, merge term closure)", fmt.Sprintf("found %d", nSites))
		},
	}
}

// r28FlushOnChange (R28c FLUSH-ON-CHANGE, C06/C08). The merge collects the postings of one term over
// several iterations of its term loop and writes them out through a per-term closure (the one that
// calls writePostings) when the term changes. The previous term is a byte slice, and the empty term is a
// legitimate term whose copy is a nil / zero-length slice: so whether the previous term is nil or empty
// must never decide that an iteration goes round without the flush. Decided on the loop's CFG: take
// away the blocks that call the closure and the "equal" edge of the comparison of the previous term with
// the current one; on what remains, no test of the previous term's nil-ness or length may lie on a way
// from the loop head back to it.
func r28FlushOnChange(c *RuleCtx, wp *ssa.Function) {
	p := c.p
	n := 0
	for _, cs := range p.callersOf(wp) {
		cl := cs.Parent()
		if !p.InZap(cl) || cl.Parent() == nil {
			continue
		}
		parent := cl.Parent()
		fname := funcShortName(parent)
		// call sites of the closure in its parent
		isFlush := func(in ssa.Instruction) (ssa.Value, bool) {
			call, ok := in.(ssa.CallInstruction)
			if !ok {
				return nil, false
			}
			v := call.Common().Value
			if u, ok := v.(*ssa.UnOp); ok && u.Op == token.MUL {
				if cell := cellOf(u.X); cell != nil {
					for _, st := range cellStores(cell) {
						if mc, ok := st.Val.(*ssa.MakeClosure); ok && mc.Fn == ssa.Value(cl) {
							v = mc
						}
					}
				}
			}
			mc, ok := v.(*ssa.MakeClosure)
			if !ok || mc.Fn != ssa.Value(cl) || len(call.Common().Args) == 0 {
				return nil, false
			}
			return call.Common().Args[0], true
		}
		loops := naturalLoops(parent)
		for _, b := range parent.Blocks {
			for _, in := range b.Instrs {
				prev, ok := isFlush(in)
				if !ok {
					continue
				}
				// innermost loop around the call
				var l *natLoop
				for _, x := range loops {
					if x.blocks[b] && (l == nil || len(x.blocks) < len(l.blocks)) {
						l = x
					}
				}
				if l == nil {
					continue // the flush after the loop
				}
				n++
				same := func(v ssa.Value) bool {
					if v == prev {
						return true
					}
					if ph, ok := prev.(*ssa.Phi); ok {
						for _, e := range ph.Edges {
							if e == v {
								return true
							}
						}
					}
					if ph, ok := v.(*ssa.Phi); ok {
						for _, e := range ph.Edges {
							if e == prev {
								return true
							}
						}
					}
					return false
				}
				isNilTest := func(cond ssa.Value) bool {
					bo, ok := cond.(*ssa.BinOp)
					if !ok {
						return false
					}
					for _, pr := range [][2]ssa.Value{{bo.X, bo.Y}, {bo.Y, bo.X}} {
						if k, ok := pr[1].(*ssa.Const); ok {
							if same(pr[0]) && k.IsNil() {
								return true
							}
							if call, ok := pr[0].(*ssa.Call); ok {
								if bi, ok := call.Call.Value.(*ssa.Builtin); ok && bi.Name() == "len" && same(call.Call.Args[0]) {
									return true
								}
							}
						}
					}
					return false
				}
				// barrier edges: the "equal" side of bytes.Equal(prev, current) (also through a negation)
				equalEdge := func(from *ssa.BasicBlock, i int) bool {
					iff, ok := from.Instrs[len(from.Instrs)-1].(*ssa.If)
					if !ok {
						return false
					}
					cond, neg := iff.Cond, false
					for {
						u, ok := cond.(*ssa.UnOp)
						if !ok || u.Op != token.NOT {
							break
						}
						cond, neg = u.X, !neg
					}
					call, ok := cond.(*ssa.Call)
					if !ok {
						return false
					}
					f := call.Call.StaticCallee()
					if f == nil || f.String() != "bytes.Equal" || !(same(call.Call.Args[0]) || same(call.Call.Args[1])) {
						return false
					}
					return (i == 0) != neg // Succs[0] is the true edge
				}
				flushBlock := func(x *ssa.BasicBlock) bool {
					for _, in2 := range x.Instrs {
						if _, ok := isFlush(in2); ok {
							return true
						}
					}
					return false
				}
				// forward from the head, backward from the latches, inside the loop, without barriers
				fwd := map[*ssa.BasicBlock]bool{}
				var walk func(x *ssa.BasicBlock)
				walk = func(x *ssa.BasicBlock) {
					if fwd[x] || !l.blocks[x] || flushBlock(x) {
						return
					}
					fwd[x] = true
					for i, sx := range x.Succs {
						if sx == l.header || equalEdge(x, i) {
							continue
						}
						walk(sx)
					}
				}
				walk(l.header)
				back := map[*ssa.BasicBlock]bool{}
				var walkB func(x *ssa.BasicBlock)
				walkB = func(x *ssa.BasicBlock) {
					if back[x] || !fwd[x] {
						return
					}
					back[x] = true
					if x == l.header {
						return
					}
					for _, px := range x.Preds {
						for i, sx := range px.Succs {
							if sx == x && !equalEdge(px, i) {
								walkB(px)
							}
						}
					}
				}
				for _, pr := range l.header.Preds {
					if l.blocks[pr] {
						walkB(pr)
					}
				}
				var bad []string
				var blocks []*ssa.BasicBlock
				for x := range back {
					blocks = append(blocks, x)
				}
				sort.Slice(blocks, func(i, j int) bool { return blocks[i].Index < blocks[j].Index })
				for _, x := range blocks {
					if iff, ok := x.Instrs[len(x.Instrs)-1].(*ssa.If); ok && isNilTest(iff.Cond) {
						bad = append(bad, "an iteration can go round without the flush by way of "+describeInstr(p, iff)+" (nil-ness / length of the previous term)")
					}
				}
				key := fmt.Sprintf("%s/flush-on-change", fname)
				if n > 1 {
					key += fmt.Sprintf("#%d", n)
				}
				c.add(statusOf(len(bad) == 0), key, c.pos(in),
					"in "+fname+" whether the previous term is nil or empty never decides that the collected postings are not written out when the term changes (the empty term is a term)",
					"a test of the previous term's nil-ness or length lies on a way round the term loop that neither writes the collected postings out nor found the term unchanged: after the empty term the next term inherits its postings", []string{"C06", "C08"}, bad)
			}
		}
	}
	c.add(statusOf(n >= 1), "flush-on-change/sites", "-", "the call of the per-term closure inside the merge's term loop is found (confirmed by hand: 1)", fmt.Sprintf("found %d", n), []string{"C06", "C08"}, nil)
}

// r28PerRoundMemo (R28d ROUND-SCOPED IDS, C13/C06). A counter that an outer loop restarts for each of its
// rounds (`newSynonymID = 0` per field) hands out ids that mean something within that round only. A table
// that lives longer than a round (allocated outside the outer loop, or reached through such a holder) and
// receives such ids must therefore be emptied in every round: by a `clear`, by a loop over the holder
// that resets every element, or by storing a fresh table unconditionally. Allocating it lazily
// (`if t[i] == nil { t[i] = make(...) }`) is not emptying it. Decided by existence of such a reset inside
// the outer loop (outside the inner loop that fills the table); which elements are reset is not tracked.
func r28PerRoundMemo(c *RuleCtx) {
	p := c.p
	props := []string{"C13", "C06"}
	nCounters := 0
	for _, fn := range p.ZapFuncs {
		if fn.Parent() != nil || len(fn.Blocks) == 0 {
			continue
		}
		loops := naturalLoops(fn)
		if len(loops) < 2 {
			continue
		}
		for _, T := range loops {
			for _, in := range T.header.Instrs {
				ph, ok := in.(*ssa.Phi)
				if !ok {
					break
				}
				if b, ok := ph.Type().Underlying().(*types.Basic); !ok || b.Info()&types.IsInteger == 0 {
					continue
				}
				// restarted from a constant by a block of an enclosing loop
				var F *natLoop
				for i, pr := range T.header.Preds {
					if T.blocks[pr] {
						continue
					}
					if _, isK := ph.Edges[i].(*ssa.Const); !isK {
						continue
					}
					for _, l := range loops {
						if l != T && l.blocks[pr] && l.blocks[T.header] && (F == nil || len(l.blocks) < len(F.blocks)) {
							F = l
						}
					}
				}
				if F == nil {
					continue
				}
				// the counter's web: phis and +1 steps
				web := map[ssa.Value]bool{ph: true}
				incremented := false
				for changed := true; changed; {
					changed = false
					for b := range T.blocks {
						for _, in2 := range b.Instrs {
							switch x := in2.(type) {
							case *ssa.Phi:
								if web[x] {
									continue
								}
								for _, e := range x.Edges {
									if web[e] {
										web[x] = true
										changed = true
										break
									}
								}
							case *ssa.BinOp:
								if web[x] || x.Op != token.ADD || !web[x.X] {
									continue
								}
								if k, ok := constUint64(x.Y); ok && k == 1 {
									web[x] = true
									incremented = true
									changed = true
								}
							}
						}
					}
				}
				if !incremented {
					continue
				}
				// a counter of hand-outs: some value of the web is stored somewhere (not a plain loop index)
				nCounters++
				r28MemoSinks(c, fn, ph, web, T, F, props)
			}
		}
	}
	c.add(statusOf(nCounters >= 1), "round-ids/counters", "-", "counters that an outer loop restarts for each round are found (pinned tree: newSynonymID in the synonym merge)", fmt.Sprintf("found %d", nCounters), props, nil)
}

// holdersOf: the allocations a container expression may come from, following loads of elements, look-ups,
// re-slicing, append and phis back to MakeMap / MakeSlice / Alloc.
func holdersOf(v ssa.Value, depth int, seen map[ssa.Value]bool, out map[ssa.Instruction]bool) {
	if v == nil || depth > 10 || seen[v] {
		return
	}
	seen[v] = true
	switch x := v.(type) {
	case *ssa.MakeMap:
		out[x] = true
	case *ssa.MakeSlice:
		out[x] = true
	case *ssa.Alloc:
		out[x] = true
		for _, st := range cellStores(x) {
			holdersOf(st.Val, depth+1, seen, out)
		}
		// an array filled element by element (the varargs of append)
		for _, r := range *x.Referrers() {
			if ia, ok := r.(*ssa.IndexAddr); ok {
				for _, r2 := range *ia.Referrers() {
					if st, ok := r2.(*ssa.Store); ok && st.Addr == ssa.Value(ia) {
						holdersOf(st.Val, depth+1, seen, out)
					}
				}
			}
		}
	case *ssa.Phi:
		for _, e := range x.Edges {
			holdersOf(e, depth+1, seen, out)
		}
	case *ssa.Slice:
		holdersOf(x.X, depth+1, seen, out)
	case *ssa.Extract:
		holdersOf(x.Tuple, depth+1, seen, out)
	case *ssa.Lookup:
		holdersOf(x.X, depth+1, seen, out)
		// and whatever was put into that map
		for _, r := range *root(x.X).Referrers() {
			if mu, ok := r.(*ssa.MapUpdate); ok {
				holdersOf(mu.Value, depth+1, seen, out)
			}
		}
	case *ssa.UnOp:
		if x.Op == token.MUL {
			if ia, ok := x.X.(*ssa.IndexAddr); ok {
				holdersOf(ia.X, depth+1, seen, out)
				return
			}
			holdersOf(x.X, depth+1, seen, out)
		}
	case *ssa.Call:
		if b, ok := x.Call.Value.(*ssa.Builtin); ok && b.Name() == "append" && len(x.Call.Args) > 0 {
			holdersOf(x.Call.Args[0], depth+1, seen, out)
			if len(x.Call.Args) > 1 {
				holdersOf(x.Call.Args[1], depth+1, seen, out) // the appended elements (through the varargs slice)
			}
		}
	case *ssa.IndexAddr:
		holdersOf(x.X, depth+1, seen, out)
		// elements stored through this array (varargs of append)
		for _, r := range *x.Referrers() {
			if st, ok := r.(*ssa.Store); ok {
				holdersOf(st.Val, depth+1, seen, out)
			}
		}
	}
}

func r28MemoSinks(c *RuleCtx, fn *ssa.Function, ph *ssa.Phi, web map[ssa.Value]bool, T, F *natLoop, props []string) {
	p := c.p
	// taint: the web, arithmetic on it, and what is read back from containers it was stored into
	taint := map[ssa.Value]bool{}
	for v := range web {
		taint[v] = true
	}
	holds := map[ssa.Value]bool{} // roots of containers holding tainted values
	type sink struct {
		in   ssa.Instruction
		cont ssa.Value
	}
	var sinks []sink
	for changed := true; changed; {
		changed = false
		for b := range F.blocks {
			for _, in := range b.Instrs {
				switch x := in.(type) {
				case *ssa.MapUpdate:
					if taint[x.Value] && !holds[root(x.Map)] {
						holds[root(x.Map)] = true
						changed = true
					}
				case *ssa.Store:
					if ia, ok := x.Addr.(*ssa.IndexAddr); ok && taint[x.Val] && !holds[root(ia.X)] {
						holds[root(ia.X)] = true
						changed = true
					}
				case *ssa.Lookup:
					if holds[root(x.X)] && !taint[x] {
						taint[x] = true
						changed = true
					}
				case *ssa.Extract:
					if taint[x.Tuple] && x.Index == 0 && !taint[x] {
						taint[x] = true
						changed = true
					}
				case *ssa.UnOp:
					if x.Op == token.MUL && !taint[x] {
						if ia, ok := x.X.(*ssa.IndexAddr); ok && holds[root(ia.X)] {
							taint[x] = true
							changed = true
						}
					}
				case *ssa.BinOp:
					if !taint[x] && (x.Op == token.ADD || x.Op == token.SUB) && (taint[x.X] || taint[x.Y]) {
						taint[x] = true
						changed = true
					}
				case *ssa.Phi:
					if !taint[x] {
						for _, e := range x.Edges {
							if taint[e] {
								taint[x] = true
								changed = true
								break
							}
						}
					}
				case *ssa.Convert:
					if taint[x.X] && !taint[x] {
						taint[x] = true
						changed = true
					}
				}
			}
		}
	}
	for b := range F.blocks {
		for _, in := range b.Instrs {
			switch x := in.(type) {
			case *ssa.MapUpdate:
				if taint[x.Value] {
					sinks = append(sinks, sink{in, x.Map})
				}
			case *ssa.Store:
				if ia, ok := x.Addr.(*ssa.IndexAddr); ok && taint[x.Val] {
					sinks = append(sinks, sink{in, ia.X})
				}
			}
		}
	}
	sort.Slice(sinks, func(i, j int) bool { return sinks[i].in.Pos() < sinks[j].in.Pos() })
	isReset := func(v ssa.Value) bool {
		switch x := v.(type) {
		case *ssa.MakeMap, *ssa.MakeSlice:
			return true
		case *ssa.Const:
			return x.IsNil()
		case *ssa.Slice:
			if k, ok := constInt64(x.High); ok && k == 0 {
				return true
			}
		}
		return false
	}
	done := map[ssa.Instruction]bool{}
	for _, s := range sinks {
		hs := map[ssa.Instruction]bool{}
		holdersOf(s.cont, 0, map[ssa.Value]bool{}, hs)
		for h := range hs {
			if F.blocks[h.Block()] || done[h] {
				continue // made afresh in every round
			}
			done[h] = true
			reaches := func(v ssa.Value) bool {
				m := map[ssa.Instruction]bool{}
				holdersOf(v, 0, map[ssa.Value]bool{}, m)
				return m[h]
			}
			var evidence []string
			for b := range F.blocks {
				if T.blocks[b] {
					continue
				}
				for _, in := range b.Instrs {
					switch x := in.(type) {
					case *ssa.Call:
						if bi, ok := x.Call.Value.(*ssa.Builtin); ok && bi.Name() == "clear" && len(x.Call.Args) == 1 && reaches(x.Call.Args[0]) {
							evidence = append(evidence, "clear at "+c.pos(x))
						}
					case *ssa.Slice:
						// `t = t[:0]` — the holder itself is cut back to nothing
						if k, ok := constInt64(x.High); ok && k == 0 && reaches(x.X) {
							if _, isHolder := h.(*ssa.MakeSlice); isHolder && holderIsDirect(x.X, h) {
								evidence = append(evidence, "cut back to length 0 at "+c.pos(x))
							}
						}
					case *ssa.MapUpdate:
						if isReset(x.Value) && reaches(x.Map) && !onlyWhenAbsent(fn, x, x.Map) {
							evidence = append(evidence, "element reset at "+c.pos(x))
						}
					case *ssa.Store:
						if ia, ok := x.Addr.(*ssa.IndexAddr); ok && isReset(x.Val) && reaches(ia.X) && !onlyWhenAbsent(fn, x, ia.X) {
							evidence = append(evidence, "element reset at "+c.pos(x))
						}
					}
				}
			}
			name := "table"
			if hv, ok := h.(ssa.Value); ok {
				name = hv.Name()
				if mk, ok := h.(*ssa.MakeMap); ok {
					name = tableNameOfMap(mk)
				} else if nm := assignedNameAt(fn, h.Pos()); nm != "" {
					name = nm
				} else if al, ok := h.(*ssa.Alloc); ok && al.Comment != "" {
					name = al.Comment
				}
			}
			sort.Strings(evidence)
			c.add(statusOf(len(evidence) > 0), fmt.Sprintf("round-ids/%s/%s/%s", funcShortName(fn), ph.Comment, name), c.pos(s.in),
				fmt.Sprintf("in %s the table %s, which outlives a round of the loop at %s and receives ids of the counter %s that restarts every round, is emptied in every round", funcShortName(fn), name, p.instrPos(F.header.Instrs[len(F.header.Instrs)-1]), ph.Comment),
				"nothing inside the outer loop empties the table (a lazy allocation under a nil test does not): ids of the previous round are found in it and taken for ids of this round", props, nil)
		}
	}
}

// onlyWhenAbsent: the store is control-dependent on finding that very element nil / absent (lazy allocation).
func onlyWhenAbsent(fn *ssa.Function, at ssa.Instruction, cont ssa.Value) bool {
	for _, d := range controlDeps(fn)[at.Block()] {
		cond := branchCond(d.Branch)
		bo, ok := cond.(*ssa.BinOp)
		if ok && (bo.Op == token.EQL || bo.Op == token.NEQ) && (isNilConst(bo.X) || isNilConst(bo.Y)) {
			x := bo.X
			if isNilConst(x) {
				x = bo.Y
			}
			hs, hc := map[ssa.Instruction]bool{}, map[ssa.Instruction]bool{}
			holdersOf(x, 0, map[ssa.Value]bool{}, hs)
			holdersOf(cont, 0, map[ssa.Value]bool{}, hc)
			for h := range hs {
				if hc[h] {
					return true
				}
			}
		}
		// `_, ok := m[k]; if !ok { m[k] = make(...) }`
		if ex, ok := cond.(*ssa.Extract); ok && ex.Index == 1 {
			if lk, ok := ex.Tuple.(*ssa.Lookup); ok && root(lk.X) == root(cont) {
				return true
			}
		}
	}
	return false
}

// holderIsDirect: v is the holder itself (through phis, re-slicing and append), not something kept in it.
func holderIsDirect(v ssa.Value, h ssa.Instruction) bool {
	seen := map[ssa.Value]bool{}
	var walk func(v ssa.Value, depth int) bool
	walk = func(v ssa.Value, depth int) bool {
		if v == nil || depth > 8 || seen[v] {
			return false
		}
		seen[v] = true
		if in, ok := v.(ssa.Instruction); ok && in == h {
			return true
		}
		switch x := v.(type) {
		case *ssa.Phi:
			for _, e := range x.Edges {
				if walk(e, depth+1) {
					return true
				}
			}
		case *ssa.Slice:
			return walk(x.X, depth+1)
		case *ssa.Call:
			if b, ok := x.Call.Value.(*ssa.Builtin); ok && b.Name() == "append" && len(x.Call.Args) > 0 {
				return walk(x.Call.Args[0], depth+1)
			}
		}
		return false
	}
	return walk(v, 0)
}
