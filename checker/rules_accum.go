package main

// R28 TERM-ACCUMULATORS — the per-term accumulators that are reused from term
// to term (chunked int coders, the merge's postings bitmap, the last-hit
// scalars that the 1-hit decision reads) are reset after each term is written.

import (
	"fmt"
	"go/token"
	"strings"

	"golang.org/x/tools/go/ssa"
)

// cellKey identifies the variable a value is loaded from (local cell or
// captured variable), or the value itself for plain SSA values.
func cellKey(v ssa.Value) (string, ssa.Value) {
	if u, ok := v.(*ssa.UnOp); ok && u.Op == token.MUL {
		if c := cellOf(u.X); c != nil {
			return "cell " + c.Comment, c
		}
	}
	return v.Name(), v
}

func ruleR28() *Rule {
	return &Rule{
		ID:    "R28",
		Title: "TERM-ACCUMULATORS: per-term accumulators reused across terms are reset after each term is written",
		Props: []string{"C01", "C06", "C09", "C13"},
		Floor: floorFor("R28"),
		Run: func(c *RuleCtx) {
			p := c.p
			wp := c.fn("writePostings")
			if wp == nil {
				return
			}
			nSites := 0
			for _, cs := range p.callersOf(wp) {
				fn := cs.Parent()
				if !p.InZap(fn) {
					continue
				}
				nSites++
				props := []string{"C01"}
				if fn.Parent() != nil || strings.Contains(fn.Name(), "merge") {
					props = []string{"C06"}
				}
				fname := funcShortName(fn)
				args := cs.Common().Args
				// accumulators: the two encoders; the postings bitmap when it is a reused variable;
				// the scalars read by the 1-hit decision closure
				type acc struct {
					name string
					id   ssa.Value // cell or value
					kind string    // reset | clear | zero
					bit  uint64
				}
				var accs []acc
				add := func(name string, id ssa.Value, kind string) {
					accs = append(accs, acc{name, id, kind, 1 << uint(len(accs))})
				}
				for i := 1; i <= 2; i++ {
					n, id := cellKey(args[i])
					if !strings.HasPrefix(n, "cell ") && i < len(wp.Params) {
						n = wp.Params[i].Name() // a plain local: name it by its role
					}
					add(n, id, "reset")
				}
				if n, id := cellKey(args[0]); strings.HasPrefix(n, "cell ") {
					add(n, id, "clear")
				}
				// the decision closure
				if u, ok := args[3].(*ssa.UnOp); ok {
					if cell := cellOf(u.X); cell != nil {
						for _, st := range cellStores(cell) {
							if mc, ok := st.Val.(*ssa.MakeClosure); ok {
								cl := mc.Fn.(*ssa.Function)
								eachInstr(cl, func(_ *ssa.BasicBlock, in ssa.Instruction) {
									ld, ok := in.(*ssa.UnOp)
									if !ok || ld.Op != token.MUL {
										return
									}
									cc := cellOf(ld.X)
									if cc == nil {
										return
									}
									if widthOf(ld.Type()) == 0 {
										return // only scalars
									}
									dup := false
									for _, a := range accs {
										if a.id == ssa.Value(cc) {
											dup = true
										}
									}
									if !dup {
										add("cell "+cc.Comment, cc, "zero")
									}
								})
							}
						}
					}
				}
				isAcc := func(v ssa.Value) *acc {
					_, id := cellKey(v)
					for i := range accs {
						if accs[i].id == id {
							return &accs[i]
						}
					}
					return nil
				}
				var all uint64
				for _, a := range accs {
					all |= a.bit
				}
				tr := func(in ssa.Instruction, ev uint64, _ bool) []uint64 {
					if in == ssa.Instruction(cs) {
						return []uint64{ev | all}
					}
					switch x := in.(type) {
					case *ssa.Store:
						if cell := cellOf(x.Addr); cell != nil {
							for _, a := range accs {
								if a.id == ssa.Value(cell) && a.kind == "zero" {
									if k, ok := constUint64(x.Val); ok && k == 0 {
										return []uint64{ev &^ a.bit}
									}
								}
							}
						}
					case ssa.CallInstruction:
						f := staticCallee(x)
						if f == nil || len(x.Common().Args) == 0 {
							return nil
						}
						a := isAcc(x.Common().Args[0])
						if a == nil {
							return nil
						}
						if (a.kind == "reset" && f.Name() == "Reset") || (a.kind == "clear" && f.Name() == "Clear") {
							return []uint64{ev &^ a.bit}
						}
					}
					return nil
				}
				pa := newPathAnalysis(fn, tr)
				pa.run(0)
				report := func(at ssa.Instruction, where string) {
					dirty := uint64(0)
					for _, ev := range pa.statesBefore(at) {
						dirty |= ev
					}
					for _, a := range accs {
						key := fmt.Sprintf("%s/%s/%s", fname, strings.TrimPrefix(a.name, "cell "), where)
						c.add(statusOf(dirty&a.bit == 0), key, c.pos(at),
							fmt.Sprintf("in %s the per-term accumulator %s is %s after a term was written and before %s", fname, strings.TrimPrefix(a.name, "cell "), map[string]string{"reset": "Reset()", "clear": "Clear()ed", "zero": "set to 0"}[a.kind], where),
							"a path gets there with the accumulator still holding the previous term's state: the next term's postings details / 1-hit decision would include the previous term's data", props, nil)
					}
				}
				if fn.Parent() != nil {
					// a per-term closure: at every successful return
					n := 0
					for _, ret := range returnsOf(fn) {
						if _, ns := errorOfReturn(ret); ns == nonNil {
							continue
						}
						if !pa.reachable(ret.Block()) {
							continue
						}
						n++
						report(ret, "the term closure returns success")
					}
				} else {
					// inline in a loop over terms: when the encoders are configured for the next term
					n := 0
					for _, cs2 := range callSites(fn) {
						f := staticCallee(cs2)
						if f == nil || f.Name() != "SetChunkSize" || len(cs2.Common().Args) == 0 {
							continue
						}
						if a := isAcc(cs2.Common().Args[0]); a != nil && n == 0 {
							n++
							report(cs2, "the coders are set up for the next term")
						}
					}
					if n == 0 {
						c.undecidedP(props, fname+"/next-term-point", c.fpos(fn), "the point where the next term starts (SetChunkSize on the coders) is found", "not found")
					}
				}
			}
			c.check(nSites >= 2, "sites", "-", "call sites of writePostings are found (confirmed by hand: build writer, merge term closure)", fmt.Sprintf("found %d", nSites))
		},
	}
}
