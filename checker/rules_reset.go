package main

// R10 RESET-COMPLETE — pooled builder state is re-initialised.

import (
	"fmt"
	"go/token"
	"go/types"
	"sort"
	"strings"

	"golang.org/x/tools/go/ssa"
)

// fields with a recorded reason for not being touched by Reset
var resetExempt = map[string]string{
	"synonymIndexOpaque.thesaurusAddrs": "only read through keys of FieldIDtoThesaurusID, which Reset clears and realloc rebuilds; writeThesauri rewrites every key it can be asked for",
}

// re-extensions of truncated-only slices that are safe, with reason
var reextendOK = map[string]string{
	"invertedIndexOpaque.FreqNorms@invertedIndexOpaque.realloc":         "every element is reassigned by the carve loop over numTermsPerPostingsList right after the re-extension",
	"invertedIndexOpaque.Locs@invertedIndexOpaque.realloc":              "every element is reassigned by the carve loop over numLocsPerPostingsList right after the re-extension",
	"invertedIndexOpaque.reusableFieldLens@invertedIndexOpaque.realloc": "zeroed at the end of every document by process()",
	"invertedIndexOpaque.reusableFieldTFs@invertedIndexOpaque.realloc":  "set to nil at the end of every document by process()",
	"invertedIndexOpaque.tmp0@invertedIndexOpaque.grabBuf":              "scratch buffer: written before every read",
	"synonymIndexOpaque.tmp0@synonymIndexOpaque.grabBuf":                "scratch buffer: written before every read",
	"vectorIndexOpaque.tmp0@vectorIndexOpaque.grabBuf":                  "scratch buffer: written before every read",
}

type fieldCover struct {
	how  string
	pos  string
	kind string // for slices: nil | zeroed | truncated | other
}

// resetEffects collects, for method fn with receiver recv, which fields of the
// receiver are re-initialised, following callees on the same receiver.
func resetEffects(p *Program, fn *ssa.Function, sn string, cover map[string]*fieldCover, depth int, seen map[*ssa.Function]bool, before ...map[string]bool) {
	if fn == nil || len(fn.Blocks) == 0 || depth > 3 || seen[fn] {
		return
	}
	seen[fn] = true
	recv := fn.Params[0]
	// fields of the receiver that may already have been stored when an instruction of fn runs:
	// stored before fn was called (handed down), or on a path inside fn
	storedBefore := func(at ssa.Instruction) map[string]bool {
		out := map[string]bool{}
		for _, m := range before {
			for k := range m {
				out[k] = true
			}
		}
		reach := blocksReaching(at.Block())
		eachInstr(fn, func(b *ssa.BasicBlock, in ssa.Instruction) {
			st, ok := in.(*ssa.Store)
			if !ok {
				return
			}
			s, f, base, ok := fieldOf(st.Addr)
			if !ok || s != sn || root(base) != ssa.Value(recv) {
				return
			}
			if (b == at.Block() && instrIndexIn(in) < instrIndexIn(at)) || (b != at.Block() && reach[b]) || (b == at.Block() && reach[b]) {
				out[f] = true
			}
		})
		return out
	}
	// boundCovers: a loop over len(bf) reaches every element of f (bf != f) when len(bf) >= len(f) by
	// construction and bf has not been stored on the way to the loop
	boundCovers := func(bf, f string, at ssa.Instruction) bool {
		if bf == "?" || bf == "" {
			return false
		}
		if storedBefore(at)[bf] {
			return false
		}
		return lenAtLeast(p, sn, bf, f)
	}
	isRecvField := func(addr ssa.Value) (string, bool) {
		s, f, base, ok := fieldOf(addr)
		if ok && s == sn && root(base) == ssa.Value(recv) {
			return f, true
		}
		return "", false
	}
	set := func(f, how, kind string, in ssa.Instruction) {
		c := cover[f]
		if c == nil {
			c = &fieldCover{}
			cover[f] = c
		}
		if c.how == "" {
			c.how = how
			c.pos = p.instrPos(in)
		}
		// element treatment: the strongest seen wins: zeroed > nil > truncated
		rank := map[string]int{"": 0, "other": 1, "truncated": 2, "nil": 3, "zeroed": 4}
		if rank[kind] > rank[c.kind] {
			c.kind = kind
		}
	}
	eachInstr(fn, func(_ *ssa.BasicBlock, in ssa.Instruction) {
		switch x := in.(type) {
		case *ssa.Store:
			if f, ok := isRecvField(x.Addr); ok {
				kind := "other"
				if isNilConst(x.Val) {
					kind = "nil"
				} else if sl, ok := x.Val.(*ssa.Slice); ok {
					if h, ok := constInt64(sl.High); ok && h == 0 {
						if ff, _, _, ok2 := loadedField(sl.X); ok2 && ff == sn {
							kind = "truncated"
						}
					}
				}
				set(f, "store in "+funcShortName(fn), kind, in)
				return
			}
			// a field of an element: f[i].g = …  (`isf := &x.f[id]; isf.vals = isf.vals[:0]` for the ids in use)
			if fa, ok := x.Addr.(*ssa.FieldAddr); ok {
				if ia, ok := fa.X.(*ssa.IndexAddr); ok {
					if s, f, base, ok := loadedField(ia.X); ok && s == sn && root(base) == ssa.Value(recv) {
						set(f, "fields of its elements re-assigned in "+funcShortName(fn), "zeroed", in)
					}
				}
			}
			// element store: f[i] = zero, in a loop over all of f
			if ia, ok := x.Addr.(*ssa.IndexAddr); ok {
				if s, f, base, ok := loadedField(ia.X); ok && s == sn && root(base) == ssa.Value(recv) {
					if bf, known := loopBoundField(ia.Index, sn, recv); known && bf != f && !boundCovers(bf, f, in) {
						set(f, "element store in "+funcShortName(fn)+" in a loop bounded by len("+bf+"), not len("+f+")", "truncated", in)
					} else {
						set(f, "element store in "+funcShortName(fn), "zeroed", in)
					}
				}
			}
		case *ssa.MapUpdate:
			// every entry of a map field re-assigned by a loop over that very map
			// (`for k, v := range x.m { x.m[k] = v.truncate() }`)
			if s, f, base, ok := loadedField(x.Map); ok && s == sn && root(base) == ssa.Value(recv) {
				if ex, ok := x.Key.(*ssa.Extract); ok && ex.Index == 1 {
					if nx, ok := ex.Tuple.(*ssa.Next); ok {
						if rg, ok := nx.Iter.(*ssa.Range); ok {
							if s2, f2, base2, ok := loadedField(rg.X); ok && s2 == sn && f2 == f && root(base2) == ssa.Value(recv) {
								set(f, "every entry re-assigned by a loop over the map in "+funcShortName(fn), "truncated", in)
							}
						}
					}
				}
			}
		case ssa.CallInstruction:
			cc := x.Common()
			if b, ok := cc.Value.(*ssa.Builtin); ok {
				if (b.Name() == "delete" || b.Name() == "clear") && len(cc.Args) > 0 {
					if s, f, base, ok := loadedField(cc.Args[0]); ok && s == sn && root(base) == ssa.Value(recv) {
						set(f, "builtin "+b.Name()+" in "+funcShortName(fn), "zeroed", in)
					}
				}
				return
			}
			callee := staticCallee(x)
			var first ssa.Value
			if cc.IsInvoke() {
				first = cc.Value
			} else if len(cc.Args) > 0 {
				first = cc.Args[0]
			}
			name := ""
			if callee != nil {
				name = callee.Name()
			} else if cc.IsInvoke() {
				name = cc.Method.Name()
			}
			mutating := name == "Reset" || name == "Clear" || strings.HasPrefix(name, "Store") || fullResetMethod(callee)
			if first != nil && mutating {
				// on the address of a field (metaBuf.Reset(), atomic.StoreUint64(&x.f, 0))
				if f, ok := isRecvField(first); ok {
					set(f, name+" on the field in "+funcShortName(fn), "zeroed", in)
				}
				// on the loaded value (builder.Reset(...))
				if s, f, base, ok := loadedField(first); ok && s == sn && root(base) == ssa.Value(recv) {
					set(f, name+" on the loaded value in "+funcShortName(fn), "zeroed", in)
				}
				// on an element obtained by ranging / indexing the loaded field
				if f := elementOfField(first, sn, recv); f != "" {
					kind := "zeroed"
					if u, ok := first.(*ssa.UnOp); ok {
						if ia, ok := u.X.(*ssa.IndexAddr); ok {
							if bf, known := loopBoundField(ia.Index, sn, recv); known && bf != f && !boundCovers(bf, f, in) {
								kind = "truncated"
							}
						}
					}
					set(f, name+" on every element in "+funcShortName(fn), kind, in)
				}
			}
			// same-receiver helper
			if callee != nil && p.InZap(callee) && callee.Signature.Recv() != nil && len(cc.Args) > 0 && root(cc.Args[0]) == ssa.Value(recv) {
				resetEffects(p, callee, sn, cover, depth+1, seen, storedBefore(x))
			}
		}
	})
}

// endOfDocumentAlwaysRuns: the per-document driver of the build (interim.processDocument) reaches the
// end-of-document call of every section — Process(opaque, docNum, nil, MaxUint16), which is where the
// inverted-index builder zeroes its per-document scratch — on every path to every return.
func endOfDocumentAlwaysRuns(c *RuleCtx) (bool, string) {
	fn := c.method("interim", "processDocument")
	if fn == nil || len(fn.Blocks) == 0 {
		return false, "interim.processDocument not found"
	}
	var eod ssa.Instruction
	eachInstr(fn, func(_ *ssa.BasicBlock, in ssa.Instruction) {
		call, ok := in.(*ssa.Call)
		if !ok || !call.Call.IsInvoke() || call.Call.Method.Name() != "Process" || len(call.Call.Args) != 4 {
			return
		}
		if k, ok := constUint64(call.Call.Args[3]); ok && k == 65535 && isNilConst(call.Call.Args[2]) {
			eod = in
		}
	})
	if eod == nil {
		return false, "the end-of-document call Process(opaque, docNum, nil, MaxUint16) is not found in interim.processDocument"
	}
	// the loop over the sections that contains it: entering that loop is as good as the call
	head := eod.Block()
	for _, b := range fn.Blocks {
		if b.Dominates(eod.Block()) {
			for _, p := range b.Preds {
				if b.Dominates(p) && (p == eod.Block() || eod.Block().Dominates(p) || reachesBlock(eod.Block(), p)) {
					head = b
				}
			}
		}
	}
	// a document that no section has seen a field of has left nothing behind: returning before the first
	// per-field Process call (a validation pass in front of the walk) needs no end-of-document step
	isFieldProcess := func(in ssa.Instruction) bool {
		call, ok := in.(ssa.CallInstruction)
		if !ok || in == eod {
			return false
		}
		cc := call.Common()
		return cc.IsInvoke() && cc.Method.Name() == "Process"
	}
	procClosure := map[*ssa.Function]bool{}
	var closuresOf func(v ssa.Value, in *ssa.Function, depth int) []*ssa.Function
	closuresOf = func(v ssa.Value, in *ssa.Function, depth int) []*ssa.Function {
		if depth > 4 || v == nil {
			return nil
		}
		switch x := v.(type) {
		case *ssa.MakeClosure:
			if f, ok := x.Fn.(*ssa.Function); ok {
				return []*ssa.Function{f}
			}
		case *ssa.ChangeType:
			return closuresOf(x.X, in, depth+1)
		case *ssa.UnOp:
			if x.Op != token.MUL {
				return nil
			}
			var cell ssa.Value = x.X
			owner := in
			if fv, ok := cell.(*ssa.FreeVar); ok && in.Parent() != nil {
				// the captured cell in the parent
				idx := -1
				for i, f := range in.FreeVars {
					if f == fv {
						idx = i
					}
				}
				cell = nil
				eachInstr(in.Parent(), func(_ *ssa.BasicBlock, pin ssa.Instruction) {
					if mc, ok := pin.(*ssa.MakeClosure); ok && mc.Fn == ssa.Value(in) && idx >= 0 && idx < len(mc.Bindings) {
						cell = mc.Bindings[idx]
					}
				})
				owner = in.Parent()
			}
			al, ok := cell.(*ssa.Alloc)
			if !ok {
				return nil
			}
			var out []*ssa.Function
			for _, r := range *al.Referrers() {
				if st, ok := r.(*ssa.Store); ok && st.Addr == ssa.Value(al) {
					out = append(out, closuresOf(st.Val, owner, depth+1)...)
				}
			}
			return out
		}
		return nil
	}
	for changed := true; changed; {
		changed = false
		for _, af := range fn.AnonFuncs {
			if procClosure[af] {
				continue
			}
			eachInstr(af, func(_ *ssa.BasicBlock, in ssa.Instruction) {
				if isFieldProcess(in) {
					procClosure[af] = true
				}
				if call, ok := in.(ssa.CallInstruction); ok {
					vals := append([]ssa.Value{call.Common().Value}, call.Common().Args...)
					for _, v := range vals {
						for _, g := range closuresOf(v, af, 0) {
							if procClosure[g] {
								procClosure[af] = true
							}
						}
					}
				}
			})
			if procClosure[af] {
				changed = true
			}
		}
	}
	pa := newPathAnalysis(fn, func(in ssa.Instruction, ev uint64, _ bool) []uint64 {
		if in == eod || (len(head.Instrs) > 0 && in == head.Instrs[0]) {
			return []uint64{ev | 1}
		}
		if isFieldProcess(in) {
			return []uint64{ev | 2}
		}
		if call, ok := in.(ssa.CallInstruction); ok {
			vals := append([]ssa.Value{call.Common().Value}, call.Common().Args...)
			for _, v := range vals {
				for _, g := range closuresOf(v, fn, 0) {
					if procClosure[g] {
						return []uint64{ev | 2}
					}
				}
			}
		}
		return nil
	})
	pa.run(0)
	for _, ret := range returnsOf(fn) {
		for _, ev := range pa.statesBefore(ret) {
			if ev&1 == 0 && ev&2 != 0 {
				return false, "interim.processDocument can return (" + c.pos(ret) + ") without the end-of-document step: the scratch of the abandoned document stays in the pooled builder"
			}
		}
	}
	return true, ""
}

// builderPooledAfterFailedConvert: some Put of the builder pool in newWithChunkMode is reachable on a path
// where convert() ran and its error is not known to be nil (a build abandoned half way can only leave
// something behind for the next build if its builder is recycled).
func builderPooledAfterFailedConvert(c *RuleCtx) bool {
	nwcm := c.method("ZapPlugin", "newWithChunkMode")
	convert := c.method("interim", "convert")
	if nwcm == nil || convert == nil {
		return true // cannot tell: assume the worse
	}
	var conv *ssa.Call
	for _, cs := range callSites(nwcm) {
		if call, ok := cs.(*ssa.Call); ok && staticCallee(cs) == convert {
			conv = call
		}
	}
	if conv == nil {
		return true
	}
	errv := errValueOfCall(conv)
	const called, isNil = 1, 2
	condTr := func(cond ssa.Value, outcome bool, ev uint64, _ func(ssa.Value) ssa.Value) uint64 {
		bo, ok := cond.(*ssa.BinOp)
		if !ok || (bo.Op != token.EQL && bo.Op != token.NEQ) {
			return ev
		}
		var other ssa.Value
		switch {
		case isNilConst(bo.Y):
			other = bo.X
		case isNilConst(bo.X):
			other = bo.Y
		default:
			return ev
		}
		if errv != nil && sameValue(other, errv) {
			if (bo.Op == token.EQL) == outcome {
				ev |= isNil
			} else {
				ev &^= isNil
			}
		}
		return ev
	}
	pa := newPathAnalysis(nwcm, func(in ssa.Instruction, ev uint64, _ bool) []uint64 {
		if in == ssa.Instruction(conv) {
			return []uint64{(ev | called) &^ isNil}
		}
		return nil
	})
	pa.condTr = condTr
	pa.edgeTr = func(pred *ssa.BasicBlock, succIdx int, ev uint64) uint64 {
		if iff, ok := pred.Instrs[len(pred.Instrs)-1].(*ssa.If); ok && len(pred.Succs) == 2 {
			return condTr(iff.Cond, succIdx == 0, ev, nil)
		}
		return ev
	}
	pa.run(0)
	for _, cs := range callSites(nwcm) {
		if g, op := poolOp(cs); g != nil && op == "Put" {
			for _, ev := range pa.statesBefore(cs) {
				if ev&called != 0 && ev&isNil == 0 {
					return true
				}
			}
		}
	}
	return false
}

func reachesBlock(from, to *ssa.BasicBlock) bool {
	seen := map[*ssa.BasicBlock]bool{}
	work := []*ssa.BasicBlock{from}
	for len(work) > 0 {
		x := work[len(work)-1]
		work = work[:len(work)-1]
		if x == to {
			return true
		}
		if seen[x] {
			continue
		}
		seen[x] = true
		work = append(work, x.Succs...)
	}
	return false
}

// fullResetMethod: a method that assigns every field of the struct its receiver points to, on every path
// (`func (c *CountHashWriter) reset(w io.Writer) { c.w = w; c.crc = 0; c.n = 0; c.s = nil }`): calling it on a
// kept object re-initialises that object, whatever the method is called.
func fullResetMethod(f *ssa.Function) bool {
	if f == nil || len(f.Blocks) == 0 || f.Signature.Recv() == nil || len(f.Params) == 0 {
		return false
	}
	pt, ok := f.Signature.Recv().Type().Underlying().(*types.Pointer)
	if !ok {
		return false
	}
	st, ok := pt.Elem().Underlying().(*types.Struct)
	if !ok || st.NumFields() == 0 {
		return false
	}
	recv := f.Params[0]
	stored := map[int]bool{}
	rets := returnsOf(f)
	eachInstr(f, func(b *ssa.BasicBlock, in ssa.Instruction) {
		store, ok := in.(*ssa.Store)
		if !ok {
			return
		}
		if store.Addr == ssa.Value(recv) {
			if _, ok := wholeStructStore(store); ok {
				for i := 0; i < st.NumFields(); i++ {
					stored[i] = true
				}
			}
			return
		}
		fa, ok := store.Addr.(*ssa.FieldAddr)
		if !ok || fa.X != ssa.Value(recv) {
			return
		}
		for _, r := range rets {
			if !(b == r.Block() || b.Dominates(r.Block())) {
				return
			}
		}
		stored[fa.Field] = true
	})
	return len(stored) == st.NumFields()
}

// blocksReaching: the blocks from which b can be reached over at least one edge.
func blocksReaching(b *ssa.BasicBlock) map[*ssa.BasicBlock]bool {
	out := map[*ssa.BasicBlock]bool{}
	work := append([]*ssa.BasicBlock(nil), b.Preds...)
	for len(work) > 0 {
		x := work[len(work)-1]
		work = work[:len(work)-1]
		if out[x] {
			continue
		}
		out[x] = true
		work = append(work, x.Preds...)
	}
	return out
}

// lenAtLeast decides, from every store to the two slice fields anywhere in the package, that
// len(x.big) >= len(x.small) holds whenever no method of the struct is running:
//   - small is only ever truncated (nil, [:0]), cut or made to len(big), or grown by one element in a
//     function that has first grown big by one element (and cannot grow small twice for that);
//   - big only grows (append), except in functions that also truncate small.
//
// Anything else: not decided here (false).
func lenAtLeast(p *Program, sn, big, small string) bool {
	isLoadOf := func(v ssa.Value, f string) bool {
		s, ff, _, ok := loadedField(v)
		return ok && s == sn && ff == f
	}
	lenOf := func(v ssa.Value, f string) bool {
		if cv, ok := v.(*ssa.Convert); ok {
			v = cv.X
		}
		call, ok := v.(*ssa.Call)
		if !ok {
			return false
		}
		if b, ok := call.Call.Value.(*ssa.Builtin); !ok || b.Name() != "len" {
			return false
		}
		return isLoadOf(call.Call.Args[0], f)
	}
	growsByOne := func(v ssa.Value, f string) bool {
		switch x := v.(type) {
		case *ssa.Call:
			if b, ok := x.Call.Value.(*ssa.Builtin); ok && b.Name() == "append" && len(x.Call.Args) == 2 && isLoadOf(x.Call.Args[0], f) {
				// append(f, one): the variadic argument is a slice of a one-element array
				if sl, ok := x.Call.Args[1].(*ssa.Slice); ok {
					if al, ok := sl.X.(*ssa.Alloc); ok {
						if at, ok := derefType(al.Type()).Underlying().(*types.Array); ok && at.Len() == 1 {
							return true
						}
					}
				}
			}
		case *ssa.Slice:
			// f[:len(f)+1]
			if isLoadOf(x.X, f) && x.Low == nil {
				if bo, ok := x.High.(*ssa.BinOp); ok && bo.Op == token.ADD {
					if k, ok := constInt64(bo.Y); ok && k == 1 && lenOf(bo.X, f) {
						return true
					}
				}
			}
		}
		return false
	}
	type site struct {
		st *ssa.Store
		fn *ssa.Function
	}
	var bigStores, smallStores []site
	for _, fn := range p.ZapFuncs {
		eachInstr(fn, func(_ *ssa.BasicBlock, in ssa.Instruction) {
			st, ok := in.(*ssa.Store)
			if !ok {
				return
			}
			s, f, _, ok := fieldOf(st.Addr)
			if !ok || s != sn {
				return
			}
			if f == big {
				bigStores = append(bigStores, site{st, fn})
			}
			if f == small {
				smallStores = append(smallStores, site{st, fn})
			}
		})
	}
	truncates := func(v ssa.Value, f string) bool {
		if isNilConst(v) {
			return true
		}
		if sl, ok := v.(*ssa.Slice); ok && isLoadOf(sl.X, f) {
			if h, ok := constInt64(sl.High); ok && h == 0 {
				return true
			}
		}
		return false
	}
	var truncatesSmallIn func(fn *ssa.Function, depth int) bool
	truncatesSmallIn = func(fn *ssa.Function, depth int) bool {
		if depth > 3 || fn.Signature.Recv() == nil || len(fn.Params) == 0 {
			return false
		}
		found := false
		eachInstr(fn, func(_ *ssa.BasicBlock, in ssa.Instruction) {
			switch x := in.(type) {
			case *ssa.Store:
				if s, f, base, ok := fieldOf(x.Addr); ok && s == sn && f == small && root(base) == ssa.Value(fn.Params[0]) && truncates(x.Val, small) {
					found = true
				}
			case ssa.CallInstruction:
				if callee := staticCallee(x); callee != nil && p.InZap(callee) && callee.Signature.Recv() != nil && len(x.Common().Args) > 0 &&
					root(x.Common().Args[0]) == ssa.Value(fn.Params[0]) && truncatesSmallIn(callee, depth+1) {
					found = true
				}
			}
		})
		return found
	}
	for _, b := range bigStores {
		v := b.st.Val
		if call, ok := v.(*ssa.Call); ok {
			if bi, ok := call.Call.Value.(*ssa.Builtin); ok && bi.Name() == "append" && isLoadOf(call.Call.Args[0], big) {
				continue // grows
			}
		}
		if !truncatesSmallIn(b.fn, 0) {
			return false
		}
	}
	for _, sm := range smallStores {
		v := sm.st.Val
		switch {
		case truncates(v, small):
			continue
		case growsByOne(v, small):
			// a growth of big dominates this store, and this store cannot run twice without it
			okPair := false
			for _, b := range bigStores {
				if b.fn != sm.fn || !growsByOne(b.st.Val, big) {
					continue
				}
				bb, sb := b.st.Block(), sm.st.Block()
				if !(bb == sb || bb.Dominates(sb)) {
					continue
				}
				// no cycle through sb that avoids bb
				seen := map[*ssa.BasicBlock]bool{bb: true}
				work := append([]*ssa.BasicBlock(nil), sb.Succs...)
				cyc := false
				for len(work) > 0 {
					x := work[len(work)-1]
					work = work[:len(work)-1]
					if seen[x] {
						continue
					}
					seen[x] = true
					if x == sb {
						cyc = true
						break
					}
					work = append(work, x.Succs...)
				}
				if bb == sb || !cyc {
					okPair = true
				}
			}
			if !okPair {
				return false
			}
		default:
			// cut or made to len(big)
			if sl, ok := v.(*ssa.Slice); ok && isLoadOf(sl.X, small) && sl.Low == nil && sl.High != nil && lenOf(sl.High, big) {
				continue
			}
			if mk, ok := v.(*ssa.MakeSlice); ok && lenOf(mk.Len, big) {
				continue
			}
			return false
		}
	}
	return len(bigStores) > 0 && len(smallStores) > 0
}

// elementOfField: v is an element of recv.<field> (range value, index).
func elementOfField(v ssa.Value, sn string, recv *ssa.Parameter) string {
	for i := 0; i < 4; i++ {
		switch x := v.(type) {
		case *ssa.UnOp:
			if x.Op != token.MUL {
				return ""
			}
			if ia, ok := x.X.(*ssa.IndexAddr); ok {
				if s, f, base, ok := loadedField(ia.X); ok && s == sn && root(base) == ssa.Value(recv) {
					return f
				}
			}
			return ""
		case *ssa.Extract:
			// range over map/slice: next(iter)
			if nx, ok := x.Tuple.(*ssa.Next); ok {
				if rg, ok := nx.Iter.(*ssa.Range); ok {
					if s, f, base, ok := loadedField(rg.X); ok && s == sn && root(base) == ssa.Value(recv) {
						return f
					}
				}
			}
			return ""
		case *ssa.TypeAssert:
			v = x.X
		default:
			return ""
		}
	}
	return ""
}

func ruleR10() *Rule {
	return &Rule{
		ID:    "R10",
		Title: "RESET-COMPLETE: every field of the pooled builder structs is re-initialised; truncated slices are not re-extended over stale elements",
		Props: []string{"C10", "C02", "C05"},
		Floor: floorFor("R10"),
		Run: func(c *RuleCtx) {
			p := c.p
			// the pooled types
			type pooled struct {
				name  string
				reset *ssa.Function
				set   *ssa.Function
			}
			var types_ []pooled
			if f := c.method("interim", "reset"); f != nil {
				types_ = append(types_, pooled{"interim", f, nil})
			}
			obj := p.ZapTypes.Scope().Lookup("resetable")
			if obj == nil {
				c.undecided("anchor/resetable", "-", "the resetable interface exists", "not found")
				return
			}
			iface := obj.Type().Underlying().(*types.Interface)
			names := p.ZapTypes.Scope().Names()
			sort.Strings(names)
			for _, n := range names {
				tn, ok := p.ZapTypes.Scope().Lookup(n).(*types.TypeName)
				if !ok {
					continue
				}
				nt, ok := tn.Type().(*types.Named)
				if !ok || types.IsInterface(nt) {
					continue
				}
				if !types.Implements(types.NewPointer(nt), iface) {
					continue
				}
				types_ = append(types_, pooled{n, p.Method(n, "Reset"), p.Method(n, "Set")})
			}
			want := 3
			if p.Cfg.Vectors {
				want = 4
			}
			c.check(len(types_) >= want, "pooled-types", "-", fmt.Sprintf("the pooled builder structs are found (interim + %d resetable implementations)", want-1), fmt.Sprintf("found %d", len(types_)))

			// keys that convert() always passes to Set on reuse
			convert := c.method("interim", "convert")
			nwcm := c.method("ZapPlugin", "newWithChunkMode")
			alwaysKeys := map[string]bool{}
			if convert != nil {
				// keys of the args map literal: MapUpdate with constant string keys on a fresh MakeMap
				// (in convert itself or in a helper extracted from it)
				for _, f := range withHelpers(c.p, convert) {
					eachInstr(f, func(_ *ssa.BasicBlock, in ssa.Instruction) {
						if mu, ok := in.(*ssa.MapUpdate); ok {
							if _, isMake := mu.Map.(*ssa.MakeMap); isMake {
								if k, ok := constString(mu.Key); ok {
									alwaysKeys[k] = true
								}
							}
						}
					})
				}
			}

			for _, t := range types_ {
				nt := p.NamedType(t.name)
				st, ok := nt.Underlying().(*types.Struct)
				if !ok || t.reset == nil {
					c.undecided(t.name+"/reset-method", "-", "Reset method of "+t.name+" is found", "missing")
					continue
				}
				cover := map[string]*fieldCover{}
				resetEffects(p, t.reset, t.name, cover, 0, map[*ssa.Function]bool{})
				// Set cases keyed by always-supplied keys
				setCover := map[string]string{}
				if t.set != nil {
					collectSetCases(t.set, t.name, alwaysKeys, setCover)
				}
				// stores in newWithChunkMode before convert (interim only)
				preCover := map[string]bool{}
				if t.name == "interim" && nwcm != nil && convert != nil {
					var convCall ssa.Instruction
					for _, cs := range callSites(nwcm) {
						if staticCallee(cs) == convert {
							convCall = cs
						}
					}
					if convCall != nil {
						eachInstr(nwcm, func(b *ssa.BasicBlock, in ssa.Instruction) {
							if s, ok := in.(*ssa.Store); ok {
								if sn, f, _, ok := fieldOf(s.Addr); ok && sn == "interim" && (b == convCall.Block() || b.Dominates(convCall.Block())) {
									preCover[f] = true
								}
							}
						})
					}
				}
				for i := 0; i < st.NumFields(); i++ {
					f := canonFieldName(t.name, st, i)
					key := t.name + "/field/" + f
					fq := t.name + "." + f
					switch {
					case cover[f] != nil:
						c.ok(key, cover[f].pos, fmt.Sprintf("%s is re-initialised by Reset (%s)", fq, cover[f].how))
					case setCover[f] != "":
						c.ok(key, c.fpos(t.set), fmt.Sprintf("%s is re-assigned on every reuse by Set(%q) (convert always supplies that key)", fq, setCover[f]))
					case preCover[f]:
						c.ok(key, c.fpos(nwcm), fq+" is assigned by newWithChunkMode before convert runs")
					case resetExempt[fq] != "":
						c.ok(key, c.fpos(t.reset), fq+" is exempt: "+resetExempt[fq])
					case encodeScratchArray(p, t.name, st, i):
						c.ok(key, c.fpos(t.reset), fq+" is a fixed-size byte array used as encoding scratch: every use slices it, and what is read from it was just put there by a binary.Put* call")
					case func() bool { ok, _ := remadeBeforeAnyRead(p, t.name, i); return ok }():
						_, how := remadeBeforeAnyRead(p, t.name, i)
						c.ok(key, c.fpos(t.reset), fq+" is not re-initialised by Reset but is made afresh before anything reads it: "+how)
					case func() bool { ok, _ := cleanAtUse(p, t.name, st, i); return ok }():
						_, how := cleanAtUse(p, t.name, st, i)
						c.ok(key, c.fpos(t.reset), fq+" is not re-initialised by Reset but is clean at use: "+how)
					default:
						c.bad(key, c.fpos(t.reset), "every field of the pooled "+t.name+" has a re-initialisation point (Reset, an always-supplied Set key, or newWithChunkMode)",
							fq+" is never re-initialised: it carries the value of the previous build into the next one (the builder is pooled)")
					}
				}
				// element level
				for i := 0; i < st.NumFields(); i++ {
					f := canonFieldName(t.name, st, i)
					if _, isSlice := st.Field(i).Type().Underlying().(*types.Slice); !isSlice {
						continue
					}
					cv := cover[f]
					if cv == nil || cv.kind != "truncated" {
						continue
					}
					// re-extension sites
					for _, fn := range p.ZapFuncs {
						if fn.Signature.Recv() == nil || !isNamed(fn.Signature.Recv().Type(), zapPkgPath, t.name) {
							continue
						}
						eachInstr(fn, func(_ *ssa.BasicBlock, in ssa.Instruction) {
							sl, ok := in.(*ssa.Slice)
							if !ok {
								return
							}
							if h, ok := constInt64(sl.High); ok && h == 0 {
								return
							}
							if sl.High == nil {
								return // x[a:] cannot reach beyond len(x)
							}
							if !derivesFromFieldLoad(sl.X, t.name, f, 0) {
								return
							}
							if _, isSl := sl.X.Type().Underlying().(*types.Slice); !isSl {
								return
							}
							if onlyInspected(sl, 0) {
								return // looked at (a self-check ranging over the spare capacity), never kept or read into anything
							}
							k := fmt.Sprintf("%s.%s@%s", t.name, f, funcShortName(fn))
							key := t.name + "/reextend/" + f + "@" + funcShortName(fn)
							if reason, ok := reextendOK[k]; ok {
								if strings.Contains(reason, "end of every document") {
									// the tabled reason is an assumption about control flow: check it
									if holds, why := endOfDocumentAlwaysRuns(c); !holds && builderPooledAfterFailedConvert(c) {
										c.bad(key, c.pos(sl), "a slice that Reset only truncates is not re-extended over stale elements",
											fmt.Sprintf("%s.%s is only truncated by Reset and re-extended in %s; it is clean only because process() zeroes it at the end of every document, and that no longer holds: %s", t.name, f, funcShortName(fn), why),
											"reslice: "+describeInstr(p, sl))
										return
									}
								}
								c.ok(key, c.pos(sl), "truncated-only slice "+t.name+"."+f+" is re-extended in "+funcShortName(fn)+": tabled: "+reason)
							} else if lx := lenArgOf(sl.High); sl.Low == nil && lx != nil && elementsAssignedBeforeRead(fn, sl, lx, func(a, b ssa.Value) bool {
								s1, f1, b1, ok1 := loadedField(a)
								s2, f2, b2, ok2 := loadedField(b)
								return ok1 && ok2 && s1 == s2 && f1 == f2 && root(b1) == root(b2)
							}) {
								c.ok(key, c.pos(sl), "truncated-only slice "+t.name+"."+f+" is re-extended in "+funcShortName(fn)+" and every element is assigned (or truncated) by a loop over it before any is read")
							} else {
								c.bad(key, c.pos(sl), "a slice that Reset only truncates is not re-extended over stale elements",
									fmt.Sprintf("%s.%s is only truncated by Reset (elements keep the previous build's values) and re-extended by reslicing in %s: stale elements become visible", t.name, f, funcShortName(fn)),
									"reslice: "+describeInstr(p, sl))
							}
						})
					}
				}
			}

			// Put only after a successful reset and after every earlier step succeeded
			if nwcm != nil {
				for _, cs := range callSites(nwcm) {
					g, op := poolOp(cs)
					if g == nil || op != "Put" {
						continue
					}
					okc := true
					var why []string
					// path-sensitive: on every path to the Put, each error-returning
					// step of package zap that ran has been found nil (directly, or
					// through a boolean that holds the conjunction), and reset() ran
					type step struct {
						call   *ssa.Call
						errv   ssa.Value
						name   string
						reset  bool
						called uint64
						isNil  uint64
					}
					var steps []*step
					for _, cs2 := range callSites(nwcm) {
						call, ok := cs2.(*ssa.Call)
						if !ok || errorResultIndex(call.Call.Signature()) < 0 {
							continue
						}
						callee := staticCallee(cs2)
						if callee == nil || !p.InZap(callee) || len(steps) >= 30 {
							continue
						}
						k := uint(len(steps))
						steps = append(steps, &step{call: call, errv: errValueOfCall(cs2), name: callee.Name(), reset: namedFn(callee, "interim.reset"),
							called: 1 << (2 * k), isNil: 1 << (2*k + 1)})
					}
					condTr := func(cond ssa.Value, outcome bool, ev uint64, _ func(ssa.Value) ssa.Value) uint64 {
						bo, ok := cond.(*ssa.BinOp)
						if !ok || (bo.Op != token.EQL && bo.Op != token.NEQ) {
							return ev
						}
						var other ssa.Value
						switch {
						case isNilConst(bo.Y):
							other = bo.X
						case isNilConst(bo.X):
							other = bo.Y
						default:
							return ev
						}
						for _, st := range steps {
							if st.errv != nil && sameValue(other, st.errv) {
								if (bo.Op == token.EQL) == outcome {
									ev |= st.isNil
								} else {
									ev &^= st.isNil
								}
							}
						}
						return ev
					}
					ppa := newPathAnalysis(nwcm, func(in ssa.Instruction, ev uint64, _ bool) []uint64 {
						for _, st := range steps {
							if ssa.Instruction(st.call) == in {
								if !st.reset {
									// the builder is used again: an earlier reset no longer counts
									for _, r := range steps {
										if r.reset {
											ev &^= r.called | r.isNil
										}
									}
								}
								return []uint64{(ev | st.called) &^ st.isNil}
							}
						}
						return nil
					})
					ppa.condTr = condTr
					ppa.edgeTr = func(pred *ssa.BasicBlock, succIdx int, ev uint64) uint64 {
						if iff, ok := pred.Instrs[len(pred.Instrs)-1].(*ssa.If); ok && len(pred.Succs) == 2 {
							return condTr(iff.Cond, succIdx == 0, ev, nil)
						}
						return ev
					}
					ppa.run(0)
					// What the property needs is that the pooled builder is clean: reset() ran after the last
					// use of the builder on this path and reported success. Whether the build itself had
					// succeeded does not matter (a rejected batch may recycle its builder, round-7 seed C10g).
					for _, ev := range ppa.statesBefore(cs) {
						resetOK := false
						for _, st := range steps {
							if st.reset && ev&st.called != 0 && ev&st.isNil != 0 {
								resetOK = true
							}
						}
						if !resetOK {
							okc = false
							why = append(why, "on some path the builder goes back to the pool without a reset() that ran after its last use and was found to have succeeded")
						}
					}
					if len(ppa.statesBefore(cs)) == 0 {
						okc = false
						why = append(why, "the Put is unreachable for the analysis")
					}
					c.check(okc, "put-after-successful-reset", c.pos(cs), "the builder goes back to the pool only after a reset() that ran after its last use and succeeded", strings.Join(uniq(why), "; "))
				}
			}

			// the build path writes no package-level state
			if nwcm != nil {
				reach := p.reachableFrom(nwcm)
				n := 0
				var w []string
				for fn := range reach {
					if !p.InZap(fn) {
						continue
					}
					n++
					eachInstr(fn, func(_ *ssa.BasicBlock, in ssa.Instruction) {
						switch x := in.(type) {
						case *ssa.Store:
							if g, ok := x.Addr.(*ssa.Global); ok {
								w = append(w, "store to global "+g.Name()+": "+describeInstr(p, in)+" in "+funcShortName(fn))
							}
						case *ssa.MapUpdate:
							if u, ok := x.Map.(*ssa.UnOp); ok {
								if g, ok := u.X.(*ssa.Global); ok {
									w = append(w, "update of global map "+g.Name()+": "+describeInstr(p, in)+" in "+funcShortName(fn))
								}
							}
						}
					})
				}
				sort.Strings(w)
				c.check(len(w) == 0, "no-global-writes", c.fpos(nwcm), fmt.Sprintf("no function reachable from newWithChunkMode (%d zap functions) writes a package-level variable", n),
					"a build leaves a trace in package-level state that a later or concurrent build can observe", w...)
			}
		},
	}
}

// collectSetCases finds, in a Set(key, val) method, the fields stored under a
// `case "<key>"` for keys in `keys`.
func collectSetCases(set *ssa.Function, sn string, keys map[string]bool, out map[string]string) {
	if len(set.Params) < 2 {
		return
	}
	keyParam := set.Params[1]
	for _, b := range set.Blocks {
		iff, ok := b.Instrs[len(b.Instrs)-1].(*ssa.If)
		if !ok {
			continue
		}
		bo, ok := iff.Cond.(*ssa.BinOp)
		if !ok || bo.Op != token.EQL {
			continue
		}
		var k string
		if bo.X == ssa.Value(keyParam) {
			k, _ = constString(bo.Y)
		} else if bo.Y == ssa.Value(keyParam) {
			k, _ = constString(bo.X)
		}
		if k == "" || !keys[k] {
			continue
		}
		// stores in the true successor (and blocks it dominates)
		t := b.Succs[0]
		for _, b2 := range set.Blocks {
			if b2 != t && !t.Dominates(b2) {
				continue
			}
			if len(t.Preds) != 1 {
				continue
			}
			for _, in := range b2.Instrs {
				if s, ok := in.(*ssa.Store); ok {
					if s2, f, _, ok := fieldOf(s.Addr); ok && s2 == sn {
						out[f] = k
					}
				}
			}
		}
	}
}

func derivesFromFieldLoad(v ssa.Value, sn, fld string, depth int) bool {
	if depth > 4 {
		return false
	}
	switch x := v.(type) {
	case *ssa.UnOp:
		return isLoadOfField(x, sn, fld)
	case *ssa.Phi:
		for _, e := range x.Edges {
			if derivesFromFieldLoad(e, sn, fld, depth+1) {
				return true
			}
		}
	case *ssa.Slice:
		return derivesFromFieldLoad(x.X, sn, fld, depth+1)
	}
	return false
}

// reachableFrom: call-graph closure from fn.
func (p *Program) reachableFrom(fn *ssa.Function) map[*ssa.Function]bool {
	out := map[*ssa.Function]bool{fn: true}
	work := []*ssa.Function{fn}
	for len(work) > 0 {
		f := work[len(work)-1]
		work = work[:len(work)-1]
		// closures created here may be invoked by callees outside the loaded
		// program (visitor callbacks handed to bleve_index_api implementations)
		eachInstr(f, func(_ *ssa.BasicBlock, in ssa.Instruction) {
			if mc, ok := in.(*ssa.MakeClosure); ok {
				if cf, ok := mc.Fn.(*ssa.Function); ok && !out[cf] {
					out[cf] = true
					work = append(work, cf)
				}
			}
		})
		n := p.CG.Nodes[f]
		if n == nil {
			continue
		}
		for _, e := range n.Out {
			if !out[e.Callee.Func] {
				out[e.Callee.Func] = true
				work = append(work, e.Callee.Func)
			}
		}
	}
	return out
}

// loopBoundField: idx is the index variable of a loop `for i := range x.g` /
// `for i := 0; i < len(x.g); i++`; returns g. known=false when the bound is
// not the length of a field of the receiver.
func loopBoundField(idx ssa.Value, sn string, recv *ssa.Parameter) (string, bool) {
	cands := []ssa.Value{idx}
	if bo, ok := idx.(*ssa.BinOp); ok && bo.Op == token.ADD {
		cands = append(cands, bo.X)
	}
	for _, cnd := range cands {
		refs := cnd.Referrers()
		if refs == nil {
			continue
		}
		for _, r := range *refs {
			bo, ok := r.(*ssa.BinOp)
			if !ok || bo.Op != token.LSS || bo.X != cnd {
				continue
			}
			call, ok := bo.Y.(*ssa.Call)
			if !ok {
				continue
			}
			if b, ok := call.Call.Value.(*ssa.Builtin); !ok || b.Name() != "len" {
				continue
			}
			if s, f, base, ok := loadedField(call.Call.Args[0]); ok && s == sn && root(base) == ssa.Value(recv) {
				return f, true
			}
			return "?", true
		}
	}
	return "", false
}

// onlyInspected: the re-sliced value is only ranged over / indexed for reading, and what is read is only
// compared (with nil, zero, a constant), measured, or asked a question through a method of another
// package that takes nothing else (`bs.IsEmpty()`); it is never stored, returned or handed on.
func onlyInspected(v ssa.Value, depth int) bool {
	if depth > 4 || v.Referrers() == nil {
		return false
	}
	elemOK := func(e ssa.Value) bool {
		for _, r := range *e.Referrers() {
			switch x := r.(type) {
			case *ssa.DebugRef:
			case *ssa.BinOp:
				switch x.Op {
				case token.EQL, token.NEQ, token.LSS, token.GTR, token.LEQ, token.GEQ:
				default:
					return false
				}
			case *ssa.If:
			case *ssa.Call:
				if b, ok := x.Call.Value.(*ssa.Builtin); ok && (b.Name() == "len" || b.Name() == "cap") {
					continue
				}
				f := x.Call.StaticCallee()
				if f == nil || f.Pkg == nil || strings.HasPrefix(f.Pkg.Pkg.Path(), zapPkgPath) || len(x.Call.Args) != 1 || x.Call.Args[0] != e {
					return false
				}
				if !strings.HasPrefix(f.Name(), "Is") && f.Name() != "GetCardinality" && f.Name() != "Len" {
					return false
				}
			default:
				return false
			}
		}
		return true
	}
	for _, r := range *v.Referrers() {
		switch x := r.(type) {
		case *ssa.DebugRef:
		case *ssa.Call:
			if b, ok := x.Call.Value.(*ssa.Builtin); !ok || (b.Name() != "len" && b.Name() != "cap") {
				return false
			}
		case *ssa.IndexAddr:
			for _, r2 := range *x.Referrers() {
				ld, ok := r2.(*ssa.UnOp)
				if !ok || ld.Op != token.MUL || !elemOK(ld) {
					if _, isDbg := r2.(*ssa.DebugRef); !isDbg {
						return false
					}
				}
			}
		case *ssa.Phi:
			if !onlyInspected(x, depth+1) {
				return false
			}
		default:
			return false
		}
	}
	return true
}

// encodeScratchArray: field fi of struct sn is a [N]byte whose only uses are slices of it; in every function
// that uses it, a slice of it is handed to an encoding/binary Put* routine, and every other use there comes
// after (is dominated by) such a call.
func encodeScratchArray(p *Program, sn string, st *types.Struct, fi int) bool {
	at, ok := st.Field(fi).Type().Underlying().(*types.Array)
	if !ok {
		return false
	}
	if bt, ok := at.Elem().Underlying().(*types.Basic); !ok || bt.Kind() != types.Uint8 {
		return false
	}
	accs := fieldAddrsOf(p, sn, fi)
	if len(accs) == 0 {
		return false
	}
	byFn := map[*ssa.Function][]*ssa.Slice{}
	for _, fa := range accs {
		for _, r := range *fa.Referrers() {
			switch x := r.(type) {
			case *ssa.DebugRef:
			case *ssa.Slice:
				byFn[fa.Parent()] = append(byFn[fa.Parent()], x)
			default:
				return false
			}
		}
	}
	for _, sls := range byFn {
		var puts []ssa.Instruction
		for _, sl := range sls {
			for _, r := range *sl.Referrers() {
				if cs, ok := r.(ssa.CallInstruction); ok {
					if f := staticCallee(cs); f != nil && f.Pkg != nil && f.Pkg.Pkg.Path() == "encoding/binary" && strings.HasPrefix(f.Name(), "Put") {
						puts = append(puts, r)
					}
				}
			}
		}
		if len(puts) == 0 {
			return false
		}
		for _, sl := range sls {
			for _, r := range *sl.Referrers() {
				isPut := false
				for _, pu := range puts {
					if pu == r {
						isPut = true
					}
				}
				if isPut {
					continue
				}
				if _, isDbg := r.(*ssa.DebugRef); isDbg {
					continue
				}
				dominated := false
				for _, pu := range puts {
					if pu.Block() == r.Block() || pu.Block().Dominates(r.Block()) {
						dominated = true
					}
				}
				if !dominated {
					return false
				}
			}
		}
	}
	return true
}

// remadeBeforeAnyRead: field idx of the pooled type is given a fresh value (a new map or slice, nil) at the very
// start of one method G of the type — in its entry block, before any call — and everything that touches the
// field runs inside G after that: G itself, its closures, and unexported routines all of whose call sites are in
// G or its closures (`realloc()` makes `ThesaurusMap` afresh; only `getOrDefineThesaurus`, which only `realloc`
// calls, reads it). What an earlier build left in the field is then never seen.
func remadeBeforeAnyRead(p *Program, typeName string, idx int) (bool, string) {
	isRecvField := func(fa *ssa.FieldAddr) bool {
		return fa.Field == idx && isNamed(derefType(fa.X.Type()), zapPkgPath, typeName)
	}
	var g *ssa.Function
	var store *ssa.Store
	for _, fn := range p.ZapFuncs {
		if fn.Parent() != nil || fn.Signature.Recv() == nil || len(fn.Blocks) == 0 || !isNamed(derefType(fn.Signature.Recv().Type()), zapPkgPath, typeName) {
			continue
		}
		for _, in := range fn.Blocks[0].Instrs {
			if _, isCall := in.(ssa.CallInstruction); isCall {
				break
			}
			st, ok := in.(*ssa.Store)
			if !ok {
				continue
			}
			fa, ok := st.Addr.(*ssa.FieldAddr)
			if !ok || !isRecvField(fa) || root(fa.X) != ssa.Value(fn.Params[0]) {
				continue
			}
			switch st.Val.(type) {
			case *ssa.MakeMap, *ssa.MakeSlice:
			default:
				if !isNilConst(st.Val) {
					continue
				}
			}
			if g != nil && g != fn {
				return false, "" // two such routines: which one runs first is not known here
			}
			g, store = fn, st
		}
	}
	if g == nil {
		return false, ""
	}
	before := func(a, b ssa.Instruction) bool { // a strictly before b, both in g's entry block
		for _, in := range g.Blocks[0].Instrs {
			if in == a {
				return true
			}
			if in == b {
				return false
			}
		}
		return false
	}
	insideG := func(fn *ssa.Function) bool { return rootParent(fn) == g }
	ok := true
	for _, fn := range p.ZapFuncs {
		eachInstr(fn, func(b *ssa.BasicBlock, in ssa.Instruction) {
			fa, isFA := in.(*ssa.FieldAddr)
			if !isFA || !isRecvField(fa) || ssa.Value(fa) == store.Addr {
				return
			}
			switch {
			case fn == g:
				if b == g.Blocks[0] && before(fa, store) {
					ok = false
				}
			case insideG(fn):
				// a closure of g: made after the store (the store precedes every call and the entry block's end)
			default:
				hr := rootParent(fn)
				if hr.Object() == nil || hr.Object().Exported() {
					ok = false
					return
				}
				sites := p.callersOf(hr)
				if len(sites) == 0 {
					ok = false
				}
				for _, cs := range sites {
					if !insideG(cs.Parent()) {
						ok = false
					}
				}
			}
		})
	}
	if !ok {
		return false, ""
	}
	return true, fmt.Sprintf("%s assigns it a fresh value before anything else, and only %s and the routines it alone calls touch it", funcShortName(g), funcShortName(g))
}
