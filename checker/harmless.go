package main

import (
	"os"
	"path/filepath"
	"sort"
	"strings"
)

// Behaviour-preserving edits: the property still holds after each of them, so
// the rule named must report nothing. They guard against rules that match a
// spelling rather than a structure.
// smallHarmless: the small behaviour-preserving edits written by independent
// agents, eight per property, each touching the code that implements the
// property (refactors/small/<property>/h<k>.diff, with the agent's NOTES.md).
func smallHarmless() []mutant {
	var out []mutant
	ms, _ := filepath.Glob(filepath.Join(verifDir, "refactors", "small", "*", "h*.diff"))
	sort.Strings(ms)
	for _, m := range ms {
		prop := filepath.Base(filepath.Dir(m))
		rel, err := filepath.Rel(verifDir, m)
		if err != nil {
			continue
		}
		id := "h-small-" + prop + "-" + strings.TrimSuffix(filepath.Base(m), ".diff")
		out = append(out, mutant{Harmless: true, ID: id, Prop: prop, Patch: rel})
		if b, err := os.ReadFile(m); err == nil && (strings.Contains(string(b), "faiss_vector") || strings.Contains(string(b), "section_faiss")) {
			out = append(out, mutant{Harmless: true, ID: id + "-vectors", Prop: prop, Patch: rel, Vectors: true})
		}
	}
	return out
}

// round8Harmless: the correct optimisations / hygiene changes / restructurings of round 8
// (refactors/r8/<property>/{a,b,c}.diff), each run against every rule.
func round8Harmless() []mutant {
	var out []mutant
	ms, _ := filepath.Glob(filepath.Join(verifDir, "refactors", "r8", "*", "?.diff"))
	sort.Strings(ms)
	for _, m := range ms {
		prop := filepath.Base(filepath.Dir(m))
		rel, err := filepath.Rel(verifDir, m)
		if err != nil {
			continue
		}
		id := "h-r8-" + prop + "-" + strings.TrimSuffix(filepath.Base(m), ".diff")
		if b, err := os.ReadFile(m); err == nil && (strings.Contains(string(b), "faiss_vector") || strings.Contains(string(b), "section_faiss")) {
			out = append(out, mutant{Harmless: true, ID: id + "-vectors", Patch: rel, Vectors: true})
		}
		out = append(out, mutant{Harmless: true, ID: id, Patch: rel})
	}
	return out
}

// round9Harmless: the correct changes of round 9 (refactors/r9/<property>/{a,b,c}.diff: control-flow /
// error-handling restructurings, data-structure and signature changes, concurrency / resource hygiene).
func round9Harmless() []mutant {
	var out []mutant
	ms, _ := filepath.Glob(filepath.Join(verifDir, "refactors", "r9", "*", "?.diff"))
	sort.Strings(ms)
	for _, m := range ms {
		prop := filepath.Base(filepath.Dir(m))
		rel, err := filepath.Rel(verifDir, m)
		if err != nil {
			continue
		}
		id := "h-r9-" + prop + "-" + strings.TrimSuffix(filepath.Base(m), ".diff")
		if b, err := os.ReadFile(m); err == nil && (strings.Contains(string(b), "faiss_vector") || strings.Contains(string(b), "section_faiss")) {
			out = append(out, mutant{Harmless: true, ID: id + "-vectors", Patch: rel, Vectors: true})
		}
		out = append(out, mutant{Harmless: true, ID: id, Patch: rel})
	}
	return out
}

// round12Harmless: the correct feature additions of round 12 (refactors/r12/<property>/{a,b,c}.diff: a fast
// path for a special input, a hardening / bug-fix style change, a small feature).
func round12Harmless() []mutant {
	var out []mutant
	ms, _ := filepath.Glob(filepath.Join(verifDir, "refactors", "r12", "*", "?.diff"))
	sort.Strings(ms)
	for _, m := range ms {
		prop := filepath.Base(filepath.Dir(m))
		rel, err := filepath.Rel(verifDir, m)
		if err != nil {
			continue
		}
		id := "h-r12-" + prop + "-" + strings.TrimSuffix(filepath.Base(m), ".diff")
		if b, err := os.ReadFile(m); err == nil && (strings.Contains(string(b), "faiss_vector") || strings.Contains(string(b), "section_faiss")) {
			out = append(out, mutant{Harmless: true, ID: id + "-vectors", Patch: rel, Vectors: true})
		}
		out = append(out, mutant{Harmless: true, ID: id, Patch: rel})
	}
	return out
}

// round13Unresolved: correct medium-size changes of round 13 on which a rule still alarms (see DESIGN §11):
// they are kept with the others for the record and are not fixtures.
var round13Unresolved = map[string]string{
	"C02/a": "R10: per-document working state recycled through the pooled builder (three re-extensions, each clean for a different reason)",
	"C04/a": "R6b: a second, unbuffered way of writing body and footer (no Flush on that path)",
	"C09/b": "R6/R15: the output file owned by a higher-order helper (`writeSegmentFile(path, fill)`)",
	"C20/a": "R6c/R14/R3: small files read into the heap instead of being mapped (a second way of acquiring the bytes)",
}

// round13Harmless: the correct medium-size changes of round 13 (refactors/r13/<property>/{a,b}.diff: a second
// way of doing something, a robustness / maintainability improvement), minus round13Unresolved.
func round13Harmless() []mutant {
	var out []mutant
	ms, _ := filepath.Glob(filepath.Join(verifDir, "refactors", "r13", "*", "?.diff"))
	sort.Strings(ms)
	for _, m := range ms {
		prop := filepath.Base(filepath.Dir(m))
		rel, err := filepath.Rel(verifDir, m)
		if err != nil {
			continue
		}
		letter := strings.TrimSuffix(filepath.Base(m), ".diff")
		if _, skip := round13Unresolved[prop+"/"+letter]; skip {
			continue
		}
		id := "h-r13-" + prop + "-" + letter
		if b, err := os.ReadFile(m); err == nil && (strings.Contains(string(b), "faiss_vector") || strings.Contains(string(b), "section_faiss")) {
			out = append(out, mutant{Harmless: true, ID: id + "-vectors", Patch: rel, Vectors: true})
		}
		out = append(out, mutant{Harmless: true, ID: id, Patch: rel})
	}
	return out
}

// round15Unresolved: correct changes of round 15 on which a rule still reports (see DESIGN §11).
var round15Unresolved = map[string]string{
	"C11/b": "R26: the loop over the ids moved into a helper that is given a length and an accessor closure",
	"C05/b": "R7b (justified): the new exported MergeTo hands an arbitrary io.Writer to the routines whose unchecked binary.Write calls rely on a sticky bufio.Writer — not a property of the given list, but a real weakness of the new entry point; R15b also does not follow a buffered writer handed to a delegate",
	"C06/b": "as C05/b",
}

// round15Harmless: the correct changes of round 15 (refactors/r15/<property>/{a,b,c}.diff: observability,
// API evolution, plumbing / housekeeping), minus round15Unresolved.
func round15Harmless() []mutant {
	var out []mutant
	ms, _ := filepath.Glob(filepath.Join(verifDir, "refactors", "r15", "*", "?.diff"))
	sort.Strings(ms)
	for _, m := range ms {
		prop := filepath.Base(filepath.Dir(m))
		rel, err := filepath.Rel(verifDir, m)
		if err != nil {
			continue
		}
		letter := strings.TrimSuffix(filepath.Base(m), ".diff")
		if _, skip := round15Unresolved[prop+"/"+letter]; skip {
			continue
		}
		id := "h-r15-" + prop + "-" + letter
		if b, err := os.ReadFile(m); err == nil && (strings.Contains(string(b), "faiss_vector") || strings.Contains(string(b), "section_faiss")) {
			out = append(out, mutant{Harmless: true, ID: id + "-vectors", Patch: rel, Vectors: true})
		}
		out = append(out, mutant{Harmless: true, ID: id, Patch: rel})
	}
	return out
}

// round18Unresolved: correct changes of round 18 on which a rule still reports (see DESIGN §11).
var round18Unresolved = map[string]string{}

// round18Harmless: the correct changes of round 18 (refactors/r18/<property>/{a,b,c}.diff: performance by
// reuse or caching, performance by a fast path or by doing less, robustness / concurrency hygiene).
func round18Harmless() []mutant {
	var out []mutant
	ms, _ := filepath.Glob(filepath.Join(verifDir, "refactors", "r18", "*", "?.diff"))
	sort.Strings(ms)
	for _, m := range ms {
		prop := filepath.Base(filepath.Dir(m))
		rel, err := filepath.Rel(verifDir, m)
		if err != nil {
			continue
		}
		letter := strings.TrimSuffix(filepath.Base(m), ".diff")
		if _, skip := round18Unresolved[prop+"/"+letter]; skip {
			continue
		}
		id := "h-r18-" + prop + "-" + letter
		if b, err := os.ReadFile(m); err == nil && (strings.Contains(string(b), "faiss_vector") || strings.Contains(string(b), "section_faiss")) {
			out = append(out, mutant{Harmless: true, ID: id + "-vectors", Patch: rel, Vectors: true})
		}
		out = append(out, mutant{Harmless: true, ID: id, Patch: rel})
	}
	return out
}

// round20Unresolved: correct changes of round 20 on which a rule still reports (see DESIGN §11).
var round20Unresolved = map[string]string{}

// round20Harmless: the correct changes of round 20 (refactors/r20/<property>/{a,b,c,d}.diff: small everyday
// edits — a local re-spelling, naming / extraction, reordering / modern idiom, messages and checks).
func round20Harmless() []mutant {
	var out []mutant
	ms, _ := filepath.Glob(filepath.Join(verifDir, "refactors", "r20", "*", "?.diff"))
	sort.Strings(ms)
	for _, m := range ms {
		prop := filepath.Base(filepath.Dir(m))
		rel, err := filepath.Rel(verifDir, m)
		if err != nil {
			continue
		}
		letter := strings.TrimSuffix(filepath.Base(m), ".diff")
		if _, skip := round20Unresolved[prop+"/"+letter]; skip {
			continue
		}
		id := "h-r20-" + prop + "-" + letter
		if b, err := os.ReadFile(m); err == nil && (strings.Contains(string(b), "faiss_vector") || strings.Contains(string(b), "section_faiss")) {
			out = append(out, mutant{Harmless: true, ID: id + "-vectors", Patch: rel, Vectors: true})
		}
		out = append(out, mutant{Harmless: true, ID: id, Patch: rel})
	}
	return out
}

func harmlessTable() []mutant {
	return append(append(append(append(append(append(append(append(fixedHarmless(), smallHarmless()...), round8Harmless()...), round9Harmless()...), round12Harmless()...), round13Harmless()...), round15Harmless()...), round18Harmless()...), round20Harmless()...)
}

func fixedHarmless() []mutant {
	return []mutant{
		{Harmless: true, ID: "h-chunkrule-respelled", Prop: "C09", Rule: "R30",
			Edits: []edit{{File: "chunk.go", Old: "\tcase chunkMode <= 1024:\n", New: "\tcase chunkMode < 1025:\n"},
				{File: "chunk.go", Old: "\t\tnumChunks := (cardinality / 1024) + 1\n", New: "\t\tnumChunks := 1 + cardinality/1024\n"},
				{File: "chunk.go", Old: "\t\tif cardinality <= 1024 {\n\t\t\tif maxDocs == 0 {\n\t\t\t\treturn 0, ErrChunkSizeZero\n\t\t\t}\n\t\t\treturn maxDocs, nil\n\t\t}\n\t\treturn 1024, nil\n", New: "\t\tif cardinality > 1024 {\n\t\t\treturn 1024, nil\n\t\t}\n\t\tif maxDocs < 1 {\n\t\t\treturn 0, ErrChunkSizeZero\n\t\t}\n\t\treturn maxDocs, nil\n"}}},
		{Harmless: true, ID: "h-persist-inline-cleanup", Prop: "C17", Rule: "R6",
			Edits: []edit{{File: "build.go", Old: "\terr = f.Sync()\n\tif err != nil {\n\t\tcleanup()\n\t\treturn err\n\t}\n", New: "\terr = f.Sync()\n\tif err != nil {\n\t\t_ = f.Close()\n\t\t_ = os.Remove(path)\n\t\treturn err\n\t}\n"}}},
		{Harmless: true, ID: "h-decref-leq-zero", Prop: "C20", Rule: "R9",
			Edits: []edit{{File: "segment.go", Old: "\tif s.refs == 0 {\n\t\terr = s.closeActual()", New: "\tif s.refs <= 0 {\n\t\terr = s.closeActual()"}}},
		{Harmless: true, ID: "h-decref-defer-unlock", Prop: "C20", Rule: "R9",
			Edits: []edit{{File: "segment.go", Old: "\ts.m.Lock()\n\ts.refs--\n\tif s.refs == 0 {\n\t\terr = s.closeActual()\n\t}\n\ts.m.Unlock()\n\treturn err\n", New: "\ts.m.Lock()\n\tdefer s.m.Unlock()\n\ts.refs--\n\tif 0 == s.refs {\n\t\treturn s.closeActual()\n\t}\n\treturn nil\n"}}},
		{Harmless: true, ID: "h-sentinel-guard-swapped", Prop: "C11", Rule: "R5",
			Edits: []edit{{File: "dict.go", Old: "func (d *Dictionary) postingsListInit(rv *PostingsList, except *roaring.Bitmap) *PostingsList {\n\tif rv == nil || rv == emptyPostingsList {", New: "func (d *Dictionary) postingsListInit(rv *PostingsList, except *roaring.Bitmap) *PostingsList {\n\tif emptyPostingsList == rv || rv == nil {"}}},
		{Harmless: true, ID: "h-docnumbers-continue-form", Prop: "C02", Rule: "R26",
			Edits: []edit{{File: "segment.go", Old: "\t\t\tif id <= sMaxStr {\n\t\t\t\tpostingsList, err = idDict.postingsList([]byte(id), nil, postingsList)\n\t\t\t\tif err != nil {\n\t\t\t\t\treturn nil, err\n\t\t\t\t}\n\t\t\t\tpostingsList.OrInto(rv)\n\t\t\t}\n", New: "\t\t\tif id > sMaxStr {\n\t\t\t\tcontinue\n\t\t\t}\n\t\t\tpostingsList, err = idDict.postingsList([]byte(id), nil, postingsList)\n\t\t\tif err != nil {\n\t\t\t\treturn nil, err\n\t\t\t}\n\t\t\tpostingsList.OrInto(rv)\n"}}},
		{Harmless: true, ID: "h-copy-guard-isempty", Prop: "C05", Rule: "R17",
			Edits: []edit{{File: "merge.go", Old: "\t\tif fieldsSame && (dropsI == nil || dropsI.GetCardinality() == 0) {\n", New: "\t\tif (dropsI == nil || dropsI.IsEmpty()) && fieldsSame {\n"}}},
		{Harmless: true, ID: "h-reset-clear-builtin", Prop: "C10", Rule: "R10",
			Edits: []edit{{File: "section_inverted_text_index.go", Old: "\tfor k := range io.fieldAddrs {\n\t\tdelete(io.fieldAddrs, k)\n\t}\n", New: "\tio.fieldAddrs = map[int]int{}\n"}}},
		{Harmless: true, ID: "h-visitor-stop-respelled", Prop: "C02", Rule: "R19",
			Edits: []edit{{File: "segment.go", Old: "\t\tkeepGoing := visitor(\"_id\", byte('t'), idFieldVal, nil)\n\t\tif !keepGoing {\n\t\t\treturn nil\n\t\t}\n", New: "\t\tkeepGoing := visitor(\"_id\", byte('t'), idFieldVal, nil)\n\t\tif keepGoing == false {\n\t\t\treturn nil\n\t\t}\n"}}},
		{Harmless: true, ID: "h-docnum-guard-early-return", Prop: "C02", Rule: "R19",
			Edits: []edit{{File: "segment.go", Old: "\tif num >= s.numDocs {\n\t\treturn nil, nil\n\t}\n\n\tvdc := visitDocumentCtxPool.Get()", New: "\tif !(num < s.numDocs) {\n\t\treturn nil, nil\n\t}\n\n\tvdc := visitDocumentCtxPool.Get()"}}},
		{Harmless: true, ID: "h-poll-negated", Prop: "C18", Rule: "R8",
			Edits: []edit{{File: "merge.go", Old: "\tif isClosed(closeCh) {\n\t\treturn nil, 0, 0, nil, nil, 0, seg.ErrClosed\n\t}\n", New: "\tif closed := isClosed(closeCh); closed {\n\t\treturn nil, 0, 0, nil, nil, 0, seg.ErrClosed\n\t}\n"}}},
		{Harmless: true, ID: "h-mergefields-len-hoisted", Prop: "C05", Rule: "R17",
			Edits: []edit{{File: "merge.go", Old: "\t\tfields := segment.Fields()\n\t\tfor fieldi, field := range fields {\n\t\t\tfieldsExist[field] = struct{}{}\n\t\t\tif len(segment0Fields) != len(fields) || segment0Fields[fieldi] != field {\n\t\t\t\tfieldsSame = false\n\t\t\t}\n\t\t}\n", New: "\t\tfields := segment.Fields()\n\t\tif len(segment0Fields) != len(fields) {\n\t\t\tfieldsSame = false\n\t\t}\n\t\tfor fieldi, field := range fields {\n\t\t\tfieldsExist[field] = struct{}{}\n\t\t\tif fieldsSame && segment0Fields[fieldi] != field {\n\t\t\t\tfieldsSame = false\n\t\t\t}\n\t\t}\n"}}},
		{Harmless: true, ID: "h-towriter-named-result", Prop: "C17", Rule: "R6",
			Edits: []edit{{File: "build.go", Old: "\terr = br.w.Flush()\n\tif err != nil {\n\t\treturn 0, err\n\t}\n\n\treturn br.n, nil\n", New: "\tif err = br.w.Flush(); err != nil {\n\t\treturn 0, err\n\t}\n\treturn br.n, err\n"}}},
		{Harmless: true, ID: "h-lock-defer-in-dictionary-cache", Prop: "C11", Rule: "R2",
			Edits: []edit{{File: "synonym_cache.go", Old: "\tsc.m.Lock()\n\tsc.cache = nil\n\tsc.m.Unlock()\n", New: "\tsc.m.Lock()\n\tdefer sc.m.Unlock()\n\tsc.cache = nil\n"}}},
		{Harmless: true, ID: "h-readlocation-make-zero", Prop: "C07", Rule: "R31",
			Edits: []edit{{File: "posting.go", Old: "\tif cap(l.ap) < int(numArrayPos) {\n\t\tl.ap = make([]uint64, int(numArrayPos))\n\t} else {\n\t\tl.ap = l.ap[:int(numArrayPos)]\n\t}\n", New: "\tif n := int(numArrayPos); cap(l.ap) >= n {\n\t\tl.ap = l.ap[:n]\n\t} else {\n\t\tl.ap = make([]uint64, n)\n\t}\n"}}},
		{Harmless: true, ID: "h-onehit-conditions-reordered", Prop: "C08", Rule: "R32",
			Edits: []edit{{File: "section_inverted_text_index.go", Old: "\t\t\t\tif under32Bits(docNum) && docNum == lastDocNum && lastFreq == 1 {", New: "\t\t\t\tif 1 == lastFreq && lastDocNum == docNum && under32Bits(docNum) {"}}},
		{Harmless: true, ID: "h-writer-reset-properly", Prop: "C04", Rule: "R14",
			Edits: []edit{{File: "new.go", Old: "\ts.w = NewCountHashWriter(&br)\n", New: "\ts.w = NewCountHashWriterWithStatsReporter(&br, nil)\n"}}},
		// renames of unexported anchors: resolved through the pinned signatures
		{Harmless: true, ID: "h-rename-persistFooter", Prop: "C04", Rule: "R14",
			Edits: []edit{{File: "write.go", Old: "func persistFooter(numDocs,", New: "func writeFooter(numDocs,"},
				{File: "build.go", Old: "\terr = persistFooter(sb.numDocs,", New: "\terr = writeFooter(sb.numDocs,"},
				{File: "merge.go", Old: "\terr = persistFooter(numDocs,", New: "\terr = writeFooter(numDocs,"}}},
		{Harmless: true, ID: "h-rename-persistFooter-r6", Prop: "C17", Rule: "R6",
			Edits: []edit{{File: "write.go", Old: "func persistFooter(numDocs,", New: "func writeFooter(numDocs,"},
				{File: "build.go", Old: "\terr = persistFooter(sb.numDocs,", New: "\terr = writeFooter(sb.numDocs,"},
				{File: "merge.go", Old: "\terr = persistFooter(numDocs,", New: "\terr = writeFooter(numDocs,"}}},
		{Harmless: true, ID: "h-rename-getChunkSize", Prop: "C09", Rule: "R13",
			Edits: []edit{{File: "chunk.go", Old: "func getChunkSize(", New: "func chunkSizeFor("},
				{File: "posting.go", Old: "getChunkSize(", New: "chunkSizeFor("},
				{File: "docvalues.go", Old: "getChunkSize(", New: "chunkSizeFor("},
				{File: "section_inverted_text_index.go", Nth: 1, Old: "getChunkSize(", New: "chunkSizeFor("},
				{File: "section_inverted_text_index.go", Nth: 1, Old: "getChunkSize(", New: "chunkSizeFor("},
				{File: "section_inverted_text_index.go", Nth: 1, Old: "getChunkSize(", New: "chunkSizeFor("},
				{File: "section_inverted_text_index.go", Nth: 1, Old: "getChunkSize(", New: "chunkSizeFor("}}},
		{Harmless: true, ID: "h-rename-closeActual", Prop: "C20", Rule: "R9",
			Edits: []edit{{File: "segment.go", Old: "\t\terr = s.closeActual()\n", New: "\t\terr = s.release()\n"},
				{File: "segment.go", Old: "func (s *Segment) closeActual() (err error) {", New: "func (s *Segment) release() (err error) {"}}},
		// whole-area refactorings written by independent agents (behaviour
		// preserving: same bytes, same errors; NOTES in refactors/): every
		// rule must stay silent on each, in both configurations
		{Harmless: true, ID: "h-refactor-build", Patch: "refactors/build.diff"},
		{Harmless: true, ID: "h-refactor-build-vectors", Patch: "refactors/build.diff", Vectors: true},
		{Harmless: true, ID: "h-refactor-docvalues", Patch: "refactors/docvalues.diff"},
		{Harmless: true, ID: "h-refactor-docvalues-vectors", Patch: "refactors/docvalues.diff", Vectors: true},
		{Harmless: true, ID: "h-refactor-read", Patch: "refactors/read.diff"},
		{Harmless: true, ID: "h-refactor-read-vectors", Patch: "refactors/read.diff", Vectors: true},
		{Harmless: true, ID: "h-refactor-postings", Patch: "refactors/postings.diff"},
		{Harmless: true, ID: "h-refactor-postings-vectors", Patch: "refactors/postings.diff", Vectors: true},
		{Harmless: true, ID: "h-refactor-lifecycle", Patch: "refactors/lifecycle.diff"},
		{Harmless: true, ID: "h-refactor-lifecycle-vectors", Patch: "refactors/lifecycle.diff", Vectors: true},
		{Harmless: true, ID: "h-refactor-new", Patch: "refactors/new.diff"},
		{Harmless: true, ID: "h-refactor-new-vectors", Patch: "refactors/new.diff", Vectors: true},
		{Harmless: true, ID: "h-refactor-merge", Patch: "refactors/merge.diff"},
		{Harmless: true, ID: "h-refactor-merge-vectors", Patch: "refactors/merge.diff", Vectors: true},
		{Harmless: true, ID: "h-refactor-synonym", Patch: "refactors/synonym.diff"},
		{Harmless: true, ID: "h-refactor-synonym-vectors", Patch: "refactors/synonym.diff", Vectors: true},
		{Harmless: true, ID: "h-refactor-inverted", Patch: "refactors/inverted.diff"},
		{Harmless: true, ID: "h-refactor-inverted-vectors", Patch: "refactors/inverted.diff", Vectors: true},
		// hand-made refactorings of the vectors-tagged files (type-checked against the stub engine)
		{Harmless: true, ID: "h-refactor-veccache", Patch: "refactors/veccache.diff", Vectors: true},
		{Harmless: true, ID: "h-refactor-vecposting", Patch: "refactors/vecposting.diff", Vectors: true},
		{Harmless: true, ID: "h-refactor-vecsection", Patch: "refactors/vecsection.diff", Vectors: true},
		// second round, another flavour (inlining, renames, respelled control flow)
		{Harmless: true, ID: "h-refactor-misc2", Patch: "refactors/misc2.diff"},
		{Harmless: true, ID: "h-refactor-misc2-vectors", Patch: "refactors/misc2.diff", Vectors: true},
		{Harmless: true, ID: "h-refactor-read2", Patch: "refactors/read2.diff"},
		{Harmless: true, ID: "h-refactor-read2-vectors", Patch: "refactors/read2.diff", Vectors: true},
		{Harmless: true, ID: "h-refactor-docvalues2", Patch: "refactors/docvalues2.diff"},
		{Harmless: true, ID: "h-refactor-docvalues2-vectors", Patch: "refactors/docvalues2.diff", Vectors: true},
		{Harmless: true, ID: "h-refactor-merge2", Patch: "refactors/merge2.diff"},
		{Harmless: true, ID: "h-refactor-merge2-vectors", Patch: "refactors/merge2.diff", Vectors: true},
		{Harmless: true, ID: "h-refactor-synonym2", Patch: "refactors/synonym2.diff"},
		{Harmless: true, ID: "h-refactor-synonym2-vectors", Patch: "refactors/synonym2.diff", Vectors: true},
		{Harmless: true, ID: "h-refactor-postings2", Patch: "refactors/postings2.diff"},
		{Harmless: true, ID: "h-refactor-postings2-vectors", Patch: "refactors/postings2.diff", Vectors: true},
		{Harmless: true, ID: "h-refactor-inverted2", Patch: "refactors/inverted2.diff"},
		{Harmless: true, ID: "h-refactor-inverted2-vectors", Patch: "refactors/inverted2.diff", Vectors: true},
		{Harmless: true, ID: "h-refactor-build2", Patch: "refactors/build2.diff"},
		{Harmless: true, ID: "h-refactor-build2-vectors", Patch: "refactors/build2.diff", Vectors: true},
		{Harmless: true, ID: "h-refactor-lifecycle2", Patch: "refactors/lifecycle2.diff"},
		{Harmless: true, ID: "h-refactor-lifecycle2-vectors", Patch: "refactors/lifecycle2.diff", Vectors: true},
		// the deferred-cleanup idiom (`defer func() { if err != nil { close; remove } }()`), with a local
		// error variable and with a named result
		{Harmless: true, ID: "h-refactor-mergedefer", Patch: "refactors/mergedefer.diff"},
		{Harmless: true, ID: "h-refactor-mergedefer-vectors", Patch: "refactors/mergedefer.diff", Vectors: true},
		{Harmless: true, ID: "h-refactor-persistdefer", Patch: "refactors/persistdefer.diff"},
		// with a named result, a shadowed `err :=` is harmless: `return err` assigns the result the closure reads
		{Harmless: true, ID: "h-persistdefer-shadowed-err-named-result", Prop: "C17", Rule: "R6", Patch: "refactors/persistdefer.diff",
			Edits: []edit{{File: "build.go", Old: "\tif _, err = persistSegmentBaseToWriter(sb, f); err != nil {", New: "\tif _, err := persistSegmentBaseToWriter(sb, f); err != nil {"}}},
		{Harmless: true, ID: "h-haslocs-local-in-loop", Prop: "C01", Rule: "R29",
			Edits: []edit{{File: "section_inverted_text_index.go", Old: "\t\t\t\t// check if freq/norm is enabled\n\t\t\t\tif freqNorm.freq > 0 {", New: "\t\t\t\thasLocs := freqNorm.numLocs > 0\n\t\t\t\t// check if freq/norm is enabled\n\t\t\t\tif freqNorm.freq > 0 {"},
				{File: "section_inverted_text_index.go", Nth: 1, Old: "encodeFreqHasLocs(freqNorm.freq, freqNorm.numLocs > 0)", New: "encodeFreqHasLocs(freqNorm.freq, hasLocs)"},
				{File: "section_inverted_text_index.go", Nth: 1, Old: "encodeFreqHasLocs(freqNorm.freq, freqNorm.numLocs > 0)", New: "encodeFreqHasLocs(freqNorm.freq, hasLocs)"}}},
		{Harmless: true, ID: "h-count-switch-tag-first", Prop: "C08", Rule: "R11",
			Edits: []edit{{File: "posting.go", Old: "\tif p.normBits1Hit != 0 {\n\t\tn = 1\n\t\tif p.except != nil && p.except.Contains(uint32(p.docNum1Hit)) {\n\t\t\te = 1\n\t\t}\n\t} else if p.postings != nil {", New: "\tswitch {\n\tcase p.normBits1Hit != 0:\n\t\tn = 1\n\t\tif p.except != nil && p.except.Contains(uint32(p.docNum1Hit)) {\n\t\t\te = 1\n\t\t}\n\tcase p.postings != nil:"}}},
		{Harmless: true, ID: "h-scratch-reset-range-over-table", Prop: "C05", Rule: "R25",
			Edits: []edit{{File: "merge.go", Old: "\t\t\tfor i := 0; i < len(fieldsInv); i++ {\n\t\t\t\tvals[i] = vals[i][:0]", New: "\t\t\tfor i := range vals {\n\t\t\t\tvals[i] = vals[i][:0]"}}},
		{Harmless: true, ID: "h-recycled-field-all-truncated", Prop: "C02", Rule: "R10",
			Edits: []edit{{File: "new.go", Old: "\t\tfor fieldID := range docStoredFields { // reset for next doc\n\t\t\tdelete(docStoredFields, fieldID)\n\t\t}", New: "\t\tfor fieldID, isf := range docStoredFields { // reset for next doc\n\t\t\tif len(isf.vals) == 0 {\n\t\t\t\tdelete(docStoredFields, fieldID)\n\t\t\t\tcontinue\n\t\t\t}\n\t\t\tisf.vals = isf.vals[:0]\n\t\t\tisf.typs = isf.typs[:0]\n\t\t\tisf.arrayposs = isf.arrayposs[:0]\n\t\t\tdocStoredFields[fieldID] = isf\n\t\t}"}}},
		{Harmless: true, ID: "h-full-selectivity-operands-swapped", Prop: "C14", Rule: "R23", Vectors: true,
			Edits: []edit{{File: "faiss_vector_posting.go", Old: "\t\t\t\tif len(eligibleDocIDs) == int(sb.numDocs) {", New: "\t\t\t\tif allEligible := uint64(len(eligibleDocIDs)) == sb.numDocs; allEligible {"}}},
		{Harmless: true, ID: "h-r35-decode-masked", Prop: "C12", Rule: "R35",
			Edits: []edit{{File: "synonym_posting.go", Old: "\treturn uint32(synonymCode >> 32), uint32(synonymCode)", New: "\tsynonymID = uint32((synonymCode >> 32) & 0xffffffff)\n\tdocID = uint32(synonymCode & 0xffffffff)\n\treturn synonymID, docID"}}},
		{Harmless: true, ID: "h-r35-except-continue-form", Prop: "C12", Rule: "R35",
			Edits: []edit{{File: "synonym_posting.go", Old: "\t\tif i.except == nil || !i.except.Contains(docNum) {\n\t\t\treturn synID, docNum, true, nil\n\t\t}", New: "\t\tif i.except != nil && i.except.Contains(docNum) {\n\t\t\tcontinue\n\t\t}\n\t\treturn synID, docNum, true, nil"}}},
		{Harmless: true, ID: "h-r35-except-hoisted", Prop: "C12", Rule: "R35",
			Edits: []edit{{File: "synonym_posting.go", Old: "\t\tif i.except == nil || !i.except.Contains(docNum) {", New: "\t\tdropped := i.except != nil && i.except.Contains(docNum)\n\t\tif !dropped {"}}},
		{Harmless: true, ID: "h-r36-writer-nonzero-form", Prop: "C01", Rule: "R36",
			Edits: []edit{{File: "section_inverted_text_index.go", Old: "\t\t\t\tif freqNorm.freq > 0 {\n\t\t\t\t\terr = tfEncoder.Add(docNum,", New: "\t\t\t\tif freqNorm.freq != 0 {\n\t\t\t\t\terr = tfEncoder.Add(docNum,"}}},
		{Harmless: true, ID: "h-r36-reader-less-than-one", Prop: "C07", Rule: "R36",
			Edits: []edit{{File: "posting.go", Old: "\tfreq, hasLocs := decodeFreqHasLocs(freqHasLocs)\n\tif freq == 0 {\n\t\treturn freq, 0, hasLocs, nil\n\t}", New: "\tfreq, hasLocs := decodeFreqHasLocs(freqHasLocs)\n\tif freq < 1 {\n\t\treturn 0, 0, hasLocs, nil\n\t}"}}},
		{Harmless: true, ID: "h-r36-skip-inverted-branch", Prop: "C07", Rule: "R36",
			Edits: []edit{{File: "posting.go", Old: "\tif freq == 0 {\n\t\treturn hasLocs, nil\n\t}\n\n\ti.freqNormReader.SkipUvarint() // Skip normBits.\n", New: "\tif freq != 0 {\n\t\ti.freqNormReader.SkipUvarint() // Skip normBits.\n\t}\n"}}},
		{Harmless: true, ID: "h-r28b-synonym-id-not-restarted", Prop: "C13", Rule: "R28",
			Edits: []edit{{File: "section_synonym_index.go", Old: "\t\titrs = itrs[:0]\n\t\tnewSynonymID = 0\n", New: "\t\titrs = itrs[:0]\n"}}},
		{Harmless: true, ID: "h-r28b-maps-cleared-in-place", Prop: "C13", Rule: "R28",
			Edits: []edit{{File: "section_synonym_index.go", Old: "\t\tsynTermMap := make(map[uint32]string)\n\t\ttermSynMap := make(map[string]uint32)\n", New: "\t\tclear(synTermMap)\n\t\tclear(termSynMap)\n"},
				{File: "section_synonym_index.go", Old: "\tvar newSynonymID uint32\n\n\t// for each field\n", New: "\tvar newSynonymID uint32\n\tsynTermMap := make(map[uint32]string)\n\ttermSynMap := make(map[string]uint32)\n\n\t// for each field\n"}}},
		{Harmless: true, ID: "h-r37-term-changed-named", Prop: "C06", Rule: "R37",
			Edits: []edit{{File: "section_inverted_text_index.go", Old: "\t\t\tif !bytes.Equal(prevTerm, term) {\n\t\t\t\t// check for the closure in meantime", New: "\t\t\ttermChanged := !bytes.Equal(prevTerm, term)\n\t\t\tif termChanged {\n\t\t\t\t// check for the closure in meantime"},
				{File: "section_inverted_text_index.go", Old: "\t\t\tif !bytes.Equal(prevTerm, term) || prevTerm == nil {", New: "\t\t\tif termChanged || prevTerm == nil {"}}},
		{Harmless: true, ID: "h-r37-first-term-flag", Prop: "C06", Rule: "R37",
			Edits: []edit{{File: "section_inverted_text_index.go", Old: "\t\t\tif !bytes.Equal(prevTerm, term) || prevTerm == nil {", New: "\t\t\tif prevTerm == nil || !bytes.Equal(prevTerm, term) {"}}},
		// recycling the builder after a failed InitSegmentBase is fine as long as reset() succeeded (was
		// counted as a violation before round 7: the property needs a clean builder, not a successful build)
		{Harmless: true, ID: "h-rf2-build-reusable-after-failed-init", Prop: "C10", Rule: "R10", Patch: "refactors/build2.diff",
			Edits: []edit{{File: "new.go", Old: "\treusable := err == nil && s.reset() == nil\n", New: "\treusable := s.reset() == nil\n"}}},
		// the repaired forms of the round-6 "slip hidden in a refactoring" seeds: the same
		// refactoring without the slip (each passes the pinned suite and the seed's own demonstration)
		{Harmless: true, ID: "h-r6-C01-fixed", Patch: "refactors/r6-C01-fixed.diff"},
		{Harmless: true, ID: "h-r6-C02-fixed", Patch: "refactors/r6-C02-fixed.diff"},
		{Harmless: true, ID: "h-r6-C03-fixed", Patch: "refactors/r6-C03-fixed.diff"},
		{Harmless: true, ID: "h-r6-C04-fixed", Patch: "refactors/r6-C04-fixed.diff"},
		{Harmless: true, ID: "h-r6-C05-fixed", Patch: "refactors/r6-C05-fixed.diff"},
		{Harmless: true, ID: "h-r6-C06-fixed", Patch: "refactors/r6-C06-fixed.diff"},
		{Harmless: true, ID: "h-r6-C07-fixed", Patch: "refactors/r6-C07-fixed.diff"},
		{Harmless: true, ID: "h-r6-C08-fixed", Patch: "refactors/r6-C08-fixed.diff"},
		{Harmless: true, ID: "h-r6-C09-fixed", Patch: "refactors/r6-C09-fixed.diff"},
		{Harmless: true, ID: "h-r6-C10-fixed", Patch: "refactors/r6-C10-fixed.diff"},
		{Harmless: true, ID: "h-r6-C11-fixed", Patch: "refactors/r6-C11-fixed.diff"},
		{Harmless: true, ID: "h-r6-C13-fixed", Patch: "refactors/r6-C13-fixed.diff"},
		{Harmless: true, ID: "h-r6-C17-fixed", Patch: "refactors/r6-C17-fixed.diff"},
		{Harmless: true, ID: "h-r6-C18-fixed", Patch: "refactors/r6-C18-fixed.diff"},
		{Harmless: true, ID: "h-r6-C20-fixed", Patch: "refactors/r6-C20-fixed.diff"},
		// the repaired forms of the round-7 seeds (the same optimisation / refactoring done right)
		{Harmless: true, ID: "h-r7-C01-fixed", Patch: "seeded/C01g-perf-fields-seen-list/fixed.diff"},
		{Harmless: true, ID: "h-r7-C02-fixed", Patch: "seeded/C02g-perf-idonly-fastpath/fixed.diff"},
		{Harmless: true, ID: "h-r7-C03-fixed", Patch: "seeded/C03g-perf-retarget-readers/fixed.diff"},
		{Harmless: true, ID: "h-r7-C04-fixed", Patch: "seeded/C04g-perf-reuse-counting-writer/fixed.diff"},
		{Harmless: true, ID: "h-r7-C05-fixed", Patch: "seeded/C05g-perf-reset-segment-slots/fixed.diff"},
		{Harmless: true, ID: "h-r7-C06-fixed", Patch: "seeded/C06g-perf-per-field-bytecopy/fixed.diff"},
		{Harmless: true, ID: "h-r7-C07-fixed", Patch: "seeded/C07g-perf-recycle-actual-bitmap/fixed.diff"},
		{Harmless: true, ID: "h-r7-C08-fixed", Patch: "seeded/C08g-perf-count-from-header/fixed.diff"},
		{Harmless: true, ID: "h-r7-C09-fixed", Patch: "seeded/C09g-perf-intcoder-partial-reset/fixed.diff"},
		{Harmless: true, ID: "h-r7-C10-fixed", Patch: "seeded/C10g-perf-failfast-recycle/fixed.diff"},
		{Harmless: true, ID: "h-r7-C11-fixed", Patch: "seeded/C11g-perf-stored-memo/fixed.diff"},
		{Harmless: true, ID: "h-r7-C12-fixed", Patch: "seeded/C12g-perf-synterm-slice/fixed.diff"},
		{Harmless: true, ID: "h-r7-C13-fixed", Patch: "seeded/C13g-perf-synid-remap/fixed.diff"},
		{Harmless: true, ID: "h-r7-C17-fixed", Patch: "seeded/C17g-perf-small-merge-in-memory/fixed.diff"},
		{Harmless: true, ID: "h-r7-C18-fixed", Patch: "seeded/C18g-perf-empty-merge-fastpath/fixed.diff"},
		{Harmless: true, ID: "h-r7-C20-fixed", Patch: "seeded/C20g-perf-evict-synonym-cache/fixed.diff"},
		{Harmless: true, ID: "h-r7-C14-fixed", Patch: "seeded/C14g-disguised-loadfor-early-return/fixed.diff"},
		{Harmless: true, ID: "h-r7-C14-fixed-vectors", Patch: "seeded/C14g-disguised-loadfor-early-return/fixed.diff", Vectors: true},
		{Harmless: true, ID: "h-r7-C15-fixed", Patch: "seeded/C15g-disguised-vecsegs-index/fixed.diff"},
		{Harmless: true, ID: "h-r7-C15-fixed-vectors", Patch: "seeded/C15g-disguised-vecsegs-index/fixed.diff", Vectors: true},
		{Harmless: true, ID: "h-r7-C16-fixed", Patch: "seeded/C16g-disguised-load-before-complete/fixed.diff"},
		{Harmless: true, ID: "h-r7-C16-fixed-vectors", Patch: "seeded/C16g-disguised-load-before-complete/fixed.diff", Vectors: true},
		{Harmless: true, ID: "h-r7-C19-fixed", Patch: "seeded/C19g-disguised-populated-index-helper/fixed.diff"},
		{Harmless: true, ID: "h-r7-C19-fixed-vectors", Patch: "seeded/C19g-disguised-populated-index-helper/fixed.diff", Vectors: true},
		// the repaired forms of the round-10 seeds
		{Harmless: true, ID: "h-r10-C01-fixed", Patch: "seeded/C01j-struct-cumulative-locend/fixed.diff"},
		{Harmless: true, ID: "h-r10-C02-fixed", Patch: "seeded/C02j-struct-slice-of-fields-partial-truncate/fixed.diff"},
		{Harmless: true, ID: "h-r10-C03-fixed", Patch: "seeded/C03j-struct-dvrs-slice-resolved-flag/fixed.diff"},
		{Harmless: true, ID: "h-r10-C04-fixed", Patch: "seeded/C04j-struct-acquire-interim-writer-reset/fixed.diff"},
		{Harmless: true, ID: "h-r10-C05-fixed", Patch: "seeded/C05j-sig-copystoreddocs-returns-next/fixed.diff"},
		{Harmless: true, ID: "h-r10-C06-fixed", Patch: "seeded/C06j-helper-docvalue-flag-overwritten/fixed.diff"},
		{Harmless: true, ID: "h-r10-C07-fixed", Patch: "seeded/C07j-fold-skip-into-read-freq-zero/fixed.diff"},
		{Harmless: true, ID: "h-r10-C08-fixed", Patch: "seeded/C08j-fold-first-term-guard/fixed.diff"},
		{Harmless: true, ID: "h-r10-C09-fixed", Patch: "seeded/C09j-rule-chunksneeded-1024/fixed.diff"},
		{Harmless: true, ID: "h-r10-C10-fixed", Patch: "seeded/C10j-struct-thesaurus-id-slice/fixed.diff"},
		{Harmless: true, ID: "h-r10-C11-fixed", Patch: "seeded/C11j-switch-skips-sentinel-check/fixed.diff"},
		{Harmless: true, ID: "h-r10-C12-fixed", Patch: "seeded/C12j-struct-thesaurus-id-slice/fixed.diff"},
		{Harmless: true, ID: "h-r10-C13-fixed", Patch: "seeded/C13j-struct-sources-livedrops-index/fixed.diff"},
		{Harmless: true, ID: "h-r10-C14-fixed", Patch: "seeded/C14j-batch-addmany-padding/fixed.diff"},
		{Harmless: true, ID: "h-r10-C14-fixed-vectors", Patch: "seeded/C14j-batch-addmany-padding/fixed.diff", Vectors: true},
		{Harmless: true, ID: "h-r10-C15-fixed", Patch: "seeded/C15j-reconstruct-window-offset/fixed.diff"},
		{Harmless: true, ID: "h-r10-C15-fixed-vectors", Patch: "seeded/C15j-reconstruct-window-offset/fixed.diff", Vectors: true},
		{Harmless: true, ID: "h-r10-C16-fixed", Patch: "seeded/C16j-load-before-complete-again/fixed.diff"},
		{Harmless: true, ID: "h-r10-C16-fixed-vectors", Patch: "seeded/C16j-load-before-complete-again/fixed.diff", Vectors: true},
		{Harmless: true, ID: "h-r10-C17-fixed", Patch: "seeded/C17j-complete-in-defer-unnamed-results/fixed.diff"},
		{Harmless: true, ID: "h-r10-C18-fixed", Patch: "seeded/C18j-empty-merge-early-return-again/fixed.diff"},
		{Harmless: true, ID: "h-r10-C19-fixed", Patch: "seeded/C19j-build-faiss-index-helper/fixed.diff"},
		{Harmless: true, ID: "h-r10-C19-fixed-vectors", Patch: "seeded/C19j-build-faiss-index-helper/fixed.diff", Vectors: true},
		{Harmless: true, ID: "h-r10-C20-fixed", Patch: "seeded/C20j-narrow-lock-clear-in-close/fixed.diff"},
		// the repaired forms of the round-11 seeds (C08k, C14k: unresolved alarms, C19k: the feature itself breaks C19 — not fixtures)
		{Harmless: true, ID: "h-r11-C01-fixed", Patch: "seeded/C01k-feat-build-onehit-fastpath/fixed.diff"},
		{Harmless: true, ID: "h-r11-C02-fixed", Patch: "seeded/C02k-fix-stored-bounds-check-geq/fixed.diff"},
		{Harmless: true, ID: "h-r11-C03-fixed", Patch: "seeded/C03k-feat-docvalues-bytecopy/fixed.diff"},
		{Harmless: true, ID: "h-r11-C04-fixed", Patch: "seeded/C04k-fix-validate-footer-chunksize-zero/fixed.diff"},
		{Harmless: true, ID: "h-r11-C05-fixed", Patch: "seeded/C05k-feat-fieldssame-ignores-dead-segments/fixed.diff"},
		{Harmless: true, ID: "h-r11-C06-fixed", Patch: "seeded/C06k-feat-fieldssame-ignores-dead-segments/fixed.diff"},
		{Harmless: true, ID: "h-r11-C07-fixed", Patch: "seeded/C07k-feat-advance-chunk-jump/fixed.diff"},
		{Harmless: true, ID: "h-r11-C09-fixed", Patch: "seeded/C09k-feat-docvalues-bytecopy/fixed.diff"},
		{Harmless: true, ID: "h-r11-C10-fixed", Patch: "seeded/C10k-feat-validate-then-pool-without-reset/fixed.diff"},
		{Harmless: true, ID: "h-r11-C11-fixed", Patch: "seeded/C11k-feat-stored-memo-before-early-return/fixed.diff"},
		{Harmless: true, ID: "h-r11-C12-fixed", Patch: "seeded/C12k-feat-except-max-shortcut/fixed.diff"},
		{Harmless: true, ID: "h-r11-C13-fixed", Patch: "seeded/C13k-feat-synid-remap-per-segment/fixed.diff"},
		{Harmless: true, ID: "h-r11-C15-fixed", Patch: "seeded/C15k-feat-merge-address-after-write/fixed.diff"},
		{Harmless: true, ID: "h-r11-C15-fixed-vectors", Patch: "seeded/C15k-feat-merge-address-after-write/fixed.diff", Vectors: true},
		{Harmless: true, ID: "h-r11-C16-fixed", Patch: "seeded/C16k-feat-all-excluded-early-return/fixed.diff"},
		{Harmless: true, ID: "h-r11-C16-fixed-vectors", Patch: "seeded/C16k-feat-all-excluded-early-return/fixed.diff", Vectors: true},
		{Harmless: true, ID: "h-r11-C17-fixed", Patch: "seeded/C17k-feat-lone-segment-copy-shadowed-err/fixed.diff"},
		{Harmless: true, ID: "h-r11-C18-fixed", Patch: "seeded/C18k-feat-lone-segment-copy-before-poll/fixed.diff"},
		{Harmless: true, ID: "h-r11-C20-fixed", Patch: "seeded/C20k-fix-idempotent-close-flag/fixed.diff"},
		// the repaired forms of the round-14 seeds (C04ma, C11mc: unresolved alarms — not fixtures)
		{Harmless: true, ID: "h-r14-C04mb-fixed", Patch: "seeded/C04mb-feat-counting-writer-reset-keeps-crc/fixed.diff"},
		{Harmless: true, ID: "h-r14-C07ma-fixed", Patch: "seeded/C07ma-feat-decoder-header-memo-offset-only/fixed.diff"},
		{Harmless: true, ID: "h-r14-C10ma-fixed", Patch: "seeded/C10ma-feat-docvalue-coder-recycled-grow-only/fixed.diff"},
		{Harmless: true, ID: "h-r14-C10mb-fixed", Patch: "seeded/C10mb-feat-reset-installs-empty-opaque-map/fixed.diff"},
		{Harmless: true, ID: "h-r14-C11ma-fixed", Patch: "seeded/C11ma-feat-stored-doc-memo-buffer-recycled/fixed.diff"},
		{Harmless: true, ID: "h-r14-C11mb-fixed", Patch: "seeded/C11mb-feat-late-field-returns-shared-reader/fixed.diff"},
		{Harmless: true, ID: "h-r14-C12ma-fixed", Patch: "seeded/C12ma-feat-synonyms-memo-offset-only/fixed.diff"},
		{Harmless: true, ID: "h-r14-C16ma-fixed", Patch: "seeded/C16ma-feat-all-excluded-early-return/fixed.diff"},
		{Harmless: true, ID: "h-r14-C16ma-fixed-vectors", Patch: "seeded/C16ma-feat-all-excluded-early-return/fixed.diff", Vectors: true},
		{Harmless: true, ID: "h-r14-C16mb-fixed", Patch: "seeded/C16mb-feat-exclusion-memo-aliases-argument/fixed.diff"},
		{Harmless: true, ID: "h-r14-C16mb-fixed-vectors", Patch: "seeded/C16mb-feat-exclusion-memo-aliases-argument/fixed.diff", Vectors: true},
		{Harmless: true, ID: "h-r14-C17ma-fixed", Patch: "seeded/C17ma-feat-preallocate-early-return/fixed.diff"},
		{Harmless: true, ID: "h-r14-C17mb-fixed", Patch: "seeded/C17mb-fix-defer-cleanup-shadowed-tail/fixed.diff"},
		{Harmless: true, ID: "h-r14-C17mc-fixed", Patch: "seeded/C17mc-feat-flush-destination-first/fixed.diff"},
		{Harmless: true, ID: "h-r14-C18ma-fixed", Patch: "seeded/C18ma-feat-no-docs-fastpath-above-poll/fixed.diff"},
		{Harmless: true, ID: "h-r14-C18mb-fixed", Patch: "seeded/C18mb-feat-extra-polls-one-without-cleanup/fixed.diff"},
		{Harmless: true, ID: "h-r14-C19ma-fixed", Patch: "seeded/C19ma-feat-batched-reconstruct-shadowed-err/fixed.diff"},
		{Harmless: true, ID: "h-r14-C19ma-fixed-vectors", Patch: "seeded/C19ma-feat-batched-reconstruct-shadowed-err/fixed.diff", Vectors: true},
		{Harmless: true, ID: "h-r14-C19mb-fixed", Patch: "seeded/C19mb-feat-release-after-reconstruct-leak/fixed.diff"},
		{Harmless: true, ID: "h-r14-C19mb-fixed-vectors", Patch: "seeded/C19mb-feat-release-after-reconstruct-leak/fixed.diff", Vectors: true},
		{Harmless: true, ID: "h-r14-C20ma-fixed", Patch: "seeded/C20ma-feat-pin-rollback-unpins-all/fixed.diff"},
		{Harmless: true, ID: "h-r14-C20mb-fixed", Patch: "seeded/C20mb-feat-trim-caches-on-close/fixed.diff"},
		{Harmless: true, ID: "h-r16-C01n-fixed", Patch: "seeded/C01n-plumb-addfreqnorm-haslocs-term-wide/fixed.diff"},
		{Harmless: true, ID: "h-r16-C02n-fixed", Patch: "seeded/C02n-plumb-readarraypositions-uncut-scratch/fixed.diff"},
		{Harmless: true, ID: "h-r16-C03n-fixed", Patch: "seeded/C03n-plumb-visitstate-bind-recycles-stale-readers/fixed.diff"},
		{Harmless: true, ID: "h-r16-C04n-fixed", Patch: "seeded/C04n-obs-open-validates-footer-chunksize-zero/fixed.diff"},
		{Harmless: true, ID: "h-r16-C05n-fixed", Patch: "seeded/C05n-plumb-mergefields-flag-overwritten-per-segment/fixed.diff"},
		{Harmless: true, ID: "h-r16-C06n-fixed", Patch: "seeded/C06n-plumb-term-cardinality-helper-wrong-drops/fixed.diff"},
		{Harmless: true, ID: "h-r16-C07n-fixed", Patch: "seeded/C07n-plumb-skip-variant-loses-freq-zero-return/fixed.diff"},
		{Harmless: true, ID: "h-r16-C08n-fixed", Patch: "seeded/C08n-api-automaton-iterator-prealloc-reset-done/fixed.diff"},
		{Harmless: true, ID: "h-r16-C09n-fixed", Patch: "seeded/C09n-plumb-term-cardinality-helper-wrong-drops-2/fixed.diff"},
		{Harmless: true, ID: "h-r16-C10n-fixed", Patch: "seeded/C10n-obs-validate-in-processdocument-recycles-rejected/fixed.diff"},
		{Harmless: true, ID: "h-r16-C11n-fixed", Patch: "seeded/C11n-plumb-docid-defer-put-twice/fixed.diff"},
		{Harmless: true, ID: "h-r16-C12n-fixed", Patch: "seeded/C12n-plumb-synonymslist-clear-only-when-read/fixed.diff"},
		{Harmless: true, ID: "h-r16-C13n-fixed", Patch: "seeded/C13n-plumb-livedrops-indexed-by-active-position/fixed.diff"},
		{Harmless: true, ID: "h-r16-C14n-fixed", Patch: "seeded/C14n-plumb-cache-miss-split-loses-exclusions/fixed.diff"},
		{Harmless: true, ID: "h-r16-C15n-fixed", Patch: "seeded/C15n-plumb-shared-metadata-writer-guard-hoisted/fixed.diff"},
		{Harmless: true, ID: "h-r16-C16n-fixed", Patch: "seeded/C16n-plumb-acquire-exclusions-only-when-ready/fixed.diff"},
		{Harmless: true, ID: "h-r16-C17n-fixed", Patch: "seeded/C17n-plumb-segmentfile-owner-shadowed-err/fixed.diff"},
		{Harmless: true, ID: "h-r16-C18n-fixed", Patch: "seeded/C18n-plumb-poll-helper-skipped-for-empty/fixed.diff"},
		{Harmless: true, ID: "h-r16-C19n-fixed", Patch: "seeded/C19n-plumb-newmergedindex-deferred-close-reads-nil-result/fixed.diff"},
		{Harmless: true, ID: "h-r16-C20n-fixed", Patch: "seeded/C20n-plumb-close-chains-to-segmentbase-close/fixed.diff"},
		{Harmless: true, ID: "h-r21-C01r-fixed", Patch: "seeded/C01r-tidy-arrayposs-hoisted-not-reset/fixed.diff"},
		{Harmless: true, ID: "h-r21-C02r-fixed", Patch: "seeded/C02r-tidy-range-over-uncut-scratch/fixed.diff"},
		{Harmless: true, ID: "h-r21-C03r-fixed", Patch: "seeded/C03r-tidy-chunk-start-hoisted/fixed.diff"},
		{Harmless: true, ID: "h-r21-C04r-fixed", Patch: "seeded/C04r-tidy-early-exit-return-for-continue/fixed.diff"},
		{Harmless: true, ID: "h-r21-C05r-fixed", Patch: "seeded/C05r-tidy-copy-returns-zero-on-empty/fixed.diff"},
		{Harmless: true, ID: "h-r21-C06r-fixed", Patch: "seeded/C06r-tidy-chunk-start-hoisted-again/fixed.diff"},
		{Harmless: true, ID: "h-r21-C07r-fixed", Patch: "seeded/C07r-tidy-prealloc-clear-dropped/fixed.diff"},
		{Harmless: true, ID: "h-r21-C08r-fixed", Patch: "seeded/C08r-tidy-excluded-helper-takes-norm-bits/fixed.diff"},
		{Harmless: true, ID: "h-r21-C09r-fixed", Patch: "seeded/C09r-tidy-dv-flag-hoisted-out-of-field-loop/fixed.diff"},
		{Harmless: true, ID: "h-r21-C10r-fixed", Patch: "seeded/C10r-tidy-reset-drops-map-reset/fixed.diff"},
		{Harmless: true, ID: "h-r21-C11r-fixed", Patch: "seeded/C11r-tidy-empty-iterator-sentinel-reused/fixed.diff"},
		{Harmless: true, ID: "h-r21-C12r-fixed", Patch: "seeded/C12r-tidy-addrforfield-commaok-folded/fixed.diff"},
		{Harmless: true, ID: "h-r21-C13r-fixed", Patch: "seeded/C13r-tidy-clear-one-of-two-maps/fixed.diff"},
		{Harmless: true, ID: "h-r21-C14r-fixed", Patch: "seeded/C14r-tidy-exclusion-demorgan/fixed.diff"},
		{Harmless: true, ID: "h-r21-C14r-fixed-vectors", Patch: "seeded/C14r-tidy-exclusion-demorgan/fixed.diff", Vectors: true},
		{Harmless: true, ID: "h-r21-C15r-fixed", Patch: "seeded/C15r-tidy-empty-vector-map-check-dropped/fixed.diff"},
		{Harmless: true, ID: "h-r21-C15r-fixed-vectors", Patch: "seeded/C15r-tidy-empty-vector-map-check-dropped/fixed.diff", Vectors: true},
		{Harmless: true, ID: "h-r21-C16r-fixed", Patch: "seeded/C16r-tidy-hit-helper-early-return-no-ref/fixed.diff"},
		{Harmless: true, ID: "h-r21-C16r-fixed-vectors", Patch: "seeded/C16r-tidy-hit-helper-early-return-no-ref/fixed.diff", Vectors: true},
		{Harmless: true, ID: "h-r21-C17r-fixed", Patch: "seeded/C17r-tidy-deferred-cleanup-shadowed-flush-err/fixed.diff"},
		{Harmless: true, ID: "h-r21-C18r-fixed", Patch: "seeded/C18r-tidy-empty-merge-return-above-poll/fixed.diff"},
		{Harmless: true, ID: "h-r21-C19r-fixed", Patch: "seeded/C19r-tidy-defer-free-registered-late/fixed.diff"},
		{Harmless: true, ID: "h-r21-C19r-fixed-vectors", Patch: "seeded/C19r-tidy-defer-free-registered-late/fixed.diff", Vectors: true},
		{Harmless: true, ID: "h-r21-C20r-fixed", Patch: "seeded/C20r-tidy-decref-guard-greater-than-one/fixed.diff"},
		{Harmless: true, ID: "h-r19-C14q-fixed", Patch: "seeded/C14q-refac-vec-index-handle-stale-docvecmap/fixed.diff"},
		{Harmless: true, ID: "h-r19-C16q-fixed", Patch: "seeded/C16q-refac-vec-index-handle-existing-entry-no-ref/fixed.diff"},
		{Harmless: true, ID: "h-r19-C17q-fixed", Patch: "seeded/C17q-refac-segmentfile-owner-abort-guarded-by-closed/fixed.diff"},
		{Harmless: true, ID: "h-r19-C01q-fixed", Patch: "seeded/C01q-refac-postings-iterator-locs-uncut/fixed.diff"},
		{Harmless: true, ID: "h-r19-C02q-fixed", Patch: "seeded/C02q-refac-stored-doc-writer-unstable-sort/fixed.diff"},
		{Harmless: true, ID: "h-r19-C05q-fixed", Patch: "seeded/C05q-refac-stored-docs-merger-copy-returns-zero/fixed.diff"},
		{Harmless: true, ID: "h-r19-C07q-fixed", Patch: "seeded/C07q-refac-postings-iterator-clean-flag/fixed.diff"},
		{Harmless: true, ID: "h-r19-C08q-fixed", Patch: "seeded/C08q-refac-enumerator-cursors-empty-key/fixed.diff"},
		{Harmless: true, ID: "h-r19-C09q-fixed", Patch: "seeded/C09q-refac-docvalues-writer-start-sampled-late/fixed.diff"},
		{Harmless: true, ID: "h-r19-C10q-fixed", Patch: "seeded/C10q-refac-stored-fields-steps-rejected-batch/fixed.diff"},
		{Harmless: true, ID: "h-r19-C11q-fixed", Patch: "seeded/C11q-refac-stored-doc-reader-early-stop-skips-close/fixed.diff"},
		{Harmless: true, ID: "h-r19-C12q-fixed", Patch: "seeded/C12q-refac-synonymslist-bind-clear-on-read-only/fixed.diff"},
		{Harmless: true, ID: "h-r19-C13q-fixed", Patch: "seeded/C13q-refac-thesaurus-writer-drops-by-segment/fixed.diff"},
		{Harmless: true, ID: "h-r19-C15q-fixed", Patch: "seeded/C15q-refac-vector-field-merger-wrong-numbering/fixed.diff"},
		{Harmless: true, ID: "h-r19-C19q-fixed", Patch: "seeded/C19q-refac-newfilledindex-deferred-close-reads-nil/fixed.diff"},
		{Harmless: true, ID: "h-r17-C01p-fixed", Patch: "seeded/C01p-perf-realloc-tally-skips-locations/fixed.diff"},
		{Harmless: true, ID: "h-r17-C02p-fixed", Patch: "seeded/C02p-perf-stored-meta-uvarint-single-byte/fixed.diff"},
		{Harmless: true, ID: "h-r17-C03p-fixed", Patch: "seeded/C03p-perf-docvalue-lookup-cursor/fixed.diff"},
		{Harmless: true, ID: "h-r17-C04p-fixed", Patch: "seeded/C04p-robust-validate-docvalue-chunk-count/fixed.diff"},
		{Harmless: true, ID: "h-r17-C05p-fixed", Patch: "seeded/C05p-perf-drop-iterator-stale-across-segments/fixed.diff"},
		{Harmless: true, ID: "h-r17-C07p-fixed", Patch: "seeded/C07p-perf-keep-actual-bitmap-ownership-flag/fixed.diff"},
		{Harmless: true, ID: "h-r17-C08p-fixed", Patch: "seeded/C08p-perf-term-span-fast-path-inclusive-bound/fixed.diff"},
		{Harmless: true, ID: "h-r17-C09p-fixed", Patch: "seeded/C09p-perf-build-onehit-skips-docvalues/fixed.diff"},
		{Harmless: true, ID: "h-r17-C11p-fixed", Patch: "seeded/C11p-perf-decoded-synonyms-cache-cleared-on-reuse/fixed.diff"},
		{Harmless: true, ID: "h-r17-C12p-fixed", Patch: "seeded/C12p-perf-thesaurus-bitmap-cache-shared/fixed.diff"},
		{Harmless: true, ID: "h-r17-C13p-fixed", Patch: "seeded/C13p-perf-synonym-pairs-batched-exact-multiple/fixed.diff"},
		{Harmless: true, ID: "h-r17-C14p-fixed", Patch: "seeded/C14p-perf-filter-covers-all-vectors-wrong-map/fixed.diff"},
		{Harmless: true, ID: "h-r17-C15p-fixed", Patch: "seeded/C15p-perf-sole-intact-input-wrong-drops/fixed.diff"},
		{Harmless: true, ID: "h-r17-C16p-fixed", Patch: "seeded/C16p-perf-read-index-outside-lock-loser-leaks/fixed.diff"},
		{Harmless: true, ID: "h-r17-C18p-fixed", Patch: "seeded/C18p-robust-write-to-tmp-cleanup-removes-final-path/fixed.diff"},
		{Harmless: true, ID: "h-r17-C19p-fixed", Patch: "seeded/C19p-perf-single-source-fast-path-skips-error-check/fixed.diff"},
		{Harmless: true, ID: "h-r17-C20p-fixed", Patch: "seeded/C20p-robust-merge-pins-inputs-unpins-on-success-only/fixed.diff"},
	}
}
