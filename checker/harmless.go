package main

// Behaviour-preserving edits: the property still holds after each of them, so
// the rule named must report nothing. They guard against rules that match a
// spelling rather than a structure.
func harmlessTable() []mutant {
	return []mutant{
		{Harmless: true, ID: "h-chunkrule-respelled", Prop: "C09", Rule: "R30",
			Edits: []edit{{File: "chunk.go", Old: "\tcase chunkMode <= 1024:\n", New: "\tcase chunkMode < 1025:\n"},
				{File: "chunk.go", Old: "\t\tnumChunks := (cardinality / 1024) + 1\n", New: "\t\tnumChunks := 1 + cardinality/1024\n"},
				{File: "chunk.go", Old: "\t\tif cardinality <= 1024 {\n\t\t\tif maxDocs == 0 {\n\t\t\t\treturn 0, ErrChunkSizeZero\n\t\t\t}\n\t\t\treturn maxDocs, nil\n\t\t}\n\t\treturn 1024, nil\n", New: "\t\tif cardinality > 1024 {\n\t\t\treturn 1024, nil\n\t\t}\n\t\tif maxDocs < 1 {\n\t\t\treturn 0, ErrChunkSizeZero\n\t\t}\n\t\treturn maxDocs, nil\n"}}},
		{Harmless: true, ID: "h-persist-inline-cleanup", Prop: "C17", Rule: "R6",
			Edits: []edit{{File: "build.go", Old: "\terr = f.Sync()\n\tif err != nil {\n\t\tcleanup()\n\t\treturn err\n\t}\n", New: "\terr = f.Sync()\n\tif err != nil {\n\t\t_ = f.Close()\n\t\t_ = os.Remove(path)\n\t\treturn err\n\t}\n"}}},
		{Harmless: true, ID: "h-decref-leq-zero", Prop: "C20", Rule: "R9",
			Edits: []edit{{File: "segment.go", Old: "\tif s.refs == 0 {\n\t\terr = s.closeActual()", New: "\tif s.refs <= 0 {\n\t\terr = s.closeActual()"}}},
		{Harmless: true, ID: "h-decref-defer-unlock", Prop: "C20", Rule: "R9",
			Edits: []edit{{File: "segment.go", Old: "\ts.m.Lock()\n\ts.refs--\n\tif s.refs == 0 {\n\t\terr = s.closeActual()\n\t}\n\ts.m.Unlock()\n\treturn err\n", New: "\ts.m.Lock()\n\tdefer s.m.Unlock()\n\ts.refs--\n\tif 0 == s.refs {\n\t\treturn s.closeActual()\n\t}\n\treturn nil\n"}}},
		{Harmless: true, ID: "h-sentinel-guard-swapped", Prop: "C11", Rule: "R5",
			Edits: []edit{{File: "dict.go", Old: "func (d *Dictionary) postingsListInit(rv *PostingsList, except *roaring.Bitmap) *PostingsList {\n\tif rv == nil || rv == emptyPostingsList {", New: "func (d *Dictionary) postingsListInit(rv *PostingsList, except *roaring.Bitmap) *PostingsList {\n\tif emptyPostingsList == rv || rv == nil {"}}},
		{Harmless: true, ID: "h-docnumbers-continue-form", Prop: "C02", Rule: "R26",
			Edits: []edit{{File: "segment.go", Old: "\t\t\tif id <= sMaxStr {\n\t\t\t\tpostingsList, err = idDict.postingsList([]byte(id), nil, postingsList)\n\t\t\t\tif err != nil {\n\t\t\t\t\treturn nil, err\n\t\t\t\t}\n\t\t\t\tpostingsList.OrInto(rv)\n\t\t\t}\n", New: "\t\t\tif id > sMaxStr {\n\t\t\t\tcontinue\n\t\t\t}\n\t\t\tpostingsList, err = idDict.postingsList([]byte(id), nil, postingsList)\n\t\t\tif err != nil {\n\t\t\t\treturn nil, err\n\t\t\t}\n\t\t\tpostingsList.OrInto(rv)\n"}}},
		{Harmless: true, ID: "h-copy-guard-isempty", Prop: "C05", Rule: "R17",
			Edits: []edit{{File: "merge.go", Old: "\t\tif fieldsSame && (dropsI == nil || dropsI.GetCardinality() == 0) {\n", New: "\t\tif (dropsI == nil || dropsI.IsEmpty()) && fieldsSame {\n"}}},
		{Harmless: true, ID: "h-reset-clear-builtin", Prop: "C10", Rule: "R10",
			Edits: []edit{{File: "section_inverted_text_index.go", Old: "\tfor k := range io.fieldAddrs {\n\t\tdelete(io.fieldAddrs, k)\n\t}\n", New: "\tio.fieldAddrs = map[int]int{}\n"}}},
		{Harmless: true, ID: "h-visitor-stop-respelled", Prop: "C02", Rule: "R19",
			Edits: []edit{{File: "segment.go", Old: "\t\tkeepGoing := visitor(\"_id\", byte('t'), idFieldVal, nil)\n\t\tif !keepGoing {\n\t\t\treturn nil\n\t\t}\n", New: "\t\tkeepGoing := visitor(\"_id\", byte('t'), idFieldVal, nil)\n\t\tif keepGoing == false {\n\t\t\treturn nil\n\t\t}\n"}}},
		{Harmless: true, ID: "h-docnum-guard-early-return", Prop: "C02", Rule: "R19",
			Edits: []edit{{File: "segment.go", Old: "\tif num >= s.numDocs {\n\t\treturn nil, nil\n\t}\n\n\tvdc := visitDocumentCtxPool.Get()", New: "\tif !(num < s.numDocs) {\n\t\treturn nil, nil\n\t}\n\n\tvdc := visitDocumentCtxPool.Get()"}}},
		{Harmless: true, ID: "h-poll-negated", Prop: "C18", Rule: "R8",
			Edits: []edit{{File: "merge.go", Old: "\tif isClosed(closeCh) {\n\t\treturn nil, 0, 0, nil, nil, 0, seg.ErrClosed\n\t}\n", New: "\tif closed := isClosed(closeCh); closed {\n\t\treturn nil, 0, 0, nil, nil, 0, seg.ErrClosed\n\t}\n"}}},
		{Harmless: true, ID: "h-mergefields-len-hoisted", Prop: "C05", Rule: "R17",
			Edits: []edit{{File: "merge.go", Old: "\t\tfields := segment.Fields()\n\t\tfor fieldi, field := range fields {\n\t\t\tfieldsExist[field] = struct{}{}\n\t\t\tif len(segment0Fields) != len(fields) || segment0Fields[fieldi] != field {\n\t\t\t\tfieldsSame = false\n\t\t\t}\n\t\t}\n", New: "\t\tfields := segment.Fields()\n\t\tif len(segment0Fields) != len(fields) {\n\t\t\tfieldsSame = false\n\t\t}\n\t\tfor fieldi, field := range fields {\n\t\t\tfieldsExist[field] = struct{}{}\n\t\t\tif fieldsSame && segment0Fields[fieldi] != field {\n\t\t\t\tfieldsSame = false\n\t\t\t}\n\t\t}\n"}}},
		{Harmless: true, ID: "h-towriter-named-result", Prop: "C17", Rule: "R6",
			Edits: []edit{{File: "build.go", Old: "\terr = br.w.Flush()\n\tif err != nil {\n\t\treturn 0, err\n\t}\n\n\treturn br.n, nil\n", New: "\tif err = br.w.Flush(); err != nil {\n\t\treturn 0, err\n\t}\n\treturn br.n, err\n"}}},
		{Harmless: true, ID: "h-lock-defer-in-dictionary-cache", Prop: "C11", Rule: "R2",
			Edits: []edit{{File: "synonym_cache.go", Old: "\tsc.m.Lock()\n\tsc.cache = nil\n\tsc.m.Unlock()\n", New: "\tsc.m.Lock()\n\tdefer sc.m.Unlock()\n\tsc.cache = nil\n"}}},
		{Harmless: true, ID: "h-readlocation-make-zero", Prop: "C07", Rule: "R31",
			Edits: []edit{{File: "posting.go", Old: "\tif cap(l.ap) < int(numArrayPos) {\n\t\tl.ap = make([]uint64, int(numArrayPos))\n\t} else {\n\t\tl.ap = l.ap[:int(numArrayPos)]\n\t}\n", New: "\tif n := int(numArrayPos); cap(l.ap) >= n {\n\t\tl.ap = l.ap[:n]\n\t} else {\n\t\tl.ap = make([]uint64, n)\n\t}\n"}}},
		{Harmless: true, ID: "h-onehit-conditions-reordered", Prop: "C08", Rule: "R32",
			Edits: []edit{{File: "section_inverted_text_index.go", Old: "\t\t\t\tif under32Bits(docNum) && docNum == lastDocNum && lastFreq == 1 {", New: "\t\t\t\tif 1 == lastFreq && lastDocNum == docNum && under32Bits(docNum) {"}}},
		{Harmless: true, ID: "h-writer-reset-properly", Prop: "C04", Rule: "R14",
			Edits: []edit{{File: "new.go", Old: "\ts.w = NewCountHashWriter(&br)\n", New: "\ts.w = NewCountHashWriterWithStatsReporter(&br, nil)\n"}}},
	}
}
