package main

// R31 FILLS-ALL        — a decoder that fills a reused object stores every field on every successful path
// R32 ONEHIT-CONDITIONS — the writer chooses the 1-hit encoding exactly under the documented conditions
// R33 THREADED-ACCUMULATOR — an accumulator passed in and returned is returned as accumulated on every path
// R34 ONEHIT-BYTES     — the bytes synthesised for a 1-hit posting encode the norm that is returned with them
//
// All four were written after seeded changes (DESIGN.md §9) showed that these
// shapes carry necessary conditions of C01/C03/C05/C06/C07/C08.

import (
	"fmt"
	"go/token"
	"go/types"
	"sort"
	"strings"

	"golang.org/x/tools/go/ssa"
)

// ---------------------------------------------------------------------------
// R31

type fillSpec struct {
	Type, Method string
	Param        string   // name of the reused pointer parameter ("" = receiver)
	Struct       string   // its struct type
	Fields       []string // fields that must be stored on every success path (nil = all fields)
	Props        []string
	Why          string
}

var fillTable = []fillSpec{
	{"PostingsIterator", "readLocation", "l", "Location", nil, []string{"C01", "C07", "C06"},
		"the Location slots of an iterator are reused from hit to hit (and across terms when the iterator is preallocated)"},
	{"docValueReader", "loadDvChunk", "", "docValueReader", []string{"curChunkNum", "curChunkHeader", "curChunkData", "uncompressed"}, []string{"C03"},
		"the one-chunk cache of a doc-value reader: whenever its content is replaced its key (curChunkNum) must be too"},
}

func ruleR31() *Rule {
	return &Rule{
		ID:    "R31",
		Title: "FILLS-ALL: a decoder that fills a reused object stores every field of it on every successful path",
		Props: []string{"C01", "C03", "C06", "C07", "C12"},
		Floor: floorFor("R31"),
		Run: func(c *RuleCtx) {
			for i := range fillTable {
				sp := &fillTable[i]
				fn := c.method(sp.Type, sp.Method)
				if fn == nil {
					continue
				}
				name := sp.Type + "." + sp.Method
				var obj *ssa.Parameter
				if sp.Param == "" {
					obj = fn.Params[0]
				} else {
					// by type: the pointer-to-Struct parameter (its name is free)
					for _, p := range fn.Params[1:] {
						if pt, ok := p.Type().Underlying().(*types.Pointer); ok && isNamed(pt.Elem(), zapPkgPath, sp.Struct) {
							if obj != nil {
								obj = nil
								break
							}
							obj = p
						}
					}
				}
				if obj == nil {
					c.undecidedP(sp.Props, name+"/object", c.fpos(fn), "the reused object parameter is found", "parameter "+sp.Param+" not found")
					continue
				}
				nt := c.p.NamedType(sp.Struct)
				if nt == nil {
					c.undecidedP(sp.Props, name+"/struct", "-", "struct "+sp.Struct+" exists", "not found")
					continue
				}
				st := nt.Underlying().(*types.Struct)
				fields := sp.Fields
				if fields == nil {
					for j := 0; j < st.NumFields(); j++ {
						fields = append(fields, canonFieldName(sp.Struct, st, j))
					}
				}
				bit := map[string]uint64{}
				for j, f := range fields {
					bit[f] = 1 << uint(j)
					if !structHasField(c.p, sp.Struct, f) {
						c.undecidedP(sp.Props, name+"/field/"+f, "-", "tabled field exists", "field "+f+" not found")
					}
				}
				tr := func(in ssa.Instruction, ev uint64, _ bool) []uint64 {
					st, ok := in.(*ssa.Store)
					if !ok {
						return nil
					}
					if st.Addr == ssa.Value(obj) {
						return []uint64{^uint64(0)}
					}
					if sn, f, base, ok := fieldOf(st.Addr); ok && sn == sp.Struct && root(base) == ssa.Value(obj) {
						return []uint64{ev | bit[f]}
					}
					// element-wise fill of a slice field does not replace the slice itself
					return nil
				}
				pa := newPathAnalysis(fn, tr)
				pa.run(0)
				labels := map[string]int{}
				missingAll := map[string]bool{}
				var w []string
				for _, ret := range returnsOf(fn) {
					if !pa.reachable(ret.Block()) {
						continue
					}
					lbl := exitLabel(ret, labels)
					if _, ns := errorOfReturn(ret); ns == nonNil {
						continue
					}
					for _, ev := range pa.statesBefore(ret) {
						for _, f := range fields {
							if ev&bit[f] == 0 {
								if !missingAll[f] {
									w = append(w, fmt.Sprintf("field %s not stored on a path to %s (%s)", f, lbl, c.pos(ret)))
								}
								missingAll[f] = true
							}
						}
					}
				}
				var miss []string
				for f := range missingAll {
					miss = append(miss, f)
				}
				sort.Strings(miss)
				c.add(statusOf(len(miss) == 0), name+"/fills-every-field", c.fpos(fn),
					fmt.Sprintf("%s stores %s of the reused %s on every successful path (%s)", name, strings.Join(fields, ","), sp.Struct, sp.Why),
					"not stored on some successful path: "+strings.Join(miss, ",")+" — the object keeps what an earlier use left there", sp.Props, w)
				// loadDvChunk: the key stored is the requested chunk number
				if sp.Method == "loadDvChunk" {
					okKey := true
					eachInstr(fn, func(_ *ssa.BasicBlock, in ssa.Instruction) {
						if st, ok := in.(*ssa.Store); ok {
							if sn, f, _, ok := fieldOf(st.Addr); ok && sn == sp.Struct && f == "curChunkNum" {
								if p, ok := st.Val.(*ssa.Parameter); !ok || canonParamName(p) != "chunkNumber" {
									okKey = false
								}
							}
						}
					})
					c.add(statusOf(okKey), name+"/key-is-requested-chunk", c.fpos(fn), "the chunk number recorded for the cache is the chunk that was asked for", "curChunkNum is assigned something other than the chunkNumber parameter", sp.Props, nil)
				}
			}
			// reused result slots are cleared as a whole before they are filled and handed out
			type slot struct{ typ, fn, field, st string }
			for _, sl := range []slot{{"PostingsIterator", "nextAtOrAfter", "next", "Posting"}, {"SynonymsIterator", "next", "nextSyn", "Synonym"}} {
				fn := c.method(sl.typ, sl.fn)
				if fn == nil {
					continue
				}
				recv := fn.Params[0]
				isSlot := func(v ssa.Value) bool {
					sn, f, base, ok := fieldOf(v)
					return ok && sn == sl.typ && f == sl.field && root(base) == ssa.Value(recv)
				}
				tr := func(in ssa.Instruction, ev uint64, _ bool) []uint64 {
					if st, ok := in.(*ssa.Store); ok && isSlot(st.Addr) {
						// `slot = T{}` or `slot = T{f: v, ...}`: every field is replaced
						if _, whole := wholeStructStore(st); whole {
							return []uint64{ev | 1}
						}
					}
					return nil
				}
				pa := newPathAnalysis(fn, tr)
				pa.run(0)
				okc := true
				n := 0
				for _, ret := range returnsOf(fn) {
					v := ret.Results[0]
					if mi, ok := v.(*ssa.MakeInterface); ok {
						v = mi.X
					}
					if !isSlot(v) {
						continue
					}
					n++
					for _, ev := range pa.statesBefore(ret) {
						if ev&1 == 0 {
							okc = false
						}
					}
				}
				c.add(statusOf(okc && n > 0), sl.typ+"."+sl.fn+"/slot-cleared", c.fpos(fn), fmt.Sprintf("the reused result slot %s.%s is cleared as a whole on every path that hands it out", sl.typ, sl.field),
					"a path returns the reused slot without clearing it: fields not overwritten for this hit keep the previous hit's values", slotProps(sl.typ), nil)
			}
		},
	}
}

// ---------------------------------------------------------------------------
// R32

// lastHitRole: the captured variable `cell` receives result k of the per-term
// merge routine (mergeTermFreqNormLocs / ...ByCopying return lastDocNum,
// lastFreq, lastNorm first) — its role, whatever the variable is called.
func lastHitRole(cell *ssa.Alloc) string {
	if cell == nil {
		return ""
	}
	role := ""
	for _, st := range cellStores(cell) {
		ex, ok := st.Val.(*ssa.Extract)
		if !ok {
			continue
		}
		call, ok := ex.Tuple.(*ssa.Call)
		if !ok {
			continue
		}
		f := call.Call.StaticCallee()
		if f == nil || !(namedFn(f, "mergeTermFreqNormLocs") || namedFn(f, "mergeTermFreqNormLocsByCopying")) {
			continue
		}
		r := ""
		switch ex.Index {
		case 0:
			r = "lastDocNum"
		case 1:
			r = "lastFreq"
		case 2:
			r = "lastNorm"
		}
		if role != "" && role != r {
			return "" // fed from different results: not one of the three
		}
		role = r
	}
	if role == "" {
		return cell.Comment
	}
	return role
}

func slotProps(typ string) []string {
	if typ == "SynonymsIterator" {
		return []string{"C07", "C12"}
	}
	return []string{"C07", "C01"}
}

func ruleR32() *Rule {
	return &Rule{
		ID:    "R32",
		Title: "ONEHIT-CONDITIONS: a merged term is stored in the 1-hit encoding exactly under the documented conditions (one document, frequency exactly 1, no locations, 31-bit document number)",
		Props: []string{"C06", "C08", "C09", "C01"},
		Floor: floorFor("R32"),
		Run: func(c *RuleCtx) {
			wp := c.fn("writePostings")
			if wp == nil {
				return
			}
			n := 0
			for _, cs := range c.p.callersOf(wp) {
				u, ok := cs.Common().Args[3].(*ssa.UnOp)
				if !ok {
					continue
				}
				cell := cellOf(u.X)
				if cell == nil {
					continue
				}
				for _, st := range cellStores(cell) {
					mc, ok := st.Val.(*ssa.MakeClosure)
					if !ok {
						continue
					}
					cl := mc.Fn.(*ssa.Function)
					n++
					name := funcShortName(cl)
					// the return that says "encode as 1-hit"
					var yes *ssa.Return
					for _, ret := range returnsOf(cl) {
						if b, ok := constBool(ret.Results[0]); ok && b {
							yes = ret
						}
					}
					if yes == nil {
						c.undecided(name+"/yes-return", c.fpos(cl), "the `encode as 1-hit` return of the decision closure is found", "no `return true, ...`")
						continue
					}
					// conditions dominating the yes-return: collect comparisons on the path (idom chain)
					type cond struct {
						desc string
						ok   bool
					}
					found := map[string]cond{}
					for b := yes.Block(); b != nil; b = b.Idom() {
						pb := b.Idom()
						if pb == nil {
							break
						}
						if len(b.Preds) != 1 {
							continue
						}
						iff, ok := pb.Instrs[len(pb.Instrs)-1].(*ssa.If)
						if !ok {
							continue
						}
						towardsTrue := pb.Succs[0] == b
						switch x := iff.Cond.(type) {
						case *ssa.BinOp:
							// constant on the left: mirror
							if _, leftConst := x.X.(*ssa.Const); leftConst {
								if _, rightConst := x.Y.(*ssa.Const); !rightConst {
									m := *x
									m.X, m.Y = x.Y, x.X
									switch x.Op {
									case token.LSS:
										m.Op = token.GTR
									case token.LEQ:
										m.Op = token.GEQ
									case token.GTR:
										m.Op = token.LSS
									case token.GEQ:
										m.Op = token.LEQ
									}
									x = &m
								}
							}
							k, isK := constInt64(x.Y)
							if !isK {
								if ku, ok := constUint64(x.Y); ok {
									k, isK = int64(ku), true
								}
							}
							subject := ""
							switch y := x.X.(type) {
							case *ssa.Parameter:
								subject = "cardinality"
							case *ssa.UnOp:
								if cc := cellOf(y.X); cc != nil {
									subject = lastHitRole(cc)
								}
							case *ssa.Call:
								if f := y.Call.StaticCallee(); f != nil {
									subject = f.Name()
								}
							}
							if !isK {
								// docNum == lastDocNum
								if (x.Op == token.EQL && towardsTrue) || (x.Op == token.NEQ && !towardsTrue) {
									for _, side := range []ssa.Value{x.X, x.Y} {
										if uu, ok := side.(*ssa.UnOp); ok {
											if cc := cellOf(uu.X); cc != nil && lastHitRole(cc) == "lastDocNum" {
												found["lastDocNum"] = cond{"the single document is the last one accumulated", true}
											}
										}
									}
								}
								continue
							}
							t0, _ := cmpInt(x.Op, 0, k)
							t1, _ := cmpInt(x.Op, 1, k)
							t2, _ := cmpInt(x.Op, 2, k)
							y0, y1, y2 := t0 == towardsTrue, t1 == towardsTrue, t2 == towardsTrue
							switch subject {
							case "cardinality":
								found["cardinality"] = cond{fmt.Sprintf("cardinality: 1-hit at 0:%v 1:%v 2:%v", y0, y1, y2), !y0 && y1 && !y2}
							case "lastFreq":
								found["lastFreq"] = cond{fmt.Sprintf("frequency: 1-hit at 0:%v 1:%v 2:%v", y0, y1, y2), !y0 && y1 && !y2}
							case "FinalSize":
								found["FinalSize"] = cond{fmt.Sprintf("encoded location bytes: 1-hit at 0:%v 1:%v", y0, y1), y0 && !y1}
							}
						case *ssa.Call:
							if f := x.Call.StaticCallee(); f != nil && namedFn(f, "under32Bits") && towardsTrue {
								found["under32Bits"] = cond{"document number fits 31 bits", true}
							}
						}
					}
					for _, want := range []struct{ key, what string }{
						{"cardinality", "the term occurs in exactly one document (truth table {0: no, 1: yes, 2: no})"},
						{"lastFreq", "its frequency in that document is exactly 1 (truth table {0: no, 1: yes, 2: no}); a frequency-0 posting stores no norm, and a 1-hit entry with norm bits 0 cannot be recognised by the reader"},
						{"FinalSize", "no location bytes were encoded for it"},
						{"under32Bits", "the document number fits into 31 bits"},
						{"lastDocNum", "the document is the one whose frequency/norm were remembered"},
					} {
						f, ok := found[want.key]
						c.add(statusOf(ok && f.ok), name+"/"+want.key, c.pos(yes), "the 1-hit encoding is chosen only if "+want.what,
							"condition missing or with another truth table: "+f.desc, nil, nil)
					}
					// what is encoded: the remembered norm and that document
					normOK := false
					if uu, ok := yes.Results[2].(*ssa.UnOp); ok {
						if cc := cellOf(uu.X); cc != nil && lastHitRole(cc) == "lastNorm" {
							normOK = true
						}
					}
					c.add(statusOf(normOK), name+"/norm", c.pos(yes), "the norm stored in the 1-hit entry is the norm remembered for that posting", "the third result is not lastNorm", nil, nil)
				}
			}
			c.check(n >= 1, "closures", "-", "the 1-hit decision closure handed to writePostings is found", "not found")
			r32OtherSites(c, wp)
		},
	}
}

// r32OtherSites (R32b): a 1-hit entry is read back as one posting with frequency 1. Every place besides
// writePostings that makes such an entry therefore either re-encodes an entry it decoded from another
// segment, or has found a frequency equal to 1 on every way there (directly, or through the answer of a
// helper that answers yes only after finding that).
func r32OtherSites(c *RuleCtx, wp *ssa.Function) {
	enc := c.p.Func("FSTValEncode1Hit")
	if enc == nil {
		return
	}
	const evFreq1 = 1
	isFreq := func(v ssa.Value) bool {
		v = stripConv(v)
		if _, fld, _, ok := loadedField(v); ok && (fld == "freq" || fld == "lastFreq") {
			return true
		}
		if call, ok := v.(*ssa.Call); ok {
			if f := call.Call.StaticCallee(); f != nil && f.Name() == "Frequency" {
				return true
			}
		}
		return false
	}
	var analyse func(fn *ssa.Function, depth int) *pathAnalysis
	var helperYes func(call *ssa.Call, idx int, depth int) bool
	analyse = func(fn *ssa.Function, depth int) *pathAnalysis {
		pa := newPathAnalysis(fn, func(ssa.Instruction, uint64, bool) []uint64 { return nil })
		pa.edgeTr = func(pred *ssa.BasicBlock, succIdx int, ev uint64) uint64 {
			iff, ok := pred.Instrs[len(pred.Instrs)-1].(*ssa.If)
			if !ok {
				return ev
			}
			taken := succIdx == 0
			cond := iff.Cond
			for {
				u, ok := cond.(*ssa.UnOp)
				if !ok || u.Op != token.NOT {
					break
				}
				cond, taken = u.X, !taken
			}
			switch x := cond.(type) {
			case *ssa.BinOp:
				for _, pr := range [][2]ssa.Value{{x.X, x.Y}, {x.Y, x.X}} {
					if k, ok := constUint64(pr[1]); ok && k == 1 && isFreq(pr[0]) {
						if (x.Op == token.EQL && taken) || (x.Op == token.NEQ && !taken) {
							return ev | evFreq1
						}
					}
				}
			case *ssa.Extract:
				if call, ok := x.Tuple.(*ssa.Call); ok && taken && depth < 2 && helperYes(call, x.Index, depth+1) {
					return ev | evFreq1
				}
			case *ssa.Call:
				if taken && depth < 2 && helperYes(x, 0, depth+1) {
					return ev | evFreq1
				}
			}
			return ev
		}
		pa.run(0)
		return pa
	}
	helperYes = func(call *ssa.Call, idx int, depth int) bool {
		h := call.Call.StaticCallee()
		if h == nil || !c.p.InZap(h) || len(h.Blocks) == 0 {
			return false
		}
		pa := analyse(h, depth)
		n := 0
		for _, ret := range returnsOf(h) {
			if idx >= len(ret.Results) {
				return false
			}
			if b, ok := constBool(ret.Results[idx]); ok && !b {
				continue
			}
			n++
			for _, ev := range pa.statesBefore(ret) {
				if ev&evFreq1 == 0 {
					return false
				}
			}
		}
		return n > 0
	}
	k := 0
	for _, cs := range c.p.callersOf(enc) {
		fn := cs.Parent()
		if !c.p.InZap(fn) || fn == wp {
			continue
		}
		k++
		key := fmt.Sprintf("other-site/%s#%d", funcShortName(fn), k)
		what := "the 1-hit entry made in " + funcShortName(fn) + " stands for a posting whose frequency is exactly 1 (it re-encodes a decoded 1-hit entry, or a frequency was found equal to 1 on every way there)"
		// re-encoding: the norm bits come from FSTValDecode1Hit
		if len(cs.Common().Args) == 2 {
			if ex, ok := stripConv(cs.Common().Args[1]).(*ssa.Extract); ok {
				if call, ok := ex.Tuple.(*ssa.Call); ok {
					if f := call.Call.StaticCallee(); f != nil && f.Name() == "FSTValDecode1Hit" {
						c.okP([]string{"C06", "C08", "C01"}, key, c.pos(cs), what)
						continue
					}
				}
			}
		}
		pa := analyse(fn, 0)
		okc := len(pa.statesBefore(cs)) > 0
		for _, ev := range pa.statesBefore(cs) {
			if ev&evFreq1 == 0 {
				okc = false
			}
		}
		c.add(statusOf(okc), key, c.pos(cs), what,
			"a way leads to this 1-hit entry on which no frequency was compared with 1: a posting with another frequency (or with frequency 0, which stores no norm) would read back with frequency 1", []string{"C06", "C08", "C01"}, nil)
	}
}

// ---------------------------------------------------------------------------
// R33

type threadSpec struct {
	Type, Fn string
	Param    string
	Result   int
	Props    []string
}

var threadTable = []threadSpec{
	{"", "persistStoredFieldValues", "curr", 0, []string{"C02", "C05"}},
	{"", "persistStoredFieldValues", "data", 1, []string{"C02", "C05"}},
	{"", "mergeTermFreqNormLocs", "bufLoc", 3, []string{"C06"}},
}

func ruleR33() *Rule {
	return &Rule{
		ID:    "R33",
		Title: "THREADED-ACCUMULATOR: an accumulator that is passed in and handed back is handed back as accumulated on every successful path",
		Props: []string{"C02", "C05", "C06"},
		Floor: floorFor("R33"),
		Run: func(c *RuleCtx) {
			for _, sp := range threadTable {
				fn := c.p.Func(sp.Fn)
				if fn == nil {
					// the routine is gone (its callers were unified behind something else): what threads a
					// running number through a call now is found from the call sites below
					c.okP(sp.Props, sp.Fn+"/"+sp.Param+"/absent", "-", sp.Fn+" no longer exists: accumulators threaded through calls are discovered from the call sites (R33 discovered)")
					continue
				}
				var prm *ssa.Parameter
				for _, p := range fn.Params {
					if p.Name() == sp.Param {
						prm = p
					}
				}
				if prm == nil {
					c.undecidedP(sp.Props, sp.Fn+"/"+sp.Param, c.fpos(fn), "accumulator parameter found", "parameter "+sp.Param+" not found")
					continue
				}
				okc := true
				var w []string
				n := 0
				for _, ret := range returnsOf(fn) {
					if _, ns := errorOfReturn(ret); ns == nonNil {
						continue
					}
					if sp.Result >= len(ret.Results) {
						continue
					}
					n++
					v := returnedValue(ret, sp.Result)
					if !dependsOn(v, prm, 0, map[ssa.Value]bool{}) {
						okc = false
						w = append(w, "returns "+v.Name()+" ("+v.String()+"), which is not computed from "+sp.Param+": "+describeInstr(c.p, ret))
					}
				}
				c.add(statusOf(okc && n > 0), fmt.Sprintf("%s/%s->result%d", sp.Fn, sp.Param, sp.Result), c.fpos(fn),
					fmt.Sprintf("every successful return of %s hands back the accumulator %s as accumulated so far (result %d is computed from the parameter)", sp.Fn, sp.Param, sp.Result),
					"a successful path returns a value that does not derive from the accumulator passed in: the caller's running offset/buffer restarts", sp.Props, w)
			}
			r33Discovered(c)
		},
	}
}

// r33Discovered: numeric accumulators found from the call sites. A call `x, err = f(..., x, ...)` in which
// an integer argument is a loop-carried variable and an integer result of the same call flows back into
// that very variable threads a running number (an offset, the next document number) through f: every
// successful return of f must then compute that result from that parameter (`return 0, nil` on an early
// exit restarts the caller's numbering — seeded change C05j).
func r33Discovered(c *RuleCtx) {
	isInt := func(t types.Type) bool {
		b, ok := t.Underlying().(*types.Basic)
		return ok && b.Info()&types.IsInteger != 0
	}
	type key struct {
		fn   *ssa.Function
		i, j int
	}
	found := map[key]ssa.CallInstruction{}
	flowsBack := func(res ssa.Value, arg ssa.Value) bool {
		// the loop-carried variable as a phi
		if ph, ok := arg.(*ssa.Phi); ok {
			seen := map[ssa.Value]bool{}
			var walk func(v ssa.Value, d int) bool
			walk = func(v ssa.Value, d int) bool {
				if d > 4 || seen[v] || v.Referrers() == nil {
					return false
				}
				seen[v] = true
				for _, r := range *v.Referrers() {
					if p2, ok := r.(*ssa.Phi); ok {
						if p2 == ph || walk(p2, d+1) {
							return true
						}
					}
				}
				return false
			}
			return walk(res, 0)
		}
		// ... or as a field of the object the caller is a method of (`m.next, err = f(m.next, …)`)
		if u, ok := arg.(*ssa.UnOp); ok && u.Op == token.MUL && res.Referrers() != nil {
			if fa, ok := u.X.(*ssa.FieldAddr); ok {
				for _, r := range *res.Referrers() {
					if st, ok := r.(*ssa.Store); ok && st.Val == res {
						if fb, ok := st.Addr.(*ssa.FieldAddr); ok && fb.Field == fa.Field && sameQuantity(fb.X, fa.X, 0) {
							return true
						}
					}
				}
			}
		}
		// ... or as a local cell
		if cell := localCellOfLoad(arg); cell != nil && res.Referrers() != nil {
			for _, r := range *res.Referrers() {
				if st, ok := r.(*ssa.Store); ok && st.Val == res && st.Addr == ssa.Value(cell) {
					return true
				}
			}
		}
		return false
	}
	for _, fn := range c.p.ZapFuncs {
		for _, cs := range callSites(fn) {
			call, ok := cs.(*ssa.Call)
			if !ok {
				continue
			}
			g := staticCallee(cs)
			if g == nil || !c.p.InZap(g) || len(g.Blocks) == 0 || len(g.Params) != len(call.Call.Args) {
				continue
			}
			res := g.Signature.Results()
			for j := 0; j < res.Len(); j++ {
				if !isInt(res.At(j).Type()) {
					continue
				}
				rv := extractOf(call, j)
				if rv == nil {
					continue
				}
				for i, a := range call.Call.Args {
					if !isInt(a.Type()) || !types.Identical(a.Type(), res.At(j).Type()) {
						continue
					}
					if flowsBack(rv, a) {
						found[key{g, i, j}] = cs
					}
				}
			}
		}
	}
	var keys []key
	for k := range found {
		keys = append(keys, k)
	}
	sort.Slice(keys, func(a, b int) bool {
		if keys[a].fn.String() != keys[b].fn.String() {
			return keys[a].fn.String() < keys[b].fn.String()
		}
		if keys[a].i != keys[b].i {
			return keys[a].i < keys[b].i
		}
		return keys[a].j < keys[b].j
	})
	for _, k := range keys {
		// the tabled ones are judged above
		tabled := false
		for _, sp := range threadTable {
			if namedFn(k.fn, sp.Fn) && k.j == sp.Result {
				tabled = true
			}
		}
		if tabled {
			continue
		}
		prm := k.fn.Params[k.i]
		okc, n := true, 0
		var w []string
		for _, ret := range returnsOf(k.fn) {
			if _, ns := errorOfReturn(ret); ns == nonNil {
				continue
			}
			if k.j >= len(ret.Results) {
				continue
			}
			n++
			v := returnedValue(ret, k.j)
			if !dependsOn(v, prm, 0, map[ssa.Value]bool{}) {
				okc = false
				w = append(w, "returns "+v.Name()+" ("+v.String()+"), which is not computed from "+prm.Name()+": "+describeInstr(c.p, ret))
			}
		}
		props := []string{"C05"}
		if strings.Contains(k.fn.String(), "nverted") || strings.Contains(k.fn.String(), "TermFreq") {
			props = []string{"C06"}
		}
		c.add(statusOf(okc && n > 0), fmt.Sprintf("%s/%s->result%d", funcShortName(k.fn), canonParamName(prm), k.j), c.fpos(k.fn),
			fmt.Sprintf("every successful return of %s hands the running number %s back as advanced so far (result %d is computed from the parameter): its caller threads it through the call (%s)", funcShortName(k.fn), prm.Name(), k.j, c.pos(found[k])),
			"a successful path returns a value that does not derive from the running number passed in: the caller's numbering restarts", props, w)
	}
}

// ---------------------------------------------------------------------------
// R34

func ruleR34() *Rule {
	return &Rule{
		ID:    "R34",
		Title: "ONEHIT-BYTES: the freq/norm bytes synthesised for a 1-hit posting (byte-copy merge path) encode the norm that is returned with them",
		Props: []string{"C06"},
		Floor: floorFor("R34"),
		Run: func(c *RuleCtx) {
			fn := c.method("PostingsIterator", "nextBytes")
			if fn == nil {
				return
			}
			// the return on the 1-hit branch: dominated by the true edge of normBits1Hit != 0
			var oneHit *ssa.Return
			for _, ret := range returnsOf(fn) {
				for b := ret.Block(); b != nil; b = b.Idom() {
					pb := b.Idom()
					if pb == nil {
						break
					}
					iff, ok := pb.Instrs[len(pb.Instrs)-1].(*ssa.If)
					if !ok {
						continue
					}
					bo, ok := iff.Cond.(*ssa.BinOp)
					if !ok || bo.Op != token.NEQ || !isLoadOfField(bo.X, "PostingsIterator", "normBits1Hit") {
						continue
					}
					if pb.Succs[0] == b || pb.Succs[0].Dominates(b) {
						if len(ret.Results) >= 4 && !isNilConst(ret.Results[3]) {
							oneHit = ret
						}
					}
				}
			}
			if oneHit == nil {
				c.undecided("one-hit-return", c.fpos(fn), "the 1-hit branch of nextBytes is found", "no return under `normBits1Hit != 0` that hands out bytes")
				return
			}
			// PutUvarint calls feeding the returned byte slice, in order
			var puts []*ssa.Call
			encFn, encRet := fn, oneHit
			if call, ok := root(oneHit.Results[3]).(*ssa.Call); ok {
				// the bytes are built by a helper method on the same iterator
				if h := call.Call.StaticCallee(); h != nil && c.p.InZap(h) && len(call.Call.Args) > 0 && root(call.Call.Args[0]) == ssa.Value(fn.Params[0]) {
					if rets := returnsOf(h); len(rets) == 1 {
						encFn, encRet = h, rets[0]
					}
				}
			}
			eachInstr(encFn, func(_ *ssa.BasicBlock, in ssa.Instruction) {
				if call, ok := in.(*ssa.Call); ok {
					if f := call.Call.StaticCallee(); f != nil && f.String() == "encoding/binary.PutUvarint" && (call.Block() == encRet.Block() || call.Block().Dominates(encRet.Block())) {
						puts = append(puts, call)
					}
				}
			})
			if len(puts) != 2 {
				c.undecided("one-hit-encoding", c.fpos(fn), "the 1-hit bytes are built by two PutUvarint calls (freq/hasLocs word, norm)", fmt.Sprintf("found %d", len(puts)))
				return
			}
			sort.Slice(puts, func(i, j int) bool {
				if puts[i].Block() == puts[j].Block() {
					return instrIndex(puts[i]) < instrIndex(puts[j])
				}
				return puts[i].Block().Dominates(puts[j].Block())
			})
			normArg := puts[1].Call.Args[1]
			retNorm := oneHit.Results[2]
			okc := isLoadOfField(normArg, "PostingsIterator", "normBits1Hit") && isLoadOfField(retNorm, "PostingsIterator", "normBits1Hit")
			c.check(okc, "norm-bytes-equal-returned-norm", c.pos(puts[1]), "the norm written into the synthesised bytes and the norm returned alongside are both the entry's own normBits1Hit",
				fmt.Sprintf("encoded: %s, returned: %s — a re-merged single-hit term would get another norm when its bytes are copied", normArg.String(), retNorm.String()))
			// first word: freq 1, no locations
			first := puts[0].Call.Args[1]
			okf := false
			if u, ok := first.(*ssa.UnOp); ok {
				if g, ok := u.X.(*ssa.Global); ok && g.Name() == "freqHasLocs1Hit" {
					okf = true
				}
			}
			c.check(okf, "freq-word", c.pos(puts[0]), "the first synthesised word is the constant for frequency 1 without locations", "first word: "+first.String())
		},
	}
}
