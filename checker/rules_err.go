package main

// R7 ERR-DISCIPLINE — no error result is dropped.

import (
	"fmt"
	"go/token"
	"go/types"
	"sort"
	"strings"

	"golang.org/x/tools/go/ssa"
)

// droppedError: the call returns an error and nothing ever looks at it.
func droppedError(cs ssa.CallInstruction) bool {
	sig := cs.Common().Signature()
	idx := errorResultIndex(sig)
	if idx < 0 {
		return false
	}
	call, ok := cs.(*ssa.Call)
	if !ok {
		return true // go f() / defer f(): the result is unobservable
	}
	if sig.Results().Len() == 1 {
		return !hasRealUse(call)
	}
	for _, r := range *call.Referrers() {
		if ex, ok := r.(*ssa.Extract); ok && ex.Index == idx {
			if hasRealUse(ex) {
				return false
			}
		}
	}
	return true
}

// accepted drops: (enclosing function, callee) -> reason. One line each.
// Only what is not covered by the two structural exceptions below
// (best-effort cleanup on a failing path; sticky counting writer).
type dropKey struct{ fn, callee string }

var acceptedDrops = map[dropKey]string{
	{"SegmentBase.VisitDocValues", "(*docValueReader).visitDocValues"}: "read path; not in the scope of C17/C19 (listed so that the enumeration is complete)",
	{"Segment.loadDvReaders", "(*Segment).loadDvReader"}:               "read path; tabled difference between the two loaders (R15c)",
}

// cleanupCallees: releasing calls whose error may be dropped when the caller
// is already failing with another error (the original error is what the
// caller reports; C17 asks for an error and no partial file, not for this one).
var cleanupCallees = map[string]bool{
	"(*os.File).Close": true,
	"os.Remove":        true,
	"(*Segment).Close": true,
}

func forwardReach(from *ssa.BasicBlock) map[*ssa.BasicBlock]bool {
	seen := map[*ssa.BasicBlock]bool{from: true}
	work := []*ssa.BasicBlock{from}
	for len(work) > 0 {
		b := work[len(work)-1]
		work = work[:len(work)-1]
		for _, s := range b.Succs {
			if !seen[s] {
				seen[s] = true
				work = append(work, s)
			}
		}
	}
	return seen
}

// failingContext: every way out of the enclosing function after `at` returns
// an error that is non-nil by construction; for a helper or closure without an
// error result, every one of its call sites is itself in such a context.
func failingContext(p *Program, at ssa.Instruction, depth int) bool {
	fn := at.Parent()
	if errorResultIndex(fn.Signature) >= 0 {
		reach := forwardReach(at.Block())
		n := 0
		for _, ret := range returnsOf(fn) {
			if !reach[ret.Block()] {
				continue
			}
			n++
			v, ns := errorOfReturn(ret)
			if ns == nonNil {
				continue
			}
			// `fail := func(err error) (..., error) { cleanup(); return ..., err }`:
			// the error handed back is a parameter that every caller passes non-nil
			if prm, ok := v.(*ssa.Parameter); ok && depth < 2 && paramNonNilAtAllCalls(p, fn, prm) {
				continue
			}
			// path sensitive: `at` sits under a test that found an error non-nil, and from there on every
			// way out returns a non-nil error (`if err != nil { sf.abort() }; return err`)
			if underNonNilTestAllFail(at) {
				continue
			}
			return false
		}
		return n > 0
	}
	if depth >= 2 {
		return false
	}
	if deferredOnError(fn, at) {
		return true
	}
	if deferredOnErrorParam(p, fn, at) {
		return true
	}
	if deferredUnlessCommitted(p, fn, at) {
		return true
	}
	if deferredTurnsIntoError(fn, at) {
		return true
	}
	sites := callSitesOf(p, fn)
	if len(sites) == 0 {
		return false
	}
	for _, cs := range sites {
		if _, isDefer := cs.(*ssa.Defer); isDefer {
			return false
		}
		if !failingContext(p, cs, depth+1) {
			return false
		}
	}
	return true
}

// deferredOnError: `at` is in the non-nil branch of a closure of the shape
// `func() { if err != nil { ... } }` that is only ever deferred, where err is
// the error variable of the enclosing function, and that function returns that
// variable (or nil where the variable is known nil) at every exit: the cleanup
// runs exactly when another, non-nil error is being returned.
func deferredOnError(cl *ssa.Function, at ssa.Instruction) bool {
	par := cl.Parent()
	if par == nil {
		return false
	}
	if underErrNonNil(cl, at) {
		return true
	}
	cell, _, _, ok := errGuardedClosure(cl, func(ssa.Instruction, uint64, bool) []uint64 { return nil })
	if !ok || cell.Parent() != par {
		return false
	}
	entry := cl.Blocks[0]
	var panicSide *ssa.BasicBlock
	if nb := recoverPrefix(cl); nb != nil {
		panicSide, entry = entry, nb
	}
	nonNilSucc := entry.Succs[0]
	flagGuard := false
	switch cond := entry.Instrs[len(entry.Instrs)-1].(*ssa.If).Cond.(type) {
	case *ssa.BinOp:
		if cond.Op == token.EQL {
			nonNilSucc = entry.Succs[1]
		}
	case *ssa.UnOp:
		// a flag guard: `if !done { cleanup }` / `if done {} else { cleanup }`
		flagGuard = true
		if cond.Op != token.NOT {
			nonNilSucc = entry.Succs[1]
		}
	default:
		return false
	}
	for _, pr := range nonNilSucc.Preds {
		if pr != entry && pr != panicSide {
			return false
		}
	}
	if len(nonNilSucc.Preds) == 0 || !(nonNilSucc == at.Block() || nonNilSucc.Dominates(at.Block())) {
		return false
	}
	// only deferred
	for _, mc := range closureSites(cl) {
		for _, r := range *mc.Referrers() {
			switch x := r.(type) {
			case *ssa.Defer:
				if x.Call.Value != ssa.Value(mc) {
					return false
				}
			case *ssa.DebugRef:
			default:
				return false
			}
		}
	}
	// every exit of the parent returns the variable, or nil where it is nil
	idx := errorResultIndex(par.Signature)
	if idx < 0 {
		return false
	}
	for _, ret := range returnsOf(par) {
		if flagGuard {
			// the cleanup runs at the exits where the flag is not set: those must report an error
			if guardStateAt(cell, ret.Block()) == isNil {
				continue
			}
			if _, ns := errorOfReturn(ret); ns == nonNil {
				continue
			}
		}
		if u, ok := ret.Results[idx].(*ssa.UnOp); ok && u.Op == token.MUL && u.X == ssa.Value(cell) {
			continue // the named result itself
		}
		v := returnedValueRaw(ret, idx)
		if u, ok := v.(*ssa.UnOp); ok && u.Op == token.MUL && u.X == ssa.Value(cell) {
			continue
		}
		if isNilConst(v) && cellNilnessAt(cell, ret.Block()) == isNil {
			continue
		}
		// a return before the defer statement is registered cannot run it
		registered := false
		for _, mc := range closureSites(cl) {
			for _, r := range *mc.Referrers() {
				if d, ok := r.(*ssa.Defer); ok && (d.Block() == ret.Block() || d.Block().Dominates(ret.Block())) {
					registered = true
				}
			}
		}
		if registered {
			return false
		}
	}
	return true
}

// underErrNonNil: in a closure that only runs deferred, `at` sits on the non-nil side of a test of the
// parent's error variable (`if err != nil { _ = os.Remove(path) }` at the end of a completing closure),
// with no assignment of the variable in between, and the parent returns that variable: the function
// reports an error whenever `at` runs.
func underErrNonNil(cl *ssa.Function, at ssa.Instruction) bool {
	par := cl.Parent()
	if par == nil || !deferredOnlyClosure(cl) {
		return false
	}
	idx := errorResultIndex(par.Signature)
	if idx < 0 {
		return false
	}
	for b := at.Block(); b != nil; b = b.Idom() {
		pb := b.Idom()
		if pb == nil {
			break
		}
		iff, ok := pb.Instrs[len(pb.Instrs)-1].(*ssa.If)
		if !ok || len(pb.Succs) != 2 || len(b.Preds) != 1 {
			continue
		}
		x, nilWhen, ok := errNilTest(iff.Cond)
		if !ok {
			continue
		}
		u, ok := x.(*ssa.UnOp)
		if !ok {
			continue
		}
		fv, ok := u.X.(*ssa.FreeVar)
		if !ok {
			continue
		}
		cell := cellOf(fv)
		if cell == nil || cell.Parent() != par {
			continue
		}
		onNonNil := (pb.Succs[0] == b) != nilWhen
		if !onNonNil {
			continue
		}
		// no assignment of the variable between the test and `at`
		clean := true
		eachInstr(cl, func(bb *ssa.BasicBlock, in ssa.Instruction) {
			if st, ok := in.(*ssa.Store); ok && st.Addr == ssa.Value(fv) {
				if (bb == b || b.Dominates(bb)) && (bb == at.Block() || reachesBlock(bb, at.Block())) {
					clean = false
				}
			}
		})
		if !clean {
			continue
		}
		// the parent hands that variable back at every exit
		all := true
		for _, ret := range returnsOf(par) {
			if idx >= len(ret.Results) {
				all = false
				continue
			}
			if u2, ok := ret.Results[idx].(*ssa.UnOp); !ok || u2.Op != token.MUL || u2.X != ssa.Value(cell) {
				all = false
			}
		}
		if all {
			return true
		}
	}
	return false
}

// callSitesOf: the call sites of fn — of a local closure, its calls in the
// functions that share its outermost parent (nil if the closure escapes); of a
// package-level function, its callers in the call graph.
func callSitesOf(p *Program, fn *ssa.Function) []ssa.CallInstruction {
	if fn.Parent() == nil {
		return p.callersOf(fn)
	}
	var sites []ssa.CallInstruction
	for _, g := range p.ZapFuncs {
		if rootParent(g) != rootParent(fn) {
			continue
		}
		for _, cs := range callSites(g) {
			if resolvedCallee(cs) == fn {
				sites = append(sites, cs)
			}
		}
	}
	for _, mc := range closureSites(fn) {
		for _, r := range *mc.Referrers() {
			switch x := r.(type) {
			case ssa.CallInstruction:
				if x.Common().Value != ssa.Value(mc) {
					return nil
				}
			case *ssa.DebugRef:
			case *ssa.Store:
				if cellOf(x.Addr) == nil {
					return nil
				}
			case *ssa.MakeClosure:
				// captured by another local closure that calls it
			case *ssa.Return:
				// handed back to the callers of the parent (`return f, func() { … }, nil`): its call
				// sites are where they call what they were handed
				par := fn.Parent()
				if par == nil || par.Parent() != nil {
					return nil
				}
				for i, rv := range x.Results {
					if rv != ssa.Value(mc) {
						continue
					}
					for _, cs2 := range p.callersOf(par) {
						call, ok := cs2.(*ssa.Call)
						if !ok || !p.InZap(cs2.Parent()) {
							return nil
						}
						ex := extractOf(call, i)
						if ex == nil {
							continue
						}
						for _, cs3 := range callSites(cs2.Parent()) {
							if v := cs3.Common().Value; v != nil && (v == ex || resolveLoad(v) == ex) {
								sites = append(sites, cs3)
							}
						}
						// … also from closures of that caller
						for _, g := range p.ZapFuncs {
							if g.Parent() != nil && rootParent(g) == cs2.Parent() {
								for _, cs3 := range callSites(g) {
									if v := cs3.Common().Value; v != nil && resolveLoadDeep(v) == ex {
										sites = append(sites, cs3)
									}
								}
							}
						}
					}
				}
			default:
				return nil
			}
		}
	}
	return sites
}

// paramNonNilAtAllCalls: every call of fn passes, for parameter prm, a value
// that is non-nil at the call site.
func paramNonNilAtAllCalls(p *Program, fn *ssa.Function, prm *ssa.Parameter) bool {
	idx := -1
	for i, q := range fn.Params {
		if q == prm {
			idx = i
		}
	}
	sites := callSitesOf(p, fn)
	if idx < 0 || len(sites) == 0 {
		return false
	}
	for _, cs := range sites {
		args := cs.Common().Args
		if idx >= len(args) {
			return false
		}
		if _, isDefer := cs.(*ssa.Defer); isDefer {
			return false
		}
		if nilnessAt(args[idx], cs.Block()) != nonNil {
			return false
		}
	}
	return true
}

// stickyWriterDrop: an unchecked binary.Write whose destination is a
// *CountHashWriter handed in by the caller. Accepted only while R7b holds for
// every CountHashWriter that is constructed and passed on in package zap.
func stickyWriterDrop(cs ssa.CallInstruction) bool {
	f := staticCallee(cs)
	if f == nil || f.String() != "encoding/binary.Write" {
		return false
	}
	dst := cs.Common().Args[0]
	if mi, ok := dst.(*ssa.MakeInterface); ok {
		dst = mi.X
	}
	_, isParam := root(dst).(*ssa.Parameter)
	return isParam && isNamed(dst.Type(), zapPkgPath, "CountHashWriter")
}

func ruleR7() *Rule {
	return &Rule{
		ID:    "R7",
		Title: "ERR-DISCIPLINE: no error result is dropped; sticky-writer precondition; section siblings agree",
		Props: []string{"C17", "C19"},
		Floor: floorFor("R7"),
		Run: func(c *RuleCtx) {
			r7Drops(c)
			r7bSticky(c)
			r7cSiblings(c)
			r7dNoRecovery(c)
		},
	}
}

func r7Drops(c *RuleCtx) {
	// scope sets
	mayWrite := c.p.mayWriteFuncs()
	reachFaiss := c.p.reachesFunc(func(f *ssa.Function) bool {
		return f.Pkg != nil && f.Pkg.Pkg.Path() == faissModule
	})
	sectionMethods := c.p.sectionMethodSet()
	counts := map[string]int{}
	seenAccepted := map[dropKey]bool{}
	nCalls := 0
	nSticky := 0
	for _, fn := range c.p.ZapFuncs {
		for _, cs := range callSites(fn) {
			if errorResultIndex(cs.Common().Signature()) < 0 {
				continue
			}
			nCalls++
			if !droppedError(cs) {
				continue
			}
			cn := calleeName(cs)
			cn = strings.ReplaceAll(cn, zapPkgPath+".", "")
			k := dropKey{funcShortName(fn), cn}
			counts[k.fn+" -> "+k.callee]++
			key := fmt.Sprintf("drop/%s->%s", k.fn, k.callee)
			if n := counts[k.fn+" -> "+k.callee]; n > 1 {
				key = fmt.Sprintf("%s#%d", key, n)
			}
			// scope
			var props []string
			callees := c.p.calleesAt(cs)
			inC17, inC19 := false, false
			for _, f := range callees {
				if mayWrite[f] || isFileFinisher(f) {
					inC17 = true
				}
				if reachFaiss[f] || sectionMethods[f] {
					inC19 = true
				}
			}
			if cs.Common().IsInvoke() {
				// interface call: VTA finds no implementation behind the FAISS stub
				// (its constructors are opaque), so judge by the interface itself
				if _, _, ok := faissMethod(cs); ok {
					inC19 = true
				}
				if pk := cs.Common().Method.Pkg(); pk != nil && pk.Path() == faissModule {
					inC19 = true
				}
				if len(callees) == 0 {
					switch cs.Common().Method.Name() {
					case "Write", "Flush", "Close", "Sync":
						inC17 = true
					}
				}
			}
			if reason, ok := acceptedDrops[k]; ok {
				seenAccepted[k] = true
				c.okP(nil, key, c.pos(cs), "dropped error is a tabled, reasoned exception: "+reason)
				continue
			}
			if cleanupCallees[cn] && failingContext(c.p, cs, 0) {
				c.okP(nil, key, c.pos(cs), "best-effort cleanup: every exit after this call returns another error that is non-nil by construction")
				continue
			}
			if stickyWriterDrop(cs) {
				nSticky++
				c.okP(nil, key, c.pos(cs), "sticky writer: accepted only while R7b holds (bytes.Buffer never fails; bufio.Writer errors are sticky and Flush is tested)")
				continue
			}
			if inC17 {
				props = append(props, "C17")
			}
			if inC19 {
				props = append(props, "C19")
			}
			if len(props) == 0 {
				// outside the scope of the two properties: recorded, not judged
				c.okP(nil, key+"/out-of-scope", c.pos(cs), "dropped error of "+cn+" in "+k.fn+" is outside the write path (C17) and the vector-engine path (C19)")
				continue
			}
			c.badP(props, key, c.pos(cs), "every error of a call on the write path / vector-engine path is propagated or tested",
				fmt.Sprintf("%s discards the error returned by %s; a failure there is silently lost", k.fn, cn),
				"call: "+describeInstr(c.p, cs))
		}
	}
	for k, reason := range acceptedDrops {
		if !seenAccepted[k] {
			// a table line that matches nothing is not an error by itself (the
			// drop may have been repaired), but it is reported in the listing
			_ = reason
		}
	}
	c.p.summaries["r7.nSticky"] = nSticky
	c.check(nCalls >= 100, "enumeration", "-", "error-returning call sites of package zap are enumerated (confirmed by hand: > 150)", fmt.Sprintf("only %d error-returning call sites found", nCalls))
}

func isFileFinisher(f *ssa.Function) bool {
	switch f.String() {
	case "(*os.File).Close", "(*os.File).Sync", "(*bufio.Writer).Flush", "os.Remove":
		return true
	}
	return false
}

// mayWriteFuncs: functions that (transitively) call a Write method of an
// io.Writer implementation or are one.
func (p *Program) mayWriteFuncs() map[*ssa.Function]bool {
	if v, ok := p.summaries["mayWrite"]; ok {
		return v.(map[*ssa.Function]bool)
	}
	res := p.reachesFunc(func(f *ssa.Function) bool {
		if f.Name() != "Write" && f.Name() != "WriteString" && f.Name() != "WriteByte" {
			return false
		}
		if f.Signature.Recv() == nil {
			// encoding/binary.Write(w, ...) etc.
			return f.Pkg != nil && f.Pkg.Pkg.Path() == "encoding/binary"
		}
		return true
	})
	p.summaries["mayWrite"] = res
	return res
}

// sectionMethodSet: the methods of all implementations of zap's `section`
// interface.
func (p *Program) sectionMethodSet() map[*ssa.Function]bool {
	out := map[*ssa.Function]bool{}
	for _, impl := range p.sectionImpls() {
		for _, m := range impl.methods {
			out[m] = true
		}
	}
	return out
}

type sectionImpl struct {
	typ     *types.Named
	methods map[string]*ssa.Function
}

func (p *Program) sectionImpls() []sectionImpl {
	obj := p.ZapTypes.Scope().Lookup("section")
	if obj == nil {
		return nil
	}
	iface, ok := obj.Type().Underlying().(*types.Interface)
	if !ok {
		return nil
	}
	var out []sectionImpl
	names := p.ZapTypes.Scope().Names()
	sort.Strings(names)
	for _, n := range names {
		tn, ok := p.ZapTypes.Scope().Lookup(n).(*types.TypeName)
		if !ok {
			continue
		}
		nt, ok := tn.Type().(*types.Named)
		if !ok || types.IsInterface(nt) {
			continue
		}
		pt := types.NewPointer(nt)
		if !types.Implements(pt, iface) {
			continue
		}
		si := sectionImpl{typ: nt, methods: map[string]*ssa.Function{}}
		for i := 0; i < iface.NumMethods(); i++ {
			mn := iface.Method(i).Name()
			if f := p.Method(n, mn); f != nil {
				si.methods[mn] = f
			}
		}
		out = append(out, si)
	}
	return out
}

// --- R7b: the sticky-writer precondition ------------------------------------
//
// persistFieldsSection drops the error of binary.Write(w, ...) on its
// *CountHashWriter. That is sound only if every CountHashWriter that reaches it
// wraps (a) a bytes.Buffer, whose Write never fails, or (b) a bufio.Writer,
// whose first error is sticky and is reported by Flush — and Flush's result is
// tested on every success path of the creator (R6).
// bufioWrapper: f is a function of package zap that hands out a *bufio.Writer around one of its
// parameters: on every return the result is bufio.NewWriter[Size](param, ...) or a writer on which
// Reset(param) has just been called (`getMergeWriter(f)` drawing from a pool). Returns the index of that
// parameter, or -1.
func bufioWrapper(p *Program, f *ssa.Function) int {
	if f == nil || !p.InZap(f) || len(f.Blocks) == 0 || f.Signature.Results().Len() != 1 {
		return -1
	}
	if !isNamed(f.Signature.Results().At(0).Type(), "bufio", "Writer") {
		return -1
	}
	idx := -1
	for _, ret := range returnsOf(f) {
		v := ret.Results[0]
		var around ssa.Value
		if call, ok := v.(*ssa.Call); ok {
			if g := call.Call.StaticCallee(); g != nil && strings.HasPrefix(g.String(), "bufio.NewWriter") && len(call.Call.Args) > 0 {
				around = call.Call.Args[0]
			}
		}
		if around == nil {
			// Reset(v, x) dominating the return
			for _, cs := range callSites(f) {
				if isCallTo(cs, "(*bufio.Writer).Reset") && len(cs.Common().Args) == 2 && sameValue(cs.Common().Args[0], v) &&
					(cs.Block() == ret.Block() || cs.Block().Dominates(ret.Block())) {
					around = cs.Common().Args[1]
				}
			}
		}
		if around == nil {
			return -1
		}
		if mi, ok := around.(*ssa.MakeInterface); ok {
			around = mi.X
		}
		prm, ok := around.(*ssa.Parameter)
		if !ok {
			return -1
		}
		k := -1
		for i, pp := range f.Params {
			if pp == prm {
				k = i
			}
		}
		if k < 0 || (idx >= 0 && idx != k) {
			return -1
		}
		idx = k
	}
	return idx
}

func r7bSticky(c *RuleCtx) {
	props := []string{"C17"}
	isCHW := func(t types.Type) bool { return isNamed(t, zapPkgPath, "CountHashWriter") }
	isCtor := func(f *ssa.Function) bool {
		if f == nil || !c.p.InZap(f) || f.Parent() != nil || f.Signature.Recv() != nil {
			return false
		}
		res := f.Signature.Results()
		return res.Len() == 1 && isCHW(res.At(0).Type())
	}
	// a construction: where a CountHashWriter comes into being and what it wraps
	type construction struct {
		fn      *ssa.Function
		at      ssa.Instruction
		val     ssa.Value // the *CountHashWriter
		wrapped ssa.Value
		name    string
	}
	var cons []construction
	for _, fn := range c.p.ZapFuncs {
		for _, cs := range callSites(fn) {
			callee := staticCallee(cs)
			if !isCtor(callee) || len(cs.Common().Args) == 0 {
				continue
			}
			v, _ := cs.(*ssa.Call)
			if v == nil {
				continue
			}
			cons = append(cons, construction{fn, cs, v, cs.Common().Args[0], callee.Name()})
		}
		// composite literals outside the constructors' own bodies
		eachInstr(fn, func(_ *ssa.BasicBlock, in ssa.Instruction) {
			al, ok := in.(*ssa.Alloc)
			if !ok || !isCHW(al.Type()) {
				return
			}
			var wrapped ssa.Value
			for _, r := range *al.Referrers() {
				if fa, ok := r.(*ssa.FieldAddr); ok {
					if _, fld, _, ok := fieldOf(fa); ok && fld == "w" {
						for _, r2 := range *fa.Referrers() {
							if st, ok := r2.(*ssa.Store); ok && st.Addr == ssa.Value(fa) {
								wrapped = st.Val
							}
						}
					}
				}
			}
			if wrapped != nil {
				cons = append(cons, construction{fn, in, al, wrapped, "literal"})
			}
		})
	}
	// handedOn: the writer is passed to other code of package zap (where
	// unchecked writes on it may exist); methods of CountHashWriter itself do
	// not count, nor does the standard library
	var handedOn func(v ssa.Value, depth int) bool
	handedOn = func(v ssa.Value, depth int) bool {
		if depth > 4 || v.Referrers() == nil {
			return false
		}
		for _, r := range *v.Referrers() {
			switch x := r.(type) {
			case ssa.CallInstruction:
				f := staticCallee(x)
				if f != nil && c.p.InZap(f) {
					if f.Signature.Recv() != nil && isCHW(f.Signature.Recv().Type()) && len(x.Common().Args) > 0 && x.Common().Args[0] == v {
						continue
					}
					return true
				}
				if f == nil {
					return true // interface / dynamic call: assume it is handed on
				}
			case *ssa.MakeInterface:
				if handedOn(x, depth+1) {
					return true
				}
			case *ssa.Phi:
				if handedOn(x, depth+1) {
					return true
				}
			case *ssa.Store:
				if x.Val == v {
					if cell := cellOf(x.Addr); cell != nil {
						for _, r2 := range *cell.Referrers() {
							if u, ok := r2.(*ssa.UnOp); ok && handedOn(u, depth+1) {
								return true
							}
						}
						continue
					}
					return true // stored into a structure
				}
			case *ssa.Return:
				return true
			}
		}
		return false
	}
	nsites := 0
	for _, k := range cons {
		fn := k.fn
		arg := root(k.wrapped)
		if prm, isParam := arg.(*ssa.Parameter); isParam && isCtor(fn) && prm.Parent() == fn {
			continue // a constructor wrapping its own parameter: its callers are the sites
		}
		if !handedOn(k.val, 0) {
			// used locally only (the footer's CRC writer): every write on it is
			// checked by R7a in this very function
			c.okP(props, fmt.Sprintf("sticky/%s/%s/local", funcShortName(fn), k.name), c.p.instrPos(k.at), "a CountHashWriter that is not handed on to other code of package zap: unchecked writes on it would be reported by the drop rule in this function")
			continue
		}
		nsites++
		kind := "other"
		// the constructor sits in an unexported helper that is handed the writer to wrap
		// (`acquireInterim(&br)`): a parameter is as good as what every caller passes
		if prm, isParam := arg.(*ssa.Parameter); isParam && prm.Parent() == fn && fn.Object() != nil && !fn.Object().Exported() {
			pi := -1
			for i, pp := range fn.Params {
				if pp == prm {
					pi = i
				}
			}
			allBuf, nCallers := true, 0
			for _, cs2 := range c.p.callersOf(fn) {
				if !c.p.InZap(cs2.Parent()) || pi < 0 || pi >= len(cs2.Common().Args) {
					continue
				}
				nCallers++
				a2 := cs2.Common().Args[pi]
				if mi, ok := a2.(*ssa.MakeInterface); ok {
					a2 = mi.X
				}
				al, ok := root(a2).(*ssa.Alloc)
				if !ok || !isNamed(al.Type(), "bytes", "Buffer") {
					allBuf = false
				}
			}
			if allBuf && nCallers > 0 {
				kind = "bytes.Buffer"
			}
		}
		switch a := arg.(type) {
		case *ssa.Alloc:
			if isNamed(a.Type(), "bytes", "Buffer") {
				kind = "bytes.Buffer"
			}
		case *ssa.Call:
			if f := a.Call.StaticCallee(); f != nil && (strings.HasPrefix(f.String(), "bufio.NewWriter") || bufioWrapper(c.p, f) >= 0) {
				kind = "bufio.Writer"
				// Flush on this writer must exist in the creator and be tested: R6 decides
				// "Flush tested on every success path"; here we require that R6 had a Flush role.
				flushed := false
				for _, cs2 := range callSites(fn) {
					if isCallTo(cs2, "(*bufio.Writer).Flush") && sameValue(recvOrArg0(cs2), a) && !droppedError(cs2) {
						flushed = true
					}
				}
				// ... or in a closure of fn (a deferred completion), on the variable that holds the writer
				for _, f2 := range c.p.ZapFuncs {
					if f2.Parent() != fn {
						continue
					}
					for _, cs2 := range callSites(f2) {
						if !isCallTo(cs2, "(*bufio.Writer).Flush") || droppedError(cs2) {
							continue
						}
						if u, ok := recvOrArg0(cs2).(*ssa.UnOp); ok {
							if cell := cellOf(u.X); cell != nil {
								for _, stx := range cellStores(cell) {
									if sameValue(stx.Val, a) {
										flushed = true
									}
								}
							}
						}
					}
				}
				// ... or in a helper of the package that fn hands the writer to (`flushSyncClose(br, f)`), whose
				// own error fn does not drop
				for _, cs2 := range callSites(fn) {
					h := staticCallee(cs2)
					if flushed || h == nil || !c.p.InZap(h) || len(h.Blocks) == 0 || droppedError(cs2) || errorResultIndex(h.Signature) < 0 {
						continue
					}
					for ai, a2 := range cs2.Common().Args {
						if ai >= len(h.Params) || !sameValue(a2, a) {
							continue
						}
						for _, cs3 := range callSites(h) {
							if isCallTo(cs3, "(*bufio.Writer).Flush") && sameValue(recvOrArg0(cs3), h.Params[ai]) && !droppedError(cs3) {
								flushed = true
							}
						}
					}
				}
				// ... or, where the constructor of the file's owner keeps the writer in a field of the owner
				// (`br: br` next to `cr: NewCountHashWriter…(br, s)`), in a routine that flushes that field
				if !flushed && a.Referrers() != nil {
					for _, r := range *a.Referrers() {
						st, ok := r.(*ssa.Store)
						if !ok || st.Val != ssa.Value(a) {
							continue
						}
						fa, ok := st.Addr.(*ssa.FieldAddr)
						if !ok || ownerOfType(c.p.owners, fa.X.Type()) == nil {
							continue
						}
						for _, f2 := range c.p.ZapFuncs {
							for _, cs2 := range callSites(f2) {
								if !isCallTo(cs2, "(*bufio.Writer).Flush") || droppedError(cs2) {
									continue
								}
								if u, ok := recvOrArg0(cs2).(*ssa.UnOp); ok && u.Op == token.MUL {
									if fa2, ok := u.X.(*ssa.FieldAddr); ok && fa2.Field == fa.Field && types.Identical(derefType(fa2.X.Type()), derefType(fa.X.Type())) {
										flushed = true
									}
								}
							}
						}
					}
				}
				if !flushed {
					kind = "bufio.Writer-unflushed"
				}
			}
		case *ssa.Parameter:
			if kind == "other" {
				kind = "parameter " + a.Name()
			}
		}
		if isNamed(arg.Type(), "bytes", "Buffer") {
			kind = "bytes.Buffer"
		}
		// the file's owner, which keeps a bufio.Writer stacked on the file in an init-only field and whose
		// Write goes to it: sticky like the bufio.Writer, provided a method of the owner flushes that field
		// and the result is not dropped
		if o := ownerOfType(c.p.owners, arg.Type()); o != nil && kind == "other" || (o != nil && strings.HasPrefix(kind, "parameter")) {
			flushed := false
			for _, f2 := range c.p.ZapFuncs {
				for _, cs2 := range callSites(f2) {
					if !isCallTo(cs2, "(*bufio.Writer).Flush") || droppedError(cs2) {
						continue
					}
					if u, ok := recvOrArg0(cs2).(*ssa.UnOp); ok && u.Op == token.MUL {
						if fa, ok := u.X.(*ssa.FieldAddr); ok && ownerWrapperField(fa) {
							flushed = true
						}
					}
				}
			}
			if flushed {
				kind = "bufio.Writer"
			}
		}
		witness := "construction: " + describeInstr(c.p, k.at)
		okc := kind == "bytes.Buffer" || kind == "bufio.Writer"
		c.add(statusOf(okc), fmt.Sprintf("sticky/%s/%s", funcShortName(fn), k.name), c.p.instrPos(k.at),
			"a CountHashWriter that is handed on to the routines with unchecked binary.Write calls wraps a bytes.Buffer or a bufio.Writer whose Flush result is tested",
			"the wrapped writer is "+kind+": an error of the unchecked binary.Write calls on the field table would be lost", props, []string{witness})
	}
	c.add(statusOf(nsites >= 2), "sticky/constructor-sites", "-", "CountHashWriter constructor sites on the build and merge paths are found (confirmed by hand: 2)", fmt.Sprintf("found %d", nsites), props, nil)
}

// --- R7c: sibling agreement on the section interface ------------------------
//
// Every implementation of Persist/Merge must return the error of the writer
// routine it delegates to, and the callers of the interface methods must test
// what they return.
func r7cSiblings(c *RuleCtx) {
	props := []string{"C19", "C17"}
	impls := c.p.sectionImpls()
	want := 2
	if c.p.Cfg.Vectors {
		want = 3
	}
	c.add(statusOf(len(impls) >= want), "siblings/implementations", "-", fmt.Sprintf("implementations of the section interface are found (expected %d)", want), fmt.Sprintf("found %d", len(impls)), props, nil)
	mayWrite := c.p.mayWriteFuncs()
	for _, impl := range impls {
		for _, mname := range []string{"Persist", "Merge"} {
			m := impl.methods[mname]
			if m == nil {
				c.undecidedP(props, "siblings/"+impl.typ.Obj().Name()+"."+mname, "-", "method found", "missing method")
				continue
			}
			// delegate calls: zap callees that may write and return an error
			var delegates []ssa.CallInstruction
			for _, cs := range callSites(m) {
				f := staticCallee(cs)
				if f == nil || !c.p.InZap(f) || errorResultIndex(f.Signature) < 0 || !mayWrite[f] {
					continue
				}
				delegates = append(delegates, cs)
			}
			key := "siblings/" + impl.typ.Obj().Name() + "." + mname
			if len(delegates) == 0 {
				c.undecidedP(props, key, c.fpos(m), "the section method delegates to a writer routine", "no error-returning writer routine is called: cannot compare with its siblings")
				continue
			}
			for _, d := range delegates {
				dn := staticCallee(d).Name()
				if droppedError(d) {
					c.badP(props, key+"/"+dn, c.pos(d), "section method returns the error of the writer routine it calls (its siblings do)",
						fmt.Sprintf("%s.%s drops the error of %s: a failure while writing this section is reported as success", impl.typ.Obj().Name(), mname, dn),
						"call: "+describeInstr(c.p, d))
					continue
				}
				// every return reachable after the delegate with its error non-nil must return non-nil:
				// i.e. no return that is dominated by the delegate returns a constant nil while the
				// delegate's error is not known to be nil there.
				ev := errValueOfCall(d)
				okc := true
				var w []string
				for _, ret := range returnsOf(m) {
					if !d.Block().Dominates(ret.Block()) {
						continue
					}
					rv, ns := errorOfReturn(ret)
					if rv != nil && sameValue(rv, ev) {
						continue
					}
					if ns == isNil && nilnessAt(ev, ret.Block()) != isNil {
						okc = false
						w = append(w, "exit: "+describeInstr(c.p, ret))
					}
				}
				c.add(statusOf(okc), key+"/"+dn, c.pos(d), "section method returns the error of the writer routine it calls (its siblings do)",
					fmt.Sprintf("%s.%s can return nil although %s failed", impl.typ.Obj().Name(), mname, dn), props, w)
			}
		}
	}
	// callers of the interface methods test the result
	total := map[string]int{}
	for _, fn := range c.p.ZapFuncs {
		perFn := map[string]int{}
		for _, cs := range callSites(fn) {
			cc := cs.Common()
			if !cc.IsInvoke() || !isNamed(cc.Value.Type(), zapPkgPath, "section") {
				continue
			}
			if cc.Method.Name() != "Persist" && cc.Method.Name() != "Merge" {
				continue
			}
			total[cc.Method.Name()]++
			perFn[cc.Method.Name()]++
			key := "siblings/caller/" + funcShortName(fn) + "/" + cc.Method.Name()
			if perFn[cc.Method.Name()] > 1 {
				key += fmt.Sprintf("#%d", perFn[cc.Method.Name()])
			}
			ev := errValueOfCall(cs)
			okc := !droppedError(cs) && ev != nil
			if okc {
				// a failure exit must be control dependent on it: some return returns ev
				found := false
				for _, ret := range returnsOf(fn) {
					if rv, _ := errorOfReturn(ret); rv != nil && sameValue(rv, ev) {
						found = true
					}
				}
				okc = found
			}
			c.add(statusOf(okc), key, c.pos(cs), "the caller of section."+cc.Method.Name()+" propagates its error", "the error of the interface call is not returned", props, nil)
		}
	}
	for _, mn := range []string{"Persist", "Merge"} {
		c.add(statusOf(total[mn] >= 1), "siblings/caller/"+mn+"/sites", "-", "an interface call site of section."+mn+" is found (confirmed by hand: 1, on the build / merge path)", "no section."+mn+" call found", props, nil)
	}
}

// r7dNoRecovery (R7d ENGINE-FAILURE-SURFACES, C19): on the build and merge paths a failure reported by
// the vector engine is not recovered from — where the error of an engine call is tested, every way on
// from the "non-nil" side ends in a return of a non-nil error. (C19 asks that the failure surfaces as an
// error of the build or merge; carrying on with a substitute index hides it.)
func r7dNoRecovery(c *RuleCtx) {
	p := c.p
	if !p.Cfg.Vectors {
		return
	}
	props := []string{"C19"}
	scope := map[*ssa.Function]bool{}
	for _, m := range []string{"Persist", "Merge"} {
		if f := p.Method("faissVectorIndexSection", m); f != nil {
			for g := range p.reachableFrom(f) {
				if p.InZap(g) {
					scope[g] = true
				}
			}
			scope[f] = true
		}
	}
	var fns []*ssa.Function
	for f := range scope {
		fns = append(fns, f)
	}
	sort.Slice(fns, func(i, j int) bool { return fns[i].String() < fns[j].String() })
	n := 0
	counts := map[string]int{}
	for _, fn := range fns {
		for _, cs := range callSites(fn) {
			isEngine := false
			if f := staticCallee(cs); f != nil && f.Pkg != nil && f.Pkg.Pkg.Path() == faissModule {
				isEngine = true
			}
			if _, _, ok := faissMethod(cs); ok {
				isEngine = true
			}
			if cs.Common().IsInvoke() {
				if pk := cs.Common().Method.Pkg(); pk != nil && pk.Path() == faissModule {
					isEngine = true
				}
			}
			if !isEngine {
				continue
			}
			e := errValueOfCall(cs)
			if e == nil {
				continue
			}
			// where is it tested?
			var bad []string
			tested := 0
			for _, b := range fn.Blocks {
				iff, ok := b.Instrs[len(b.Instrs)-1].(*ssa.If)
				if !ok {
					continue
				}
				x, nilWhen, ok := errNilTest(iff.Cond)
				if !ok || !(sameValue(x, e) || sameValue(resolveLoad(x), e)) {
					continue
				}
				tested++
				nn := b.Succs[0]
				if nilWhen {
					nn = b.Succs[1]
				}
				// (tests of the variable that holds this error are decided on the way: `err = …; break`
				// followed by `if err != nil { return err }` after the loop ends in that return)
				if ret := maySucceedAfterError(nn, b, e); ret != nil {
					bad = append(bad, "from the failing side of "+describeInstr(p, iff)+" a return that may report success is reachable: "+describeInstr(p, ret))
				}
			}
			if tested == 0 {
				continue // returned as it is, or dropped: R7's business
			}
			n++
			nm := calleeName(cs)
			counts[funcShortName(fn)+nm]++
			key := fmt.Sprintf("no-recovery/%s->%s", funcShortName(fn), strings.ReplaceAll(nm, faissModule+".", ""))
			if k := counts[funcShortName(fn)+nm]; k > 1 {
				key += fmt.Sprintf("#%d", k)
			}
			c.add(statusOf(len(bad) == 0), key, c.pos(cs), "a failure of this vector-engine call on the build / merge path ends in an error return (nothing carries on after it)",
				"the build or merge can go on, and report success, after the engine reported a failure here", props, bad)
		}
	}
	c.add(statusOf(n >= 4), "no-recovery/sites", "-", "tested vector-engine calls on the build / merge path are found (pinned tree: 10)", fmt.Sprintf("found %d", n), props, nil)
}

// underNonNilTestAllFail: `at` lies in the region a dominating test `x != nil` of an error opens, and no
// return reachable from there can report success while x holds that error.
func underNonNilTestAllFail(at ssa.Instruction) bool {
	for b := at.Block(); b != nil; b = b.Idom() {
		pb := b.Idom()
		if pb == nil {
			break
		}
		iff, ok := pb.Instrs[len(pb.Instrs)-1].(*ssa.If)
		if !ok || len(pb.Succs) != 2 || len(b.Preds) != 1 || b.Preds[0] != pb {
			continue
		}
		x, nilWhen, ok := errNilTest(iff.Cond)
		if !ok {
			continue
		}
		onNonNil := (pb.Succs[0] == b) != nilWhen
		if !onNonNil {
			continue
		}
		if maySucceedAfterError(b, pb, x) == nil {
			return true
		}
	}
	return false
}

// deferredOnErrorParam: fn is a routine of the shape `func (o *T) abortOnError(err *error) { if *err != nil
// { ... at ... } }` that is only ever deferred with the address of the caller's error variable, and every
// caller returns that variable (or nil where it is known nil) at every exit after the defer: `at` runs
// exactly when an error is being returned.
func deferredOnErrorParam(p *Program, fn *ssa.Function, at ssa.Instruction) bool {
	if fn.Parent() != nil || len(fn.Blocks) == 0 {
		return false
	}
	entry := fn.Blocks[0]
	iff, ok := entry.Instrs[len(entry.Instrs)-1].(*ssa.If)
	if !ok || len(entry.Succs) != 2 {
		return false
	}
	x, nilWhen, ok := errNilTest(iff.Cond)
	if !ok {
		return false
	}
	u, ok := x.(*ssa.UnOp)
	if !ok || u.Op != token.MUL {
		return false
	}
	gi := -1
	for i, q := range fn.Params {
		if u.X == ssa.Value(q) && readOnlyPtrParam(q) {
			gi = i
		}
	}
	if gi < 0 {
		return false
	}
	nonNilSucc := entry.Succs[0]
	if nilWhen {
		nonNilSucc = entry.Succs[1]
	}
	if len(nonNilSucc.Preds) != 1 || !(nonNilSucc == at.Block() || nonNilSucc.Dominates(at.Block())) {
		return false
	}
	sites := p.callersOf(fn)
	if len(sites) == 0 {
		return false
	}
	for _, cs := range sites {
		d, ok := cs.(*ssa.Defer)
		if !ok || gi >= len(d.Call.Args) {
			return false
		}
		par := d.Parent()
		cell := cellOf(d.Call.Args[gi])
		if cell == nil || cell.Parent() != par {
			return false
		}
		idx := errorResultIndex(par.Signature)
		if idx < 0 {
			return false
		}
		for _, ret := range returnsOf(par) {
			if !(d.Block() == ret.Block() || d.Block().Dominates(ret.Block())) {
				continue // before the defer statement is registered
			}
			if u, ok := ret.Results[idx].(*ssa.UnOp); ok && u.Op == token.MUL && u.X == ssa.Value(cell) {
				continue
			}
			v := returnedValueRaw(ret, idx)
			if u, ok := v.(*ssa.UnOp); ok && u.Op == token.MUL && u.X == ssa.Value(cell) {
				continue
			}
			if isNilConst(v) && cellNilnessAt(cell, ret.Block()) == isNil {
				continue
			}
			return false
		}
	}
	return true
}

// deferredUnlessCommitted: fn is a routine that is only ever deferred, whose first test is on a bool field
// of its receiver, with `at` on the side where the field is not set; and that field is set (to true,
// nowhere to anything else) only immediately before a `return nil` of a function with an error result:
// `at` runs unless the committing step succeeded. (That a caller reports success only after that step
// is R6's business.)
func deferredUnlessCommitted(p *Program, fn *ssa.Function, at ssa.Instruction) bool {
	if fn.Parent() != nil || len(fn.Blocks) == 0 || len(fn.Params) == 0 {
		return false
	}
	entry := fn.Blocks[0]
	iff, ok := entry.Instrs[len(entry.Instrs)-1].(*ssa.If)
	if !ok || len(entry.Succs) != 2 {
		return false
	}
	cond, neg := iff.Cond, false
	if u, isU := cond.(*ssa.UnOp); isU && u.Op == token.NOT {
		cond, neg = u.X, true
	}
	u, isU := cond.(*ssa.UnOp)
	if !isU || u.Op != token.MUL || !isBoolType(u) {
		return false
	}
	fa, isFA := u.X.(*ssa.FieldAddr)
	if !isFA || fa.X != ssa.Value(fn.Params[0]) {
		return false
	}
	unset := entry.Succs[1]
	if neg {
		unset = entry.Succs[0]
	}
	if len(unset.Preds) != 1 || !(unset == at.Block() || unset.Dominates(at.Block())) {
		return false
	}
	sites := p.callersOf(fn)
	if len(sites) == 0 {
		return false
	}
	for _, cs := range sites {
		if _, isDefer := cs.(*ssa.Defer); !isDefer {
			return false
		}
	}
	st := derefType(fa.X.Type())
	nStores := 0
	okAll := true
	for _, f := range p.ZapFuncs {
		eachInstr(f, func(b *ssa.BasicBlock, in ssa.Instruction) {
			s, ok := in.(*ssa.Store)
			if !ok {
				return
			}
			fa2, ok := s.Addr.(*ssa.FieldAddr)
			if !ok || fa2.Field != fa.Field || !types.Identical(derefType(fa2.X.Type()), st) {
				return
			}
			nStores++
			k, isK := constBool(s.Val)
			ret, isRet := b.Instrs[len(b.Instrs)-1].(*ssa.Return)
			if isK && k && !isRet && len(b.Succs) == 1 {
				// `if err == nil { sf.committed = true }; return err`: the flag is set under the test that
				// found nil the error returned right after
				rb := b.Succs[0]
				if ret2, isRet2 := rb.Instrs[len(rb.Instrs)-1].(*ssa.Return); isRet2 {
					if v, _ := errorOfReturn(ret2); v != nil {
						if ph, isPhi := v.(*ssa.Phi); isPhi && ph.Block() == rb {
							for i, pb := range rb.Preds {
								if pb == b {
									v = ph.Edges[i]
								}
							}
						}
						if c, isC := v.(*ssa.Const); (isC && c.IsNil()) || nilnessAt(v, b) == isNil {
							return
						}
					}
				}
			}
			if !isK || !k || !isRet {
				okAll = false
				return
			}
			if _, ns := errorOfReturn(ret); ns != isNil {
				okAll = false
			}
		})
	}
	return okAll && nStores > 0
}

// deferredTurnsIntoError: `at` is in a closure that only runs deferred, and right after it (same block) the
// closure stores an error that is known to be non-nil there into the parent's error variable, which is the
// (named) result every exit of the parent returns: the function reports an error whenever `at` ran
// (`if uerr := release(); uerr != nil && err == nil { _ = os.Remove(path); err = uerr }`).
func deferredTurnsIntoError(cl *ssa.Function, at ssa.Instruction) bool {
	par := cl.Parent()
	if par == nil || !deferredOnlyClosure(cl) {
		return false
	}
	idx := errorResultIndex(par.Signature)
	if idx < 0 {
		return false
	}
	b := at.Block()
	seenAt := false
	for _, in := range b.Instrs {
		if in == at {
			seenAt = true
			continue
		}
		if !seenAt {
			continue
		}
		st, ok := in.(*ssa.Store)
		if !ok {
			continue
		}
		fv, ok := st.Addr.(*ssa.FreeVar)
		if !ok || !isErrorType(derefType(fv.Type())) {
			continue
		}
		cell := cellOf(fv)
		if cell == nil || cell.Parent() != par || nilnessAt(st.Val, b) != nonNil {
			continue
		}
		// no later store into the variable in the closure
		later := false
		eachInstr(cl, func(bb *ssa.BasicBlock, in2 ssa.Instruction) {
			if s2, ok := in2.(*ssa.Store); ok && s2 != st && s2.Addr == ssa.Value(fv) && (bb != b && reachesBlock(b, bb)) {
				later = true
			}
		})
		if later {
			continue
		}
		// every exit of the parent returns the variable
		all := true
		for _, ret := range returnsOf(par) {
			if u, ok := ret.Results[idx].(*ssa.UnOp); !ok || u.Op != token.MUL || u.X != ssa.Value(cell) {
				all = false
			}
		}
		if all {
			return true
		}
	}
	return false
}
