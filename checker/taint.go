package main

// E-dep: data + control dependence taint to a fixed point, per function, with
// bottom-up summaries for zap callees.

import (
	"go/token"

	"golang.org/x/tools/go/ssa"
)

type taintResult struct {
	fn     *ssa.Function
	val    map[ssa.Value]bool       // tainted values (incl. maps/slices whose content is tainted)
	blk    map[*ssa.BasicBlock]bool // control-tainted blocks
	why    map[ssa.Value]ssa.Instruction
	blkWhy map[*ssa.BasicBlock]ssa.Instruction
	ctrl   map[*ssa.BasicBlock][]ctrlDep
}

type taintSummary struct {
	resultTainted bool
	resultIdx     map[int]bool // which results (of a multi-result function) depend on the source
	mutatesParam  map[int]bool // content of param j is changed depending on the source
	sinkHit       []string     // description of cache sinks reached
}

type taintCtx struct {
	p       *Program
	isSink  func(in ssa.Instruction) (ssa.Value, string, bool) // (value stored, description, ok): a store into shared cache state
	summ    map[string]*taintSummary
	running map[string]bool
	// noTaint: a store that does not taint the object it stores into (an exempt, keyed memo)
	noTaint func(st *ssa.Store) bool
}

func (tc *taintCtx) summary(fn *ssa.Function, param int) *taintSummary {
	key := fn.String() + "#" + string(rune('0'+param))
	if s, ok := tc.summ[key]; ok {
		return s
	}
	if tc.running[key] || len(fn.Blocks) == 0 || param >= len(fn.Params) {
		return &taintSummary{resultTainted: true, mutatesParam: map[int]bool{}}
	}
	tc.running[key] = true
	res := tc.analyse(fn, []ssa.Value{fn.Params[param]})
	delete(tc.running, key)
	s := &taintSummary{mutatesParam: map[int]bool{}, resultIdx: map[int]bool{}}
	for _, ret := range returnsOf(fn) {
		for i, r := range ret.Results {
			if res.val[r] {
				s.resultTainted = true
				s.resultIdx[i] = true
			}
		}
		if res.blk[ret.Block()] && len(ret.Results) > 0 {
			s.resultTainted = true
			for i := range ret.Results {
				s.resultIdx[i] = true
			}
		}
	}
	for j, p := range fn.Params {
		if j != param && res.val[p] {
			s.mutatesParam[j] = true
		}
	}
	s.sinkHit = tc.sinksIn(res)
	tc.summ[key] = s
	return s
}

// sinksIn lists the cache sinks that the taint reaches in an analysed function.
func (tc *taintCtx) sinksIn(res *taintResult) []string {
	var out []string
	fn := res.fn
	eachInstr(fn, func(b *ssa.BasicBlock, in ssa.Instruction) {
		if v, desc, ok := tc.isSink(in); ok {
			if res.val[v] {
				out = append(out, desc+" stores a value that depends on the per-call argument: "+describeInstr(tc.p, in))
			} else if res.blk[b] {
				out = append(out, desc+" happens under a condition that depends on the per-call argument: "+describeInstr(tc.p, in))
			}
		}
		if cs, ok := in.(ssa.CallInstruction); ok {
			callee := staticCallee(cs)
			if callee == nil || !tc.p.InZap(callee) || len(callee.Blocks) == 0 {
				return
			}
			for j, a := range cs.Common().Args {
				if !res.val[a] && !res.val[root(a)] {
					continue
				}
				s := tc.summary(callee, j)
				for _, h := range s.sinkHit {
					out = append(out, "via "+funcShortName(callee)+"("+callee.Params[j].Name()+"): "+h)
				}
			}
		}
	})
	return out
}

func (tc *taintCtx) analyse(fn *ssa.Function, sources []ssa.Value) *taintResult {
	res := &taintResult{fn: fn, val: map[ssa.Value]bool{}, blk: map[*ssa.BasicBlock]bool{}, why: map[ssa.Value]ssa.Instruction{}, blkWhy: map[*ssa.BasicBlock]ssa.Instruction{}}
	res.ctrl = transitiveControlDeps(fn)
	for _, s := range sources {
		res.val[s] = true
	}
	mark := func(v ssa.Value, because ssa.Instruction) bool {
		if v == nil || res.val[v] {
			return false
		}
		if _, isConst := v.(*ssa.Const); isConst {
			return false
		}
		res.val[v] = true
		res.why[v] = because
		return true
	}
	// container(v): the value whose content is changed by writing through v
	var container func(addr ssa.Value) ssa.Value
	container = func(addr ssa.Value) ssa.Value {
		switch x := addr.(type) {
		case *ssa.IndexAddr:
			return x.X
		case *ssa.FieldAddr:
			return x.X
		case *ssa.Alloc:
			return x
		case *ssa.FreeVar:
			return x
		}
		return addr
	}
	tupleTaint := map[ssa.Value]map[int]bool{}
	for changed := true; changed; {
		changed = false
		// control taint
		for _, b := range fn.Blocks {
			if res.blk[b] {
				continue
			}
			for _, d := range res.ctrl[b] {
				cond := branchCond(d.Branch)
				if cond != nil && res.val[cond] {
					res.blk[b] = true
					res.blkWhy[b] = d.Branch.Instrs[len(d.Branch.Instrs)-1]
					changed = true
					break
				}
			}
		}
		for _, b := range fn.Blocks {
			for _, in := range b.Instrs {
				switch x := in.(type) {
				case *ssa.Phi:
					if res.val[x] {
						continue
					}
					t := false
					distinct := map[ssa.Value]bool{}
					for i, e := range x.Edges {
						distinct[e] = true
						if res.val[e] {
							t = true
						}
						_ = i
					}
					if !t && len(distinct) > 1 {
						for _, pr := range b.Preds {
							if res.blk[pr] {
								t = true
							}
						}
						// also: the join itself is selected by a tainted branch
						if res.blk[b] {
							t = true
						}
					}
					if t && mark(x, in) {
						changed = true
					}
				case *ssa.Store:
					if tc.noTaint != nil && tc.noTaint(x) {
						continue
					}
					if res.val[x.Val] || res.blk[b] {
						if mark(container(x.Addr), in) {
							changed = true
						}
						if mark(root(container(x.Addr)), in) {
							changed = true
						}
					}
				case *ssa.MapUpdate:
					if res.val[x.Key] || res.val[x.Value] || res.blk[b] {
						if mark(x.Map, in) {
							changed = true
						}
						if mark(root(x.Map), in) {
							changed = true
						}
					}
				case ssa.CallInstruction:
					cc := x.Common()
					anyT := false
					var targs []int
					args := cc.Args
					if cc.IsInvoke() && res.val[cc.Value] {
						anyT = true
					}
					for j, a := range args {
						if res.val[a] || res.val[root(a)] {
							anyT = true
							targs = append(targs, j)
						}
					}
					callee := staticCallee(x)
					v, isVal := in.(ssa.Value)
					if b2, ok := cc.Value.(*ssa.Builtin); ok {
						switch b2.Name() {
						case "append", "len", "cap", "copy", "min", "max":
							if anyT && isVal && mark(v, in) {
								changed = true
							}
							if b2.Name() == "copy" && len(args) == 2 && (res.val[args[1]] || res.blk[b]) {
								if mark(args[0], in) {
									changed = true
								}
							}
						case "delete":
							if (anyT || res.blk[b]) && len(args) > 0 {
								if mark(args[0], in) {
									changed = true
								}
								if mark(root(args[0]), in) {
									changed = true
								}
							}
						}
						continue
					}
					if callee != nil && tc.p.InZap(callee) && len(callee.Blocks) > 0 {
						for _, j := range targs {
							if j >= len(callee.Params) {
								continue
							}
							s := tc.summary(callee, j)
							if s.resultTainted && isVal && s.resultIdx != nil && callee.Signature.Results().Len() > 1 {
								// a tuple: only the results that depend on the source
								if tupleTaint[v] == nil {
									tupleTaint[v] = map[int]bool{}
								}
								for i := range s.resultIdx {
									if !tupleTaint[v][i] {
										tupleTaint[v][i] = true
										changed = true
									}
								}
							} else if s.resultTainted && isVal && mark(v, in) {
								changed = true
							}
							for k := range s.mutatesParam {
								if k < len(args) {
									if mark(args[k], in) {
										changed = true
									}
									if mark(root(args[k]), in) {
										changed = true
									}
								}
							}
						}
						// a call made under a tainted condition may mutate what it is given
						continue
					}
					// external / dynamic call: result depends on its inputs
					if anyT && isVal && mark(v, in) {
						changed = true
					}
				case *ssa.Extract:
					if (res.val[x.Tuple] || tupleTaint[x.Tuple][x.Index]) && mark(x, in) {
						changed = true
					}
				case *ssa.UnOp:
					if res.val[x.X] && mark(x, in) {
						changed = true
					}
					if x.Op == token.MUL {
						if r := root(x); r != ssa.Value(x) && res.val[r] && mark(x, in) {
							changed = true
						}
					}
				case ssa.Value:
					// generic: any tainted operand taints the result
					if res.val[x] {
						continue
					}
					for _, op := range in.Operands(nil) {
						if *op != nil && res.val[*op] {
							if mark(x, in) {
								changed = true
							}
							break
						}
					}
				}
			}
		}
	}
	return res
}
