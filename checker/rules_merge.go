package main

// R15 SINGLE-WRITER + LOADER-SIBLINGS, R17 BYTECOPY-GUARD, R18 ADDR-WIRING,
// R24 DROPPED-SENTINEL.

import (
	"fmt"
	"go/token"
	"go/types"
	"sort"
	"strings"

	"golang.org/x/tools/go/ssa"
)

// ---------------------------------------------------------------------------
// R15

func ruleR15() *Rule {
	return &Rule{
		ID:    "R15",
		Title: "SINGLE-WRITER + LOADER-SIBLINGS: one routine writes the segment bytes; every merged byte is counted; the two doc-value loaders agree",
		Props: []string{"C04", "C05", "C03"},
		Floor: floorFor("R15"),
		Run: func(c *RuleCtx) {
			r15a(c)
			r15b(c)
			r15c(c)
		},
	}
}

// (a) Persist and WriteTo share the only routine that writes SegmentBase.mem.
func r15a(c *RuleCtx) {
	props := []string{"C04"}
	p := c.p
	var writers []*ssa.Function
	var sites []ssa.CallInstruction
	for _, fn := range p.ZapFuncs {
		for _, cs := range callSites(fn) {
			cc := cs.Common()
			name := ""
			if f := staticCallee(cs); f != nil {
				name = f.Name()
			} else if cc.IsInvoke() {
				name = cc.Method.Name()
			}
			if name != "Write" || len(cc.Args) == 0 {
				continue
			}
			data := cc.Args[len(cc.Args)-1]
			if sn, fld, _, ok := loadedField(root(data)); ok && sn == "SegmentBase" && fld == "mem" {
				sites = append(sites, cs)
				found := false
				for _, w := range writers {
					if w == fn {
						found = true
					}
				}
				if !found {
					writers = append(writers, fn)
				}
			}
		}
	}
	// only the routines the two entry points can reach matter (a merge may copy a lone segment's bytes
	// into its own output: that is not a way of persisting *this* segment)
	var apis []*ssa.Function
	for _, api := range [][2]string{{"SegmentBase", "Persist"}, {"SegmentBase", "WriteTo"}} {
		if m := c.method(api[0], api[1]); m != nil {
			apis = append(apis, m)
		}
	}
	var relevant []*ssa.Function
	for _, wfn := range writers {
		wfn := wfn
		r := p.reachesFunc(func(f *ssa.Function) bool { return f == wfn })
		for _, m := range apis {
			if r[m] {
				relevant = append(relevant, wfn)
				break
			}
		}
	}
	if !c.add2(len(relevant) == 1, props, "single-writer", "-", "exactly one routine that Persist / WriteTo can reach writes the whole of SegmentBase.mem to an io.Writer", fmt.Sprintf("%d such routines write SegmentBase.mem (%d in the package)", len(relevant), len(writers))) {
		return
	}
	w := relevant[0]
	reach := p.reachesFunc(func(f *ssa.Function) bool { return f == w })
	for _, m := range apis {
		c.add2(reach[m], props, "shares-writer/"+m.Name(), c.fpos(m), "SegmentBase."+m.Name()+" reaches the single writer routine "+funcShortName(w)+" (so both emit the same bytes)",
			m.Name()+" does not go through "+funcShortName(w)+": Persist and WriteTo can emit different bytes")
	}
	// the same routine also writes the footer and nothing in between can differ per entry point:
	// WriteTo must not write anything itself
	if wt := p.Method("SegmentBase", "WriteTo"); wt != nil {
		n := 0
		var wparam ssa.Value
		for _, prm := range wt.Params {
			if types.IsInterface(prm.Type()) {
				wparam = prm
			}
		}
		for _, cs := range callSites(wt) {
			f := staticCallee(cs)
			if f == w || (f != nil && reach[f]) {
				continue
			}
			cc := cs.Common()
			if cc.IsInvoke() && wparam != nil && root(cc.Value) == wparam {
				n++
			}
			for _, a := range cc.Args {
				if wparam != nil && root(a) == wparam {
					n++
				}
			}
		}
		c.add2(n == 0, props, "writeto-adds-nothing", c.fpos(wt), "WriteTo writes nothing besides what the shared routine writes", fmt.Sprintf("%d extra writing calls in WriteTo", n))
	}
}

// add2 is check() restricted to some properties.
func (c *RuleCtx) add2(cond bool, props []string, key, pos, what, detail string, witness ...string) bool {
	c.add(statusOf(cond), key, pos, what, detail, props, witness)
	return cond
}

// (b) every byte of the merged file goes through the counting writer.
func r15b(c *RuleCtx) {
	props := []string{"C05"}
	fn := c.fn("mergeSegmentBases")
	if fn == nil {
		return
	}
	var acq *ssa.Call
	for _, cs := range callSites(fn) {
		if isCallTo(cs, "os.OpenFile") || isCallTo(cs, "os.Create") {
			acq, _ = cs.(*ssa.Call)
		}
	}
	if acq == nil {
		// the file opened by a helper that hands it back
		for _, cs := range callSites(fn) {
			if info, ok := fileAcquirer(c.p, staticCallee(cs)); ok {
				if call, isCall := cs.(*ssa.Call); isCall {
					if file := extractOf(call, info.fileIdx); file != nil {
						r15bIn(c, props, fn, file, c.pos(call), 0)
						return
					}
				}
			}
		}
		// a wrapper (hook before / after) around the function that creates the file with the same path
		for _, cs := range callSites(fn) {
			g := staticCallee(cs)
			if g == nil || !c.p.InZap(g) || len(g.Blocks) == 0 || g == fn {
				continue
			}
			for _, cs2 := range callSites(g) {
				if isCallTo(cs2, "os.OpenFile") || isCallTo(cs2, "os.Create") {
					if call, ok := cs2.(*ssa.Call); ok {
						fn, acq = g, call
					}
				}
			}
		}
	}
	if acq == nil {
		c.undecidedP(props, "mergeSegmentBases/file", c.fpos(fn), "the output file acquisition is found", "no os.OpenFile")
		return
	}
	file := extractOf(acq, 0)
	r15bIn(c, props, fn, file, c.pos(acq), 0)
}

// bufOnlyRecycled: callee is a function of the package that takes the buffered writer only to reset it and
// put it away (`putMergeWriter(br)`: br.Reset(nil); pool.Put(br)) — nothing is written through it there.
func bufOnlyRecycled(p *Program, callee *ssa.Function, arg ssa.Value, cs ssa.CallInstruction) bool {
	if callee == nil || !p.InZap(callee) || len(callee.Blocks) == 0 {
		return false
	}
	var prm *ssa.Parameter
	for i, a := range cs.Common().Args {
		if a == arg && i < len(callee.Params) {
			prm = callee.Params[i]
		}
	}
	if prm == nil || prm.Referrers() == nil {
		return false
	}
	for _, r := range *prm.Referrers() {
		switch x := r.(type) {
		case *ssa.DebugRef:
		case *ssa.MakeInterface:
			// handed to sync.Pool.Put only
			for _, r2 := range *x.Referrers() {
				c2, ok := r2.(ssa.CallInstruction)
				if !ok {
					return false
				}
				if f := staticCallee(c2); f == nil || f.String() != "(*sync.Pool).Put" {
					return false
				}
			}
		case ssa.CallInstruction:
			f := staticCallee(x)
			if f == nil {
				return false
			}
			switch f.String() {
			case "(*bufio.Writer).Reset", "(*bufio.Writer).Flush", "(*bufio.Writer).Buffered", "(*bufio.Writer).Available", "(*bufio.Writer).Size":
				// (a helper that finishes the output — `flushSyncClose(br, f)` — writes nothing new through it)
			default:
				return false
			}
		default:
			return false
		}
	}
	return true
}

// r15bTail: an exit of fn that hands back, wholesale, the results of another function of the package that
// creates the output file itself (`return mergeSmall(...)`): that function is judged as a root of its own.
// Returns the callee, or nil.
func r15bTail(c *RuleCtx, props []string, ret *ssa.Return, judged map[*ssa.Function]bool) *ssa.Function {
	if len(ret.Results) < 2 {
		return nil
	}
	var call *ssa.Call
	for i, r := range ret.Results {
		ex, ok := r.(*ssa.Extract)
		if !ok || ex.Index != i {
			return nil
		}
		cl, ok := ex.Tuple.(*ssa.Call)
		if !ok || (call != nil && cl != call) {
			return nil
		}
		call = cl
	}
	if call == nil {
		return nil
	}
	callee := call.Call.StaticCallee()
	if callee == nil || !c.p.InZap(callee) || len(callee.Blocks) == 0 {
		return nil
	}
	var acq *ssa.Call
	for _, cs := range callSites(callee) {
		if isCallTo(cs, "os.OpenFile") || isCallTo(cs, "os.Create") {
			acq, _ = cs.(*ssa.Call)
		}
	}
	if acq == nil {
		return nil
	}
	if !judged[callee] {
		judged[callee] = true
		r15bIn(c, props, callee, extractOf(acq, 0), c.pos(acq), 1)
	}
	return callee
}

// fileOnlyReleased: every use of the *os.File parameter prm in its function is
// a Close or Sync call on it.
func fileOnlyReleased(prm *ssa.Parameter) bool {
	return fileOnlyReleasedRec(prm, 0)
}

func fileOnlyReleasedRec(prm *ssa.Parameter, depth int) bool {
	if !isNamed(prm.Type(), "os", "File") || prm.Referrers() == nil || depth > 2 {
		return false
	}
	n := 0
	for _, r := range *prm.Referrers() {
		switch x := r.(type) {
		case *ssa.DebugRef:
		case ssa.CallInstruction:
			f := staticCallee(x)
			// handed on to another helper that only releases it (`finishSegmentFile` -> `discardSegmentFile`)
			if f != nil && len(f.Blocks) > 0 && strings.HasPrefix(f.String(), zapPkgPath) {
				handedOK := false
				for ai, a := range x.Common().Args {
					if a == ssa.Value(prm) && ai < len(f.Params) && fileOnlyReleasedRec(f.Params[ai], depth+1) {
						handedOK = true
					}
				}
				if !handedOK {
					return false
				}
				n++
				continue
			}
			if f == nil || (f.String() != "(*os.File).Close" && f.String() != "(*os.File).Sync") || len(x.Common().Args) == 0 || x.Common().Args[0] != ssa.Value(prm) {
				return false
			}
			n++
		default:
			return false
		}
	}
	return n > 0
}

// r15bIn: in fn, `file` (the output file) and the buffered writer around it are
// used only by the counting writer's constructor, Flush, Sync, Close and
// cleanup; the size reported on success is the counting writer's final count.
// When fn hands the open file to a delegate (a package function with an
// *os.File parameter), the same is required of the delegate, and fn must
// report the delegate's size.
func r15bIn(c *RuleCtx, props []string, fn *ssa.Function, file ssa.Value, acqPos string, depth int) {
	name := fn.Name()
	// every use of the file / of the bufio.Writer around it
	allowedFile := map[string]bool{"(*os.File).Close": true, "(*os.File).Sync": true, "bufio.NewWriterSize": true, "bufio.NewWriter": true}
	allowedBuf := map[string]bool{"(*bufio.Writer).Flush": true}
	var bufw ssa.Value
	var counter *ssa.Call
	var bad []string
	var delegate *ssa.Call
	var delegateParam ssa.Value
	var stagedBuf ssa.Value // the buffer whose bytes are handed to the file in one Write
	visitFn := func(f *ssa.Function) {
		for _, cs := range callSites(f) {
			callee := staticCallee(cs)
			for ai, a := range cs.Common().Args {
				r := root(a)
				if r == root(file) || sameValue(a, file) {
					nm := calleeName(cs)
					if nm == "(*os.File).Write" && ai == 0 && len(cs.Common().Args) == 2 {
						if bc, ok := cs.Common().Args[1].(*ssa.Call); ok {
							if bf := bc.Call.StaticCallee(); bf != nil && bf.String() == "(*bytes.Buffer).Bytes" && stagedBuf == nil {
								stagedBuf = bc.Call.Args[0]
								continue
							}
						}
					}
					if callee != nil && c.p.InZap(callee) && callee.Parent() == nil && len(callee.Blocks) > 0 && ai < len(callee.Params) && fileOnlyReleased(callee.Params[ai]) {
						continue // a cleanup helper: closes (syncs) the file and nothing else
					}
					if callee != nil && c.p.InZap(callee) && callee.Parent() == nil && len(callee.Blocks) > 0 && ai < len(callee.Params) && ownerOnlyReleased(c.p, callee, callee.Params[ai], 0) {
						continue // a method of the file's owner that finishes or discards the file and writes nothing
					}
					if callee != nil && bufioWrapper(c.p, callee) == ai {
						// a constructor of the buffered writer (`getMergeWriter(f)`): like bufio.NewWriterSize
						bufw, _ = cs.(*ssa.Call)
						continue
					}
					if callee != nil && c.p.InZap(callee) && callee.Signature.Results().Len() == 1 && isNamed(callee.Signature.Results().At(0).Type(), zapPkgPath, "CountHashWriter") && ownerOfType(c.p.owners, root(a).Type()) != nil {
						// the counting writer built straight on the file's owner, which buffers inside
						// (`NewCountHashWriter(out)` with `func (o *owner) Write(p) { return o.bw.Write(p) }`)
						counter, _ = cs.(*ssa.Call)
						continue
					}
					if callee != nil && c.p.InZap(callee) && callee.Parent() == nil && len(callee.Blocks) > 0 && ai < len(callee.Params) && (isNamed(callee.Params[ai].Type(), "os", "File") || isWriterInterface(callee.Params[ai].Type())) && depth < 2 {
						if call, ok := cs.(*ssa.Call); ok && delegate == nil {
							delegate, delegateParam = call, callee.Params[ai]
							continue
						}
					}
					isBufCtor := strings.HasPrefix(nm, "bufio.NewWriter") || (callee != nil && bufioWrapper(c.p, callee) == ai)
					if !allowedFile[nm] && !isBufCtor {
						bad = append(bad, "the output file is handed to "+nm+" ("+c.pos(cs)+"): bytes written there bypass the counting writer")
					}
					if isBufCtor {
						bufw, _ = cs.(*ssa.Call)
					}
				}
			}
		}
	}
	visitFn(fn)
	for _, f2 := range c.p.ZapFuncs {
		if f2.Parent() == fn {
			visitFn(f2)
		}
	}
	if delegate != nil && bufw == nil {
		// fn only acquires (and cleans up); the delegate writes
		c.add2(len(bad) == 0, props, name+"/all-bytes-counted", acqPos, "in "+name+" the output file is used only by the delegate "+delegate.Call.StaticCallee().Name()+", Sync, Close and cleanup",
			strings.Join(bad, "; "))
		r15bIn(c, props, delegate.Call.StaticCallee(), delegateParam, c.pos(delegate), depth+1)
		// the size fn reports on success is the size the delegate reports
		dres := delegate.Call.StaticCallee().Signature.Results()
		sizeIdx := -1
		for i := 0; i < dres.Len(); i++ {
			if bt, ok := dres.At(i).Type().Underlying().(*types.Basic); ok && bt.Kind() == types.Uint64 {
				sizeIdx = i
			}
		}
		for _, ret := range returnsOf(fn) {
			_, ns := errorOfReturn(ret)
			if ns == nonNil {
				continue
			}
			okc := false
			if len(ret.Results) >= 2 && sizeIdx >= 0 {
				if ex, ok := returnedValue(ret, 1).(*ssa.Extract); ok && ex.Tuple == ssa.Value(delegate) && ex.Index == sizeIdx {
					okc = true
				}
			}
			c.add2(okc, props, name+"/size-is-final-count", c.pos(ret), "the size reported by a successful merge is the size its delegate reports (the counting writer's count after the footer was written)", "the size result is not the delegate's")
		}
		return
	}
	if delegate != nil {
		bad = append(bad, "the output file is handed to "+calleeName(delegate)+" ("+c.pos(delegate)+") although it is also written here")
	}
	if stagedBuf != nil && bufw == nil {
		// everything that goes into the staging buffer goes through the counting writer built around it
		for _, cs := range callSites(fn) {
			for _, a := range cs.Common().Args {
				if root(a) != root(stagedBuf) {
					continue
				}
				nm := calleeName(cs)
				callee := staticCallee(cs)
				if callee != nil && c.p.InZap(callee) && callee.Signature.Results().Len() == 1 && isNamed(callee.Signature.Results().At(0).Type(), zapPkgPath, "CountHashWriter") {
					counter, _ = cs.(*ssa.Call)
					continue
				}
				switch nm {
				case "(*bytes.Buffer).Bytes", "(*bytes.Buffer).Len", "(*bytes.Buffer).Cap", "(*bytes.Buffer).Grow":
				default:
					bad = append(bad, "the staging buffer is handed to "+nm+" ("+c.pos(cs)+"): bytes written there are not counted")
				}
			}
		}
	}
	if bufw != nil {
		for _, cs := range callSites(fn) {
			for _, a := range cs.Common().Args {
				if root(a) == bufw {
					nm := calleeName(cs)
					callee := staticCallee(cs)
					if callee != nil && c.p.InZap(callee) && callee.Signature.Results().Len() == 1 && isNamed(callee.Signature.Results().At(0).Type(), zapPkgPath, "CountHashWriter") {
						counter, _ = cs.(*ssa.Call)
						continue
					}
					if !allowedBuf[nm] && !bufOnlyRecycled(c.p, callee, a, cs) {
						bad = append(bad, "the buffered writer is handed to "+nm+" ("+c.pos(cs)+"): bytes written there are not counted")
					}
				}
			}
		}
	}
	// the counting writer that the file's owner keeps, built in its constructor on the buffered writer it
	// also keeps (`out.cr`, with `cr: NewCountHashWriterWithStatsReporter(br, s)` next to `br: br`)
	counterField := -1
	if counter == nil && bufw == nil && stagedBuf == nil && delegate == nil && ownerOfType(c.p.owners, file.Type()) != nil {
		eachInstr(fn, func(_ *ssa.BasicBlock, in ssa.Instruction) {
			fa, ok := in.(*ssa.FieldAddr)
			if !ok || rootNoAlias(fa.X) != rootNoAlias(file) || !ownerWrapperField(fa) {
				return
			}
			if isNamed(derefType(derefType(fa.Type())), zapPkgPath, "CountHashWriter") {
				counterField = fa.Field
			}
		})
	}
	if counterField >= 0 {
		// … and nothing in fn writes through the buffered writer the owner keeps under it
		for _, cs := range callSites(fn) {
			for _, a := range cs.Common().Args {
				u, ok := a.(*ssa.UnOp)
				if !ok || u.Op != token.MUL {
					continue
				}
				fa, ok := u.X.(*ssa.FieldAddr)
				if !ok || rootNoAlias(fa.X) != rootNoAlias(file) || !ownerWrapperField(fa) || !isNamed(derefType(derefType(fa.Type())), "bufio", "Writer") {
					continue
				}
				if nm := calleeName(cs); !allowedBuf[nm] {
					bad = append(bad, "the buffered writer the owner keeps is handed to "+nm+" ("+c.pos(cs)+"): bytes written there are not counted")
				}
			}
		}
	}
	isCounter := func(v ssa.Value) bool {
		if counter != nil && root(v) == ssa.Value(counter) {
			return true
		}
		if counterField >= 0 {
			if u, ok := v.(*ssa.UnOp); ok && u.Op == token.MUL {
				if fa, ok := u.X.(*ssa.FieldAddr); ok && fa.Field == counterField && rootNoAlias(fa.X) == rootNoAlias(file) {
					return true
				}
			}
		}
		return false
	}
	c.add2(len(bad) == 0 && (counter != nil || counterField >= 0), props, name+"/all-bytes-counted", acqPos, "in "+name+" the file and its buffered writer are used only by the counting writer's constructor, Flush, Sync, Close and the cleanup closure",
		strings.Join(bad, "; ")+fmt.Sprintf(" (counting writer found: %v)", counter != nil || counterField >= 0))
	if counter == nil && counterField < 0 {
		return
	}
	// the reported size is Count() of that writer, read after the footer was written
	var footer ssa.CallInstruction
	for _, cs := range callSites(fn) {
		if f := staticCallee(cs); f != nil && namedFn(f, "persistFooter") {
			footer = cs
		}
	}
	if c.judged == nil || depth == 0 {
		c.judged = map[*ssa.Function]bool{}
	}
	judged := c.judged
	for _, ret := range returnsOf(fn) {
		_, ns := errorOfReturn(ret)
		if ns == nonNil {
			continue
		}
		if tail := r15bTail(c, props, ret, judged); tail != nil {
			c.add2(true, props, name+"/size-is-final-count", c.pos(ret), "the size reported on this exit is the one "+funcShortName(tail)+" reports, which creates and completes the file itself and is judged on its own", "")
			continue
		}
		okc := false
		why := "the size result is not Count() of the counting writer"
		if len(ret.Results) >= 2 {
			v := returnedValue(ret, 1)
			if cv, ok := v.(*ssa.Convert); ok {
				v = cv.X
			}
			if call, ok := v.(*ssa.Call); ok {
				if f := call.Call.StaticCallee(); f != nil && f.Name() == "Count" && len(call.Call.Args) > 0 && isCounter(call.Call.Args[0]) {
					if footer != nil && ((footer.Block() == call.Block() && instrIndex(footer) < instrIndex(call)) || (footer.Block() != call.Block() && footer.Block().Dominates(call.Block()))) {
						okc = true
					} else if footer != nil && footerOnEveryPathTo(fn, footer, call) {
						// `if err == nil { err = persistFooter(...) }; if err != nil { return }`
						okc = true
					} else {
						why = "Count() is read before the footer is written"
					}
				}
			}
		}
		c.add2(okc, props, name+"/size-is-final-count", c.pos(ret), "the size reported by a successful merge is the counting writer's count after the footer was written (= length of the file)", why)
	}
}

// footerOnEveryPathTo: on every feasible path to `at`, the footer call has run (errors folded into one
// variable are followed: a path on which an earlier step failed does not reach `at`).
func footerOnEveryPathTo(fn *ssa.Function, footer ssa.CallInstruction, at ssa.Instruction) bool {
	t := newErrTracker(fn, 1)
	pa := newPathAnalysis(fn, t.wrap(func(in ssa.Instruction, ev uint64, _ bool) []uint64 {
		if in == ssa.Instruction(footer) {
			return []uint64{ev | 1}
		}
		return nil
	}))
	pa.edgeTr = t.edgeTr
	pa.edge = t.edge
	pa.run(0)
	if pa.truncated || t.overflow {
		return false
	}
	states := pa.statesBefore(at)
	for _, ev := range states {
		if ev&1 == 0 {
			return false
		}
	}
	return len(states) > 0
}

// (c) sibling doc-value loaders
func r15c(c *RuleCtx) {
	props := []string{"C03", "C04"}
	a := c.method("SegmentBase", "loadDvReaders")
	b := c.method("Segment", "loadDvReaders")
	if a == nil || b == nil {
		return
	}
	type effects struct {
		numDocsGuard bool
		callsLoader  bool
		writesReader bool
		appendsNames bool
		funcs        []string
	}
	collect := func(fn *ssa.Function) effects {
		var e effects
		seen := map[*ssa.Function]bool{}
		var visit func(f *ssa.Function, depth int)
		visit = func(f *ssa.Function, depth int) {
			if seen[f] || depth > 2 || len(f.Blocks) == 0 {
				return
			}
			seen[f] = true
			e.funcs = append(e.funcs, funcShortName(f))
			eachInstr(f, func(bl *ssa.BasicBlock, in ssa.Instruction) {
				switch x := in.(type) {
				case *ssa.If:
					if bo, ok := x.Cond.(*ssa.BinOp); ok && bo.Op == token.EQL && depth == 0 {
						if k, ok := constUint64(bo.Y); ok && k == 0 && isLoadOfField(bo.X, "SegmentBase", "numDocs") {
							if _, ret := straightLineToReturn(bl.Succs[0]); ret != nil {
								e.numDocsGuard = true
							}
						}
					}
				case *ssa.MapUpdate:
					// fieldDvReaders[sec][field] = reader
					if u, ok := x.Map.(*ssa.UnOp); ok {
						if ia, ok := u.X.(*ssa.IndexAddr); ok && isLoadOfField(ia.X, "SegmentBase", "fieldDvReaders") {
							e.writesReader = true
						}
					}
				case *ssa.Store:
					if sn, fld, _, ok := fieldOf(x.Addr); ok && sn == "SegmentBase" && fld == "fieldDvNames" {
						e.appendsNames = true
					}
				case ssa.CallInstruction:
					callee := staticCallee(x)
					if callee == nil || !c.p.InZap(callee) {
						return
					}
					if namedFn(callee, "SegmentBase.loadFieldDocValueReader") {
						e.callsLoader = true
						return
					}
					if strings.HasPrefix(callee.Name(), "loadDv") || strings.HasPrefix(callee.Name(), "getSectionDv") || isNewHelper(c.p, callee) {
						visit(callee, depth+1)
					}
				}
			})
		}
		visit(fn, 0)
		sort.Strings(e.funcs)
		return e
	}
	ea, eb := collect(a), collect(b)
	cmp := func(name string, x, y bool) {
		c.add2(x && y, props, "loaders/"+name, c.fpos(b), "both doc-value loaders (in-memory and mmap) "+name,
			fmt.Sprintf("in-memory loader: %v, mmap loader: %v — the same bytes would give different doc-value readers depending on how the segment was obtained", x, y))
	}
	cmp("return early when the segment has no documents", ea.numDocsGuard, eb.numDocsGuard)
	cmp("build readers through loadFieldDocValueReader", ea.callsLoader, eb.callsLoader)
	cmp("register the reader in fieldDvReaders", ea.writesReader, eb.writesReader)
	cmp("record the field in fieldDvNames", ea.appendsNames, eb.appendsNames)
}

// ---------------------------------------------------------------------------
// R17

func isBoolParamNamed(v ssa.Value, name string) bool {
	p, ok := v.(*ssa.Parameter)
	return ok && canonParamName(p) == name && isBoolType(p)
}

func ruleR17() *Rule {
	return &Rule{
		ID:    "R17",
		Title: "BYTECOPY-GUARD: encoded bytes are copied from an input segment only when field ids cannot differ (and, for stored data, nothing is deleted)",
		Props: []string{"C05", "C06"},
		Floor: floorFor("R17"),
		Run: func(c *RuleCtx) {
			p := c.p
			// --- stored documents ---
			csd := c.method("SegmentBase", "copyStoredDocs")
			if csd != nil {
				n := 0
				var judge func(cs ssa.CallInstruction, depth int) (bool, bool)
				judge = func(cs ssa.CallInstruction, depth int) (bool, bool) {
					fn := cs.Parent()
					const (
						evFS = 1 << 0
						evDE = 1 << 1
					)
					// the receiver segment and its index
					var segIdx ssa.Value
					for _, a := range cs.Common().Args {
						if !isNamedPtr(a.Type(), "SegmentBase") || segIdx != nil {
							continue
						}
						if u, ok := root(a).(*ssa.UnOp); ok {
							if ia, ok := u.X.(*ssa.IndexAddr); ok {
								segIdx = ia.Index
							}
						}
					}
					isDropOfSeg := func(v ssa.Value) bool {
						u, ok := root(v).(*ssa.UnOp)
						if !ok {
							return false
						}
						ia, ok := u.X.(*ssa.IndexAddr)
						if !ok || !isBitmapPtr(u.Type()) {
							return false
						}
						return segIdx != nil && ia.Index == segIdx
					}
					pa := newPathAnalysis(fn, func(in ssa.Instruction, ev uint64, _ bool) []uint64 {
						// a new iteration picks a new drop bitmap
						if u, ok := in.(*ssa.UnOp); ok && isDropOfSeg(u) {
							return []uint64{ev &^ evDE}
						}
						return nil
					})
					condTr := func(cond ssa.Value, outcome bool, ev uint64, actual func(ssa.Value) ssa.Value) uint64 {
						if isBoolParamNamed(cond, "fieldsSame") {
							if outcome {
								return ev | evFS
							}
							return ev &^ evFS
						}
						if bo, ok := cond.(*ssa.BinOp); ok && bo.Op == token.EQL && outcome {
							if isNilConst(bo.Y) && isDropOfSeg(actual(bo.X)) {
								return ev | evDE
							}
							if k, ok := constUint64(bo.Y); ok && k == 0 {
								if call, ok := bo.X.(*ssa.Call); ok {
									if f := call.Call.StaticCallee(); f != nil && f.Name() == "GetCardinality" && isDropOfSeg(actual(call.Call.Args[0])) {
										return ev | evDE
									}
								}
							}
						}
						if call, ok := cond.(*ssa.Call); ok && outcome {
							if f := call.Call.StaticCallee(); f != nil && f.Name() == "IsEmpty" && isDropOfSeg(actual(call.Call.Args[0])) {
								return ev | evDE
							}
						}
						return ev
					}
					pa.condTr = condTr
					pa.edgeTr = func(pred *ssa.BasicBlock, succIdx int, ev uint64) uint64 {
						iff, ok := pred.Instrs[len(pred.Instrs)-1].(*ssa.If)
						if !ok {
							return ev
						}
						// (a predicate helper — `nothingDropped(dropsI)` — is read through its body)
						return pa.learn(iff.Cond, succIdx == 0, ev)
					}
					pa.run(0)
					fs, de := true, true
					for _, ev := range pa.statesBefore(cs) {
						if ev&evFS == 0 {
							fs = false
						}
						if ev&evDE == 0 {
							de = false
						}
					}
					if fs && de {
						return true, true
					}
					// a wrapper around the copy (`copyStoredDocsAndRemap`): an unexported method that copies its
					// own receiver's documents is guarded where it is called
					_, segIsParam := root(cs.Common().Args[0]).(*ssa.Parameter)
					if depth < 2 && fn.Object() != nil && !fn.Object().Exported() && len(fn.Params) > 0 &&
						len(cs.Common().Args) > 0 && segIsParam {
						fsAll, deAll, k := true, true, 0
						for _, cs2 := range p.callersOf(fn) {
							if !p.InZap(cs2.Parent()) {
								continue
							}
							k++
							f2, d2 := judge(cs2, depth+1)
							fsAll = fsAll && (fs || f2)
							deAll = deAll && (de || d2)
						}
						if k > 0 {
							return fsAll, deAll
						}
					}
					return fs, de
				}
				for _, cs := range p.callersOf(csd) {
					fn := cs.Parent()
					if !p.InZap(fn) {
						continue
					}
					n++
					fs, de := judge(cs, 0)
					c.add2(fs, []string{"C05"}, "copyStoredDocs/"+funcShortName(fn)+"/fields-same", c.pos(cs), "raw byte copy of stored documents happens only when all inputs have the same field list (fieldsSame)",
						"copyStoredDocs is reachable with fieldsSame false: stored field ids of the input would be copied into a segment that numbers fields differently", "call: "+describeInstr(p, cs))
					c.add2(de, []string{"C05"}, "copyStoredDocs/"+funcShortName(fn)+"/no-drops", c.pos(cs), "raw byte copy of stored documents happens only when that segment's drop bitmap is nil or empty",
						"copyStoredDocs is reachable while the segment has deleted documents: deleted documents would be carried into the merged segment and the renumbering would be wrong", "call: "+describeInstr(p, cs))
				}
				c.add2(n >= 1, []string{"C05"}, "copyStoredDocs/sites", "-", "call site of copyStoredDocs found", "none")
			}
			// --- posting details ---
			byCopy := c.fn("mergeTermFreqNormLocsByCopying")
			if byCopy != nil {
				n := 0
				for _, cs := range p.callersOf(byCopy) {
					fn := cs.Parent()
					if !p.InZap(fn) {
						continue
					}
					n++
					okc := false
					var fsParam *ssa.Parameter
					for b := cs.Block(); b != nil; b = b.Idom() {
						pb := b.Idom()
						if pb == nil {
							break
						}
						if len(b.Preds) != 1 || pb.Succs[0] != b {
							continue
						}
						if iff, ok := pb.Instrs[len(pb.Instrs)-1].(*ssa.If); ok && isBoolParamNamed(iff.Cond, "fieldsSame") {
							okc = true
							fsParam = iff.Cond.(*ssa.Parameter)
						}
					}
					if !okc {
						// a wider guard: fieldsSame, or the segments in focus number their fields exactly as the
						// merged list does (a recognised element-wise comparison with fn's field-list parameter)
						const (
							evFS = 1 << 0
							evEQ = 1 << 1
						)
						for _, prm := range fn.Params {
							if isBoolParamNamed(prm, "fieldsSame") {
								fsParam = prm
							}
						}
						pa := newPathAnalysis(fn, func(ssa.Instruction, uint64, bool) []uint64 { return nil })
						condTr := func(cond ssa.Value, outcome bool, ev uint64, _ func(ssa.Value) ssa.Value) uint64 {
							if isBoolParamNamed(cond, "fieldsSame") {
								if outcome {
									return ev | evFS
								}
								return ev
							}
							if outcome && r17EqualityCall(c, fn, cond) {
								return ev | evEQ
							}
							return ev
						}
						pa.condTr = condTr
						pa.edgeTr = func(pred *ssa.BasicBlock, succIdx int, ev uint64) uint64 {
							if succ := pred.Succs[succIdx]; succ.Dominates(pred) {
								// a new iteration decides anew unless the decision was taken outside the loop
								_ = succ
							}
							iff, ok := pred.Instrs[len(pred.Instrs)-1].(*ssa.If)
							if !ok {
								return ev
							}
							return condTr(iff.Cond, succIdx == 0, ev, func(v ssa.Value) ssa.Value { return v })
						}
						pa.run(0)
						states := pa.statesBefore(cs)
						okc = len(states) > 0 && !pa.truncated
						for _, ev := range states {
							if ev&(evFS|evEQ) == 0 {
								okc = false
							}
						}
					}
					c.add2(okc, []string{"C06"}, "byCopying/"+funcShortName(fn)+"/fields-same", c.pos(cs), "encoded freq/norm/location bytes are copied only under fieldsSame (locations carry field ids)",
						"mergeTermFreqNormLocsByCopying is reachable with fieldsSame false: location field ids of the input are copied verbatim into a segment that numbers fields differently", "call: "+describeInstr(p, cs))
					// provenance of that parameter: the value computed by mergeFields
					if fsParam != nil {
						c.add2(r17FieldsSameProvenance(c, fn, fsParam), []string{"C06"}, "byCopying/"+funcShortName(fn)+"/fields-same-provenance", c.fpos(fn),
							"the fieldsSame flag that selects byte copying is the one computed by mergeFields (through the merge opaque)", "the flag does not come from mergeFields")
					}
				}
				c.add2(n >= 1, []string{"C06"}, "byCopying/sites", "-", "call site of mergeTermFreqNormLocsByCopying found", "none")
			}
			// mergeFields computes fieldsSame: false as soon as one list differs (structure: a store of false
			// under a comparison of field names / lengths) — decided by R17b
			mf := c.fn("mergeFields")
			if mf != nil {
				r17MergeFields(c, mf)
			}
		},
	}
}

// r17FieldsSameProvenance follows param <- io.fieldsSame <- Set("fieldsSame") <- args["fieldsSame"] <- mergeFields().
func r17FieldsSameProvenance(c *RuleCtx, fn *ssa.Function, prm *ssa.Parameter) bool {
	p := c.p
	idx := -1
	for i, pp := range fn.Params {
		if pp == prm {
			idx = i
		}
	}
	okAll := true
	nCallers := 0
	for _, cs := range p.callersOf(fn) {
		if !p.InZap(cs.Parent()) {
			continue
		}
		nCallers++
		a := cs.Common().Args[idx]
		sn, fld, _, ok := loadedField(root(a))
		if !ok || fld != "fieldsSame" {
			okAll = false
			continue
		}
		// Set stores key "fieldsSame" into that field
		set := p.Method(sn, "Set")
		cov := map[string]string{}
		if set != nil {
			collectSetCases(set, sn, map[string]bool{"fieldsSame": true}, cov)
		}
		if cov["fieldsSame"] != "fieldsSame" {
			okAll = false
		}
	}
	// the args literal of the merge binds "fieldsSame" to mergeFields' first
	// result (directly in mergeToWriter, or in a helper that is handed it)
	var fromMergeFields func(v ssa.Value, depth int) bool
	fromMergeFields = func(v ssa.Value, depth int) bool {
		if depth > 3 {
			return false
		}
		switch x := root(v).(type) {
		case *ssa.Extract:
			if call, ok := x.Tuple.(*ssa.Call); ok {
				if f := call.Call.StaticCallee(); f != nil && namedFn(f, "mergeFields") && x.Index == 0 {
					return true
				}
			}
		case *ssa.Parameter:
			g := x.Parent()
			pi := -1
			for i, q := range g.Params {
				if q == x {
					pi = i
				}
			}
			sites := p.callersOf(g)
			if pi < 0 || len(sites) == 0 || g.Object() == nil || g.Object().Exported() {
				return false
			}
			for _, cs := range sites {
				if par := cs.Parent(); par.Synthetic != "" && len(p.callersOf(par)) == 0 {
					continue
				}
				args := cs.Common().Args
				if cs.Common().IsInvoke() || pi >= len(args) || !fromMergeFields(args[pi], depth+1) {
					return false
				}
			}
			return true
		}
		return false
	}
	bound, nBind := true, 0
	for _, g := range p.ZapFuncs {
		eachInstr(g, func(_ *ssa.BasicBlock, in ssa.Instruction) {
			mu, ok := in.(*ssa.MapUpdate)
			if !ok {
				return
			}
			if k, ok := constString(mu.Key); !ok || k != "fieldsSame" {
				return
			}
			nBind++
			if !fromMergeFields(mu.Value, 0) {
				bound = false
			}
		})
	}
	bound = bound && nBind >= 1
	return okAll && nCallers > 0 && bound
}

// ---------------------------------------------------------------------------
// R18

func ruleR18() *Rule {
	return &Rule{
		ID:    "R18",
		Title: "ADDR-WIRING: what a section's AddrForField reads is written on its build path and on its merge path",
		Props: []string{"C06", "C13", "C15"},
		Floor: floorFor("R18"),
		Run: func(c *RuleCtx) {
			p := c.p
			propOf := map[string][]string{"invertedTextIndexSection": {"C06"}, "synonymIndexSection": {"C13"}, "faissVectorIndexSection": {"C15"}}
			for _, impl := range p.sectionImpls() {
				tname := impl.typ.Obj().Name()
				props := propOf[tname]
				if props == nil {
					props = []string{"C06"}
				}
				afn := impl.methods["AddrForField"]
				if afn == nil {
					c.undecidedP(props, tname+"/AddrForField", "-", "AddrForField found", "missing")
					continue
				}
				// fields of opaque structs read by AddrForField
				type fld struct{ sn, f string }
				var reads []fld
				eachInstr(afn, func(_ *ssa.BasicBlock, in ssa.Instruction) {
					if u, ok := in.(*ssa.UnOp); ok {
						if sn, f, _, ok := loadedField(u); ok && strings.HasSuffix(sn, "Opaque") {
							reads = append(reads, fld{sn, f})
						}
					}
				})
				if len(reads) == 0 {
					c.undecidedP(props, tname+"/reads", c.fpos(afn), "AddrForField reads fields of its opaque", "no opaque field read")
					continue
				}
				seen := map[fld]bool{}
				for _, rd := range reads {
					if seen[rd] {
						continue
					}
					seen[rd] = true
					writtenIn := func(roots ...*ssa.Function) (bool, string) {
						reach := map[*ssa.Function]bool{}
						for _, r := range roots {
							if r == nil {
								continue
							}
							for f := range p.reachableFrom(r) {
								reach[f] = true
							}
						}
						var names []string
						for f := range reach {
							if !p.InZap(f) {
								continue
							}
							w := false
							eachInstr(f, func(_ *ssa.BasicBlock, in ssa.Instruction) {
								switch x := in.(type) {
								case *ssa.Store:
									if sn, ff, _, ok := fieldOf(x.Addr); ok && sn == rd.sn && ff == rd.f && !isNilConst(x.Val) {
										// a fresh empty map does not count as "the address was recorded"
										if _, isMake := x.Val.(*ssa.MakeMap); !isMake {
											w = true
										}
									}
								case *ssa.MapUpdate:
									if sn, ff, _, ok := loadedField(x.Map); ok && sn == rd.sn && ff == rd.f {
										w = true
									}
								}
							})
							if w {
								names = append(names, funcShortName(f))
							}
						}
						sort.Strings(names)
						return len(names) > 0, strings.Join(names, ",")
					}
					okB, inB := writtenIn(impl.methods["Persist"], impl.methods["Process"])
					okM, inM := writtenIn(impl.methods["Merge"])
					c.add(statusOf(okB), tname+"/"+rd.f+"/build", c.fpos(afn), fmt.Sprintf("%s.%s (read by %s.AddrForField) is recorded on the build path (%s)", rd.sn, rd.f, tname, inB),
						"nothing reachable from Process/Persist records it: the field table of a built segment would carry address 0 for this section", props, nil)
					c.add(statusOf(okM), tname+"/"+rd.f+"/merge", c.fpos(afn), fmt.Sprintf("%s.%s (read by %s.AddrForField) is recorded on the merge path (%s)", rd.sn, rd.f, tname, inM),
						"nothing reachable from Merge records it: the merged segment's field table would carry address 0 (or a stale address) for this section — the merged section data is unreachable", props, nil)
				}
			}
			// vector extra: no section address when nothing survived
			if p.Cfg.Vectors {
				r18VectorAddress(c)
			}
		},
	}
}

// r18VectorAddress: on the merge path the address of a field's vector section is recorded only when at
// least one vector survived. The store may sit in the routine that writes the section's metadata (guarded
// by the non-empty id->doc table, as on the pinned tree) or in its caller (guarded by the table, or by
// "the writer's count moved since the section started" — which says the same when every routine that was
// handed the writer and the table in between writes nothing for an empty table; that is checked too).
func r18VectorAddress(c *RuleCtx) {
	p := c.p
	props := []string{"C15"}
	merge := p.Method("faissVectorIndexSection", "Merge")
	if merge == nil {
		c.undecidedP(props, "vector/address-record", "-", "faissVectorIndexSection.Merge is found", "not found")
		return
	}
	isIDTable := func(t types.Type) bool {
		m, ok := t.Underlying().(*types.Map)
		if !ok {
			return false
		}
		k, ok1 := m.Key().Underlying().(*types.Basic)
		e, ok2 := m.Elem().Underlying().(*types.Basic)
		return ok1 && ok2 && k.Kind() == types.Int64 && e.Kind() == types.Uint64
	}
	const evNonEmpty = 1
	isCount := func(v ssa.Value) (ssa.Value, bool) {
		if cv, ok := v.(*ssa.Convert); ok {
			v = cv.X
		}
		call, ok := v.(*ssa.Call)
		if !ok {
			return nil, false
		}
		f := call.Call.StaticCallee()
		if f == nil || f.Name() != "Count" || len(call.Call.Args) != 1 {
			return nil, false
		}
		return call.Call.Args[0], true
	}
	analyse := func(fn *ssa.Function) *pathAnalysis {
		pa := newPathAnalysis(fn, func(ssa.Instruction, uint64, bool) []uint64 { return nil })
		pa.edgeTr = func(pred *ssa.BasicBlock, succIdx int, ev uint64) uint64 {
			iff, ok := pred.Instrs[len(pred.Instrs)-1].(*ssa.If)
			if !ok {
				return ev
			}
			bo, ok := iff.Cond.(*ssa.BinOp)
			if !ok {
				return ev
			}
			taken := succIdx == 0
			// len(table) compared with a constant
			if call, ok := bo.X.(*ssa.Call); ok {
				if b, ok := call.Call.Value.(*ssa.Builtin); ok && b.Name() == "len" && isIDTable(call.Call.Args[0].Type()) {
					if k, ok := constInt64(bo.Y); ok {
						t0, _ := cmpInt(bo.Op, 0, k)
						t1, _ := cmpInt(bo.Op, 1, k)
						if t0 != t1 && (t1 == taken) && (t0 != taken) {
							return ev | evNonEmpty
						}
					}
					return ev
				}
			}
			// the writer's count now against its count at the start of the section
			wx, okx := isCount(bo.X)
			wy, oky := isCount(bo.Y)
			if !okx {
				wx, okx = isCount(resolveLoad(bo.X))
			}
			if !oky {
				wy, oky = isCount(resolveLoad(bo.Y))
			}
			if okx && oky && sameValue(wx, wy) {
				moved := false
				switch bo.Op {
				case token.GTR, token.NEQ:
					moved = taken
				case token.LEQ, token.EQL:
					moved = !taken
				case token.LSS:
					moved = taken // start < now
				case token.GEQ:
					moved = !taken
				}
				if moved {
					return ev | evNonEmpty
				}
			}
			return ev
		}
		pa.run(0)
		return pa
	}
	reach := p.reachableFrom(merge)
	n := 0
	var fns []*ssa.Function
	for fn := range reach {
		if p.InZap(fn) {
			fns = append(fns, fn)
		}
	}
	sort.Slice(fns, func(i, j int) bool { return fns[i].String() < fns[j].String() })
	for _, fn := range fns {
		var pa *pathAnalysis
		usesCount := false
		eachInstr(fn, func(_ *ssa.BasicBlock, in ssa.Instruction) {
			mu, ok := in.(*ssa.MapUpdate)
			if !ok {
				return
			}
			if sn, f, _, ok := loadedField(mu.Map); !ok || sn != "vectorIndexOpaque" || f != "fieldAddrs" {
				return
			}
			if pa == nil {
				pa = analyse(fn)
			}
			n++
			okc := true
			for _, ev := range pa.statesBefore(mu) {
				if ev&evNonEmpty == 0 {
					okc = false
				}
			}
			usesCount = true
			if !okc && fn != merge {
				// the guard may sit in the callers (a writer shared with the build path, where a field always
				// has vectors): every call on the merge path is made with the table known to be non-empty
				nc, guarded := 0, true
				for _, cs := range p.callersOf(fn) {
					if !reach[cs.Parent()] && cs.Parent() != merge {
						continue
					}
					nc++
					cpa := analyse(cs.Parent())
					for _, ev := range cpa.statesBefore(cs) {
						if ev&evNonEmpty == 0 {
							guarded = false
						}
					}
				}
				if nc > 0 && guarded {
					okc = true
				}
			}
			c.add(statusOf(okc), "vector/no-address-when-nothing-survives", c.pos(mu), "the merged vector section address is recorded only when at least one vector survived (non-empty id->doc table, or bytes were written for the section)",
				"the section address is recorded although no vector survived: a field all of whose vectors were deleted would carry a vector index", props, nil)
		})
		if !usesCount {
			continue
		}
		// the routines handed the writer and the table write nothing for an empty table
		for _, cs := range callSites(fn) {
			callee := staticCallee(cs)
			if callee == nil || !p.InZap(callee) || len(callee.Blocks) == 0 || callee == fn {
				continue
			}
			hasTable := false
			for _, a := range cs.Common().Args {
				if isIDTable(a.Type()) {
					hasTable = true
				}
			}
			if !hasTable {
				continue
			}
			// called only after the table was found non-empty here: nothing to ask of the callee
			if pa != nil {
				guardedHere := len(pa.statesBefore(cs)) > 0
				for _, ev := range pa.statesBefore(cs) {
					if ev&evNonEmpty == 0 {
						guardedHere = false
					}
				}
				if guardedHere {
					continue
				}
			}
			cpa := analyse(callee)
			okw := true
			for _, cs2 := range callSites(callee) {
				f2 := staticCallee(cs2)
				if f2 == nil || f2.Name() != "Write" {
					continue
				}
				for _, ev := range cpa.statesBefore(cs2) {
					if ev&evNonEmpty == 0 {
						okw = false
					}
				}
			}
			c.add(statusOf(okw), "vector/nothing-written-when-nothing-survives/"+funcShortName(callee), c.pos(cs), funcShortName(callee)+" writes to the output only after finding the id->doc table non-empty",
				"bytes can be written for a field none of whose vectors survived", props, nil)
		}
	}
	if n == 0 {
		c.undecidedP(props, "vector/address-record", c.fpos(merge), "the store of the merged vector section address is found", "no store to vectorIndexOpaque.fieldAddrs is reachable from faissVectorIndexSection.Merge")
	}
}

// ---------------------------------------------------------------------------
// R24

const sentinelAllOnes = ^uint64(0)

func isSentinelConst(v ssa.Value) bool {
	k, ok := constUint64(v)
	return ok && k == sentinelAllOnes
}

// structEq: two values are computed by structurally identical expressions
// over the same leaves (go/ssa does no CSE).
func structEq(a, b ssa.Value, depth int) bool {
	if a == b {
		return true
	}
	if depth > 6 || a == nil || b == nil {
		return false
	}
	ra, rb := root(a), root(b)
	if ra == rb {
		return true
	}
	switch x := ra.(type) {
	case *ssa.UnOp:
		y, ok := rb.(*ssa.UnOp)
		return ok && x.Op == y.Op && structEq(x.X, y.X, depth+1)
	case *ssa.IndexAddr:
		y, ok := rb.(*ssa.IndexAddr)
		return ok && structEq(x.X, y.X, depth+1) && structEq(x.Index, y.Index, depth+1)
	case *ssa.Convert:
		y, ok := rb.(*ssa.Convert)
		return ok && types.Identical(x.Type(), y.Type()) && structEq(x.X, y.X, depth+1)
	case *ssa.FieldAddr:
		y, ok := rb.(*ssa.FieldAddr)
		return ok && x.Field == y.Field && structEq(x.X, y.X, depth+1)
	case *ssa.Field:
		y, ok := rb.(*ssa.Field)
		return ok && x.Field == y.Field && structEq(x.X, y.X, depth+1)
	case *ssa.Const:
		y, ok := rb.(*ssa.Const)
		return ok && x.Value != nil && y.Value != nil && x.Value.ExactString() == y.Value.ExactString()
	case *ssa.FreeVar:
		return false
	}
	return false
}

// docNumTableElem: v is a load of an element of a renumbering table (a
// []uint64 reached from a parameter / captured variable whose name contains
// "DocNums").
func docNumTableElem(v ssa.Value) (*ssa.IndexAddr, bool) {
	u, ok := v.(*ssa.UnOp)
	if !ok || u.Op != token.MUL {
		return nil, false
	}
	ia, ok := u.X.(*ssa.IndexAddr)
	if !ok {
		return nil, false
	}
	if b, ok := u.Type().Underlying().(*types.Basic); !ok || b.Kind() != types.Uint64 {
		return nil, false
	}
	// walk to the origin of the table
	x := ia.X
	for i := 0; i < 6; i++ {
		switch y := x.(type) {
		case *ssa.Parameter:
			return ia, isRenumberingName(canonParamName(y))
		case *ssa.FreeVar:
			// a captured parameter answers to its pinned name
			if b := freeVarBinding(y); b != nil {
				if al, ok := b.(*ssa.Alloc); ok {
					for _, st := range cellStores(al) {
						if prm, ok := st.Val.(*ssa.Parameter); ok {
							return ia, isRenumberingName(canonParamName(prm))
						}
					}
				}
			}
			return ia, isRenumberingName(y.Name())
		case *ssa.Alloc:
			for _, st := range cellStores(y) {
				if prm, ok := st.Val.(*ssa.Parameter); ok {
					return ia, isRenumberingName(canonParamName(prm))
				}
			}
			return ia, isRenumberingName(y.Comment)
		case *ssa.UnOp:
			if y.Op != token.MUL {
				return nil, false
			}
			switch z := y.X.(type) {
			case *ssa.IndexAddr:
				x = z.X
			case *ssa.Alloc, *ssa.FreeVar:
				x = z
			default:
				return nil, false
			}
		case *ssa.Phi:
			return ia, isRenumberingName(y.Comment)
		default:
			return nil, false
		}
	}
	return nil, false
}

func ruleR24() *Rule {
	return &Rule{
		ID:    "R24",
		Title: "DROPPED-SENTINEL: dropped documents get the sentinel and nothing else; every consumer of the renumbering tests the sentinel before using a number",
		Props: []string{"C05", "C06", "C13", "C15"},
		Floor: floorFor("R24"),
		Run: func(c *RuleCtx) {
			p := c.p
			r24Writer(c)
			propOfFn := func(fn *ssa.Function) []string {
				n := funcShortName(rootParent(fn))
				switch {
				case strings.Contains(n, "Synonym"):
					return []string{"C13"}
				case strings.Contains(n, "faiss") || strings.Contains(n, "vector"):
					return []string{"C15"}
				case strings.Contains(n, "mergeStoredAndRemap"):
					return []string{"C05"}
				}
				return []string{"C06"}
			}
			counts := map[string]int{}
			total := 0
			readerFns := map[string]bool{}
			for _, fn := range p.ZapFuncs {
				if namedFn(fn, "mergeStoredAndRemap") {
					continue
				}
				eachInstr(fn, func(_ *ssa.BasicBlock, in ssa.Instruction) {
					u, ok := in.(*ssa.UnOp)
					if !ok {
						return
					}
					ia, isTab := docNumTableElem(u)
					if !isTab {
						return
					}
					total++
					fname := funcShortName(fn)
					readerFns[funcShortName(rootParent(fn))] = true
					counts[fname]++
					key := fmt.Sprintf("reader/%s#%d", fname, counts[fname])
					// all sentinel comparisons in this function on a structurally equal element
					type guard struct {
						survivor *ssa.BasicBlock
					}
					var guards []guard
					eachInstr(fn, func(b *ssa.BasicBlock, in2 ssa.Instruction) {
						iff, ok := in2.(*ssa.If)
						if !ok {
							return
						}
						bo, ok := iff.Cond.(*ssa.BinOp)
						if !ok || (bo.Op != token.EQL && bo.Op != token.NEQ) {
							return
						}
						var other ssa.Value
						if isSentinelConst(bo.Y) {
							other = bo.X
						} else if isSentinelConst(bo.X) {
							other = bo.Y
						} else {
							return
						}
						ou, ok := other.(*ssa.UnOp)
						if !ok {
							return
						}
						oia, ok := ou.X.(*ssa.IndexAddr)
						if !ok {
							return
						}
						if ou != u && !(structEq(oia.X, ia.X, 0) && structEq(oia.Index, ia.Index, 0)) {
							return
						}
						surv := b.Succs[1] // `== sentinel`: false edge survives
						if bo.Op == token.NEQ {
							surv = b.Succs[0]
						}
						if len(surv.Preds) == 1 {
							guards = append(guards, guard{surv})
						}
					})
					// the other way of knowing that a document survives: the segment's drops bitmap (same
					// position in the parallel table, same document) does not contain it, or there is none
					type cguard struct{ head, dropped *ssa.BasicBlock }
					var cguards []cguard
					if outer, ok := ia.X.(*ssa.UnOp); ok {
						if oia, ok := outer.X.(*ssa.IndexAddr); ok {
							eachInstr(fn, func(b *ssa.BasicBlock, in2 ssa.Instruction) {
								iff, ok := in2.(*ssa.If)
								if !ok {
									return
								}
								call, ok := iff.Cond.(*ssa.Call)
								if !ok || len(call.Call.Args) != 2 {
									return
								}
								f := call.Call.StaticCallee()
								if f == nil || f.Name() != "Contains" || f.Pkg == nil || !strings.Contains(f.Pkg.Pkg.Path(), "roaring") {
									return
								}
								bm, ok := call.Call.Args[0].(*ssa.UnOp)
								if !ok {
									return
								}
								bia, ok := bm.X.(*ssa.IndexAddr)
								if !ok || !structEq(bia.Index, oia.Index, 0) || !structEq(stripConv(call.Call.Args[1]), stripConv(ia.Index), 0) {
									return
								}
								head := b
								// `drops[i] != nil && drops[i].Contains(d)`: the nil test is the head
								if len(b.Preds) == 1 {
									if piff, ok := b.Preds[0].Instrs[len(b.Preds[0].Instrs)-1].(*ssa.If); ok {
										if pbo, ok := piff.Cond.(*ssa.BinOp); ok && pbo.Op == token.NEQ && (isNilConst(pbo.X) || isNilConst(pbo.Y)) && b.Preds[0].Succs[0] == b {
											nx := pbo.X
											if isNilConst(nx) {
												nx = pbo.Y
											}
											if nu, ok := nx.(*ssa.UnOp); ok {
												if nia, ok := nu.X.(*ssa.IndexAddr); ok && structEq(nia.X, bia.X, 0) && structEq(nia.Index, bia.Index, 0) {
													head = b.Preds[0]
												}
											}
										}
									}
								}
								cguards = append(cguards, cguard{head, b.Succs[0]})
							})
						}
					}
					guarded := func(b *ssa.BasicBlock) bool {
						for _, g := range guards {
							if g.survivor == b || g.survivor.Dominates(b) {
								return true
							}
						}
						for _, g := range cguards {
							if !(g.head.Dominates(b)) || b == g.head {
								continue
							}
							// not reachable from the "contained" side without coming back to the test
							seen := map[*ssa.BasicBlock]bool{g.head: true}
							work := []*ssa.BasicBlock{g.dropped}
							hit := false
							for len(work) > 0 {
								x := work[len(work)-1]
								work = work[:len(work)-1]
								if seen[x] {
									continue
								}
								seen[x] = true
								if x == b {
									hit = true
									break
								}
								work = append(work, x.Succs...)
							}
							if !hit {
								return true
							}
						}
						return false
					}
					okc := true
					var w []string
					for _, r := range *u.Referrers() {
						switch x := r.(type) {
						case *ssa.DebugRef:
							continue
						case *ssa.BinOp:
							if (x.Op == token.EQL || x.Op == token.NEQ) && (isSentinelConst(x.X) || isSentinelConst(x.Y)) {
								continue // the test itself
							}
							if x.Op == token.EQL || x.Op == token.NEQ {
								continue // compared for equality with something: a check, not a use as a document number
							}
							if !guarded(x.Block()) {
								okc = false
								w = append(w, "unguarded use: "+describeInstr(p, x))
							}
						case *ssa.Phi:
							for i, e := range x.Edges {
								if e == ssa.Value(u) && !guarded(x.Block().Preds[i]) {
									okc = false
									w = append(w, "unguarded use (phi): "+describeInstr(p, x))
								}
							}
						default:
							if _, isMI := r.(*ssa.MakeInterface); isMI && failingContext(p, r, 0) {
								continue // formatted into the message of an error that is being returned
							}
							if !guarded(r.Block()) {
								okc = false
								w = append(w, "unguarded use: "+describeInstr(p, r))
							}
						}
					}
					c.add(statusOf(okc), key, c.pos(u), "a remapped document number read in "+fname+" is used only where a comparison of that element with the drop sentinel has been passed on the survivor edge",
						"a number taken from the renumbering table is used without testing it against docDropped (2^64-1): data of deleted documents would be filed under document 4294967295 / 2^64-1 in the merged segment", propOfFn(fn), w)
				})
			}
			want := 4
			if p.Cfg.Vectors {
				want = 5
			}
			c.check(len(readerFns) >= half(want), "reader/sites", "-", fmt.Sprintf("functions reading the renumbering tables are found (confirmed by hand: %d; %d reads)", want, total), fmt.Sprintf("found %d functions", len(readerFns)))
		},
	}
}

// r24Writer: in mergeStoredAndRemap the branch taken for a dropped document
// stores the sentinel and writes nothing.
func r24Writer(c *RuleCtx) {
	props := []string{"C05"}
	top := c.fn("mergeStoredAndRemap")
	if top == nil {
		return
	}
	// the per-document loop may live in a step the routine was split into: the routine itself, or the one
	// of its helpers (two levels) that stores the sentinel into a table
	fn := top
	storesSentinelIn := func(f *ssa.Function) bool {
		found := false
		eachInstr(f, func(_ *ssa.BasicBlock, in ssa.Instruction) {
			if st, ok := in.(*ssa.Store); ok && isSentinelConst(st.Val) {
				if _, ok := st.Addr.(*ssa.IndexAddr); ok {
					found = true
				}
			}
		})
		return found
	}
	if !storesSentinelIn(top) {
		for _, h := range withHelpers(c.p, top) {
			if h != top && storesSentinelIn(h) {
				fn = h
				break
			}
		}
	}
	mayWrite := c.p.mayWriteFuncs()
	var dropIf *ssa.If
	var dropBlock *ssa.BasicBlock
	eachInstr(fn, func(b *ssa.BasicBlock, in ssa.Instruction) {
		iff, ok := in.(*ssa.If)
		if !ok {
			return
		}
		call, ok := iff.Cond.(*ssa.Call)
		if !ok {
			return
		}
		if f := call.Call.StaticCallee(); f != nil && f.Name() == "Contains" && isBitmapPtr(call.Call.Args[0].Type()) {
			dropIf = iff
			dropBlock = b.Succs[0]
		}
		// the test written as a predicate of package zap over the bitmap
		// (`docIsDropped(drops, docNum)`): bool result, Contains on its bitmap parameter
		if f := predicateCallee(call); f != nil && c.p.InZap(f) && len(f.Blocks) > 0 {
			for _, cs := range callSites(f) {
				g := staticCallee(cs)
				if g == nil || g.Name() != "Contains" || len(cs.Common().Args) == 0 || !isBitmapPtr(cs.Common().Args[0].Type()) {
					continue
				}
				if _, isParam := root(cs.Common().Args[0]).(*ssa.Parameter); isParam {
					dropIf = iff
					dropBlock = b.Succs[0]
				}
			}
		}
	})
	if dropIf == nil {
		// the test written another way (a cursor over the bitmap's iterator kept in step with the document
		// loop): the branch under which the sentinel is stored, provided its condition is computed from
		// the deletion bitmap
		eachInstr(fn, func(b *ssa.BasicBlock, in ssa.Instruction) {
			st, ok := in.(*ssa.Store)
			if !ok || !isSentinelConst(st.Val) || dropIf != nil {
				return
			}
			ia, ok := st.Addr.(*ssa.IndexAddr)
			if !ok {
				return
			}
			if _, isSl := ia.X.Type().Underlying().(*types.Slice); !isSl {
				return
			}
			for x := b; x != nil; x = x.Idom() {
				if len(x.Preds) != 1 {
					continue
				}
				pb := x.Preds[0]
				iff, ok := pb.Instrs[len(pb.Instrs)-1].(*ssa.If)
				if !ok || len(pb.Succs) != 2 || pb.Succs[0] == pb.Succs[1] {
					continue
				}
				if dependsOnBitmap(iff.Cond, 0, map[ssa.Value]bool{}) {
					dropIf, dropBlock = iff, x
				}
				break
			}
		})
	}
	if dropIf == nil {
		c.undecidedP(props, "writer/drop-test", c.fpos(fn), "the test `drop bitmap contains this document` is found in mergeStoredAndRemap", "no Contains() branch found")
		return
	}
	// blocks executed only for dropped documents: dominated by dropBlock
	storesSentinel := false
	writes := ""
	storesOther := ""
	for _, b := range fn.Blocks {
		if b != dropBlock && !dropBlock.Dominates(b) {
			continue
		}
		if len(dropBlock.Preds) != 1 {
			continue
		}
		for _, in := range b.Instrs {
			switch x := in.(type) {
			case *ssa.Store:
				if ia, ok := x.Addr.(*ssa.IndexAddr); ok {
					if _, isU64 := ia.X.Type().Underlying().(*types.Slice); isU64 {
						if isSentinelConst(x.Val) {
							storesSentinel = true
						} else {
							storesOther = describeInstr(c.p, in)
						}
					}
				}
			case ssa.CallInstruction:
				for _, f := range c.p.calleesAt(x) {
					if mayWrite[f] {
						writes = describeInstr(c.p, in)
					}
				}
			}
		}
	}
	c.add2(storesSentinel && storesOther == "", props, "writer/sentinel-stored", c.pos(dropIf), "for a dropped document the renumbering table receives the sentinel docDropped (and nothing else)",
		fmt.Sprintf("sentinel stored: %v; other store: %s", storesSentinel, storesOther))
	c.add2(writes == "", props, "writer/dropped-writes-nothing", c.pos(dropIf), "nothing is written to the output for a dropped document", "a writing call runs on the dropped-document branch: "+writes)
	// the survivor path stores the running new number
	survivorStore := false
	eachInstr(fn, func(b *ssa.BasicBlock, in ssa.Instruction) {
		st, ok := in.(*ssa.Store)
		if !ok {
			return
		}
		if _, ok := st.Addr.(*ssa.IndexAddr); !ok {
			return
		}
		// the running counter: a loop-carried value that is incremented by one
		if ph, ok := st.Val.(*ssa.Phi); ok && isRunningCounter(ph) && !dropBlock.Dominates(b) && b != dropBlock {
			survivorStore = true
		}
		// the running counter kept in a field of the object the step is a method of (`m.newDocNum`,
		// incremented by one in this very function)
		if u, ok := st.Val.(*ssa.UnOp); ok && u.Op == token.MUL && !dropBlock.Dominates(b) && b != dropBlock {
			if fa, ok := u.X.(*ssa.FieldAddr); ok && fieldIncrementedByOne(fn, fa) {
				survivorStore = true
			}
		}
	})
	c.add2(survivorStore, props, "writer/survivor-number", c.fpos(fn), "for a surviving document the table receives the running new document number", "no store of the running counter into the renumbering table found outside the dropped branch")
}

// isRunningCounter: ph is a variable that some path around a loop increments
// by the constant one (x++ / x += 1), possibly merged through other phis.
func isRunningCounter(ph *ssa.Phi) bool {
	seen := map[*ssa.Phi]bool{}
	var visit func(p *ssa.Phi, depth int) bool
	visit = func(p *ssa.Phi, depth int) bool {
		if seen[p] || depth > 4 {
			return false
		}
		seen[p] = true
		for _, e := range p.Edges {
			switch x := e.(type) {
			case *ssa.BinOp:
				if x.Op != token.ADD {
					continue
				}
				k, ok := constUint64(x.Y)
				if !ok || k != 1 {
					continue
				}
				if q, ok := x.X.(*ssa.Phi); ok && (q == ph || seen[q] || visit(q, depth+1)) {
					return true
				}
			case *ssa.Phi:
				if visit(x, depth+1) {
					return true
				}
			}
		}
		return false
	}
	return visit(ph, 0)
}

func instrIndex(in ssa.Instruction) int {
	for i, x := range in.Block().Instrs {
		if x == in {
			return i
		}
	}
	return -1
}

// r17MergeFields: fieldsSame becomes false whenever a field list differs from
// the first segment's — i.e. the assignment of false is controlled only by
// comparisons between the two field lists (and the loops over them). Any other
// conjunct restricts when a difference is noticed.
func r17MergeFields(c *RuleCtx, mf *ssa.Function) {
	props := []string{"C05", "C06"}
	p := c.p
	var isList func(v ssa.Value, depth int) bool
	isList = func(v ssa.Value, depth int) bool {
		if depth > 4 || v == nil {
			return false
		}
		switch x := v.(type) {
		case *ssa.Call:
			if f := x.Call.StaticCallee(); f != nil && f.Name() == "Fields" {
				return true
			}
		case *ssa.UnOp:
			if _, fld, _, ok := loadedField(x); ok && fld == "fieldsInv" {
				return true
			}
		case *ssa.Phi:
			any := false
			for _, e := range x.Edges {
				if isNilConst(e) || e == ssa.Value(x) {
					continue
				}
				if !isList(e, depth+1) {
					return false
				}
				any = true
			}
			return any
		}
		return false
	}
	fromList := func(v ssa.Value) bool {
		switch x := v.(type) {
		case *ssa.Call:
			if b, ok := x.Call.Value.(*ssa.Builtin); ok && b.Name() == "len" {
				return isList(x.Call.Args[0], 0)
			}
		case *ssa.UnOp:
			if x.Op == token.MUL {
				if ia, ok := x.X.(*ssa.IndexAddr); ok {
					return isList(ia.X, 0)
				}
			}
		}
		return false
	}
	// the returned flag
	var flag *ssa.Phi
	for _, ret := range returnsOf(mf) {
		if len(ret.Results) > 0 && isBoolType(ret.Results[0]) {
			flag, _ = ret.Results[0].(*ssa.Phi)
		}
	}
	if flag == nil {
		c.undecidedP(props, "mergeFields/computed", c.fpos(mf), "mergeFields computes fieldsSame as a flag that starts true and is cleared on a difference", "the first result is not a phi of constants: idiom not recognised")
		return
	}
	// all phis of the flag web, and the blocks from which `false` enters
	web := map[*ssa.Phi]bool{}
	var falseFrom []*ssa.BasicBlock
	startsTrue := false
	helperCompared := false
	var walk func(ph *ssa.Phi)
	walk = func(ph *ssa.Phi) {
		if web[ph] {
			return
		}
		web[ph] = true
		for i, e := range ph.Edges {
			if b, ok := constBool(e); ok {
				if b {
					startsTrue = true
				} else {
					falseFrom = append(falseFrom, ph.Block().Preds[i])
				}
				continue
			}
			if p2, ok := e.(*ssa.Phi); ok {
				walk(p2)
				continue
			}
			// `fieldsSame = fieldsSame && sameFieldList(first, fields)`: the flag takes the answer of a list
			// comparison where it was still true — a clearing site controlled by that comparison
			if call, ok := e.(*ssa.Call); ok && len(call.Call.Args) == 2 && isList(call.Call.Args[0], 0) && isList(call.Call.Args[1], 0) && listEqualityHelper(call.Call.StaticCallee()) {
				pred := ph.Block().Preds[i]
				for _, d := range controlDeps(mf)[pred] {
					if c2, ok := branchCond(d.Branch).(*ssa.Phi); ok && (web[c2] || c2 == ph) && d.Branch.Succs[0] == pred {
						falseFrom = append(falseFrom, pred)
						helperCompared = true
					}
				}
			}
		}
	}
	walk(flag)
	c.add2(startsTrue && len(falseFrom) > 0, props, "mergeFields/computed", c.fpos(mf), "mergeFields computes fieldsSame: it starts true and is cleared somewhere", fmt.Sprintf("starts true: %v, cleared at %d places", startsTrue, len(falseFrom)))
	deps := transitiveControlDeps(mf)
	var bad []string
	sawLen, sawElem := helperCompared, helperCompared
	// Second form (segments that contribute no document are left out of the comparison): conditions on
	// the liveness of a segment (its document count, its drops bitmap) may then decide whether a
	// difference is looked at — provided that the function also clears the flag when the merged set of
	// fields is not the size of the reference list (a left-out segment may still bring in a field).
	isUnion := func(v ssa.Value) bool {
		if isList(v, 0) {
			return false
		}
		switch t := v.Type().Underlying().(type) {
		case *types.Map:
			b, ok := t.Key().Underlying().(*types.Basic)
			return ok && b.Kind() == types.String
		case *types.Slice:
			b, ok := t.Elem().Underlying().(*types.Basic)
			return ok && b.Kind() == types.String
		}
		return false
	}
	lenOf := func(v ssa.Value) ssa.Value {
		if call, ok := v.(*ssa.Call); ok {
			if b, ok := call.Call.Value.(*ssa.Builtin); ok && b.Name() == "len" {
				return call.Call.Args[0]
			}
		}
		return nil
	}
	unionCheck := false
	for _, b := range falseFrom {
		for _, d := range deps[b] {
			if bo, ok := branchCond(d.Branch).(*ssa.BinOp); ok && (bo.Op == token.NEQ || bo.Op == token.EQL) {
				x, y := lenOf(bo.X), lenOf(bo.Y)
				if x != nil && y != nil && ((isUnion(x) && isList(y, 0)) || (isUnion(y) && isList(x, 0))) {
					unionCheck = true
				}
			}
		}
	}
	for _, b := range falseFrom {
		for _, d := range deps[b] {
			cond := branchCond(d.Branch)
			if ph, ok := cond.(*ssa.Phi); ok && web[ph] {
				continue // `if fieldsSame && ...`: testing the flag itself restricts nothing that matters
			}
			if unionCheck && (r17LivenessOnly(p, cond, 0, map[ssa.Value]bool{}) || r17UnionCompare(cond, isUnion, func(v ssa.Value) bool { return isList(v, 0) }, lenOf)) {
				continue
			}
			bo, ok := cond.(*ssa.BinOp)
			if !ok {
				if call, ok := cond.(*ssa.Call); ok && len(call.Call.Args) == 2 && isList(call.Call.Args[0], 0) && isList(call.Call.Args[1], 0) && listEqualityHelper(call.Call.StaticCallee()) {
					sawLen, sawElem = true, true
					continue // an equality helper over both lists
				}
				if u, ok := cond.(*ssa.UnOp); ok && u.Op == token.NOT {
					if call, ok := u.X.(*ssa.Call); ok && len(call.Call.Args) == 2 && isList(call.Call.Args[0], 0) && isList(call.Call.Args[1], 0) && listEqualityHelper(call.Call.StaticCallee()) {
						sawLen, sawElem = true, true
						continue
					}
				}
				bad = append(bad, "clearing the flag also depends on "+describeInstr(p, d.Branch.Instrs[len(d.Branch.Instrs)-1]))
				continue
			}
			// loop conditions
			if bo.Op == token.LSS {
				if _, isPhiIdx := rangeIndexOf(bo.X); isPhiIdx {
					continue
				}
			}
			// "not the first segment" (`segI > 0`): the first segment is the reference itself
			if ph, isPhiIdx := rangeIndexOf(bo.X); isPhiIdx && ph != nil && ph.Comment == "rangeindex" {
				if k, isK := constInt64(bo.Y); isK && k == 0 && (bo.Op == token.GTR || bo.Op == token.NEQ || bo.Op == token.EQL) {
					continue
				}
			}
			if (bo.Op == token.NEQ || bo.Op == token.EQL) && fromList(bo.X) && fromList(bo.Y) {
				if _, ok := bo.X.(*ssa.Call); ok {
					sawLen = true
				} else {
					sawElem = true
				}
				continue
			}
			bad = append(bad, "clearing the flag also depends on "+describeInstr(p, d.Branch.Instrs[len(d.Branch.Instrs)-1]))
		}
	}
	c.add2(len(bad) == 0 && sawLen && sawElem, props, "mergeFields/every-difference-clears", c.fpos(mf),
		"fieldsSame is cleared whenever a segment's field list differs from the first segment's in length or in any element: the clearing is controlled only by those two comparisons and the loops over segments and fields",
		fmt.Sprintf("length compared: %v, elements compared: %v; %s — some differences between field lists would go unnoticed and stored/posting bytes carrying segment-local field ids would be copied verbatim", sawLen, sawElem, strings.Join(uniq(bad), "; ")))
}

// r17UnionCompare: a comparison of the merged field set (or list) with a reference list — lengths, the
// reference list against nil, or elements of both.
func r17UnionCompare(cond ssa.Value, isUnion, isList func(ssa.Value) bool, lenOf func(ssa.Value) ssa.Value) bool {
	bo, ok := cond.(*ssa.BinOp)
	if !ok {
		return false
	}
	if x, y := lenOf(bo.X), lenOf(bo.Y); x != nil && y != nil {
		return (isUnion(x) && isList(y)) || (isUnion(y) && isList(x))
	}
	if (isNilConst(bo.X) && isList(bo.Y)) || (isNilConst(bo.Y) && isList(bo.X)) {
		return true
	}
	elemOf := func(v ssa.Value) ssa.Value {
		if u, ok := v.(*ssa.UnOp); ok && u.Op == token.MUL {
			if ia, ok := u.X.(*ssa.IndexAddr); ok {
				return ia.X
			}
		}
		return nil
	}
	if x, y := elemOf(bo.X), elemOf(bo.Y); x != nil && y != nil {
		return (isUnion(x) && isList(y)) || (isUnion(y) && isList(x))
	}
	// loop bound over the union
	if bo.Op == token.LSS {
		if x := lenOf(bo.Y); x != nil && isUnion(x) {
			return true
		}
	}
	return false
}

// r17LivenessOnly: the condition is computed from nothing but a segment's document count, elements of a
// drops table (nil-ness, cardinality, emptiness), constants, and flags that are themselves such.
func r17LivenessOnly(p *Program, v ssa.Value, depth int, seen map[ssa.Value]bool) bool {
	if v == nil || depth > 8 {
		return false
	}
	if seen[v] {
		return true
	}
	seen[v] = true
	isBitmap := func(t types.Type) bool {
		pt, ok := t.Underlying().(*types.Pointer)
		if !ok {
			return false
		}
		n, ok := pt.Elem().(*types.Named)
		return ok && n.Obj().Name() == "Bitmap" && n.Obj().Pkg() != nil && strings.Contains(n.Obj().Pkg().Path(), "roaring")
	}
	switch x := v.(type) {
	case *ssa.Const:
		return true
	case *ssa.Parameter:
		return isBitmap(x.Type()) || isNamedPtr(x.Type(), "SegmentBase")
	case *ssa.BinOp:
		return r17LivenessOnly(p, x.X, depth+1, seen) && r17LivenessOnly(p, x.Y, depth+1, seen)
	case *ssa.Convert:
		return r17LivenessOnly(p, x.X, depth+1, seen)
	case *ssa.Phi:
		for _, e := range x.Edges {
			if !r17LivenessOnly(p, e, depth+1, seen) {
				return false
			}
		}
		return true
	case *ssa.UnOp:
		if x.Op == token.NOT {
			return r17LivenessOnly(p, x.X, depth+1, seen)
		}
		if x.Op == token.MUL {
			if sn, fld, _, ok := loadedField(x); ok {
				return sn == "SegmentBase" && fld == "numDocs"
			}
			if ia, ok := x.X.(*ssa.IndexAddr); ok {
				if sl, ok := ia.X.Type().Underlying().(*types.Slice); ok {
					return isBitmap(sl.Elem()) || isNamedPtr(sl.Elem(), "SegmentBase")
				}
			}
		}
	case *ssa.Call:
		f := x.Call.StaticCallee()
		if f == nil {
			return false
		}
		for _, a := range x.Call.Args {
			if !r17LivenessOnly(p, a, depth+1, seen) {
				return false
			}
		}
		if f.Pkg != nil && strings.Contains(f.Pkg.Pkg.Path(), "roaring") {
			switch f.Name() {
			case "GetCardinality", "IsEmpty":
				return true
			}
			return false
		}
		if p.InZap(f) && len(f.Blocks) > 0 && f.Signature.Results().Len() == 1 {
			for _, ret := range returnsOf(f) {
				if !r17LivenessOnly(p, ret.Results[0], depth+1, seen) {
					return false
				}
			}
			return true
		}
	}
	return false
}

func isNamedPtr(t types.Type, name string) bool {
	pt, ok := t.Underlying().(*types.Pointer)
	if !ok {
		return false
	}
	n, ok := pt.Elem().(*types.Named)
	return ok && n.Obj().Name() == name
}

func rangeIndexOf(v ssa.Value) (*ssa.Phi, bool) {
	if bo, ok := v.(*ssa.BinOp); ok && bo.Op == token.ADD {
		v = bo.X
	}
	ph, ok := v.(*ssa.Phi)
	if !ok {
		return nil, false
	}
	return ph, ph.Comment == "rangeindex" || true
}

// isWriterInterface: an interface type with a Write method (io.Writer and wider).
func isWriterInterface(t types.Type) bool {
	it, ok := t.Underlying().(*types.Interface)
	if !ok {
		return false
	}
	for i := 0; i < it.NumMethods(); i++ {
		if it.Method(i).Name() == "Write" {
			return true
		}
	}
	return false
}

// isRenumberingName: the variable holds (part of) the table old document number -> new document number
// (newDocNums, newDocNumsIn, segNewDocNums …) — not just any list of document numbers (localDocNums).
func isRenumberingName(n string) bool {
	return strings.Contains(strings.ToLower(n), "newdocnum")
}

// listEqualityHelper: f(a, b []T) bool answers true only for lists of the same length that agree in every
// element — every `return false` is controlled by nothing but the comparison of the two lengths, the
// comparison of two elements and the loop over them, both comparisons occur, and no other answer than a
// constant is given. slices.Equal is one.
func listEqualityHelper(f *ssa.Function) bool {
	if f == nil {
		return false
	}
	if f.Pkg != nil && f.Pkg.Pkg.Path() == "slices" && f.Name() == "Equal" {
		return true
	}
	if o := f.Origin(); o != nil && o.Pkg != nil && o.Pkg.Pkg.Path() == "slices" && o.Name() == "Equal" {
		return true
	}
	if len(f.Blocks) == 0 || len(f.Params) != 2 {
		return false
	}
	isParam := func(v ssa.Value) bool { return v == ssa.Value(f.Params[0]) || v == ssa.Value(f.Params[1]) }
	fromParam := func(v ssa.Value) (isLen, ok bool) {
		switch x := v.(type) {
		case *ssa.Call:
			if b, isB := x.Call.Value.(*ssa.Builtin); isB && b.Name() == "len" && isParam(x.Call.Args[0]) {
				return true, true
			}
		case *ssa.UnOp:
			if x.Op == token.MUL {
				if ia, isIA := x.X.(*ssa.IndexAddr); isIA && isParam(ia.X) {
					return false, true
				}
			}
		}
		return false, false
	}
	deps := transitiveControlDeps(f)
	sawLen, sawElem, sawTrue := false, false, false
	for _, ret := range returnsOf(f) {
		if len(ret.Results) != 1 {
			return false
		}
		k, ok := constBool(ret.Results[0])
		if !ok {
			return false
		}
		if k {
			sawTrue = true
			continue
		}
		for _, d := range deps[ret.Block()] {
			bo, ok := branchCond(d.Branch).(*ssa.BinOp)
			if !ok {
				return false
			}
			if bo.Op == token.LSS {
				if _, isIdx := rangeIndexOf(bo.X); isIdx {
					continue
				}
			}
			if bo.Op != token.NEQ && bo.Op != token.EQL {
				return false
			}
			lx, okx := fromParam(bo.X)
			ly, oky := fromParam(bo.Y)
			if !okx || !oky || lx != ly {
				return false
			}
			if lx {
				sawLen = true
			} else {
				sawElem = true
			}
		}
	}
	return sawLen && sawElem && sawTrue
}

// ownerOnlyReleased: prm is a file owner (owners.go) and f does nothing with its file but Close / Sync it,
// nothing with its path but remove it, and hands the owner on only to routines of which the same holds.
func ownerOnlyReleased(p *Program, f *ssa.Function, prm *ssa.Parameter, depth int) bool {
	if depth > 3 || ownerOfType(p.owners, prm.Type()) == nil {
		return false
	}
	for _, cs := range callSites(f) {
		g := staticCallee(cs)
		for ai, a := range cs.Common().Args {
			if root(a) != ssa.Value(prm) {
				continue
			}
			if g == nil {
				return false
			}
			switch g.String() {
			case "(*os.File).Close", "(*os.File).Sync", "os.Remove", "(*os.File).Stat", "(*os.File).Name":
				continue
			}
			if p.InZap(g) && g.Parent() == nil && len(g.Blocks) > 0 && ai < len(g.Params) && ownerOnlyReleased(p, g, g.Params[ai], depth+1) {
				continue
			}
			return false
		}
	}
	return true
}

// dependsOnBitmap: v is computed from a call on a roaring bitmap or on an iterator over one.
func dependsOnBitmap(v ssa.Value, depth int, seen map[ssa.Value]bool) bool {
	if v == nil || depth > 8 || seen[v] {
		return false
	}
	seen[v] = true
	switch x := v.(type) {
	case *ssa.Call:
		for _, a := range x.Call.Args {
			t := a.Type()
			if pt, ok := t.Underlying().(*types.Pointer); ok {
				t = pt.Elem()
			}
			if n, ok := types.Unalias(t).(*types.Named); ok && n.Obj().Pkg() != nil && strings.Contains(n.Obj().Pkg().Path(), "roaring") {
				return true
			}
		}
		for _, a := range x.Call.Args {
			if dependsOnBitmap(a, depth+1, seen) {
				return true
			}
		}
	case *ssa.BinOp:
		return dependsOnBitmap(x.X, depth+1, seen) || dependsOnBitmap(x.Y, depth+1, seen)
	case *ssa.UnOp:
		if x.Op == token.MUL {
			if cell := cellOf(x.X); cell != nil {
				for _, st := range cellStores(cell) {
					if dependsOnBitmap(st.Val, depth+1, seen) {
						return true
					}
				}
				return false
			}
		}
		return dependsOnBitmap(x.X, depth+1, seen)
	case *ssa.Convert:
		return dependsOnBitmap(x.X, depth+1, seen)
	case *ssa.ChangeType:
		return dependsOnBitmap(x.X, depth+1, seen)
	case *ssa.Phi:
		for _, e := range x.Edges {
			if dependsOnBitmap(e, depth+1, seen) {
				return true
			}
		}
	case *ssa.Extract:
		return dependsOnBitmap(x.Tuple, depth+1, seen)
	}
	return false
}

// fieldIncrementedByOne: fn contains `x.f = x.f + 1` (x.f++) for the field fa addresses.
func fieldIncrementedByOne(fn *ssa.Function, fa *ssa.FieldAddr) bool {
	found := false
	eachInstr(fn, func(_ *ssa.BasicBlock, in ssa.Instruction) {
		st, ok := in.(*ssa.Store)
		if !ok {
			return
		}
		fb, ok := st.Addr.(*ssa.FieldAddr)
		if !ok || fb.Field != fa.Field || !sameQuantity(fb.X, fa.X, 0) {
			return
		}
		bo, ok := st.Val.(*ssa.BinOp)
		if !ok || bo.Op != token.ADD {
			return
		}
		if k, ok := constUint64(bo.Y); !ok || k != 1 {
			return
		}
		if u, ok := bo.X.(*ssa.UnOp); ok && u.Op == token.MUL {
			if fc, ok := u.X.(*ssa.FieldAddr); ok && fc.Field == fa.Field && sameQuantity(fc.X, fa.X, 0) {
				found = true
			}
		}
	})
	return found
}
