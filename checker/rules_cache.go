package main

// R21 CACHE-NONINTERFERENCE and R22 CACHE-LIFETIME (vector index cache).

import (
	"fmt"
	"go/token"
	"go/types"
	"strings"

	"golang.org/x/tools/go/ssa"
)

var cacheEntryTypes = map[string]string{ // cache type -> entry type
	"vectorIndexCache":  "cacheEntry",
	"synonymIndexCache": "synonymCacheEntry",
}

func isBitmapPtr(t types.Type) bool {
	return isNamed(t, "github.com/RoaringBitmap/roaring/v2", "Bitmap")
}

func ruleR21() *Rule {
	return &Rule{
		ID:          "R21",
		Title:       "CACHE-NONINTERFERENCE: what is stored in a shared cache entry does not depend on per-call arguments",
		Props:       []string{"C16"},
		VectorsOnly: true,
		Floor:       floorFor("R21"),
		Run: func(c *RuleCtx) {
			p := c.p
			entryTypes := map[string]bool{}
			cacheTypes := map[string]bool{}
			for ct, et := range cacheEntryTypes {
				if p.NamedType(ct) != nil && p.NamedType(et) != nil {
					entryTypes[et] = true
					cacheTypes[ct] = true
				}
			}
			if !entryTypes["cacheEntry"] {
				c.undecided("anchor/cacheEntry", "-", "the vector cache entry type exists", "type cacheEntry not found")
				return
			}
			tc := &taintCtx{p: p, summ: map[string]*taintSummary{}, running: map[string]bool{}}
			memo := map[string]bool{}
			for et := range entryTypes {
				for f := range keyedMemoFields(p, et) {
					memo[et+"."+f] = true
				}
			}
			tc.noTaint = func(st *ssa.Store) bool {
				sn, fld, _, ok := fieldOf(st.Addr)
				return ok && memo[sn+"."+fld]
			}
			tc.isSink = func(in ssa.Instruction) (ssa.Value, string, bool) {
				switch x := in.(type) {
				case *ssa.Store:
					if sn, fld, _, ok := fieldOf(x.Addr); ok && entryTypes[sn] {
						if memo[sn+"."+fld] {
							// a memo keyed by a private copy of the argument, read back only where the key
							// was found equal to the caller's argument: what a caller gets depends on its own
							// argument, not on an earlier caller's
							return nil, "", false
						}
						return x.Val, "store to " + sn + "." + fld, true
					}
				case *ssa.MapUpdate:
					if sn, fld, _, ok := loadedField(x.Map); ok && cacheTypes[sn] {
						return x.Value, "insertion into " + sn + "." + fld, true
					}
					// update of a map that is an entry's field
					if sn, fld, _, ok := loadedField(x.Map); ok && entryTypes[sn] {
						return x.Value, "update of " + sn + "." + fld, true
					}
				}
				return nil, "", false
			}
			n := 0
			for _, fn := range p.ZapFuncs {
				if fn.Signature.Recv() == nil {
					continue
				}
				rn := namedOf(fn.Signature.Recv().Type())
				if rn == nil || !cacheTypes[rn.Obj().Name()] {
					continue
				}
				for i, prm := range fn.Params {
					if !isBitmapPtr(prm.Type()) {
						continue
					}
					n++
					res := tc.analyse(fn, []ssa.Value{prm})
					hits := tc.sinksIn(res)
					_ = i
					c.check(len(hits) == 0, funcShortName(fn)+"/"+prm.Name(), c.fpos(fn),
						fmt.Sprintf("nothing %s stores into the shared cache depends (by data or control) on its per-call argument %s", funcShortName(fn), prm.Name()),
						"the cache entry is filled through the first caller's exclusion bitmap: later searches with another bitmap see a truncated / wrong id->doc map", uniq(hits)...)
				}
			}
			// (on the pinned tree: loadOrCreate, loadFromCache, createAndCacheLOCKED; how many
			// functions the look-up is spread over is not part of the property — the
			// entry point must be among them)
			loc := c.method("vectorIndexCache", "loadOrCreate")
			hasBM := false
			if loc != nil {
				for _, prm := range loc.Params {
					if isBitmapPtr(prm.Type()) {
						hasBM = true
					}
				}
			}
			c.check(n >= 1 && hasBM, "source-params", "-", "cache methods with a per-call bitmap parameter are found, the entry point loadOrCreate among them", fmt.Sprintf("found %d (loadOrCreate takes a bitmap: %v)", n, hasBM))
		},
	}
}

func ruleR22() *Rule {
	return &Rule{
		ID:          "R22",
		Title:       "CACHE-LIFETIME: references on every hand-out; eviction only at zero after removal from the map; single owner of Close",
		Props:       []string{"C16"},
		VectorsOnly: true,
		Floor:       floorFor("R22"),
		Run: func(c *RuleCtx) {
			p := c.p
			// --- anchors ---
			load := c.method("cacheEntry", "load")
			ceClose := c.method("cacheEntry", "close")
			cleanup := c.method("vectorIndexCache", "cleanup")
			clear_ := c.method("vectorIndexCache", "Clear")
			cce := c.fn("createCacheEntry")
			decRef := c.method("vectorIndexCache", "decRef")
			if load == nil || ceClose == nil || cleanup == nil || clear_ == nil || cce == nil || decRef == nil {
				return
			}
			// the hand-out functions: methods of the cache whose first result is a native index
			var handOut []*ssa.Function
			isHandOut := map[*ssa.Function]bool{}
			for _, fn := range p.ZapFuncs {
				if fn.Parent() != nil || fn.Signature.Recv() == nil || !isNamed(fn.Signature.Recv().Type(), zapPkgPath, "vectorIndexCache") || len(fn.Blocks) == 0 || fn.Synthetic != "" {
					continue
				}
				if res := fn.Signature.Results(); res.Len() > 0 && (isFaissIndexPtr(res.At(0).Type()) || isIndexHandlePtr(res.At(0).Type())) {
					handOut = append(handOut, fn)
					isHandOut[fn] = true
				}
			}
			c.check(len(handOut) >= 1, "hand-out-functions", "-", "methods of the cache that hand a native index out are found (pinned tree: loadOrCreate, loadFromCache, createAndCacheLOCKED)", "none found")
			// load() takes a reference
			addsRef := func(fn *ssa.Function) bool {
				reach := p.reachableFrom(fn)
				for f := range reach {
					if !p.InZap(f) {
						continue
					}
					found := false
					eachInstr(f, func(_ *ssa.BasicBlock, in ssa.Instruction) {
						cs, ok := in.(ssa.CallInstruction)
						if !ok {
							return
						}
						if cf := staticCallee(cs); cf != nil && cf.String() == "sync/atomic.AddInt64" {
							if sn, fld, _, ok := fieldOf(cs.Common().Args[0]); ok && sn == "cacheEntry" && fld == "refs" {
								if k, ok := constInt64(cs.Common().Args[1]); ok && k == 1 {
									found = true
								}
							}
						}
					})
					if found {
						return true
					}
				}
				return false
			}
			c.check(addsRef(load), "load-takes-ref", c.fpos(load), "cacheEntry.load() takes a reference (atomic add of +1 on refs)", "load() hands the index out without counting the reference")
			// createCacheEntry starts at refs = 1
			one := false
			eachInstr(cce, func(_ *ssa.BasicBlock, in ssa.Instruction) {
				if st, ok := in.(*ssa.Store); ok {
					if sn, fld, _, ok := fieldOf(st.Addr); ok && sn == "cacheEntry" && fld == "refs" {
						if k, ok := constInt64(st.Val); ok && k == 1 {
							one = true
						}
					}
				}
			})
			c.check(one, "new-entry-refs-1", c.fpos(cce), "a new cache entry starts with one reference (for the caller that created it)", "createCacheEntry does not initialise refs to 1")

			// (b) every hand-out of a non-nil index is preceded by a reference-taking event
			reachCCE := p.reachesFunc(func(f *ssa.Function) bool { return f == cce })
			// a method of the entry other than load() takes the reference only if every way through it does
			// (`(ce *cacheEntry) loadFor(...)` with an early return that reads ce.index without load() does not)
			mustRefMemo := map[*ssa.Function]bool{}
			var trFor func(self *ssa.Function) transferFn
			var mustRef func(f *ssa.Function) bool
			mustRef = func(f *ssa.Function) bool {
				if v, ok := mustRefMemo[f]; ok {
					return v
				}
				mustRefMemo[f] = false // (recursion)
				if len(f.Blocks) == 0 || !addsRef(f) {
					return false
				}
				pa := newPathAnalysis(f, trFor(f))
				pa.run(0)
				all := true
				for _, ret := range returnsOf(f) {
					if !pa.reachable(ret.Block()) {
						continue
					}
					for _, ev := range pa.statesBefore(ret) {
						if ev&1 == 0 {
							all = false
						}
					}
				}
				mustRefMemo[f] = all
				return all
			}
			trFor = func(self *ssa.Function) transferFn {
				return func(in ssa.Instruction, ev uint64, _ bool) []uint64 {
					cs, ok := in.(ssa.CallInstruction)
					if !ok {
						return nil
					}
					f := staticCallee(cs)
					if f == nil {
						return nil
					}
					if f.String() == "sync/atomic.AddInt64" {
						if sn, fld, _, ok := fieldOf(cs.Common().Args[0]); ok && sn == "cacheEntry" && fld == "refs" {
							if k, ok := constInt64(cs.Common().Args[1]); ok && k == 1 {
								return []uint64{ev | 1}
							}
						}
						return nil
					}
					if f == load || (reachCCE[f] && p.InZap(f)) || (isHandOut[f] && f != self) {
						return []uint64{ev | 1}
					}
					// the reference taken directly (load() inlined: incHit(); addRef()) or in a helper of the entry
					if f != self && p.InZap(f) && f.Signature.Recv() != nil && isNamed(f.Signature.Recv().Type(), zapPkgPath, "cacheEntry") && mustRef(f) {
						return []uint64{ev | 1}
					}
					return nil
				}
			}
			for _, fn := range handOut {
				fn := fn
				tr := trFor(fn)
				pa := newPathAnalysis(fn, tr)
				pa.run(0)
				labels := map[string]int{}
				for _, ret := range returnsOf(fn) {
					if !pa.reachable(ret.Block()) {
						continue
					}
					lbl := exitLabel(ret, labels)
					idx := returnedValue(ret, 0)
					if isNilConst(idx) {
						continue
					}
					if _, ns := errorOfReturn(ret); ns == nonNil && !isFaissIndexPtr(idx.Type()) {
						continue // a handle by value: the failing exits hand out its zero value
					}
					okc := true
					for _, ev := range pa.statesBefore(ret) {
						if ev&1 == 0 {
							okc = false
						}
					}
					c.check(okc, funcShortName(fn)+"/"+lbl+"/ref-taken", c.pos(ret), "every path that hands a cached index out has taken a reference on its entry (load() or creation with refs=1)",
						"a path returns the cached index without a reference: the monitor may close it while the caller still searches it", "exit: "+describeInstr(p, ret))
				}
			}

			// the wrapper's close() releases the reference of the field it loaded
			ivi := c.method("SegmentBase", "InterpretVectorIndex")
			if ivi != nil {
				var loadArg, decArg ssa.Value
				for _, cs := range callSites(ivi) {
					if f := staticCallee(cs); f != nil && namedFn(f, "vectorIndexCache.loadOrCreate") && len(cs.Common().Args) > 1 {
						loadArg = cs.Common().Args[1]
					}
				}
				var decSite ssa.CallInstruction
				var closeClosure *ssa.Function
				for _, fn := range p.ZapFuncs {
					if fn.Parent() != ivi {
						continue
					}
					for _, cs := range callSites(fn) {
						if staticCallee(cs) == decRef && len(cs.Common().Args) > 1 {
							decArg = cs.Common().Args[1]
							decSite = cs
							closeClosure = fn
						}
					}
				}
				okc := loadArg != nil && decArg != nil && (sameCell(loadArg, decArg) || sameValue(loadArg, decArg))
				c.check(okc, "wrapper-close-decref", c.fpos(ivi), "the index wrapper's close() drops the reference of the very field id that InterpretVectorIndex loaded", "close closure does not call decRef with the loaded field id")
				// that closure is what is stored in the wrapper's close field, and it does not close the index itself
				if closeClosure != nil {
					stored := false
					eachInstr(ivi, func(_ *ssa.BasicBlock, in ssa.Instruction) {
						if st, ok := in.(*ssa.Store); ok {
							if sn, fld, _, ok := fieldOf(st.Addr); ok && sn == "vectorIndexWrapper" && fld == "close" {
								if mc, ok := st.Val.(*ssa.MakeClosure); ok && mc.Fn == closeClosure {
									stored = true
								}
							}
						}
					})
					c.check(stored, "wrapper-close-wired", c.pos(decSite), "the decRef closure is the wrapper's close function", "the closure calling decRef is not stored in vectorIndexWrapper.close")
				}
			}

			// (c) eviction guard in cleanup
			var closeSite ssa.CallInstruction
			for _, cs := range callSites(cleanup) {
				if staticCallee(cs) == ceClose {
					closeSite = cs
				}
			}
			if closeSite == nil {
				c.undecided("cleanup/evict-site", c.fpos(cleanup), "the eviction (entry.close()) in cleanup is found", "no call of cacheEntry.close in cleanup")
			} else {
				// guard on the loaded reference count: on every path to the
				// eviction the last comparison of the freshly loaded count has
				// the truth table {0: may evict, 1: keep, 2: keep} — whether it
				// is branched on directly or first stored in a boolean
				const evZero = 1
				desc := "no guard on the reference count dominates the eviction"
				isRefsLoad := func(v ssa.Value) bool {
					call, ok := v.(*ssa.Call)
					if !ok {
						return false
					}
					if f := call.Call.StaticCallee(); f == nil || f.String() != "sync/atomic.LoadInt64" {
						return false
					}
					sn, fld, _, ok := fieldOf(call.Call.Args[0])
					return ok && sn == "cacheEntry" && fld == "refs"
				}
				condTr := func(cond ssa.Value, outcome bool, ev uint64, _ func(ssa.Value) ssa.Value) uint64 {
					bo, ok := cond.(*ssa.BinOp)
					if !ok {
						return ev
					}
					k, isK := constInt64(bo.Y)
					if !isK || !isRefsLoad(bo.X) {
						return ev
					}
					v0, _ := cmpInt(bo.Op, 0, k)
					v1, _ := cmpInt(bo.Op, 1, k)
					v2, _ := cmpInt(bo.Op, 2, k)
					desc = fmt.Sprintf("guard `refs %s %d`: evict at refs 0:%v 1:%v 2:%v", bo.Op, k, v0 == outcome, v1 == outcome, v2 == outcome)
					if v0 == outcome && v1 != outcome && v2 != outcome {
						return ev | evZero
					}
					return ev &^ evZero
				}
				gpa := newPathAnalysis(cleanup, func(in ssa.Instruction, ev uint64, _ bool) []uint64 {
					if v, ok := in.(ssa.Value); ok && isRefsLoad(v) {
						return []uint64{ev &^ evZero} // a new load: what was known of the old one is void
					}
					return nil
				})
				gpa.condTr = condTr
				gpa.edgeTr = func(pred *ssa.BasicBlock, succIdx int, ev uint64) uint64 {
					if iff, ok := pred.Instrs[len(pred.Instrs)-1].(*ssa.If); ok {
						return condTr(iff.Cond, succIdx == 0, ev, func(v ssa.Value) ssa.Value { return v })
					}
					return ev
				}
				gpa.run(0)
				guardOK := len(gpa.statesBefore(closeSite)) > 0
				for _, ev := range gpa.statesBefore(closeSite) {
					if ev&evZero == 0 {
						guardOK = false
					}
				}
				if !guardOK && strings.HasPrefix(desc, "guard") {
					desc += " (or a path reaches the eviction around the guard)"
				}
				c.check(guardOK, "cleanup/evict-only-at-zero", c.pos(closeSite), "the monitor evicts an entry only when its reference count is 0 (truth table {0: may evict, 1: keep, 2: keep})", desc)
				// delete from the map precedes close, under the write lock
				const evDeleted = 1
				tr := func(in ssa.Instruction, ev uint64, _ bool) []uint64 {
					if call, ok := in.(*ssa.Call); ok {
						if b, ok := call.Call.Value.(*ssa.Builtin); ok && b.Name() == "delete" {
							if sn, fld, _, ok := loadedField(call.Call.Args[0]); ok && sn == "vectorIndexCache" && fld == "cache" {
								return []uint64{ev | evDeleted}
							}
						}
						if staticCallee(call) == ceClose {
							return []uint64{ev &^ evDeleted}
						}
					}
					return nil
				}
				pa := newPathAnalysis(cleanup, tr)
				pa.run(0)
				okc := true
				for _, ev := range pa.statesBefore(closeSite) {
					if ev&evDeleted == 0 {
						okc = false
					}
				}
				c.check(okc, "cleanup/delete-before-close", c.pos(closeSite), "an evicted entry is removed from the cache map before it is closed", "entry.close() can run while the entry is still reachable through the map")
				c.check(heldAtRW(cleanup, closeSite, "vectorIndexCache.m"), "cleanup/under-write-lock", c.pos(closeSite), "eviction happens under the cache's write lock", "write lock not held at the eviction")
			}

			// (d) owners
			var ceCloseCallers []string
			okOwners := true
			for _, cs := range p.callersOf(ceClose) {
				if !p.InZap(cs.Parent()) {
					continue
				}
				ceCloseCallers = append(ceCloseCallers, funcShortName(cs.Parent()))
				if cs.Parent() != cleanup && cs.Parent() != clear_ {
					okOwners = false
				}
			}
			c.check(okOwners && len(ceCloseCallers) >= 2, "entry-close-owners", c.fpos(ceClose), "cacheEntry.close is called only by the monitor's cleanup and by Clear", "callers: "+strings.Join(ceCloseCallers, ", "))
			// native Close on a cached index only inside cacheEntry.close
			nIdxClose := 0
			okIdx := true
			var bad []string
			for _, fn := range p.ZapFuncs {
				for _, cs := range callSites(fn) {
					iv, ok := faissCloseOf(cs)
					if !ok {
						continue
					}
					cached := false
					if sn, fld, _, ok := loadedField(iv); ok && sn == "cacheEntry" && fld == "index" {
						cached = true
					}
					// an index obtained from the cache (loadOrCreate / load results) in the search closures
					r := root(iv)
					if ex, ok := r.(*ssa.Extract); ok {
						if call, ok := ex.Tuple.(*ssa.Call); ok {
							if f := call.Call.StaticCallee(); f != nil && (isHandOut[f] || f == load) {
								cached = true
							}
						}
					}
					if cell := cellOfLoad(iv); cell != nil {
						// the captured variable that receives the index handed out by the cache
						for _, st := range cellStores(cell) {
							if ex, ok := st.Val.(*ssa.Extract); ok {
								if call, ok := ex.Tuple.(*ssa.Call); ok {
									if f := call.Call.StaticCallee(); f != nil && (isHandOut[f] || f == load) {
										cached = true
									}
								}
							}
						}
					}
					if !cached {
						continue
					}
					nIdxClose++
					if !onlyWithin(p, fn, ceClose, 0) {
						okIdx = false
						bad = append(bad, describeInstr(p, cs)+" in "+funcShortName(fn))
					}
				}
			}
			c.check(okIdx && nIdxClose >= 1, "index-close-owner", c.fpos(ceClose), "the native Close of a cached index happens only inside cacheEntry.close", "a cached index is closed elsewhere (double free / use after free with the cache)", bad...)

			// (e) Clear closes every entry and drops the map under the write lock
			{
				ranged, dropped := false, false
				var closeInClear ssa.CallInstruction
				eachInstr(clear_, func(_ *ssa.BasicBlock, in ssa.Instruction) {
					switch x := in.(type) {
					case *ssa.Range:
						if isLoadOfField(x.X, "vectorIndexCache", "cache") {
							ranged = true
						}
					case *ssa.Store:
						if sn, fld, _, ok := fieldOf(x.Addr); ok && sn == "vectorIndexCache" && fld == "cache" && isNilConst(x.Val) {
							dropped = true
						}
					case ssa.CallInstruction:
						if staticCallee(x) == ceClose {
							closeInClear = x
						}
					}
				})
				okc := ranged && dropped && closeInClear != nil
				if okc {
					okc = heldAtRW(clear_, closeInClear, "vectorIndexCache.m")
				}
				c.check(okc, "clear-closes-all", c.fpos(clear_), "Clear closes every cached entry and drops the map, under the write lock", fmt.Sprintf("ranged=%v dropped=%v close-call=%v", ranged, dropped, closeInClear != nil))
			}
		},
	}
}

// onlyWithin: fn is owner, a closure inside it, or a function of package zap
// all of whose callers are (the teardown code of the entry).
func onlyWithin(p *Program, fn, owner *ssa.Function, depth int) bool {
	if rootParent(fn) == owner {
		return true
	}
	if depth > 2 || fn.Parent() != nil {
		return false
	}
	if fn.Object() != nil && fn.Object().Exported() {
		return false
	}
	n := 0
	for _, cs := range p.callersOf(fn) {
		if par := cs.Parent(); par.Synthetic != "" && len(p.callersOf(par)) == 0 {
			continue
		}
		n++
		if !onlyWithin(p, cs.Parent(), owner, depth+1) {
			return false
		}
	}
	return n > 0
}

func cellOfLoad(v ssa.Value) *ssa.Alloc {
	u, ok := v.(*ssa.UnOp)
	if !ok || u.Op != token.MUL {
		return nil
	}
	return cellOf(u.X)
}

// heldAtRW: like heldAt but for RWMutex write locks.
func heldAtRW(fn *ssa.Function, at ssa.Instruction, mu string) bool {
	return heldAt(fn, at, mu)
	// (eviction and Clear are methods of the cache itself; a helper called under the lock would be read by heldAtOrAtCallers)
}

// ---------------------------------------------------------------------------
// R22c NO-STALE-SNAPSHOT (C16)
//
// A function of the cache that hands out what it read from a shared entry must
// not complete the entry *after* it took that reading: the caller would get the
// value from before (seeded change C16g: `entry.load()` moved in front of
// `addDocVecIDMapToCacheLOCKED(entry)`; the first filtered search after an
// unfiltered one got a nil doc->vector map and answered with nothing).
// For every returned value that is a reading of field f of a cache entry e (a
// direct load, or result k of a method of e that returns its field f as result
// k), no store to e.f — direct, or inside a function of the package that is
// handed e — lies on a path between the reading and the return.
func r22NoStaleSnapshot(c *RuleCtx) {
	props := []string{"C16"}
	isEntryPtr := func(t types.Type) bool {
		p, ok := t.Underlying().(*types.Pointer)
		return ok && isNamed(p.Elem(), zapPkgPath, "cacheEntry")
	}
	// which field does result k of a method of cacheEntry hand out? (all returns agree)
	var resultField func(f *ssa.Function, k int, depth int) string
	resultField = func(f *ssa.Function, k int, depth int) string {
		if f == nil || len(f.Blocks) == 0 || f.Signature.Recv() == nil || !isEntryPtr(f.Signature.Recv().Type()) || depth > 3 {
			return ""
		}
		name := ""
		for _, ret := range returnsOf(f) {
			if k >= len(ret.Results) {
				return ""
			}
			v := returnedValue(ret, k)
			if isNilConst(v) {
				continue // hands out nothing on this exit
			}
			fld := ""
			if sn, fl, base, ok := loadedField(v); ok && sn == "cacheEntry" && root(base) == ssa.Value(f.Params[0]) {
				fld = fl
			} else if ex, ok := v.(*ssa.Extract); ok {
				// the reading of another method of the same entry, passed on
				if call, ok := ex.Tuple.(*ssa.Call); ok && len(call.Call.Args) > 0 && root(call.Call.Args[0]) == ssa.Value(f.Params[0]) {
					fld = resultField(call.Call.StaticCallee(), ex.Index, depth+1)
				}
			}
			if fld == "" || (name != "" && name != fld) {
				return ""
			}
			name = fld
		}
		return name
	}
	// may f (handed the entry as parameter pi) store field fld of it?
	var mayStore func(f *ssa.Function, pi int, fld string, depth int) bool
	mayStore = func(f *ssa.Function, pi int, fld string, depth int) bool {
		if f == nil || len(f.Blocks) == 0 || depth > 3 || pi >= len(f.Params) {
			return false
		}
		prm := f.Params[pi]
		found := false
		eachInstr(f, func(_ *ssa.BasicBlock, in ssa.Instruction) {
			switch x := in.(type) {
			case *ssa.Store:
				if sn, fl, base, ok := fieldOf(x.Addr); ok && sn == "cacheEntry" && fl == fld && root(base) == ssa.Value(prm) {
					found = true
				}
			case ssa.CallInstruction:
				g := staticCallee(x)
				if g == nil || !c.p.InZap(g) {
					return
				}
				for ai, a := range x.Common().Args {
					if root(a) == ssa.Value(prm) && mayStore(g, ai, fld, depth+1) {
						found = true
					}
				}
			}
		})
		return found
	}
	n := 0
	for _, fn := range c.p.ZapFuncs {
		if len(fn.Blocks) == 0 || fn.Signature.Recv() == nil || !isNamed(fn.Signature.Recv().Type(), zapPkgPath, "vectorIndexCache") {
			continue
		}
		type reading struct {
			at    ssa.Instruction
			entry ssa.Value
			fld   string
			hvar  *ssa.Alloc // the local struct variable a handle is kept in (nil otherwise)
		}
		readingOf := func(v ssa.Value) (reading, bool) {
			switch x := v.(type) {
			case *ssa.Extract:
				call, ok := x.Tuple.(*ssa.Call)
				if !ok || len(call.Call.Args) == 0 {
					return reading{}, false
				}
				if fld := resultField(call.Call.StaticCallee(), x.Index, 0); fld != "" {
					return reading{call, root(call.Call.Args[0]), fld, nil}, true
				}
			case *ssa.UnOp:
				if sn, fld, base, ok := loadedField(x); ok && sn == "cacheEntry" {
					return reading{x, root(base), fld, nil}, true
				}
			}
			return reading{}, false
		}
		// a handle built from the entry by a routine of the package (`entry.load(except)` returning a struct
		// of the entry's index and maps): a reading of every entry field that routine reads
		handleReadings := func(v ssa.Value) []reading {
			if r := resolveLoadDeep(v); r != nil {
				v = r
			}
			// a handle by value kept in a local struct variable whose fields are looked at
			var hvar *ssa.Alloc
			if u, ok := v.(*ssa.UnOp); ok && u.Op == token.MUL {
				if al, ok := u.X.(*ssa.Alloc); ok && al.Referrers() != nil {
					hvar = al
					var only *ssa.Store
					k := 0
					for _, r := range *al.Referrers() {
						if st, ok := r.(*ssa.Store); ok && st.Addr == ssa.Value(al) {
							only = st
							k++
						}
					}
					if k == 1 {
						v = only.Val
					}
				}
			}
			call, ok := root(v).(*ssa.Call)
			if !ok {
				if ex, isEx := root(v).(*ssa.Extract); isEx {
					call, ok = ex.Tuple.(*ssa.Call)
				}
			}
			if !ok || call == nil || len(call.Call.Args) == 0 || !isIndexHandlePtr(v.Type()) {
				return nil
			}
			g := call.Call.StaticCallee()
			if g == nil || !c.p.InZap(g) || len(g.Params) == 0 || !isNamedPtr(g.Params[0].Type(), "cacheEntry") {
				return nil
			}
			flds := map[string]bool{}
			var scan func(f *ssa.Function, d int)
			scan = func(f *ssa.Function, d int) {
				if f == nil || d > 2 || len(f.Blocks) == 0 {
					return
				}
				eachInstr(f, func(_ *ssa.BasicBlock, in ssa.Instruction) {
					if u, ok := in.(*ssa.UnOp); ok {
						if sn, fld, _, ok := loadedField(u); ok && sn == "cacheEntry" {
							flds[fld] = true
						}
					}
					if cs, ok := in.(ssa.CallInstruction); ok {
						if h := staticCallee(cs); h != nil && c.p.InZap(h) && h != f {
							scan(h, d+1)
						}
					}
				})
			}
			scan(g, 0)
			var out []reading
			for fld := range flds {
				out = append(out, reading{call, root(call.Call.Args[0]), fld, hvar})
			}
			return out
		}
		var bad []string
		for _, ret := range returnsOf(fn) {
			for i := range ret.Results {
				var rds []reading
				if rd, ok := readingOf(returnedValue(ret, i)); ok {
					rds = append(rds, rd)
				}
				rds = append(rds, handleReadings(returnedValue(ret, i))...)
				for _, rd := range rds {
					n++
					// a store to that field of that entry between the reading and the return
					between := func(in ssa.Instruction) bool {
						rb, ib, tb := rd.at.Block(), in.Block(), ret.Block()
						after := (ib == rb && instrIndexIn(in) > instrIndexIn(rd.at)) || (ib != rb && reachesBlock(rb, ib) && rb.Dominates(ib))
						before := ib == tb || reachesBlock(ib, tb)
						return after && before
					}
					eachInstr(fn, func(_ *ssa.BasicBlock, in ssa.Instruction) {
						switch x := in.(type) {
						case *ssa.Store:
							if sn, fl, base, ok := fieldOf(x.Addr); ok && sn == "cacheEntry" && fl == rd.fld && root(base) == rd.entry && between(in) {
								bad = append(bad, fmt.Sprintf("%s: %s.%s is stored after it was read for the result handed out at %s", c.pos(in), "cacheEntry", rd.fld, c.pos(ret)))
							}
						case ssa.CallInstruction:
							g := staticCallee(x)
							if g == nil || !c.p.InZap(g) || in == rd.at {
								return
							}
							for ai, a := range x.Common().Args {
								if root(a) == rd.entry && mayStore(g, ai, rd.fld, 0) && between(in) && !refreshedAfter(fn, rd.hvar, rd.entry, rd.fld, in) {
									bad = append(bad, fmt.Sprintf("%s: %s completes cacheEntry.%s after it was read (%s) for the result handed out at %s", c.pos(in), funcShortName(g), rd.fld, c.pos(rd.at), c.pos(ret)))
								}
							}
						}
					})
				}
			}
		}
		if len(bad) > 0 {
			c.badP(props, "no-stale-snapshot/"+funcShortName(fn), c.fpos(fn), "what "+funcShortName(fn)+" hands out of a cache entry is read after the entry was completed, not before",
				"a value read from the shared entry is handed out although the entry was changed afterwards on that path: the caller gets the old value", uniq(bad)...)
		}
	}
	c.add(statusOf(n >= 1), "no-stale-snapshot/readings", "-", "results of cache functions that are readings of a shared entry are found and none is stale (pinned tree: 10 in loadFromCache and createAndCacheLOCKED)", fmt.Sprintf("found %d", n), props, nil)
}

// keyedMemoFields: fields of the entry type that form a memo keyed by a private copy of an argument:
//   - a key field K that is only ever assigned nil or the result of Clone(),
//   - value fields stored in the same block as a store to K (on the same object),
//   - every load of a value field (outside the blocks that store it) is dominated by the true edge of
//     `K.Equals(x)`.
//
// Returns K and the value fields, or nothing.
func keyedMemoFields(p *Program, et string) map[string]bool {
	out := map[string]bool{}
	type fstore struct {
		st  *ssa.Store
		fld string
	}
	var stores []fstore
	for _, fn := range p.ZapFuncs {
		eachInstr(fn, func(_ *ssa.BasicBlock, in ssa.Instruction) {
			if st, ok := in.(*ssa.Store); ok {
				if sn, fld, _, ok := fieldOf(st.Addr); ok && sn == et {
					stores = append(stores, fstore{st, fld})
				}
			}
		})
	}
	isClone := func(v ssa.Value) bool {
		call, ok := v.(*ssa.Call)
		if !ok {
			return false
		}
		f := call.Call.StaticCallee()
		return f != nil && f.Name() == "Clone"
	}
	keys := map[string]bool{}
	bad := map[string]bool{}
	for _, s := range stores {
		switch {
		case isClone(s.st.Val):
			keys[s.fld] = true
		case isNilConst(s.st.Val):
		default:
			bad[s.fld] = true
		}
	}
	for k := range keys {
		if bad[k] {
			continue
		}
		vals := map[string]bool{}
		for _, s := range stores {
			if s.fld != k || !isClone(s.st.Val) {
				continue
			}
			for _, s2 := range stores {
				if s2.st.Block() == s.st.Block() && s2.fld != k {
					_, _, b1, _ := fieldOf(s.st.Addr)
					_, _, b2, _ := fieldOf(s2.st.Addr)
					if root(b1) == root(b2) {
						vals[s2.fld] = true
					}
				}
			}
		}
		if len(vals) == 0 {
			continue
		}
		// value fields are stored only next to a key store (or cleared)
		okAll := true
		for _, s := range stores {
			if !vals[s.fld] || isNilConst(s.st.Val) {
				continue
			}
			next := false
			for _, s2 := range stores {
				if s2.fld == k && s2.st.Block() == s.st.Block() && isClone(s2.st.Val) {
					next = true
				}
			}
			if !next {
				okAll = false
			}
		}
		// loads of value fields are under K.Equals(x)
		for _, fn := range p.ZapFuncs {
			eachInstr(fn, func(b *ssa.BasicBlock, in ssa.Instruction) {
				u, ok := in.(*ssa.UnOp)
				if !ok || u.Op != token.MUL {
					return
				}
				sn, fld, _, ok := loadedField(u)
				if !ok || sn != et || !vals[fld] {
					return
				}
				guarded := false
				for d := b; d != nil; d = d.Idom() {
					pd := d.Idom()
					if pd == nil || len(d.Preds) != 1 || d.Preds[0] != pd {
						continue
					}
					iff, ok := pd.Instrs[len(pd.Instrs)-1].(*ssa.If)
					if !ok || pd.Succs[0] != d {
						continue
					}
					call, ok := iff.Cond.(*ssa.Call)
					if !ok || len(call.Call.Args) != 2 {
						continue
					}
					f := call.Call.StaticCallee()
					if f == nil || f.Name() != "Equals" {
						continue
					}
					if s2, f2, _, ok := loadedField(call.Call.Args[0]); ok && s2 == et && f2 == k {
						guarded = true
					}
				}
				if !guarded {
					okAll = false
				}
			})
		}
		if okAll {
			out[k] = true
			for v := range vals {
				out[v] = true
			}
		}
	}
	return out
}

// isIndexHandlePtr: a pointer to a struct of the package that carries a native index among its fields and
// is not a cache entry — what a cache method hands out when its several results were folded into one value.
func isIndexHandlePtr(t types.Type) bool {
	if pt, ok := t.Underlying().(*types.Pointer); ok {
		t = pt.Elem()
	}
	nt, ok := types.Unalias(t).(*types.Named)
	if !ok || nt.Obj().Pkg() == nil || nt.Obj().Pkg().Path() != zapPkgPath {
		return false
	}
	for _, et := range cacheEntryTypes {
		if nt.Obj().Name() == et {
			return false
		}
	}
	st, ok := nt.Underlying().(*types.Struct)
	if !ok {
		return false
	}
	for i := 0; i < st.NumFields(); i++ {
		if isFaissIndexPtr(st.Field(i).Type()) {
			return true
		}
	}
	return false
}

// refreshedAfter: after instruction `at`, the field of the handle variable hvar is assigned again from the
// entry's field fld (`rv.docVecIDMap = entry.docVecIDMap` once the entry was completed).
func refreshedAfter(fn *ssa.Function, hvar *ssa.Alloc, entry ssa.Value, fld string, at ssa.Instruction) bool {
	if hvar == nil {
		return false
	}
	found := false
	eachInstr(fn, func(b *ssa.BasicBlock, in ssa.Instruction) {
		st, ok := in.(*ssa.Store)
		if !ok || found {
			return
		}
		fa, ok := st.Addr.(*ssa.FieldAddr)
		if !ok || fa.X != ssa.Value(hvar) {
			return
		}
		sn, f2, base, ok := loadedField(st.Val)
		if !ok || sn != "cacheEntry" || f2 != fld || root(base) != entry {
			return
		}
		ab := at.Block()
		if (b == ab && instrIndexIn(in) > instrIndexIn(at)) || (b != ab && ab.Dominates(b)) {
			found = true
		}
	})
	return found
}
