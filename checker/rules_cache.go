package main

// R21 CACHE-NONINTERFERENCE and R22 CACHE-LIFETIME (vector index cache).

import (
	"fmt"
	"go/token"
	"go/types"
	"strings"

	"golang.org/x/tools/go/ssa"
)

var cacheEntryTypes = map[string]string{ // cache type -> entry type
	"vectorIndexCache":  "cacheEntry",
	"synonymIndexCache": "synonymCacheEntry",
}

func isBitmapPtr(t types.Type) bool {
	return isNamed(t, "github.com/RoaringBitmap/roaring/v2", "Bitmap")
}

func ruleR21() *Rule {
	return &Rule{
		ID:          "R21",
		Title:       "CACHE-NONINTERFERENCE: what is stored in a shared cache entry does not depend on per-call arguments",
		Props:       []string{"C16"},
		VectorsOnly: true,
		Floor:       floorFor("R21"),
		Run: func(c *RuleCtx) {
			p := c.p
			entryTypes := map[string]bool{}
			cacheTypes := map[string]bool{}
			for ct, et := range cacheEntryTypes {
				if p.NamedType(ct) != nil && p.NamedType(et) != nil {
					entryTypes[et] = true
					cacheTypes[ct] = true
				}
			}
			if !entryTypes["cacheEntry"] {
				c.undecided("anchor/cacheEntry", "-", "the vector cache entry type exists", "type cacheEntry not found")
				return
			}
			tc := &taintCtx{p: p, summ: map[string]*taintSummary{}, running: map[string]bool{}}
			tc.isSink = func(in ssa.Instruction) (ssa.Value, string, bool) {
				switch x := in.(type) {
				case *ssa.Store:
					if sn, fld, _, ok := fieldOf(x.Addr); ok && entryTypes[sn] {
						return x.Val, "store to " + sn + "." + fld, true
					}
				case *ssa.MapUpdate:
					if sn, fld, _, ok := loadedField(x.Map); ok && cacheTypes[sn] {
						return x.Value, "insertion into " + sn + "." + fld, true
					}
					// update of a map that is an entry's field
					if sn, fld, _, ok := loadedField(x.Map); ok && entryTypes[sn] {
						return x.Value, "update of " + sn + "." + fld, true
					}
				}
				return nil, "", false
			}
			n := 0
			for _, fn := range p.ZapFuncs {
				if fn.Signature.Recv() == nil {
					continue
				}
				rn := namedOf(fn.Signature.Recv().Type())
				if rn == nil || !cacheTypes[rn.Obj().Name()] {
					continue
				}
				for i, prm := range fn.Params {
					if !isBitmapPtr(prm.Type()) {
						continue
					}
					n++
					res := tc.analyse(fn, []ssa.Value{prm})
					hits := tc.sinksIn(res)
					_ = i
					c.check(len(hits) == 0, funcShortName(fn)+"/"+prm.Name(), c.fpos(fn),
						fmt.Sprintf("nothing %s stores into the shared cache depends (by data or control) on its per-call argument %s", funcShortName(fn), prm.Name()),
						"the cache entry is filled through the first caller's exclusion bitmap: later searches with another bitmap see a truncated / wrong id->doc map", uniq(hits)...)
				}
			}
			c.check(n >= 3, "source-params", "-", "cache methods with a per-call bitmap parameter are found (confirmed by hand: loadOrCreate, loadFromCache, createAndCacheLOCKED)", fmt.Sprintf("found %d", n))
		},
	}
}

func ruleR22() *Rule {
	return &Rule{
		ID:          "R22",
		Title:       "CACHE-LIFETIME: references on every hand-out; eviction only at zero after removal from the map; single owner of Close",
		Props:       []string{"C16"},
		VectorsOnly: true,
		Floor:       floorFor("R22"),
		Run: func(c *RuleCtx) {
			p := c.p
			// --- anchors ---
			load := c.method("cacheEntry", "load")
			ceClose := c.method("cacheEntry", "close")
			cleanup := c.method("vectorIndexCache", "cleanup")
			clear_ := c.method("vectorIndexCache", "Clear")
			lfc := c.method("vectorIndexCache", "loadFromCache")
			cac := c.method("vectorIndexCache", "createAndCacheLOCKED")
			cce := c.fn("createCacheEntry")
			decRef := c.method("vectorIndexCache", "decRef")
			if load == nil || ceClose == nil || cleanup == nil || clear_ == nil || lfc == nil || cac == nil || cce == nil || decRef == nil {
				return
			}
			// load() takes a reference
			addsRef := func(fn *ssa.Function) bool {
				reach := p.reachableFrom(fn)
				for f := range reach {
					if !p.InZap(f) {
						continue
					}
					found := false
					eachInstr(f, func(_ *ssa.BasicBlock, in ssa.Instruction) {
						cs, ok := in.(ssa.CallInstruction)
						if !ok {
							return
						}
						if cf := staticCallee(cs); cf != nil && cf.String() == "sync/atomic.AddInt64" {
							if sn, fld, _, ok := fieldOf(cs.Common().Args[0]); ok && sn == "cacheEntry" && fld == "refs" {
								if k, ok := constInt64(cs.Common().Args[1]); ok && k == 1 {
									found = true
								}
							}
						}
					})
					if found {
						return true
					}
				}
				return false
			}
			c.check(addsRef(load), "load-takes-ref", c.fpos(load), "cacheEntry.load() takes a reference (atomic add of +1 on refs)", "load() hands the index out without counting the reference")
			// createCacheEntry starts at refs = 1
			one := false
			eachInstr(cce, func(_ *ssa.BasicBlock, in ssa.Instruction) {
				if st, ok := in.(*ssa.Store); ok {
					if sn, fld, _, ok := fieldOf(st.Addr); ok && sn == "cacheEntry" && fld == "refs" {
						if k, ok := constInt64(st.Val); ok && k == 1 {
							one = true
						}
					}
				}
			})
			c.check(one, "new-entry-refs-1", c.fpos(cce), "a new cache entry starts with one reference (for the caller that created it)", "createCacheEntry does not initialise refs to 1")

			// (b) every hand-out of a non-nil index is preceded by a reference-taking event
			reachCCE := p.reachesFunc(func(f *ssa.Function) bool { return f == cce })
			for _, fn := range []*ssa.Function{lfc, cac} {
				tr := func(in ssa.Instruction, ev uint64, _ bool) []uint64 {
					cs, ok := in.(ssa.CallInstruction)
					if !ok {
						return nil
					}
					f := staticCallee(cs)
					if f == nil {
						return nil
					}
					if f == load || (reachCCE[f] && p.InZap(f)) || f == cac {
						return []uint64{ev | 1}
					}
					return nil
				}
				pa := newPathAnalysis(fn, tr)
				pa.run(0)
				labels := map[string]int{}
				for _, ret := range returnsOf(fn) {
					if !pa.reachable(ret.Block()) {
						continue
					}
					lbl := exitLabel(ret, labels)
					idx := returnedValue(ret, 0)
					if isNilConst(idx) {
						continue
					}
					okc := true
					for _, ev := range pa.statesBefore(ret) {
						if ev&1 == 0 {
							okc = false
						}
					}
					c.check(okc, funcShortName(fn)+"/"+lbl+"/ref-taken", c.pos(ret), "every path that hands a cached index out has taken a reference on its entry (load() or creation with refs=1)",
						"a path returns the cached index without a reference: the monitor may close it while the caller still searches it", "exit: "+describeInstr(p, ret))
				}
			}

			// the wrapper's close() releases the reference of the field it loaded
			ivi := c.method("SegmentBase", "InterpretVectorIndex")
			if ivi != nil {
				var loadArg, decArg ssa.Value
				for _, cs := range callSites(ivi) {
					if f := staticCallee(cs); f != nil && namedFn(f, "vectorIndexCache.loadOrCreate") && len(cs.Common().Args) > 1 {
						loadArg = cs.Common().Args[1]
					}
				}
				var decSite ssa.CallInstruction
				var closeClosure *ssa.Function
				for _, fn := range p.ZapFuncs {
					if fn.Parent() != ivi {
						continue
					}
					for _, cs := range callSites(fn) {
						if staticCallee(cs) == decRef && len(cs.Common().Args) > 1 {
							decArg = cs.Common().Args[1]
							decSite = cs
							closeClosure = fn
						}
					}
				}
				okc := loadArg != nil && decArg != nil && (sameCell(loadArg, decArg) || sameValue(loadArg, decArg))
				c.check(okc, "wrapper-close-decref", c.fpos(ivi), "the index wrapper's close() drops the reference of the very field id that InterpretVectorIndex loaded", "close closure does not call decRef with the loaded field id")
				// that closure is what is stored in the wrapper's close field, and it does not close the index itself
				if closeClosure != nil {
					stored := false
					eachInstr(ivi, func(_ *ssa.BasicBlock, in ssa.Instruction) {
						if st, ok := in.(*ssa.Store); ok {
							if sn, fld, _, ok := fieldOf(st.Addr); ok && sn == "vectorIndexWrapper" && fld == "close" {
								if mc, ok := st.Val.(*ssa.MakeClosure); ok && mc.Fn == closeClosure {
									stored = true
								}
							}
						}
					})
					c.check(stored, "wrapper-close-wired", c.pos(decSite), "the decRef closure is the wrapper's close function", "the closure calling decRef is not stored in vectorIndexWrapper.close")
				}
			}

			// (c) eviction guard in cleanup
			var closeSite ssa.CallInstruction
			for _, cs := range callSites(cleanup) {
				if staticCallee(cs) == ceClose {
					closeSite = cs
				}
			}
			if closeSite == nil {
				c.undecided("cleanup/evict-site", c.fpos(cleanup), "the eviction (entry.close()) in cleanup is found", "no call of cacheEntry.close in cleanup")
			} else {
				// guard on the loaded reference count
				guardOK := false
				desc := "no guard on the reference count dominates the eviction"
				for _, b := range cleanup.Blocks {
					iff, ok := b.Instrs[len(b.Instrs)-1].(*ssa.If)
					if !ok {
						continue
					}
					bo, ok := iff.Cond.(*ssa.BinOp)
					if !ok {
						continue
					}
					k, isK := constInt64(bo.Y)
					if !isK {
						continue
					}
					// operand: result of atomic.LoadInt64(&entry.refs)
					call, ok := bo.X.(*ssa.Call)
					if !ok {
						continue
					}
					if f := call.Call.StaticCallee(); f == nil || f.String() != "sync/atomic.LoadInt64" {
						continue
					}
					if sn, fld, _, ok := fieldOf(call.Call.Args[0]); !ok || sn != "cacheEntry" || fld != "refs" {
						continue
					}
					var towardsTrue bool
					switch {
					case b.Succs[0].Dominates(closeSite.Block()) && len(b.Succs[0].Preds) == 1:
						towardsTrue = true
					case b.Succs[1].Dominates(closeSite.Block()) && len(b.Succs[1].Preds) == 1:
						towardsTrue = false
					default:
						continue
					}
					v0, _ := cmpInt(bo.Op, 0, k)
					v1, _ := cmpInt(bo.Op, 1, k)
					v2, _ := cmpInt(bo.Op, 2, k)
					desc = fmt.Sprintf("guard `refs %s %d`: evict at refs 0:%v 1:%v 2:%v", bo.Op, k, v0 == towardsTrue, v1 == towardsTrue, v2 == towardsTrue)
					if v0 == towardsTrue && v1 != towardsTrue && v2 != towardsTrue {
						guardOK = true
					}
				}
				c.check(guardOK, "cleanup/evict-only-at-zero", c.pos(closeSite), "the monitor evicts an entry only when its reference count is 0 (truth table {0: may evict, 1: keep, 2: keep})", desc)
				// delete from the map precedes close, under the write lock
				const evDeleted = 1
				tr := func(in ssa.Instruction, ev uint64, _ bool) []uint64 {
					if call, ok := in.(*ssa.Call); ok {
						if b, ok := call.Call.Value.(*ssa.Builtin); ok && b.Name() == "delete" {
							if sn, fld, _, ok := loadedField(call.Call.Args[0]); ok && sn == "vectorIndexCache" && fld == "cache" {
								return []uint64{ev | evDeleted}
							}
						}
						if staticCallee(call) == ceClose {
							return []uint64{ev &^ evDeleted}
						}
					}
					return nil
				}
				pa := newPathAnalysis(cleanup, tr)
				pa.run(0)
				okc := true
				for _, ev := range pa.statesBefore(closeSite) {
					if ev&evDeleted == 0 {
						okc = false
					}
				}
				c.check(okc, "cleanup/delete-before-close", c.pos(closeSite), "an evicted entry is removed from the cache map before it is closed", "entry.close() can run while the entry is still reachable through the map")
				c.check(heldAtRW(cleanup, closeSite, "vectorIndexCache.m"), "cleanup/under-write-lock", c.pos(closeSite), "eviction happens under the cache's write lock", "write lock not held at the eviction")
			}

			// (d) owners
			var ceCloseCallers []string
			okOwners := true
			for _, cs := range p.callersOf(ceClose) {
				if !p.InZap(cs.Parent()) {
					continue
				}
				ceCloseCallers = append(ceCloseCallers, funcShortName(cs.Parent()))
				if cs.Parent() != cleanup && cs.Parent() != clear_ {
					okOwners = false
				}
			}
			c.check(okOwners && len(ceCloseCallers) >= 2, "entry-close-owners", c.fpos(ceClose), "cacheEntry.close is called only by the monitor's cleanup and by Clear", "callers: "+strings.Join(ceCloseCallers, ", "))
			// native Close on a cached index only inside cacheEntry.close
			nIdxClose := 0
			okIdx := true
			var bad []string
			for _, fn := range p.ZapFuncs {
				for _, cs := range callSites(fn) {
					iv, ok := faissCloseOf(cs)
					if !ok {
						continue
					}
					cached := false
					if sn, fld, _, ok := loadedField(iv); ok && sn == "cacheEntry" && fld == "index" {
						cached = true
					}
					// an index obtained from the cache (loadOrCreate / load results) in the search closures
					r := root(iv)
					if ex, ok := r.(*ssa.Extract); ok {
						if call, ok := ex.Tuple.(*ssa.Call); ok {
							if f := call.Call.StaticCallee(); f != nil && (namedFn(f, "vectorIndexCache.loadOrCreate") || namedFn(f, "vectorIndexCache.loadFromCache") || f == load || f == cac) {
								cached = true
							}
						}
					}
					if cell := cellOfLoad(iv); cell != nil && strings.Contains(cell.Comment, "vecIndex") {
						cached = true
					}
					if !cached {
						continue
					}
					nIdxClose++
					if rootParent(fn) != ceClose {
						okIdx = false
						bad = append(bad, describeInstr(p, cs)+" in "+funcShortName(fn))
					}
				}
			}
			c.check(okIdx && nIdxClose >= 1, "index-close-owner", c.fpos(ceClose), "the native Close of a cached index happens only inside cacheEntry.close", "a cached index is closed elsewhere (double free / use after free with the cache)", bad...)

			// (e) Clear closes every entry and drops the map under the write lock
			{
				ranged, dropped := false, false
				var closeInClear ssa.CallInstruction
				eachInstr(clear_, func(_ *ssa.BasicBlock, in ssa.Instruction) {
					switch x := in.(type) {
					case *ssa.Range:
						if isLoadOfField(x.X, "vectorIndexCache", "cache") {
							ranged = true
						}
					case *ssa.Store:
						if sn, fld, _, ok := fieldOf(x.Addr); ok && sn == "vectorIndexCache" && fld == "cache" && isNilConst(x.Val) {
							dropped = true
						}
					case ssa.CallInstruction:
						if staticCallee(x) == ceClose {
							closeInClear = x
						}
					}
				})
				okc := ranged && dropped && closeInClear != nil
				if okc {
					okc = heldAtRW(clear_, closeInClear, "vectorIndexCache.m")
				}
				c.check(okc, "clear-closes-all", c.fpos(clear_), "Clear closes every cached entry and drops the map, under the write lock", fmt.Sprintf("ranged=%v dropped=%v close-call=%v", ranged, dropped, closeInClear != nil))
			}
		},
	}
}

func cellOfLoad(v ssa.Value) *ssa.Alloc {
	u, ok := v.(*ssa.UnOp)
	if !ok || u.Op != token.MUL {
		return nil
	}
	return cellOf(u.X)
}

// heldAtRW: like heldAt but for RWMutex write locks.
func heldAtRW(fn *ssa.Function, at ssa.Instruction, mu string) bool {
	return heldAt(fn, at, mu)
}
