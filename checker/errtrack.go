package main

// errTracker: path-sensitive knowledge about error values that are folded into one variable
// (`if err == nil { err = step2() }` ... `if err != nil { return err }`). For every error-returning call
// site s of the function:  N_s = "the error of s was found non-nil on this path"; for every error-typed
// phi p:  H_{p,i} = "p currently holds its i-th operand". With these, a branch `x == nil` on a phi that is
// known to hold an error found non-nil earlier is pruned — which is what makes "the step after the failed
// one was skipped, and the function returned the failure" visible to a path rule that only wants to know
// which calls have certainly happened when success is reported.
//
// It plugs into a pathAnalysis through wrap (transfer), edgeTr and edge; the caller owns bits [0,lo).

import (
	"go/token"

	"golang.org/x/tools/go/ssa"
)

type errTracker struct {
	ubit     map[ssa.Value]uint64 // error value of a call -> U bit ("ran, and not found nil since")
	nbit     map[ssa.Value]uint64 // error value of a call -> N bit
	callOf   map[ssa.Instruction]ssa.Value
	holder   map[*ssa.Phi][]uint64
	overflow bool
}

func newErrTracker(fn *ssa.Function, lo uint) *errTracker {
	t := &errTracker{ubit: map[ssa.Value]uint64{}, nbit: map[ssa.Value]uint64{}, callOf: map[ssa.Instruction]ssa.Value{}, holder: map[*ssa.Phi][]uint64{}}
	bit := lo
	eachInstr(fn, func(_ *ssa.BasicBlock, in ssa.Instruction) {
		switch x := in.(type) {
		case *ssa.Call:
			ev := errValueOfCall(x)
			if ev == nil {
				return
			}
			if bit+1 >= 60 {
				t.overflow = true
				return
			}
			t.nbit[ev] = 1 << bit
			t.ubit[ev] = 1 << (bit + 1)
			t.callOf[in] = ev
			bit += 2
		case *ssa.Phi:
			if !isErrorType(x.Type()) {
				return
			}
			if bit+uint(len(x.Edges)) >= 60 {
				t.overflow = true
				return
			}
			bits := make([]uint64, len(x.Edges))
			for i := range bits {
				bits[i] = 1 << bit
				bit++
			}
			t.holder[x] = bits
		}
	})
	return t
}

// notFoundNil: the call whose error value is v ran on this path and its error has not been found nil
// since (false also when the tracker overflowed: no knowledge).
func (t *errTracker) notFoundNil(v ssa.Value, ev uint64) bool {
	if t.overflow {
		return true
	}
	b, ok := t.ubit[v]
	return ok && ev&b != 0
}

func (t *errTracker) resolveVal(v ssa.Value, ev uint64, depth int) ssa.Value {
	if depth > 6 || v == nil {
		return nil
	}
	if _, ok := t.nbit[v]; ok {
		return v
	}
	if ph, ok := v.(*ssa.Phi); ok {
		if bits := t.holder[ph]; bits != nil {
			for i, b := range bits {
				if ev&b != 0 {
					return t.resolveVal(ph.Edges[i], ev, depth+1)
				}
			}
		}
		return nil
	}
	if r := resolveLoad(v); r != v {
		return t.resolveVal(r, ev, depth+1)
	}
	return nil
}

func (t *errTracker) resolve(v ssa.Value, ev uint64, depth int) (uint64, bool) {
	if depth > 6 || v == nil {
		return 0, false
	}
	if b, ok := t.nbit[v]; ok {
		return b, true
	}
	if ph, ok := v.(*ssa.Phi); ok {
		if bits := t.holder[ph]; bits != nil {
			for i, b := range bits {
				if ev&b != 0 {
					return t.resolve(ph.Edges[i], ev, depth+1)
				}
			}
		}
		return 0, false
	}
	if r := resolveLoad(v); r != v {
		return t.resolve(r, ev, depth+1)
	}
	return 0, false
}

func errNilTest(cond ssa.Value) (x ssa.Value, nilWhen bool, ok bool) {
	neg := false
	for {
		if u, isU := cond.(*ssa.UnOp); isU && u.Op == token.NOT {
			cond, neg = u.X, !neg
			continue
		}
		break
	}
	bo, isB := cond.(*ssa.BinOp)
	if !isB || (bo.Op != token.EQL && bo.Op != token.NEQ) {
		return nil, false, false
	}
	switch {
	case isNilConst(bo.Y):
		x = bo.X
	case isNilConst(bo.X):
		x = bo.Y
	default:
		return nil, false, false
	}
	if !isErrorType(x.Type()) {
		return nil, false, false
	}
	return x, (bo.Op == token.EQL) != neg, true
}

// wrap: a call that yields a new error value forgets what was known about the previous one of that site.
func (t *errTracker) wrap(tr transferFn) transferFn {
	return func(in ssa.Instruction, ev uint64, deferred bool) []uint64 {
		out := tr(in, ev, deferred)
		if v, ok := t.callOf[in]; ok {
			if out == nil {
				out = []uint64{ev}
			}
			for i := range out {
				out[i] = (out[i] &^ t.nbit[v]) | t.ubit[v]
			}
		}
		return out
	}
}

func (t *errTracker) edgeTr(pred *ssa.BasicBlock, succIdx int, ev uint64) uint64 {
	if t.overflow {
		return ev
	}
	succ := pred.Succs[succIdx]
	if iff, ok := pred.Instrs[len(pred.Instrs)-1].(*ssa.If); ok && len(pred.Succs) == 2 && pred.Succs[0] != pred.Succs[1] {
		if x, nilWhen, ok := errNilTest(iff.Cond); ok {
			if rv := t.resolveVal(x, ev, 0); rv != nil {
				if (succIdx == 0) != nilWhen {
					ev |= t.nbit[rv]
				} else {
					ev &^= t.ubit[rv]
				}
			}
		}
	}
	for _, in := range succ.Instrs {
		ph, ok := in.(*ssa.Phi)
		if !ok {
			break
		}
		bits := t.holder[ph]
		if bits == nil {
			continue
		}
		for i, p := range succ.Preds {
			if p == pred {
				for _, b := range bits {
					ev &^= b
				}
				ev |= bits[i]
				break
			}
		}
	}
	return ev
}

func (t *errTracker) edge(pred, succ *ssa.BasicBlock, ev uint64) bool {
	if t.overflow {
		return true
	}
	iff, ok := pred.Instrs[len(pred.Instrs)-1].(*ssa.If)
	if !ok || len(pred.Succs) != 2 || pred.Succs[0] == pred.Succs[1] {
		return true
	}
	x, nilWhen, ok := errNilTest(iff.Cond)
	if !ok {
		return true
	}
	b, ok := t.resolve(x, ev, 0)
	if !ok {
		return true
	}
	saysNil := (succ == pred.Succs[0]) == nilWhen
	return !(saysNil && ev&b != 0)
}

// errPathState: what is known, along one path, about values that hold a particular non-nil error.
type errPathState struct {
	nn    map[ssa.Value]bool  // SSA values known to be that (non-nil) error
	cells map[*ssa.Alloc]bool // local variables currently holding it
}

func (s *errPathState) clone() *errPathState {
	c := &errPathState{nn: map[ssa.Value]bool{}, cells: map[*ssa.Alloc]bool{}}
	for k := range s.nn {
		c.nn[k] = true
	}
	for k := range s.cells {
		c.cells[k] = true
	}
	return c
}

func (s *errPathState) holds(v ssa.Value) bool {
	if s.nn[v] {
		return true
	}
	if u, ok := v.(*ssa.UnOp); ok && u.Op == token.MUL {
		if cell := cellOf(u.X); cell != nil && s.cells[cell] {
			return true
		}
	}
	return false
}

// enter: the path goes from pred into b — phis take the value of that edge.
func (s *errPathState) enter(pred, b *ssa.BasicBlock) {
	idx := -1
	for i, p := range b.Preds {
		if p == pred {
			idx = i
		}
	}
	if idx < 0 {
		return
	}
	for _, in := range b.Instrs {
		ph, ok := in.(*ssa.Phi)
		if !ok {
			break
		}
		if s.holds(ph.Edges[idx]) {
			s.nn[ph] = true
		} else {
			delete(s.nn, ph)
		}
	}
}

// step: the effect of one instruction (stores into local error variables).
func (s *errPathState) step(in ssa.Instruction) {
	if st, ok := in.(*ssa.Store); ok {
		if cell := cellOf(st.Addr); cell != nil {
			if s.holds(st.Val) {
				s.cells[cell] = true
			} else {
				delete(s.cells, cell)
			}
		}
	}
}

// branch: which successors of b the path can take (an `x != nil` / `x == nil` test of a value that
// holds the error is decided).
func (s *errPathState) branch(b *ssa.BasicBlock) []*ssa.BasicBlock {
	iff, ok := b.Instrs[len(b.Instrs)-1].(*ssa.If)
	if !ok || len(b.Succs) != 2 {
		return b.Succs
	}
	if x, nilWhen, ok := errNilTest(iff.Cond); ok && s.holds(x) {
		if nilWhen {
			return b.Succs[1:2]
		}
		return b.Succs[0:1]
	}
	return b.Succs
}

// maySucceedAfterError: starting in block start (entered from pred) with e known to be a non-nil error,
// can a return be reached whose error result may be nil? Tests of variables that hold e are decided,
// everything else is followed both ways. Returns such a return, or nil.
func maySucceedAfterError(start, pred *ssa.BasicBlock, e ssa.Value) *ssa.Return {
	type key struct {
		b    *ssa.BasicBlock
		held bool
	}
	seen := map[key]bool{}
	var walk func(b, from *ssa.BasicBlock, st *errPathState, depth int) *ssa.Return
	walk = func(b, from *ssa.BasicBlock, st *errPathState, depth int) *ssa.Return {
		if depth > 200 {
			return nil
		}
		st = st.clone()
		if from != nil {
			st.enter(from, b)
		}
		k := key{b, len(st.nn)+len(st.cells) > 1}
		if seen[k] {
			return nil
		}
		seen[k] = true
		for _, in := range b.Instrs {
			st.step(in)
			if ret, ok := in.(*ssa.Return); ok {
				v, ns := errorOfReturn(ret)
				if ns == nonNil || (v != nil && st.holds(v)) {
					return nil
				}
				return ret
			}
		}
		for _, sx := range st.branch(b) {
			if r := walk(sx, b, st, depth+1); r != nil {
				return r
			}
		}
		return nil
	}
	st := &errPathState{nn: map[ssa.Value]bool{e: true}, cells: map[*ssa.Alloc]bool{}}
	return walk(start, pred, st, 0)
}
