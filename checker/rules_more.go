package main

// Clauses added after the fourth round of seeded changes (DESIGN.md §9):
//
//	R11b TAG-FIRST          the bitmap of a postings list is looked at only after the 1-hit tag said "general"
//	R8c  CANCEL-IDENTITY    between a cancellation poll and the API, the error is handed up unchanged
//	R29b FLAG-PER-POSTING   the has-locations flag encoded with a posting is computed from that posting
//	R25d SCRATCH-BOUND      a per-field scratch table is walked over the length it was allocated with
//	R27e STORED-BLOCK       the per-document stored block always carries the snappy encoding of the field data
//
// Each is attached to the rule of its family (same ID, further obligations).

import (
	"fmt"
	"go/token"
	"go/types"
	"sort"
	"strings"

	"golang.org/x/tools/go/ssa"
)

// ---------------------------------------------------------------------------
// R11b

// r11TagFirst: in every function that uses the *content* of
// PostingsList.postings (hands the bitmap to a call, stores it elsewhere), the
// use is reached only after `normBits1Hit != 0` was found false on that list.
// The bitmap object is carried over from the previous entry when a list is
// reused (R12 allows it as a buffer) and a 1-hit entry does not touch it, so
// its content is only meaningful for a general entry.
func r11TagFirst(c *RuleCtx) {
	props := []string{"C08", "C07"}
	const sn = "PostingsList"
	exempt := func(fn *ssa.Function) string {
		switch {
		case namedFn(fn, "PostingsList.read"):
			return "the decoder fills it"
		case namedFn(fn, "Dictionary.postingsListInit"):
			return "the reuse path clears it (R12)"
		case namedFn(fn, "PostingsList.Size"):
			return "size accounting of the allocated object"
		}
		return ""
	}
	// a helper that only the exempt functions call is part of them (`read` split into `read` + `initGeneral`)
	var partOfExempt func(fn *ssa.Function, depth int) bool
	partOfExempt = func(fn *ssa.Function, depth int) bool {
		if exempt(fn) != "" {
			return true
		}
		if depth > 3 || fn.Object() == nil || fn.Object().Exported() {
			return false
		}
		n := 0
		for _, cs := range c.p.callersOf(fn) {
			par := rootParent(cs.Parent())
			if !c.p.InZap(par) {
				continue
			}
			n++
			if par == fn || !partOfExempt(par, depth+1) {
				return false
			}
		}
		return n > 0
	}
	nSites, nFns := 0, 0
	for _, fn := range c.p.ZapFuncs {
		if partOfExempt(fn, 0) {
			continue
		}
		// content uses of a load of <list>.postings
		type use struct {
			in   ssa.Instruction
			base ssa.Value
		}
		var uses []use
		eachInstr(fn, func(_ *ssa.BasicBlock, in ssa.Instruction) {
			u, ok := in.(*ssa.UnOp)
			if !ok || u.Op != token.MUL {
				return
			}
			s, f, base, ok := fieldOf(u.X)
			if !ok || s != sn || f != "postings" {
				return
			}
			for _, r := range *u.Referrers() {
				switch x := r.(type) {
				case ssa.CallInstruction:
					uses = append(uses, use{x, base})
				case *ssa.Store:
					if x.Val == ssa.Value(u) {
						// copied into another object (the iterator's ActualBM)
						if s2, f2, _, ok := fieldOf(x.Addr); ok && !(s2 == sn && f2 == "postings") {
							uses = append(uses, use{x, base})
						}
					}
				case *ssa.MakeInterface, *ssa.Phi:
					uses = append(uses, use{r, base})
				}
			}
		})
		if len(uses) == 0 {
			continue
		}
		nFns++
		isTag := func(v ssa.Value, base ssa.Value) bool {
			s, f, b, ok := loadedField(v)
			return ok && s == sn && f == "normBits1Hit" && (root(b) == root(base) || sameValue(b, base))
		}
		// one analysis per base value (a function normally has one list)
		bases := map[ssa.Value]bool{}
		for _, u := range uses {
			bases[root(u.base)] = true
		}
		for base := range bases {
			base := base
			condTr := func(cond ssa.Value, outcome bool, ev uint64, _ func(ssa.Value) ssa.Value) uint64 {
				bo, ok := cond.(*ssa.BinOp)
				if !ok || (bo.Op != token.NEQ && bo.Op != token.EQL) {
					return ev
				}
				var tagSide, other ssa.Value
				switch {
				case isTag(bo.X, base):
					tagSide, other = bo.X, bo.Y
				case isTag(bo.Y, base):
					tagSide, other = bo.Y, bo.X
				default:
					return ev
				}
				_ = tagSide
				if k, ok := constUint64(other); !ok || k != 0 {
					return ev
				}
				isZero := (bo.Op == token.EQL) == outcome
				if isZero {
					return ev | 1
				}
				return ev &^ 1
			}
			pa := newPathAnalysis(fn, func(in ssa.Instruction, ev uint64, _ bool) []uint64 {
				// a store to the tag voids what was known
				if st, ok := in.(*ssa.Store); ok {
					if s, f, b, ok := fieldOf(st.Addr); ok && s == sn && f == "normBits1Hit" && root(b) == base {
						return []uint64{ev &^ 1}
					}
				}
				return nil
			})
			pa.condTr = condTr
			pa.edgeTr = func(pred *ssa.BasicBlock, succIdx int, ev uint64) uint64 {
				if iff, ok := pred.Instrs[len(pred.Instrs)-1].(*ssa.If); ok && len(pred.Succs) == 2 {
					return condTr(iff.Cond, succIdx == 0, ev, nil)
				}
				return ev
			}
			pa.run(0)
			perFn := 0
			for _, u := range uses {
				if root(u.base) != base {
					continue
				}
				nSites++
				perFn++
				okc := true
				for _, ev := range pa.statesBefore(u.in) {
					if ev&1 == 0 {
						okc = false
					}
				}
				c.add(statusOf(okc), fmt.Sprintf("tag-first/%s#%d", funcShortName(fn), perFn), c.pos(u.in),
					"in "+funcShortName(fn)+" the bitmap of a postings list is used only after its 1-hit tag was found to be zero (a reused list keeps the previous entry's bitmap object; a 1-hit entry does not touch it)",
					"the bitmap is used on a path on which the list may hold a 1-hit entry: its content is whatever the previous term left there (Count, OrInto and iteration then answer for the wrong term)", props,
					[]string{"use: " + describeInstr(c.p, u.in)})
			}
		}
	}
	c.add(statusOf(nFns >= half(3) && nSites >= half(5)), "tag-first/sites", "-", "content uses of PostingsList.postings are found (pinned tree: Count, OrInto, iterator — 7 uses)", fmt.Sprintf("%d functions, %d uses", nFns, nSites), props, nil)
}

// ---------------------------------------------------------------------------
// R8c

// r8CancelIdentity: a function of package zap that calls (directly, or through
// the section interface) something that may return the closed error hands that
// error up unchanged on the failure branch: the property asks for *the* closed
// error at the API, so wrapping it (even with %w) or replacing it loses it.
func r8CancelIdentity(c *RuleCtx) {
	props := []string{"C18"}
	p := c.p
	pollSet := map[*ssa.Function]bool{}
	for _, f := range p.pollFuncs() {
		pollSet[f] = true
	}
	isPoll := func(f *ssa.Function) bool { return pollSet[f] }
	// mayCancel: contains a poll, or calls a mayCancel function
	may := map[*ssa.Function]bool{}
	for _, fn := range p.ZapFuncs {
		for _, cs := range callSites(fn) {
			if f := staticCallee(cs); f != nil && isPoll(f) {
				may[rootParent(fn)] = true
			}
		}
	}
	sectionMerge := map[*ssa.Function]bool{}
	for _, impl := range p.sectionImpls() {
		if m := impl.methods["Merge"]; m != nil {
			sectionMerge[m] = true
		}
	}
	calleesOf := func(cs ssa.CallInstruction) []*ssa.Function {
		if f := staticCallee(cs); f != nil {
			return []*ssa.Function{f}
		}
		cc := cs.Common()
		if cc.IsInvoke() && isNamed(cc.Value.Type(), zapPkgPath, "section") && cc.Method.Name() == "Merge" {
			var out []*ssa.Function
			for f := range sectionMerge {
				out = append(out, f)
			}
			return out
		}
		return nil
	}
	for changed := true; changed; {
		changed = false
		for _, fn := range p.ZapFuncs {
			rp := rootParent(fn)
			if may[rp] || errorResultIndex(rp.Signature) < 0 {
				continue
			}
			for _, cs := range callSites(fn) {
				for _, f := range calleesOf(cs) {
					if may[f] && p.InZap(f) {
						may[rp] = true
						changed = true
					}
				}
			}
		}
	}
	n := 0
	var fns []*ssa.Function
	for f := range may {
		fns = append(fns, f)
	}
	sort.Slice(fns, func(i, j int) bool { return fns[i].String() < fns[j].String() })
	for _, fn := range fns {
		if errorResultIndex(fn.Signature) < 0 {
			continue
		}
		perFn := 0
		for _, cs := range callSites(fn) {
			mc := false
			name := ""
			for _, f := range calleesOf(cs) {
				if may[f] && !isPoll(f) {
					mc = true
					name = f.Name()
				}
			}
			if !mc {
				continue
			}
			ev := errValueOfCall(cs)
			if ev == nil {
				continue // a dropped error is R7's business
			}
			n++
			perFn++
			var bad []string
			for _, ret := range returnsOf(fn) {
				// a return on the failure branch of this call
				if !(cs.Block() == ret.Block() || cs.Block().Dominates(ret.Block())) {
					continue
				}
				if nilnessAt(ev, ret.Block()) != nonNil {
					continue
				}
				rv, _ := errorOfReturn(ret)
				if rv == nil {
					continue
				}
				if sameValue(rv, ev) || sameValue(resolveLoad(rv), ev) {
					continue
				}
				bad = append(bad, "exit "+c.pos(ret)+" returns "+valueOrigin(rv)+" instead of the error of "+name)
			}
			c.add(statusOf(len(bad) == 0), fmt.Sprintf("cancel-identity/%s->%s#%d", funcShortName(fn), name, perFn), c.pos(cs),
				fmt.Sprintf("%s hands the error of %s (which may be the closed error) up unchanged", funcShortName(fn), name),
				"a cancellation noticed below this call reaches the caller as a different error: Merge would not return the closed error (the property asks for that very error; wrapping loses it too)", props, bad)
		}
	}
	c.add(statusOf(n >= half(6)), "cancel-identity/sites", "-", "call sites between the cancellation polls and the API are found (pinned tree: 8 without vectors)", fmt.Sprintf("found %d", n), props, nil)
}

// ---------------------------------------------------------------------------
// R29b

// r29FlagPerPosting: every argument of encodeFreqHasLocs inside a loop is
// computed inside that loop (it describes the posting being written); a
// has-locations flag hoisted out of the postings loop stamps every posting of
// the term with the first one's answer.
func r29FlagPerPosting(c *RuleCtx) {
	props := []string{"C01", "C06"}
	n := 0
	perFnCount := map[*ssa.Function]int{}
	loopsOf := map[*ssa.Function][]*natLoop{}
	// judge: the values `args` (frequency, flag) that reach encodeFreqHasLocs through the call at `at`
	var judge func(at ssa.CallInstruction, args []ssa.Value, depth int)
	judge = func(at ssa.CallInstruction, args []ssa.Value, depth int) {
		fn := at.Parent()
		loops, ok := loopsOf[fn]
		if !ok {
			loops = naturalLoops(fn)
			loopsOf[fn] = loops
		}
		// innermost loop containing the call
		var loop *natLoop
		for _, l := range loops {
			if l.blocks[at.Block()] && (loop == nil || len(l.blocks) < len(loop.blocks)) {
				loop = l
			}
		}
		if loop == nil {
			// an encoding helper (`(*chunkedIntCoder).addFreqNorm(docNum, freq, hasLocs, norm)`): the values
			// are its parameters; they are judged where the helper is called
			if depth >= 2 {
				return
			}
			idx := map[int]bool{}
			for _, a := range args {
				if _, isConst := a.(*ssa.Const); isConst {
					continue
				}
				p, isParam := a.(*ssa.Parameter)
				if !isParam {
					return // computed in a function without a loop: nothing to say
				}
				for i, pp := range fn.Params {
					if pp == p {
						idx[i] = true
					}
				}
			}
			for _, cs := range c.p.callersOf(fn) {
				if !c.p.InZap(cs.Parent()) {
					continue
				}
				var actual []ssa.Value
				for i := range fn.Params {
					if idx[i] && i < len(cs.Common().Args) {
						actual = append(actual, cs.Common().Args[i])
					}
				}
				judge(cs, actual, depth+1)
			}
			return
		}
		n++
		perFnCount[fn]++
		var bad []string
		for ai, a := range args {
			if _, isConst := a.(*ssa.Const); isConst {
				continue
			}
			if !definedInLoop(a, loop, 0) {
				bad = append(bad, fmt.Sprintf("argument %d (%s) is computed outside the loop over the postings", ai, a.Name()))
			}
		}
		props2 := []string{"C06"}
		if strings.Contains(fn.Name(), "writeDicts") {
			props2 = []string{"C01"}
		}
		c.add(statusOf(len(bad) == 0), fmt.Sprintf("flag-per-posting/%s#%d", funcShortName(fn), perFnCount[fn]), c.pos(at),
			"the frequency and the has-locations flag encoded for a posting are computed from that posting (inside the loop over the postings)",
			"a loop-invariant value is encoded with every posting of the term: postings that differ in it (a document without locations among documents with locations) are written with the wrong flag and the reader mis-steps through the location stream", props2, bad)
	}
	for _, fn := range c.p.ZapFuncs {
		for _, cs := range callSites(fn) {
			f := staticCallee(cs)
			if f == nil || !namedFn(f, "encodeFreqHasLocs") {
				continue
			}
			judge(cs, cs.Common().Args, 0)
		}
	}
	c.add(statusOf(n >= half(3)), "flag-per-posting/sites", "-", "calls of encodeFreqHasLocs inside postings loops are found (pinned tree: 2 in writeDicts, 1 in mergeTermFreqNormLocs)", fmt.Sprintf("found %d", n), props, nil)
}

// definedInLoop: v (or something it is computed from, other than constants) is
// defined by an instruction inside the loop.
func definedInLoop(v ssa.Value, loop *natLoop, depth int) bool {
	if depth > 6 {
		return false
	}
	in, ok := v.(ssa.Instruction)
	if !ok {
		return false
	}
	if !loop.blocks[in.Block()] {
		return false
	}
	switch x := v.(type) {
	case *ssa.Phi:
		return true // a value merged inside the loop varies with its paths
	case *ssa.BinOp, *ssa.UnOp, *ssa.Convert, *ssa.ChangeType, *ssa.Field, *ssa.Extract, *ssa.Index, *ssa.Lookup, *ssa.Slice:
		// computed in the loop: variant if one of its operands is
		for _, op := range in.Operands(nil) {
			if *op == nil {
				continue
			}
			if _, isConst := (*op).(*ssa.Const); isConst {
				continue
			}
			if definedInLoop(*op, loop, depth+1) {
				return true
			}
		}
		// a load: variant if the address is, or if the cell is written in the loop
		if u, ok := x.(*ssa.UnOp); ok && u.Op == token.MUL {
			if cell := cellOf(u.X); cell != nil {
				for _, st := range cellStores(cell) {
					if st.Parent() == in.Parent() && loop.blocks[st.Block()] {
						return true
					}
				}
			}
		}
		return false
	case *ssa.Call:
		return true
	}
	return true
}

// ---------------------------------------------------------------------------
// R25d

// r25ScratchBound: a local table allocated as make([]T, len(X)) whose slots are
// reset (`t[i] = t[i][:0]`) by a loop bounded by len(Y) needs Y to be X (or the
// table itself): the per-field scratch tables of the merge are sized by the
// merged field list, and a reset that walks a segment's own field list leaves
// the tail holding the previous document's values. (Tables that are merely
// *indexed* under another list's length are not judged: equal lengths by
// construction — DictKeys/FieldsInv — are not visible here.)
func r25ScratchBound(c *RuleCtx) {
	props := []string{"C05"}
	n := 0
	for _, fn := range c.p.ZapFuncs {
		if fn.Parent() != nil {
			continue
		}
		// local tables: make([]T, len(X)) / make([]T, len(X), ...)
		type table struct {
			mk  *ssa.MakeSlice
			src ssa.Value // X
		}
		var tables []table
		eachInstr(fn, func(_ *ssa.BasicBlock, in ssa.Instruction) {
			mk, ok := in.(*ssa.MakeSlice)
			if !ok {
				return
			}
			if x := lenOperand(mk.Len); x != nil {
				tables = append(tables, table{mk, x})
			}
		})
		if len(tables) == 0 {
			continue
		}
		loops := naturalLoops(fn)
		perFn := map[string]int{}
		for _, t := range tables {
			// every IndexAddr on the table (through the cell it is kept in) by a loop counter
			for _, l := range loops {
				rs := l.rangedSlice()
				if rs == nil {
					continue
				}
				iff := l.header.Instrs[len(l.header.Instrs)-1].(*ssa.If)
				idx := iff.Cond.(*ssa.BinOp).X
				// the loop resets the slots of the table: t[i] = t[i][:0]
				used := false
				for b := range l.blocks {
					for _, in := range b.Instrs {
						st, ok := in.(*ssa.Store)
						if !ok {
							continue
						}
						ia, ok := st.Addr.(*ssa.IndexAddr)
						if !ok || !(ia.Index == idx || sameIndex(ia.Index, idx)) || root(ia.X) != ssa.Value(t.mk) {
							continue
						}
						sl, ok := st.Val.(*ssa.Slice)
						if !ok || sl.High == nil {
							continue
						}
						if k, ok := constInt64(sl.High); ok && k == 0 {
							used = true
						}
					}
				}
				if !used {
					continue
				}
				n++
				name := funcShortName(fn) + "/" + tableName(t.mk)
				perFn[name]++
				key := fmt.Sprintf("scratch-bound/%s#%d", name, perFn[name])
				okc := structEq(rs, t.src, 0) || root(rs) == ssa.Value(t.mk) || sameValue(rs, t.src)
				if mk2, ok := root(rs).(*ssa.MakeSlice); ok && !okc {
					// another table allocated with the same length
					if x2 := lenOperand(mk2.Len); x2 != nil && (structEq(x2, t.src, 0) || sameValue(x2, t.src)) {
						okc = true
					}
				}
				c.add(statusOf(okc), key, c.p.instrPos(iff),
					fmt.Sprintf("in %s the table %s (allocated with the length of %s) is walked over that same length", funcShortName(fn), tableName(t.mk), describeLenSrc(t.src)),
					fmt.Sprintf("the loop runs over the length of %s: entries beyond it keep what an earlier document / segment left there", describeLenSrc(rs)), props, nil)
			}
		}
	}
	// (the tables may legitimately be folded into one table of accumulator
	// structs, whose reset is then judged by the partial-truncate clause of R10;
	// so their absence is recorded, not reported)
	c.okP(props, "scratch-bound/sites", "-", fmt.Sprintf("reset loops over locally allocated per-field tables: %d (pinned tree: vals, typs, poss in mergeStoredAndRemap)", n))
}

// lenOperand: v is len(X) (possibly converted); returns X.
func lenOperand(v ssa.Value) ssa.Value {
	for i := 0; i < 3; i++ {
		switch x := v.(type) {
		case *ssa.Convert:
			v = x.X
		case *ssa.Call:
			if b, ok := x.Call.Value.(*ssa.Builtin); ok && b.Name() == "len" {
				return x.Call.Args[0]
			}
			return nil
		default:
			return nil
		}
	}
	return nil
}

func sameIndex(a, b ssa.Value) bool {
	// range loops index with phi+1, counted loops with the phi itself
	pa, _ := rangeIndexOf(a)
	pb, _ := rangeIndexOf(b)
	return pa != nil && pa == pb
}

func tableName(mk *ssa.MakeSlice) string {
	for _, r := range *mk.Referrers() {
		if st, ok := r.(*ssa.Store); ok && st.Val == ssa.Value(mk) {
			if al, ok := st.Addr.(*ssa.Alloc); ok && al.Comment != "" {
				return al.Comment
			}
		}
		if dr, ok := r.(*ssa.DebugRef); ok && dr.Expr != nil {
			return types.ExprString(dr.Expr)
		}
	}
	return strings.ReplaceAll(mk.Type().String(), zapPkgPath+".", "")
}

func describeLenSrc(v ssa.Value) string {
	r := root(v)
	switch x := r.(type) {
	case *ssa.Parameter:
		return "parameter " + x.Name()
	case *ssa.UnOp:
		if sn, fld, _, ok := loadedField(x); ok {
			return sn + "." + fld
		}
	}
	return r.Name()
}

// ---------------------------------------------------------------------------
// R27e

// r27StoredBlock: the block written per document after the `_id` value is the
// snappy encoding of the field data, always (an empty field list still gives
// the one-byte encoding), and the reader always decodes it.
func r27StoredBlock(c *RuleCtx) {
	props := []string{"C09", "C02"}
	isSnappy := func(f *ssa.Function, name string) bool {
		return f != nil && f.Pkg != nil && strings.HasSuffix(f.Pkg.Pkg.Path(), "golang/snappy") && f.Name() == name
	}
	for _, w := range []struct{ typ, name string }{{"interim", "writeStoredFields"}, {"", "mergeStoredAndRemap"}} {
		var fn *ssa.Function
		if w.typ != "" {
			fn = c.method(w.typ, w.name)
		} else {
			fn = c.fn(w.name)
		}
		if fn == nil {
			continue
		}
		var enc []*ssa.Call
		for _, f := range withHelpers(c.p, fn) {
			for _, cs := range callSites(f) {
				if call, ok := cs.(*ssa.Call); ok && isSnappy(staticCallee(cs), "Encode") {
					enc = append(enc, call)
				}
			}
		}
		key := "stored-block/writer/" + funcShortName(fn)
		if len(enc) != 1 {
			c.add(statusOf(false), key, c.fpos(fn), "the stored block of a document is produced by one snappy.Encode call", fmt.Sprintf("found %d snappy.Encode calls", len(enc)), props, nil)
			continue
		}
		// the encoding step is not skipped depending on a length (an empty
		// field list is stored as its one-byte encoding, not as nothing)
		var why []string
		okc := true
		deps := transitiveControlDeps(enc[0].Parent())
		for _, d := range deps[enc[0].Block()] {
			if condIsLenTest(branchCond(d.Branch)) && decidesWhetherReached(d.Branch, enc[0].Block()) {
				okc = false
				why = append(why, "snappy.Encode is skipped depending on a length test ("+c.p.instrPos(d.Branch.Instrs[len(d.Branch.Instrs)-1])+")")
			}
		}
		c.add(statusOf(okc && len(why) == 0), key, c.pos(enc[0]), "the stored block written for a document is always the snappy encoding of its field data (one byte for an empty list)",
			strings.Join(why, "; ")+" — files would differ from the v16 layout, which readers of the pinned release decode unconditionally", props, nil)
	}
	if fn := c.method("SegmentBase", "visitStoredFields"); fn != nil {
		var dec []*ssa.Call
		for _, f := range withHelpers(c.p, fn) {
			for _, cs := range callSites(f) {
				if call, ok := cs.(*ssa.Call); ok && isSnappy(staticCallee(cs), "Decode") {
					dec = append(dec, call)
				}
			}
		}
		okc := len(dec) == 1
		why := fmt.Sprintf("found %d snappy.Decode calls", len(dec))
		if okc {
			// the decode is not conditional on anything but earlier errors and the document-number guard:
			// its block is control dependent only on error tests / the numDocs guard / the visitor's answer for _id
			deps := transitiveControlDeps(dec[0].Parent())
			for _, d := range deps[dec[0].Block()] {
				cond := branchCond(d.Branch)
				if condIsLenTest(cond) && decidesWhetherReached(d.Branch, dec[0].Block()) {
					okc = false
					why = "snappy.Decode is skipped depending on the length of the block: an empty field list is stored as a one-byte encoding, not as nothing"
				}
			}
		}
		c.add(statusOf(okc), "stored-block/reader", c.fpos(fn), "the reader always decodes the stored block of a document with snappy.Decode", why, props, nil)
	}
}

// decidesWhetherReached: after the two-way branch at the end of br, the function can go on to report
// success (a return whose error is not provably non-nil) without passing through target — and without
// coming back to br (another iteration decides anew). A length test whose arms both go on to target, or
// whose only other way out is an error return, does not skip target.
func decidesWhetherReached(br *ssa.BasicBlock, target *ssa.BasicBlock) bool {
	if len(br.Succs) != 2 || !reachesBlock(br, target) {
		return false
	}
	seen := map[*ssa.BasicBlock]bool{br: true, target: true}
	work := append([]*ssa.BasicBlock(nil), br.Succs...)
	for len(work) > 0 {
		x := work[len(work)-1]
		work = work[:len(work)-1]
		if seen[x] {
			continue
		}
		seen[x] = true
		if ret, ok := x.Instrs[len(x.Instrs)-1].(*ssa.Return); ok {
			if _, ns := errorOfReturn(ret); ns != nonNil {
				return true
			}
		}
		work = append(work, x.Succs...)
	}
	return false
}

func condIsLenTest(cond ssa.Value) bool {
	bo, ok := cond.(*ssa.BinOp)
	if !ok {
		return false
	}
	for _, side := range []ssa.Value{bo.X, bo.Y} {
		if call, ok := side.(*ssa.Call); ok {
			if b, ok := call.Call.Value.(*ssa.Builtin); ok && b.Name() == "len" {
				if _, isSlice := call.Call.Args[0].Type().Underlying().(*types.Slice); isSlice {
					// len(x) compared with a constant
					other := bo.Y
					if side == bo.Y {
						other = bo.X
					}
					if _, isConst := other.(*ssa.Const); isConst {
						return true
					}
				}
			}
		}
	}
	return false
}

// ---------------------------------------------------------------------------
// R10e

// r10PartialTruncate: a struct value that is recycled inside a container (read
// out of a map or slice, some of its slice fields truncated with `f = f[:0]`,
// written back) must have *all* its slice fields truncated: the fields left
// alone keep the previous document's elements and are appended to again.
// The pinned tree has no such recycling (it deletes the entries instead); the
// clause is exercised by the self-test on every thorough run.
func r10PartialTruncate(c *RuleCtx) {
	props := []string{"C02", "C10", "C05"}
	n := 0
	for _, fn := range c.p.ZapFuncs {
		eachInstr(fn, func(_ *ssa.BasicBlock, in ssa.Instruction) {
			al, ok := in.(*ssa.Alloc)
			if !ok {
				return
			}
			st, ok := derefType(al.Type()).Underlying().(*types.Struct)
			if !ok {
				return
			}
			var sliceFields []int
			for i := 0; i < st.NumFields(); i++ {
				if _, isSlice := st.Field(i).Type().Underlying().(*types.Slice); isSlice {
					sliceFields = append(sliceFields, i)
				}
			}
			if len(sliceFields) < 2 {
				return
			}
			truncated := map[int]bool{}
			writtenBack := false
			var at ssa.Instruction
			for _, r := range *al.Referrers() {
				switch x := r.(type) {
				case *ssa.FieldAddr:
					for _, r2 := range *x.Referrers() {
						s, ok := r2.(*ssa.Store)
						if !ok || s.Addr != ssa.Value(x) {
							continue
						}
						sl, ok := s.Val.(*ssa.Slice)
						if !ok || sl.High == nil {
							continue
						}
						if k, ok := constInt64(sl.High); !ok || k != 0 {
							continue
						}
						// of the field's own old value
						if u, ok := sl.X.(*ssa.UnOp); ok {
							if fa, ok := u.X.(*ssa.FieldAddr); ok && fa.X == ssa.Value(al) && fa.Field == x.Field {
								truncated[x.Field] = true
								at = s
							}
						}
					}
				case *ssa.UnOp:
					// the whole value read and stored into a container
					for _, r2 := range *x.Referrers() {
						switch y := r2.(type) {
						case *ssa.MapUpdate:
							if y.Value == ssa.Value(x) {
								writtenBack = true
							}
						case *ssa.Store:
							if _, isIA := y.Addr.(*ssa.IndexAddr); isIA && y.Val == ssa.Value(x) {
								writtenBack = true
							}
						}
					}
				}
			}
			if len(truncated) == 0 || !writtenBack {
				return
			}
			n++
			var missing []string
			for _, i := range sliceFields {
				if !truncated[i] {
					missing = append(missing, st.Field(i).Name())
				}
			}
			name := "?"
			if nt := namedOf(derefType(al.Type())); nt != nil {
				name = nt.Obj().Name()
			}
			c.add(statusOf(len(missing) == 0), fmt.Sprintf("partial-truncate/%s/%s", funcShortName(fn), name), c.p.instrPos(at),
				"a "+name+" recycled inside its container has every slice field truncated",
				"slice field(s) "+strings.Join(missing, ", ")+" are not truncated with the others: they keep the previous use's elements and grow with every reuse (values of one document attributed to the next)", props, nil)
		})
	}
	// in-place form: the element is truncated where it sits (`e := &xs[i]; e.vals = e.vals[:0]; e.typs =
	// e.typs[:0]`): the stores through one element address that truncate some slice fields truncate all
	for _, fn := range c.p.ZapFuncs {
		eachInstr(fn, func(_ *ssa.BasicBlock, in ssa.Instruction) {
			ia, ok := in.(*ssa.IndexAddr)
			if !ok {
				return
			}
			st, ok := derefType(ia.Type()).Underlying().(*types.Struct)
			if !ok {
				return
			}
			var sliceFields []int
			for i := 0; i < st.NumFields(); i++ {
				if _, isSlice := st.Field(i).Type().Underlying().(*types.Slice); isSlice {
					sliceFields = append(sliceFields, i)
				}
			}
			if len(sliceFields) < 2 {
				return
			}
			truncated := map[int]bool{}
			var at ssa.Instruction
			for _, r := range *ia.Referrers() {
				fa, ok := r.(*ssa.FieldAddr)
				if !ok {
					continue
				}
				for _, r2 := range *fa.Referrers() {
					sto, ok := r2.(*ssa.Store)
					if !ok || sto.Addr != ssa.Value(fa) {
						continue
					}
					sl, ok := sto.Val.(*ssa.Slice)
					if !ok || sl.High == nil {
						continue
					}
					if k, ok := constInt64(sl.High); !ok || k != 0 {
						continue
					}
					if u, ok := sl.X.(*ssa.UnOp); ok {
						if fa2, ok := u.X.(*ssa.FieldAddr); ok && fa2.X == ssa.Value(ia) && fa2.Field == fa.Field {
							truncated[fa.Field] = true
							at = sto
						}
					}
				}
			}
			if len(truncated) == 0 {
				return
			}
			n++
			var missing []string
			for _, i := range sliceFields {
				if !truncated[i] {
					missing = append(missing, st.Field(i).Name())
				}
			}
			name := "?"
			if nt := namedOf(derefType(ia.Type())); nt != nil {
				name = nt.Obj().Name()
			}
			c.add(statusOf(len(missing) == 0), fmt.Sprintf("partial-truncate/%s/%s/in-place", funcShortName(fn), name), c.p.instrPos(at),
				"a "+name+" recycled where it sits in its container has every slice field truncated",
				"slice field(s) "+strings.Join(missing, ", ")+" are not truncated with the others: they keep the previous use's elements and grow with every reuse (values of one document attributed to the next)", props, nil)
		})
	}
	// method form: a function that truncates a slice field of a struct it reaches
	// through a pointer (a `reset()` of an accumulator type the pinned tree did
	// not have) must assign every slice field of that struct
	for _, fn := range c.p.ZapFuncs {
		if len(fn.Params) == 0 || len(fn.Blocks) == 0 {
			continue
		}
		for _, prm := range fn.Params {
			pt, ok := prm.Type().Underlying().(*types.Pointer)
			if !ok {
				continue
			}
			nt := namedOf(pt.Elem())
			st, ok := pt.Elem().Underlying().(*types.Struct)
			if !ok || nt == nil || nt.Obj().Pkg() == nil || nt.Obj().Pkg().Path() != zapPkgPath {
				continue
			}
			if _, pinned := pinnedFields[nt.Obj().Name()]; pinned {
				continue // the pooled / reused types of the pinned tree have their own tables (R10, R12)
			}
			if !keptInContainer(c.p, nt) {
				// a working object of which there is one (a merger, a writer): its methods reset the part of
				// its state that belongs to their step — not a recycled accumulator
				continue
			}
			var sliceFields []int
			for i := 0; i < st.NumFields(); i++ {
				if _, isSlice := st.Field(i).Type().Underlying().(*types.Slice); isSlice {
					sliceFields = append(sliceFields, i)
				}
			}
			if len(sliceFields) < 2 {
				continue
			}
			truncated, assigned := map[int]bool{}, map[int]bool{}
			var at ssa.Instruction
			eachInstr(fn, func(_ *ssa.BasicBlock, in ssa.Instruction) {
				s, ok := in.(*ssa.Store)
				if !ok {
					return
				}
				fa, ok := s.Addr.(*ssa.FieldAddr)
				if !ok || fa.X != ssa.Value(prm) {
					return
				}
				assigned[fa.Field] = true
				if sl, ok := s.Val.(*ssa.Slice); ok && sl.High != nil {
					if k, ok := constInt64(sl.High); ok && k == 0 {
						if u, ok := sl.X.(*ssa.UnOp); ok {
							if fa2, ok := u.X.(*ssa.FieldAddr); ok && fa2.X == ssa.Value(prm) && fa2.Field == fa.Field {
								truncated[fa.Field] = true
								at = s
							}
						}
					}
				}
				if st2, ok := in.(*ssa.Store); ok && st2.Addr == ssa.Value(prm) {
					for _, i := range sliceFields {
						assigned[i] = true
					}
				}
			})
			if len(truncated) == 0 {
				continue
			}
			n++
			var missing []string
			for _, i := range sliceFields {
				if !assigned[i] {
					missing = append(missing, st.Field(i).Name())
				}
			}
			c.add(statusOf(len(missing) == 0), fmt.Sprintf("partial-truncate/%s/%s", funcShortName(fn), nt.Obj().Name()), c.p.instrPos(at),
				funcShortName(fn)+" truncates slice fields of a "+nt.Obj().Name()+" for reuse and assigns every slice field of it",
				"slice field(s) "+strings.Join(missing, ", ")+" are left alone while the others are truncated: they keep the previous use's elements and grow with every reuse (values of one document attributed to the next)", props, nil)
		}
	}
	c.okP(props, "partial-truncate/sites", "-", fmt.Sprintf("recycled struct values with truncated slice fields: %d (the pinned tree has none; the clause is kept alive by a seeded edit of the self-test)", n))
}

// ---------------------------------------------------------------------------
// R29c

// r29ElementFresh: inside a loop that builds one struct value per element, no
// field of that value is a variable that can reach the iteration unchanged
// from the previous one (declared outside the loop, assigned inside it only
// under a condition): the element would silently inherit its predecessor's
// value — the classic result of hoisting a `var x T` out of a loop body.
func r29ElementFresh(c *RuleCtx) {
	props := []string{"C01", "C06", "C02"}
	n := 0
	for _, fn := range c.p.ZapFuncs {
		loops := naturalLoops(fn)
		if len(loops) == 0 {
			continue
		}
		perFn := 0
		eachInstr(fn, func(b *ssa.BasicBlock, in ssa.Instruction) {
			al, ok := in.(*ssa.Alloc)
			if !ok || al.Comment != "complit" {
				return
			}
			st, ok := derefType(al.Type()).Underlying().(*types.Struct)
			if !ok {
				return
			}
			// innermost loop containing the literal
			var loop *natLoop
			for _, l := range loops {
				if l.blocks[b] && (loop == nil || len(l.blocks) < len(loop.blocks)) {
					loop = l
				}
			}
			if loop == nil {
				return
			}
			n++
			var bad []string
			for _, r := range *al.Referrers() {
				fa, ok := r.(*ssa.FieldAddr)
				if !ok {
					continue
				}
				for _, r2 := range *fa.Referrers() {
					s, ok := r2.(*ssa.Store)
					if !ok || s.Addr != ssa.Value(fa) {
						continue
					}
					if ph := staleCarry(s.Val, loop); ph != nil {
						name := ph.Comment
						if name == "" {
							name = ph.Name()
						}
						bad = append(bad, fmt.Sprintf("field %s receives %s, which keeps the previous iteration's value on some path through the loop", st.Field(fa.Field).Name(), name))
					}
				}
			}
			if len(bad) == 0 {
				return
			}
			perFn++
			tn := "struct"
			if nt := namedOf(derefType(al.Type())); nt != nil {
				tn = nt.Obj().Name()
			}
			c.add(Violated, fmt.Sprintf("element-fresh/%s/%s#%d", funcShortName(fn), tn, perFn), c.p.instrPos(al),
				"a value built once per loop iteration takes every field from that iteration",
				strings.Join(uniq(bad), "; ")+" — an element without its own value inherits its predecessor's", props, nil)
		})
	}
	c.okP(props, "element-fresh/sites", "-", fmt.Sprintf("struct values built inside loops examined: %d (none takes a stale loop-carried variable)", n))
}

// staleCarry: v is (through conversions and phis inside the loop) a phi at the
// loop header one of whose in-loop incoming values can be that phi itself,
// i.e. the variable may enter the next iteration unassigned. Returns the phi.
func staleCarry(v ssa.Value, loop *natLoop) *ssa.Phi {
	seen := map[ssa.Value]bool{}
	var find func(x ssa.Value, depth int) *ssa.Phi
	find = func(x ssa.Value, depth int) *ssa.Phi {
		if depth > 6 || seen[x] {
			return nil
		}
		seen[x] = true
		switch y := x.(type) {
		case *ssa.Convert:
			return find(y.X, depth+1)
		case *ssa.ChangeType:
			return find(y.X, depth+1)
		case *ssa.Phi:
			if y.Block() == loop.header {
				if carriesItself(y, loop) && !keyedMemo(y, loop) {
					return y
				}
				return nil
			}
			if loop.blocks[y.Block()] {
				for _, e := range y.Edges {
					if p := find(e, depth+1); p != nil {
						return p
					}
				}
			}
		}
		return nil
	}
	return find(v, 0)
}

// carriesItself: some incoming edge of header phi ph from inside the loop
// carries ph itself (possibly through other phis of the loop).
func carriesItself(ph *ssa.Phi, loop *natLoop) bool {
	for i, pred := range ph.Block().Preds {
		if !loop.blocks[pred] {
			continue
		}
		seen := map[ssa.Value]bool{}
		var reach func(x ssa.Value, depth int) bool
		reach = func(x ssa.Value, depth int) bool {
			if x == ssa.Value(ph) {
				return true
			}
			if depth > 6 || seen[x] {
				return false
			}
			seen[x] = true
			if q, ok := x.(*ssa.Phi); ok && loop.blocks[q.Block()] {
				for _, e := range q.Edges {
					if reach(e, depth+1) {
						return true
					}
				}
			}
			return false
		}
		if reach(ph.Edges[i], 0) {
			return true
		}
	}
	return false
}

// ---------------------------------------------------------------------------
// R28b

// r28CoReset: two maps that are filled together (two map updates in one basic
// block: `termToID[t] = id; idToTerm[id] = t`) describe one relation; a place
// that empties one of them per round (a `clear`, a fresh `make` inside the
// loop, a reset method) must empty the other too, or the next round looks
// entries up in one half that the other half no longer has.
func r28CoReset(c *RuleCtx) {
	props := []string{"C13", "C06", "C09"}
	p := c.p
	nPairs := 0
	// ---- locals of one function (and its closures) -------------------------
	for _, fn := range p.ZapFuncs {
		if fn.Parent() != nil {
			continue
		}
		family := []*ssa.Function{fn}
		for _, g := range p.ZapFuncs {
			if g.Parent() != nil && rootParent(g) == fn {
				family = append(family, g)
			}
		}
		mapOf := func(v ssa.Value) *ssa.MakeMap {
			mk, _ := root(v).(*ssa.MakeMap)
			if mk != nil && rootParent(mk.Parent()) == fn {
				return mk
			}
			return nil
		}
		type pair struct{ a, b *ssa.MakeMap }
		pairs := map[pair]ssa.Instruction{}
		for _, g := range family {
			for _, b := range g.Blocks {
				var ups []*ssa.MakeMap
				var at ssa.Instruction
				for _, in := range b.Instrs {
					if mu, ok := in.(*ssa.MapUpdate); ok {
						if mk := mapOf(mu.Map); mk != nil {
							ups = append(ups, mk)
							at = in
						}
					}
				}
				for i := 0; i < len(ups); i++ {
					for j := i + 1; j < len(ups); j++ {
						if ups[i] != ups[j] {
							pairs[pair{ups[i], ups[j]}] = at
						}
					}
				}
			}
		}
		if len(pairs) == 0 {
			continue
		}
		loops := naturalLoops(fn)
		// per map: the loops in which it is emptied once per iteration
		resetIn := func(mk *ssa.MakeMap) map[*natLoop]bool {
			out := map[*natLoop]bool{}
			for _, l := range loops {
				if l.blocks[mk.Block()] {
					out[l] = true // a fresh map per iteration
				}
			}
			for _, cs := range callSites(fn) {
				bi, ok := cs.Common().Value.(*ssa.Builtin)
				if !ok || bi.Name() != "clear" || mapOf(cs.Common().Args[0]) != mk {
					continue
				}
				for _, l := range loops {
					if l.blocks[cs.Block()] {
						out[l] = true
					}
				}
			}
			return out
		}
		for pr, at := range pairs {
			nPairs++
			ra, rb := resetIn(pr.a), resetIn(pr.b)
			var bad []string
			for l := range ra {
				if !rb[l] {
					bad = append(bad, fmt.Sprintf("%s is emptied in every round of the loop at %s, %s is not", tableNameOfMap(pr.a), c.p.instrPos(l.header.Instrs[0]), tableNameOfMap(pr.b)))
				}
			}
			for l := range rb {
				if !ra[l] {
					bad = append(bad, fmt.Sprintf("%s is emptied in every round of the loop at %s, %s is not", tableNameOfMap(pr.b), c.p.instrPos(l.header.Instrs[0]), tableNameOfMap(pr.a)))
				}
			}
			c.add(statusOf(len(bad) == 0), fmt.Sprintf("co-reset/%s/%s+%s", funcShortName(fn), tableNameOfMap(pr.a), tableNameOfMap(pr.b)), c.p.instrPos(at),
				"two maps of "+funcShortName(fn)+" that are filled together are emptied together",
				"one half of a two-way table survives from the previous round: ids handed out from it are not in the other half (wrong or missing synonym terms in the merged thesaurus)", props, uniq(bad))
		}
	}
	// ---- fields of one struct ------------------------------------------------
	type fpair struct {
		typ  string
		a, b int
	}
	fpairs := map[fpair]ssa.Instruction{}
	structOf := map[string]*types.Struct{}
	fieldOfRecv := func(fn *ssa.Function, v ssa.Value) (string, int, bool) {
		if len(fn.Params) == 0 {
			return "", 0, false
		}
		u, ok := v.(*ssa.UnOp)
		if !ok || u.Op != token.MUL {
			return "", 0, false
		}
		fa, ok := u.X.(*ssa.FieldAddr)
		if !ok || root(fa.X) != ssa.Value(fn.Params[0]) {
			return "", 0, false
		}
		nt := namedOf(derefType(fa.X.Type()))
		st, ok2 := derefType(fa.X.Type()).Underlying().(*types.Struct)
		if nt == nil || !ok2 {
			return "", 0, false
		}
		structOf[nt.Obj().Name()] = st
		return nt.Obj().Name(), fa.Field, true
	}
	for _, fn := range p.ZapFuncs {
		if fn.Signature.Recv() == nil {
			continue
		}
		for _, b := range fn.Blocks {
			type fu struct {
				typ string
				f   int
			}
			var ups []fu
			var at ssa.Instruction
			for _, in := range b.Instrs {
				if mu, ok := in.(*ssa.MapUpdate); ok {
					if t, f, ok := fieldOfRecv(fn, mu.Map); ok {
						ups = append(ups, fu{t, f})
						at = in
					}
				}
			}
			for i := 0; i < len(ups); i++ {
				for j := i + 1; j < len(ups); j++ {
					if ups[i].typ == ups[j].typ && ups[i].f != ups[j].f {
						a, bb := ups[i].f, ups[j].f
						if a > bb {
							a, bb = bb, a
						}
						fpairs[fpair{ups[i].typ, a, bb}] = at
					}
				}
			}
		}
	}
	for pr, at := range fpairs {
		nPairs++
		st := structOf[pr.typ]
		var bad []string
		for _, fn := range p.ZapFuncs {
			if fn.Signature.Recv() == nil || !isNamed(fn.Signature.Recv().Type(), zapPkgPath, pr.typ) {
				continue
			}
			emptied := map[int]bool{}
			for _, cs := range callSites(fn) {
				if bi, ok := cs.Common().Value.(*ssa.Builtin); ok && bi.Name() == "clear" {
					if t, f, ok := fieldOfRecv(fn, cs.Common().Args[0]); ok && t == pr.typ {
						emptied[f] = true
					}
				}
			}
			eachInstr(fn, func(_ *ssa.BasicBlock, in ssa.Instruction) {
				s, ok := in.(*ssa.Store)
				if !ok {
					return
				}
				fa, ok := s.Addr.(*ssa.FieldAddr)
				if !ok || root(fa.X) != ssa.Value(fn.Params[0]) {
					return
				}
				if _, isMk := s.Val.(*ssa.MakeMap); isMk || isNilConst(s.Val) {
					emptied[fa.Field] = true
				}
			})
			if emptied[pr.a] != emptied[pr.b] {
				x, y := pr.a, pr.b
				if emptied[pr.b] {
					x, y = y, x
				}
				// the half that is left alone is made afresh before anything reads it
				if ok, _ := remadeBeforeAnyRead(p, pr.typ, y); ok {
					continue
				}
				bad = append(bad, fmt.Sprintf("%s empties %s but not %s", funcShortName(fn), st.Field(x).Name(), st.Field(y).Name()))
			}
		}
		sort.Strings(bad)
		c.add(statusOf(len(bad) == 0), fmt.Sprintf("co-reset/%s/%s+%s", pr.typ, st.Field(pr.a).Name(), st.Field(pr.b).Name()), c.p.instrPos(at),
			"two map fields of "+pr.typ+" that are filled together are emptied together by every method that empties one of them",
			"one half of a two-way table survives a reset: entries looked up in it point at ids the other half no longer has", props, bad)
	}
	c.okP(props, "co-reset/pairs", "-", fmt.Sprintf("pairs of maps filled together: %d", nPairs))
}

func tableNameOfMap(mk *ssa.MakeMap) string {
	for _, r := range *mk.Referrers() {
		switch x := r.(type) {
		case *ssa.DebugRef:
			if x.Expr != nil {
				return types.ExprString(x.Expr)
			}
		case *ssa.Store:
			if al, ok := x.Addr.(*ssa.Alloc); ok && al.Comment != "" {
				return al.Comment
			}
		}
	}
	return strings.ReplaceAll(mk.Type().String(), zapPkgPath+".", "")
}

// ---------------------------------------------------------------------------
// R12b HANDED-BACK-RESET (C07, C12, C06)
//
// A lookup that is given a list to reuse (`rv *PostingsList`, `rv *SynonymsList`,
// an iterator) and hands a list back must not hand the caller's object back as
// it came: on a miss (unknown term, no FST) the caller would read the previous
// term's postings out of it. Every returned value of the reusable type is nil,
// a fresh object, a shared sentinel, the result of a function that satisfies
// this clause itself, or the parameter after it was zeroed as a whole on the
// way (a store, a reset method, or the row's reset function of R12).
func r12HandedBackReset(c *RuleCtx) {
	reusable := map[string][]string{}
	for _, sp := range reuseTable {
		if sp.Vectors && !c.p.Cfg.Vectors {
			continue
		}
		reusable[sp.Struct] = sp.Props
	}
	typeOf := func(t types.Type) string {
		p, ok := t.Underlying().(*types.Pointer)
		if !ok {
			return ""
		}
		n := namedOf(p.Elem())
		if n == nil || n.Obj().Pkg() == nil || n.Obj().Pkg().Path() != zapPkgPath {
			return ""
		}
		if _, ok := reusable[n.Obj().Name()]; ok {
			return n.Obj().Name()
		}
		return ""
	}
	type cand struct {
		fn  *ssa.Function
		prm *ssa.Parameter
		res int
		sn  string
	}
	var cands []cand
	for _, fn := range c.p.ZapFuncs {
		if len(fn.Blocks) == 0 {
			continue
		}
		res := fn.Signature.Results()
		for i := 0; i < res.Len(); i++ {
			sn := typeOf(res.At(i).Type())
			if sn == "" {
				continue
			}
			for _, p := range fn.Params {
				if fn.Signature.Recv() != nil && p == fn.Params[0] {
					continue
				}
				if typeOf(p.Type()) == sn {
					cands = append(cands, cand{fn, p, i, sn})
				}
			}
		}
	}
	isCand := map[*ssa.Function]cand{}
	for _, cd := range cands {
		isCand[cd.fn] = cd
	}
	memo := map[*ssa.Function]int{} // 1 in progress, 2 clean, 3 not clean
	var witness map[*ssa.Function]ssa.Instruction = map[*ssa.Function]ssa.Instruction{}
	var clean func(fn *ssa.Function) bool
	clean = func(fn *ssa.Function) bool {
		switch memo[fn] {
		case 1, 2:
			return true
		case 3:
			return false
		}
		memo[fn] = 1
		cd := isCand[fn]
		// where the parameter is zeroed as a whole
		var zeroed []ssa.Instruction
		zeroedAs := map[ssa.Value][]ssa.Instruction{} // ... under another name (a phi of the parameter and a fresh object)
		eachInstr(fn, func(_ *ssa.BasicBlock, in ssa.Instruction) {
			if st, ok := in.(*ssa.Store); ok && st.Addr == ssa.Value(cd.prm) {
				if _, ok := wholeStructStore(st); ok {
					zeroed = append(zeroed, in)
				}
			}
			if cs, ok := in.(*ssa.Call); ok && len(cs.Call.Args) > 0 && cs.Call.Args[0] == ssa.Value(cd.prm) && resetHelper(cs.Call.StaticCallee()) != nil {
				zeroed = append(zeroed, in)
			}
			if st, ok := in.(*ssa.Store); ok && st.Addr != ssa.Value(cd.prm) && valueMayBe(st.Addr, cd.prm) {
				if _, ok := wholeStructStore(st); ok {
					zeroedAs[st.Addr] = append(zeroedAs[st.Addr], in)
				}
			}
			if cs, ok := in.(*ssa.Call); ok && len(cs.Call.Args) > 0 && cs.Call.Args[0] != ssa.Value(cd.prm) && valueMayBe(cs.Call.Args[0], cd.prm) && resetHelper(cs.Call.StaticCallee()) != nil {
				zeroedAs[cs.Call.Args[0]] = append(zeroedAs[cs.Call.Args[0]], in)
			}
		})
		var okVal func(v ssa.Value, at *ssa.BasicBlock, seen map[ssa.Value]bool) bool
		okVal = func(v ssa.Value, at *ssa.BasicBlock, seen map[ssa.Value]bool) bool {
			for _, z := range zeroedAs[v] {
				if z.Block() == at || z.Block().Dominates(at) {
					return true
				}
			}
			switch x := v.(type) {
			case *ssa.Const:
				return true
			case *ssa.Alloc:
				return true
			case *ssa.Parameter:
				if x != cd.prm {
					return true // another object: not the reused one
				}
				for _, z := range zeroed {
					if z.Block() == at || z.Block().Dominates(at) {
						return true
					}
				}
				// a memo hit: the object is handed back as it is because it was found to hold exactly what
				// is asked for — same position AND same source (a position alone means nothing in
				// another segment)
				if memoHitAt(at, cd.prm) {
					return true
				}
				return false
			case *ssa.Phi:
				if seen[v] {
					return true
				}
				seen[v] = true
				for i, e := range x.Edges {
					if !okVal(e, x.Block().Preds[i], seen) {
						return false
					}
				}
				return true
			case *ssa.Extract:
				return okVal(x.Tuple, at, seen)
			case *ssa.Call:
				callee := x.Call.StaticCallee()
				if callee == nil {
					callee = resolvedCallee(x)
				}
				if callee == nil || !c.p.InZap(callee) {
					return true // not a function of this package handing the parameter back
				}
				if _, ok := isCand[callee]; ok {
					return clean(callee)
				}
				return true
			case *ssa.UnOp:
				return true // a load (a sentinel global, a field): not the parameter itself
			case *ssa.ChangeType:
				return okVal(x.X, at, seen)
			case *ssa.MakeInterface:
				return okVal(x.X, at, seen)
			}
			return true
		}
		for _, ret := range returnsOf(fn) {
			if cd.res >= len(ret.Results) {
				continue
			}
			if !okVal(returnedValueRaw(ret, cd.res), ret.Block(), map[ssa.Value]bool{}) {
				memo[fn] = 3
				witness[fn] = ret
				return false
			}
		}
		memo[fn] = 2
		return true
	}
	n := 0
	for _, cd := range cands {
		n++
		key := "handed-back-reset/" + funcShortName(cd.fn)
		what := "every *" + cd.sn + " that " + funcShortName(cd.fn) + " hands back is nil, fresh, a sentinel, or the caller's object after it was zeroed as a whole"
		if clean(cd.fn) {
			c.okP(reusable[cd.sn], key, c.fpos(cd.fn), what)
		} else if r12OnlyFedBack(c.p, cd.fn, cd.prm, cd.res) {
			c.okP(reusable[cd.sn], key, c.fpos(cd.fn), "what "+funcShortName(cd.fn)+" hands back is a scratch object that its callers only hand in again (nobody reads a result out of it)")
		} else {
			pos := c.fpos(cd.fn)
			if w := witness[cd.fn]; w != nil {
				pos = c.pos(w)
			}
			c.badP(reusable[cd.sn], key, pos, what,
				"a path hands the caller's reused object back without resetting it: it still holds the content decoded for the previous term (a miss looks like a hit)")
		}
	}
	c.add(statusOf(n >= half(6)), "handed-back-reset/sites", "-", "functions that take a reusable object and hand one back are found (pinned tree: 8)", fmt.Sprintf("found %d", n), []string{"C07", "C12", "C06", "C13"}, nil)
}

// r12OnlyFedBack: at every call site of fn (an unexported function with callers in the package) the
// result res is used for nothing but being handed in again as the same parameter (through phis), or being
// compared with nil: it is scratch space threaded through the calls, not an answer.
func r12OnlyFedBack(p *Program, fn *ssa.Function, prm *ssa.Parameter, res int) bool {
	if fn.Object() == nil || fn.Object().Exported() {
		return false
	}
	idx := -1
	for i, q := range fn.Params {
		if q == prm {
			idx = i
		}
	}
	sites := p.callersOf(fn)
	if idx < 0 || len(sites) == 0 {
		return false
	}
	for _, cs := range sites {
		call, ok := cs.(*ssa.Call)
		if !ok || !p.InZap(cs.Parent()) {
			return false
		}
		v := extractOf(call, res)
		if v == nil {
			continue
		}
		seen := map[ssa.Value]bool{}
		var only func(v ssa.Value) bool
		only = func(v ssa.Value) bool {
			if seen[v] {
				return true
			}
			seen[v] = true
			for _, r := range *v.Referrers() {
				switch x := r.(type) {
				case *ssa.DebugRef:
				case *ssa.Phi:
					if !only(x) {
						return false
					}
				case *ssa.BinOp:
					if !(isNilConst(x.X) || isNilConst(x.Y)) {
						return false
					}
				case *ssa.Call:
					if x.Call.StaticCallee() != fn || idx >= len(x.Call.Args) || x.Call.Args[idx] != v {
						return false
					}
					for j, a := range x.Call.Args {
						if j != idx && a == v {
							return false
						}
					}
				default:
					return false
				}
			}
			return true
		}
		if !only(v) {
			return false
		}
	}
	return true
}

// memoHitAt: block b is reached only over true edges of comparisons (inline, or inside a predicate method
// called on obj) that equate a scalar field of obj with something AND a pointer field of obj with
// something: the object was decoded from that very position of that very source.
func memoHitAt(b *ssa.BasicBlock, obj ssa.Value) bool {
	scalar, ptr := false, false
	note := func(cmp *ssa.BinOp, o ssa.Value) {
		for _, side := range []ssa.Value{cmp.X, cmp.Y} {
			if _, _, base, ok := loadedField(side); ok && root(base) == o {
				switch side.Type().Underlying().(type) {
				case *types.Basic:
					scalar = true
				case *types.Pointer:
					ptr = true
				}
			}
		}
	}
	var collect func(b *ssa.BasicBlock, o ssa.Value, depth int)
	collect = func(b *ssa.BasicBlock, o ssa.Value, depth int) {
		for cur := b; cur != nil; cur = cur.Idom() {
			pb := cur.Idom()
			if pb == nil {
				break
			}
			if len(cur.Preds) != 1 || cur.Preds[0] != pb {
				continue
			}
			iff, ok := pb.Instrs[len(pb.Instrs)-1].(*ssa.If)
			if !ok {
				continue
			}
			onTrue := pb.Succs[0] == cur
			switch x := iff.Cond.(type) {
			case *ssa.BinOp:
				if (x.Op == token.EQL && onTrue) || (x.Op == token.NEQ && !onTrue) {
					note(x, o)
				}
			case *ssa.Call:
				// a predicate method on the object
				if !onTrue || depth > 0 || len(x.Call.Args) == 0 || root(x.Call.Args[0]) != o {
					continue
				}
				f := x.Call.StaticCallee()
				if f == nil || len(f.Blocks) == 0 || f.Signature.Recv() == nil || f.Signature.Results().Len() != 1 {
					continue
				}
				recv := ssa.Value(f.Params[0])
				// every way of answering true
				first := true
				s0, p0 := scalar, ptr
				accS, accP := true, true
				for _, ret := range returnsOf(f) {
					type src struct {
						blk *ssa.BasicBlock
						val ssa.Value
					}
					var srcs []src
					if ph, ok := ret.Results[0].(*ssa.Phi); ok {
						for i, e := range ph.Edges {
							srcs = append(srcs, src{ph.Block().Preds[i], e})
						}
					} else {
						srcs = append(srcs, src{ret.Block(), ret.Results[0]})
					}
					for _, sx := range srcs {
						if k, ok := constBool(sx.val); ok && !k {
							continue
						}
						scalar, ptr = false, false
						collect(sx.blk, recv, depth+1)
						if cmp, ok := sx.val.(*ssa.BinOp); ok && cmp.Op == token.EQL {
							note(cmp, recv)
						}
						accS, accP = accS && scalar, accP && ptr
						first = false
					}
				}
				scalar, ptr = s0, p0
				if !first {
					scalar, ptr = scalar || accS, ptr || accP
				}
			}
		}
	}
	collect(b, root(obj), 0)
	return scalar && ptr
}

// keyedMemo: the carried variable v is a memo keyed by another carried variable k — wherever v keeps its old
// value, a test `elemKey != k` (or `==`) has just found the element's key equal to k, and wherever the
// test finds them different both are assigned together, k the element's key:
//
//	if loc.Field != lastField { lastID = lookup(loc.Field); lastField = loc.Field }
//
// so v always belongs to the current element's key.
func keyedMemo(v *ssa.Phi, loop *natLoop) bool {
	for b := range loop.blocks {
		for _, in := range b.Instrs {
			m, ok := in.(*ssa.Phi)
			if !ok {
				break
			}
			if len(m.Edges) != 2 || b == loop.header {
				continue
			}
			// m merges "v unchanged" with "v newly assigned"
			keep := -1
			for i, e := range m.Edges {
				if e == ssa.Value(v) {
					keep = i
				}
			}
			if keep < 0 {
				continue
			}
			// the branch that decides
			var iff *ssa.If
			var ib *ssa.BasicBlock
			for x := b.Idom(); x != nil; x = x.Idom() {
				if i2, ok := x.Instrs[len(x.Instrs)-1].(*ssa.If); ok && loop.blocks[x] {
					iff, ib = i2, x
					break
				}
			}
			if iff == nil {
				continue
			}
			bo, ok := iff.Cond.(*ssa.BinOp)
			if !ok || (bo.Op != token.NEQ && bo.Op != token.EQL) {
				continue
			}
			var kphi *ssa.Phi
			var elemKey ssa.Value
			if p, ok := bo.Y.(*ssa.Phi); ok && p.Block() == loop.header {
				kphi, elemKey = p, bo.X
			} else if p, ok := bo.X.(*ssa.Phi); ok && p.Block() == loop.header {
				kphi, elemKey = p, bo.Y
			}
			if kphi == nil || kphi == v {
				continue
			}
			// the "keep" edge is the side on which the keys were found equal
			equalSucc := ib.Succs[1]
			if bo.Op == token.EQL {
				equalSucc = ib.Succs[0]
			}
			keepPred := b.Preds[keep]
			if !(keepPred == ib && equalSucc == b) && !(equalSucc == keepPred || equalSucc.Dominates(keepPred)) {
				continue
			}
			// in the same join, k takes the element's key on the other side
			for _, in2 := range b.Instrs {
				mk, ok := in2.(*ssa.Phi)
				if !ok {
					break
				}
				if mk == m || len(mk.Edges) != 2 {
					continue
				}
				if mk.Edges[keep] == ssa.Value(kphi) && sameQuantity(mk.Edges[1-keep], elemKey, 0) {
					return true
				}
			}
		}
	}
	return false
}

// keptInContainer: values of type nt (or pointers to them) are elements of some map or slice of the package
// — a field, a variable, a made table: there are many of them and they are recycled where they sit.
func keptInContainer(p *Program, nt *types.Named) bool {
	isElem := func(t types.Type) bool {
		var e types.Type
		switch u := t.Underlying().(type) {
		case *types.Map:
			e = u.Elem()
		case *types.Slice:
			e = u.Elem()
		case *types.Array:
			e = u.Elem()
		default:
			return false
		}
		if pt, ok := e.Underlying().(*types.Pointer); ok {
			e = pt.Elem()
		}
		return types.Identical(e, nt)
	}
	sc := p.ZapTypes.Scope()
	for _, name := range sc.Names() {
		tn, ok := sc.Lookup(name).(*types.TypeName)
		if !ok {
			continue
		}
		if st, ok := tn.Type().Underlying().(*types.Struct); ok {
			for i := 0; i < st.NumFields(); i++ {
				if isElem(st.Field(i).Type()) {
					return true
				}
			}
		}
	}
	found := false
	for _, fn := range p.ZapFuncs {
		eachInstr(fn, func(_ *ssa.BasicBlock, in ssa.Instruction) {
			switch x := in.(type) {
			case *ssa.MakeMap:
				if isElem(x.Type()) {
					found = true
				}
			case *ssa.MakeSlice:
				if isElem(x.Type()) {
					found = true
				}
			}
		})
	}
	return found
}
