package main

// with adds further clauses to a rule (same ID, further obligations).
func with(r *Rule, extra ...func(*RuleCtx)) *Rule {
	base := r.Run
	r.Run = func(c *RuleCtx) {
		base(c)
		for _, f := range extra {
			f(c)
		}
	}
	return r
}

// Rule registry.
func allRules() []*Rule {
	return []*Rule{
		ruleR1(),
		ruleR2(),
		ruleR3(),
		ruleR4(),
		ruleR5(),
		ruleR6(),
		ruleR7(),
		with(ruleR8(), r8CancelIdentity),
		ruleR9(),
		with(ruleR10(), r10PartialTruncate),
		with(ruleR11(), r11TagFirst),
		with(ruleR12(), r12HandedBackReset),
		ruleR13(),
		ruleR14(),
		ruleR15(),
		ruleR16(),
		ruleR17(),
		ruleR18(),
		ruleR19(),
		ruleR20(),
		ruleR24(),
		with(ruleR25(), r25ScratchBound),
		ruleR26(),
		with(ruleR27(), r27StoredBlock),
		with(ruleR28(), r28CoReset),
		with(ruleR29(), r29FlagPerPosting, r29ElementFresh),
		ruleR30(),
		ruleR31(),
		ruleR32(),
		ruleR33(),
		ruleR34(),
		ruleR35(),
		ruleR36(),
		ruleR37(),
		ruleR38(),
		ruleR21(),
		with(ruleR22(), r22NoStaleSnapshot),
		with(ruleR23(), r23ExclusionLookedAt, r23ExclusionComputed),
	}
}
