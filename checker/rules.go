package main

// Rule registry.
func allRules() []*Rule {
	return []*Rule{
		ruleR1(),
		ruleR2(),
		ruleR6(),
		ruleR7(),
		ruleR8(),
		ruleR9(),
		ruleR10(),
		ruleR11(),
		ruleR12(),
		ruleR13(),
		ruleR14(),
		ruleR16(),
		ruleR21(),
		ruleR22(),
	}
}
