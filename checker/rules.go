package main

// Rule registry.
func allRules() []*Rule {
	return []*Rule{
		ruleR1(),
		ruleR2(),
		ruleR3(),
		ruleR4(),
		ruleR5(),
		ruleR6(),
		ruleR7(),
		ruleR8(),
		ruleR9(),
		ruleR10(),
		ruleR11(),
		ruleR12(),
		ruleR13(),
		ruleR14(),
		ruleR15(),
		ruleR16(),
		ruleR17(),
		ruleR18(),
		ruleR19(),
		ruleR20(),
		ruleR24(),
		ruleR25(),
		ruleR26(),
		ruleR27(),
		ruleR28(),
		ruleR29(),
		ruleR21(),
		ruleR22(),
		ruleR23(),
	}
}
