package main

// Rule registry.
func allRules() []*Rule {
	return []*Rule{
		ruleR6(),
	}
}
