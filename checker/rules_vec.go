package main

// R23 VECTOR-GUARDS (C14): guards in front of every engine search.

import (
	"fmt"
	"go/token"
	"go/types"
	"strings"

	"golang.org/x/tools/go/ssa"
)

func ruleR23() *Rule {
	return &Rule{
		ID:          "R23",
		Title:       "VECTOR-GUARDS: wrong-dimension / missing-index queries never reach the engine; the per-call exclusion list is passed; only mapped ids are emitted",
		Props:       []string{"C14", "C16"},
		VectorsOnly: true,
		Floor:       floorFor("R23"),
		Run: func(c *RuleCtx) {
			p := c.p
			ivi := c.method("SegmentBase", "InterpretVectorIndex")
			if ivi == nil {
				return
			}
			// the loadOrCreate call and the cells its results are assigned to
			var loc *ssa.Call
			for _, cs := range callSites(ivi) {
				if f := staticCallee(cs); f != nil && namedFn(f, "vectorIndexCache.loadOrCreate") {
					loc, _ = cs.(*ssa.Call)
				}
			}
			if loc == nil {
				c.undecided("anchor/loadOrCreate", c.fpos(ivi), "the cache load in InterpretVectorIndex is found", "no loadOrCreate call")
				return
			}
			cellFor := func(resultIdx int) *ssa.Alloc {
				ex := extractOf(loc, resultIdx)
				if ex == nil {
					return nil
				}
				for _, r := range *ex.Referrers() {
					if st, ok := r.(*ssa.Store); ok && st.Val == ex {
						if a := cellOf(st.Addr); a != nil {
							return a
						}
					}
				}
				return nil
			}
			// by type, not by position (a later result may have been inserted): the native index, the table
			// vector id -> document, the list of vector ids
			ri, rm, rx := 0, 1, 3
			if res := loc.Call.Signature().Results(); res != nil {
				for i := 0; i < res.Len(); i++ {
					t := res.At(i).Type()
					switch u := t.Underlying().(type) {
					case *types.Pointer:
						if isFaissIndexPtr(t) {
							ri = i
						}
					case *types.Map:
						if kt, ok := u.Key().Underlying().(*types.Basic); ok && kt.Kind() == types.Int64 {
							rm = i
						}
					case *types.Slice:
						if et, ok := u.Elem().Underlying().(*types.Basic); ok && et.Kind() == types.Int64 {
							rx = i
						}
					}
				}
			}
			idxCell, mapCell, exclCell := cellFor(ri), cellFor(rm), cellFor(rx)
			if res := loc.Call.Signature().Results(); res != nil && res.Len() > 0 && isIndexHandlePtr(res.At(0).Type()) {
				// the results folded into one handle: the variables are assigned from its fields
				h := extractOf(loc, 0)
				cellFromField := func(pred func(types.Type) bool) *ssa.Alloc {
					var out *ssa.Alloc
					eachInstr(ivi, func(_ *ssa.BasicBlock, in ssa.Instruction) {
						st, ok := in.(*ssa.Store)
						if !ok || out != nil {
							return
						}
						u, ok := st.Val.(*ssa.UnOp)
						if !ok || u.Op != token.MUL {
							return
						}
						fa, ok := u.X.(*ssa.FieldAddr)
						if !ok || h == nil || !pred(u.Type()) {
							return
						}
						isH := sameValue(fa.X, h) || sameValue(resolveLoad(fa.X), h)
						if al, isAl := fa.X.(*ssa.Alloc); isAl && !isH {
							// the handle by value, kept in a local variable
							for _, s2 := range cellStores(al) {
								if s2.Val == h {
									isH = true
								}
							}
						}
						if !isH {
							return
						}
						out = cellOf(st.Addr)
					})
					return out
				}
				idxCell = cellFromField(isFaissIndexPtr)
				mapCell = cellFromField(func(t types.Type) bool {
					m, ok := t.Underlying().(*types.Map)
					if !ok {
						return false
					}
					kt, ok := m.Key().Underlying().(*types.Basic)
					return ok && kt.Kind() == types.Int64
				})
				exclCell = cellFromField(func(t types.Type) bool {
					sl, ok := t.Underlying().(*types.Slice)
					if !ok {
						return false
					}
					et, ok := sl.Elem().Underlying().(*types.Basic)
					return ok && et.Kind() == types.Int64
				})
			}
			if idxCell == nil || mapCell == nil || exclCell == nil {
				c.undecided("anchor/result-cells", c.pos(loc), "the variables holding the cached index, the id->doc map and the exclusion list are found", "results of loadOrCreate are not assigned to captured variables")
				return
			}
			// each of those variables is assigned exactly once (by that call)
			for name, cell := range map[string]*ssa.Alloc{"index": idxCell, "id->doc map": mapCell, "exclusion list": exclCell} {
				c.check(len(cellStores(cell)) == 1, "single-assignment/"+strings.ReplaceAll(name, " ", "-"), c.pos(loc), "the captured "+name+" is assigned only from the cache load of this call", fmt.Sprintf("%d assignments", len(cellStores(cell))))
			}
			// the except bitmap handed to the cache is the caller's
			lastArg := loc.Call.Args[len(loc.Call.Args)-1]
			prm, isP := root(lastArg).(*ssa.Parameter)
			if !isP && isBitmapPtr(lastArg.Type()) {
				// folded into an options struct: a field of a parameter
				if _, _, base, ok := loadedField(root(lastArg)); ok {
					var b ssa.Value = base
					if u, ok := b.(*ssa.UnOp); ok {
						b = u.X
					}
					if al, ok := root(b).(*ssa.Alloc); ok {
						// the parameter spilled into a local (struct parameters are addressed through one)
						for _, st := range cellStores(al) {
							if q, ok := st.Val.(*ssa.Parameter); ok {
								prm, isP = q, true
							}
						}
					}
					if q, ok := root(b).(*ssa.Parameter); ok {
						prm, isP = q, true
					}
				}
				if isP {
					c.ok("except-forwarded", c.pos(loc), "the caller's exclusion bitmap (a field of the options parameter) is what the cache load computes the exclusion list from")
					goto afterExcept
				}
			}
			c.check(isP && isBitmapPtr(prm.Type()), "except-forwarded", c.pos(loc), "the caller's exclusion bitmap is what the cache load computes the exclusion list from", "loadOrCreate does not receive the except parameter")
		afterExcept:

			isCell := func(v ssa.Value, cell *ssa.Alloc) bool {
				u, ok := v.(*ssa.UnOp)
				return ok && u.Op == token.MUL && cellOf(u.X) == cell
			}
			engineMethods := map[string]bool{"SearchWithoutIDs": true, "SearchWithIDs": true, "SearchClustersFromIVFIndex": true,
				"ObtainClusterVectorCountsFromIVFIndex": true, "ObtainClustersWithDistancesFromIVFIndex": true}
			const (
				evNonNil = 1 << 0
				evDimOK  = 1 << 1
			)
			type clInfo struct {
				qv *ssa.Parameter
				pa *pathAnalysis
			}
			infos := map[*ssa.Function]*clInfo{}
			analyse := func(fn *ssa.Function) *clInfo {
				if ci, ok := infos[fn]; ok {
					return ci
				}
				// the query vector: the []float32 parameter of the search closure
				var qv *ssa.Parameter
				for _, pr := range fn.Params {
					if sl, ok := pr.Type().Underlying().(*types.Slice); ok {
						if bt, ok := sl.Elem().Underlying().(*types.Basic); ok && bt.Kind() == types.Float32 && qv == nil {
							qv = pr
						}
					}
				}
				condTr := func(cond ssa.Value, outcome bool, ev uint64, actual func(ssa.Value) ssa.Value) uint64 {
					bo, ok := cond.(*ssa.BinOp)
					if !ok || (bo.Op != token.EQL && bo.Op != token.NEQ) {
						return ev
					}
					equal := (bo.Op == token.EQL) == outcome
					// index == nil
					if (isNilConst(bo.Y) && isCell(bo.X, idxCell)) || (isNilConst(bo.X) && isCell(bo.Y, idxCell)) {
						if !equal {
							return ev | evNonNil
						}
						return ev &^ evNonNil
					}
					// index.D() == len(qVector)
					isD := func(v ssa.Value) bool {
						call, ok := v.(*ssa.Call)
						if !ok {
							return false
						}
						iv, m, ok := faissMethod(call)
						return ok && m == "D" && isCell(iv, idxCell)
					}
					isLenQ := func(v ssa.Value) bool {
						call, ok := v.(*ssa.Call)
						if !ok {
							return false
						}
						b, ok := call.Call.Value.(*ssa.Builtin)
						return ok && b.Name() == "len" && qv != nil && actual(call.Call.Args[0]) == ssa.Value(qv)
					}
					if (isD(bo.X) && isLenQ(bo.Y)) || (isD(bo.Y) && isLenQ(bo.X)) {
						if equal {
							return ev | evDimOK
						}
						return ev &^ evDimOK
					}
					return ev
				}
				pa := newPathAnalysis(fn, func(ssa.Instruction, uint64, bool) []uint64 { return nil })
				pa.condTr = condTr
				pa.edgeTr = func(pred *ssa.BasicBlock, succIdx int, ev uint64) uint64 {
					iff, ok := pred.Instrs[len(pred.Instrs)-1].(*ssa.If)
					if !ok {
						return ev
					}
					return condTr(iff.Cond, succIdx == 0, ev, pa.actual)
				}
				pa.run(0)
				ci := &clInfo{qv, pa}
				infos[fn] = ci
				return ci
			}
			// closureCallee: the closure of InterpretVectorIndex a call resolves to
			closureCallee := func(cs ssa.CallInstruction) *ssa.Function {
				if f := staticCallee(cs); f != nil {
					return f
				}
				if cs.Common().IsInvoke() {
					return nil
				}
				if mc, ok := root(cs.Common().Value).(*ssa.MakeClosure); ok {
					if f, ok := mc.Fn.(*ssa.Function); ok {
						return f
					}
				}
				return nil
			}
			// guarded: before `at` in closure fn the index is known non-nil and the
			// query known to have its dimension — in fn itself or, when fn is a
			// local helper closure that is handed the query, at every call of it
			var guarded func(fn *ssa.Function, at ssa.Instruction, depth int) (bool, bool)
			guarded = func(fn *ssa.Function, at ssa.Instruction, depth int) (bool, bool) {
				ci := analyse(fn)
				nn, dim := true, true
				st := ci.pa.statesBefore(at)
				if len(st) == 0 {
					return true, true // unreachable
				}
				for _, ev := range st {
					if ev&evNonNil == 0 {
						nn = false
					}
					if ev&evDimOK == 0 {
						dim = false
					}
				}
				if (nn && dim) || depth >= 2 || ci.qv == nil {
					return nn, dim
				}
				qi := -1
				for i, pr := range fn.Params {
					if pr == ci.qv {
						qi = i
					}
				}
				// free variables come first in fn.Params? no: Params are the declared parameters only
				nCallers := 0
				cnn, cdim := true, true
				for _, g := range p.ZapFuncs {
					if g.Parent() != ivi || g == fn {
						continue
					}
					for _, cs := range callSites(g) {
						if closureCallee(cs) != fn {
							continue
						}
						nCallers++
						gi := analyse(g)
						args := cs.Common().Args
						if qi < 0 || qi >= len(args) || gi.qv == nil || root(args[qi]) != ssa.Value(gi.qv) {
							return nn, dim // handed another vector than the caller's query
						}
						a, b := guarded(g, cs, depth+1)
						cnn, cdim = cnn && a, cdim && b
					}
				}
				// the helper must not escape to other callers
				for _, mc := range closureSites(fn) {
					for _, r := range *mc.Referrers() {
						switch x := r.(type) {
						case *ssa.Store:
							if cellOf(x.Addr) == nil {
								return nn, dim
							}
						case ssa.CallInstruction:
							if x.Common().Value != ssa.Value(mc) {
								return nn, dim
							}
						case *ssa.DebugRef:
						default:
							return nn, dim
						}
					}
				}
				if nCallers == 0 {
					return nn, dim
				}
				return nn || cnn, dim || cdim
			}
			// the filtered search may use the unfiltered engine call only when every
			// document of the segment is eligible: len(eligible) == numDocs
			containsUnfiltered := func(f *ssa.Function) bool {
				for _, cs := range callSites(f) {
					if iv, m, ok := faissMethod(cs); ok && m == "SearchWithoutIDs" && isCell(iv, idxCell) {
						return true
					}
				}
				return false
			}
			nFiltered := 0
			for _, fn := range p.ZapFuncs {
				if fn.Parent() != ivi {
					continue
				}
				var elig *ssa.Parameter
				for _, pr := range fn.Params {
					if sl, ok := pr.Type().Underlying().(*types.Slice); ok {
						if bt, ok := sl.Elem().Underlying().(*types.Basic); ok && bt.Kind() == types.Uint64 {
							elig = pr
						}
					}
				}
				if elig == nil {
					continue
				}
				nFiltered++
				isLenElig := func(v ssa.Value, actual func(ssa.Value) ssa.Value) bool {
					for i := 0; i < 3; i++ {
						if cv, ok := v.(*ssa.Convert); ok {
							v = cv.X
							continue
						}
						break
					}
					call, ok := v.(*ssa.Call)
					if !ok {
						return false
					}
					b, ok := call.Call.Value.(*ssa.Builtin)
					if !ok || b.Name() != "len" {
						return false
					}
					a := call.Call.Args[0]
					if actual != nil {
						a = actual(a)
					}
					return a == ssa.Value(elig)
				}
				isNumDocs := func(v ssa.Value) bool {
					for i := 0; i < 3; i++ {
						if cv, ok := v.(*ssa.Convert); ok {
							v = cv.X
							continue
						}
						break
					}
					return isLoadOfField(v, "SegmentBase", "numDocs")
				}
				lenOperand := func(v ssa.Value) ssa.Value {
					for i := 0; i < 3; i++ {
						if cv, ok := v.(*ssa.Convert); ok {
							v = cv.X
							continue
						}
						break
					}
					call, ok := v.(*ssa.Call)
					if !ok {
						return nil
					}
					if b, ok := call.Call.Value.(*ssa.Builtin); !ok || b.Name() != "len" {
						return nil
					}
					return call.Call.Args[0]
				}
				isLenIncluded := func(v ssa.Value) bool {
					a := lenOperand(v)
					if a == nil {
						return false
					}
					sl, ok := a.Type().Underlying().(*types.Slice)
					if !ok {
						return false
					}
					if bt, ok := sl.Elem().Underlying().(*types.Basic); !ok || bt.Kind() != types.Int64 {
						return false
					}
					return derivedFrom(a, elig, 0, map[ssa.Value]bool{})
				}
				isLenVecTable := func(v ssa.Value) bool {
					a := lenOperand(v)
					if a == nil {
						return false
					}
					m, ok := a.Type().Underlying().(*types.Map)
					if !ok {
						return false
					}
					kt, ok1 := m.Key().Underlying().(*types.Basic)
					et, ok2 := m.Elem().Underlying().(*types.Basic)
					return ok1 && ok2 && kt.Kind() == types.Int64 && et.Info()&types.IsInteger != 0
				}
				condTr := func(cond ssa.Value, outcome bool, ev uint64, actual func(ssa.Value) ssa.Value) uint64 {
					bo, ok := cond.(*ssa.BinOp)
					if !ok || (bo.Op != token.EQL && bo.Op != token.NEQ) {
						return ev
					}
					if (isLenElig(bo.X, actual) && isNumDocs(bo.Y)) || (isLenElig(bo.Y, actual) && isNumDocs(bo.X)) {
						if (bo.Op == token.EQL) == outcome {
							return ev | 1
						}
						return ev &^ 1
					}
					// the same question asked of the vectors: the list of vector ids collected from the eligible
					// documents is as long as the table vector id -> document (every vector of the field is in it)
					if (isLenIncluded(bo.X) && isLenVecTable(bo.Y)) || (isLenIncluded(bo.Y) && isLenVecTable(bo.X)) {
						if (bo.Op == token.EQL) == outcome {
							return ev | 1
						}
						return ev &^ 1
					}
					return ev
				}
				fpa := newPathAnalysis(fn, func(ssa.Instruction, uint64, bool) []uint64 { return nil })
				fpa.condTr = condTr
				fpa.edgeTr = func(pred *ssa.BasicBlock, succIdx int, ev uint64) uint64 {
					if iff, ok := pred.Instrs[len(pred.Instrs)-1].(*ssa.If); ok && len(pred.Succs) == 2 {
						return condTr(iff.Cond, succIdx == 0, ev, fpa.actual)
					}
					return ev
				}
				fpa.run(0)
				k := 0
				for _, cs := range callSites(fn) {
					unf := false
					if iv, m, ok := faissMethod(cs); ok && m == "SearchWithoutIDs" && isCell(iv, idxCell) {
						unf = true
					} else if g := resolvedCallee(cs); g != nil && g.Parent() == ivi && g != fn && containsUnfiltered(g) {
						unf = true
					}
					if !unf {
						continue
					}
					k++
					okc := len(fpa.statesBefore(cs)) > 0
					for _, ev := range fpa.statesBefore(cs) {
						if ev&1 == 0 {
							okc = false
						}
					}
					c.check(okc, fmt.Sprintf("%s/unfiltered-only-when-all-eligible#%d", funcShortName(fn), k), c.pos(cs),
						"the filtered search falls back to the unfiltered engine call only when the number of eligible documents equals the segment's document count (every document is eligible)",
						"the unfiltered search is reachable from the filtered one without `len(eligible) == numDocs`: documents outside the eligible set can be returned", "call: "+describeInstr(p, cs))
				}
			}
			c.check(nFiltered >= 1, "filtered-closure", "-", "the filtered search closure (the one with an eligible-documents parameter) is found", "none found")
			nSearch := 0
			for _, fn := range p.ZapFuncs {
				if fn.Parent() != ivi {
					continue
				}
				counts := map[string]int{}
				for _, cs := range callSites(fn) {
					iv, m, ok := faissMethod(cs)
					if !ok || !engineMethods[m] || !isCell(iv, idxCell) {
						continue
					}
					nSearch++
					counts[m]++
					key := fmt.Sprintf("%s/%s#%d", funcShortName(fn), m, counts[m])
					nn, dim := guarded(fn, cs, 0)
					c.check(nn && dim, key+"/guarded", c.pos(cs), "the engine call "+m+" is reached only when the field has an index and the query has the index's dimension",
						fmt.Sprintf("not guarded on every path (index non-nil: %v, dimension equal: %v): a query of the wrong dimension reaches the native engine", nn, dim), "call: "+describeInstr(p, cs))
					if m == "SearchWithoutIDs" {
						args := cs.Common().Args
						okx := len(args) >= 3 && isCell(args[2], exclCell)
						c.check(okx, key+"/exclusion-list", c.pos(cs), "the unfiltered search passes the exclusion list computed for this call's except bitmap",
							"the exclusion list of this call is not what is handed to the engine: excluded (deleted) documents can be returned", "call: "+describeInstr(p, cs))
					}
				}
				// emitting: only ids found in the id->doc map
				for _, cs := range callSites(fn) {
					f := staticCallee(cs)
					if f == nil || f.Name() != "Add" || f.Pkg == nil || !strings.HasSuffix(f.Pkg.Pkg.Path(), "roaring64") {
						continue
					}
					// receiver: pl.postings of a VecPostingsList
					if sn, fld, _, ok := loadedField(cs.Common().Args[0]); !ok || sn != "VecPostingsList" || fld != "postings" {
						continue
					}
					okc := false
					for b := cs.Block(); b != nil; b = b.Idom() {
						pb := b.Idom()
						if pb == nil {
							break
						}
						if len(b.Preds) != 1 || pb.Succs[0] != b {
							continue
						}
						iff, ok := pb.Instrs[len(pb.Instrs)-1].(*ssa.If)
						if !ok {
							continue
						}
						if ex, ok := iff.Cond.(*ssa.Extract); ok && ex.Index == 1 {
							if lk, ok := ex.Tuple.(*ssa.Lookup); ok && lk.CommaOk && isCell(lk.X, mapCell) {
								okc = true
							}
						}
					}
					c.check(okc, funcShortName(fn)+"/emit-only-mapped", c.pos(cs), "a hit is emitted only for a vector id found in the id->doc map (the engine's -1 padding and unknown ids are skipped)",
						"hits are added without the look-up succeeding: padding ids (-1) would be reported as document 0")
				}
			}
			c.check(nSearch >= half(5), "engine-calls", "-", "engine search calls in the closures of InterpretVectorIndex are found (confirmed by hand: 6)", fmt.Sprintf("found %d", nSearch))
		},
	}
}

// ---------------------------------------------------------------------------
// R23c EXCLUSION-LOOKED-AT (C14, C16)
//
// The cache hands out, together with the shared index, the ids of the vectors
// that belong to the documents excluded *for this call*. A function that takes
// the per-call exclusion bitmap and hands out an index with an exclusion list
// must have looked at that bitmap on every path on which it hands the index
// out: a path that never touches the parameter returns a list that cannot
// depend on it (seeded change C14g: an early return in front of the
// computation). "Looked at" = passed to a call, a method called on it, or
// tested against nil. A necessary condition only: that the list is the right
// one is not decided.
func r23ExclusionLookedAt(c *RuleCtx) {
	props := []string{"C14", "C16"}
	n := 0
	for _, fn := range c.p.ZapFuncs {
		if len(fn.Blocks) == 0 {
			continue
		}
		var except *ssa.Parameter
		for _, p := range fn.Params {
			if pt, ok := p.Type().Underlying().(*types.Pointer); ok && isBitmapPtr(pt.Elem()) {
				except = p
			}
		}
		if except == nil {
			continue
		}
		res := fn.Signature.Results()
		idxRes, listRes := -1, -1
		for i := 0; i < res.Len(); i++ {
			if isFaissIndexPtr(res.At(i).Type()) {
				idxRes = i
			}
			if sl, ok := res.At(i).Type().Underlying().(*types.Slice); ok {
				if bt, ok := sl.Elem().Underlying().(*types.Basic); ok && bt.Kind() == types.Int64 {
					listRes = i
				}
			}
		}
		if idxRes < 0 && res.Len() > 0 && isIndexHandlePtr(res.At(0).Type()) {
			idxRes, listRes = 0, 0 // index and exclusion list handed out together in a handle
		}
		if idxRes < 0 || listRes < 0 {
			continue
		}
		n++
		uses := map[ssa.Instruction]bool{}
		if refs := except.Referrers(); refs != nil {
			for _, r := range *refs {
				switch r.(type) {
				case *ssa.DebugRef, *ssa.Phi:
				default:
					uses[r] = true
				}
			}
		}
		// through the cell of a captured / address-taken parameter
		eachInstr(fn, func(_ *ssa.BasicBlock, in ssa.Instruction) {
			if st, ok := in.(*ssa.Store); ok && st.Val == ssa.Value(except) {
				if al, ok := st.Addr.(*ssa.Alloc); ok {
					for _, r := range *al.Referrers() {
						if u, ok := r.(*ssa.UnOp); ok && u.Referrers() != nil {
							for _, r2 := range *u.Referrers() {
								if _, isDbg := r2.(*ssa.DebugRef); !isDbg {
									uses[r2] = true
								}
							}
						}
					}
				}
			}
		})
		pa := newPathAnalysis(fn, func(in ssa.Instruction, ev uint64, _ bool) []uint64 {
			if uses[in] {
				return []uint64{ev | 1}
			}
			return nil
		})
		pa.run(0)
		okc := true
		var wit []string
		for _, ret := range returnsOf(fn) {
			if !pa.reachable(ret.Block()) || idxRes >= len(ret.Results) {
				continue
			}
			if _, ns := errorOfReturn(ret); ns == nonNil {
				continue
			}
			if isNilConst(returnedValue(ret, idxRes)) {
				continue
			}
			// the list handed out is one the caller computed and handed in: every caller computed it from
			// its own exclusion bitmap
			if lp, ok := root(returnedValue(ret, listRes)).(*ssa.Parameter); ok && lp.Parent() == fn {
				pi := -1
				for i, q := range fn.Params {
					if q == lp {
						pi = i
					}
				}
				sites := c.p.callersOf(fn)
				allOK := pi >= 0 && len(sites) > 0
				for _, cs := range sites {
					g := cs.Parent()
					var e2 *ssa.Parameter
					for _, q := range g.Params {
						if pt, ok := q.Type().Underlying().(*types.Pointer); ok && isBitmapPtr(pt.Elem()) {
							e2 = q
						}
					}
					if e2 == nil || pi >= len(cs.Common().Args) || !derivedFrom(cs.Common().Args[pi], e2, 0, map[ssa.Value]bool{}) {
						allOK = false
					}
				}
				if allOK {
					continue
				}
			}
			for _, ev := range pa.statesBefore(ret) {
				if ev&1 == 0 {
					okc = false
					wit = append(wit, "exit "+c.pos(ret)+" hands out an index although the exclusion bitmap of this call was never looked at on the way")
				}
			}
		}
		c.add(statusOf(okc), "exclusion-looked-at/"+funcShortName(fn), c.fpos(fn),
			"on every path on which "+funcShortName(fn)+" hands out an index, the exclusion bitmap of this call has been looked at (the exclusion list handed out with it depends on it)",
			"a path hands out the shared index with an exclusion list that cannot depend on this call's exclusion bitmap", props, uniq(wit))
	}
	c.add(statusOf(n >= 2), "exclusion-looked-at/sites", "-", "functions that take the per-call exclusion bitmap and hand out an index with an exclusion list are found (pinned tree: loadOrCreate, loadFromCache, createAndCacheLOCKED)", fmt.Sprintf("found %d", n), props, nil)
}

// derivedFrom: v is built from elements of src — through appends, look-ups keyed by them, ranges, phis,
// local variables.
func derivedFrom(v, src ssa.Value, depth int, seen map[ssa.Value]bool) bool {
	if v == nil || depth > 12 || seen[v] {
		return false
	}
	seen[v] = true
	if v == src || root(v) == src {
		return true
	}
	rec := func(x ssa.Value) bool { return derivedFrom(x, src, depth+1, seen) }
	switch x := v.(type) {
	case *ssa.Phi:
		for _, e := range x.Edges {
			if rec(e) {
				return true
			}
		}
	case *ssa.Call:
		for _, a := range x.Call.Args {
			if rec(a) {
				return true
			}
		}
	case *ssa.Lookup:
		return rec(x.Index) || rec(x.X)
	case *ssa.Extract:
		return rec(x.Tuple)
	case *ssa.Next:
		return rec(x.Iter)
	case *ssa.Range:
		return rec(x.X)
	case *ssa.Convert:
		return rec(x.X)
	case *ssa.ChangeType:
		return rec(x.X)
	case *ssa.Slice:
		return rec(x.X)
	case *ssa.IndexAddr:
		return rec(x.X)
	case *ssa.UnOp:
		if x.Op == token.MUL {
			if cell := cellOf(x.X); cell != nil {
				for _, st := range cellStores(cell) {
					if rec(st.Val) {
						return true
					}
				}
				return false
			}
		}
		return rec(x.X)
	}
	return false
}

// r23ExclusionComputed (written after seed C14r): the routine that turns the per-call exclusion bitmap into
// the list of excluded vector ids — a function of the package with a bitmap parameter and a map parameter keyed
// by vector id whose only result is a list of vector ids — walks the map, or consults what the bitmap holds some
// other way, on every path on which it has not just found the bitmap nil or empty. A guard that is wrong by a negation (`except == nil || !except.IsEmpty()`)
// returns an empty list for exactly the calls that have something to exclude. Decides when the list is computed,
// not that it is the right list.
func r23ExclusionComputed(c *RuleCtx) {
	props := []string{"C14"}
	n := 0
	for _, fn := range c.p.ZapFuncs {
		if len(fn.Blocks) == 0 || fn.Parent() != nil {
			continue
		}
		res := fn.Signature.Results()
		if res.Len() != 1 {
			continue
		}
		sl, ok := res.At(0).Type().Underlying().(*types.Slice)
		if !ok {
			continue
		}
		if bt, ok := sl.Elem().Underlying().(*types.Basic); !ok || bt.Kind() != types.Int64 {
			continue
		}
		var except, table *ssa.Parameter
		for _, p := range fn.Params {
			if pt, ok := p.Type().Underlying().(*types.Pointer); ok && isBitmapPtr(pt.Elem()) {
				except = p
			}
			if mt, ok := p.Type().Underlying().(*types.Map); ok {
				if kt, ok := mt.Key().Underlying().(*types.Basic); ok && kt.Kind() == types.Int64 {
					table = p
				}
			}
		}
		if except == nil || table == nil {
			continue
		}
		n++
		const (
			evWalked = 1 << 0
			evEmpty  = 1 << 1
		)
		pa := newPathAnalysis(fn, func(in ssa.Instruction, ev uint64, _ bool) []uint64 {
			if r, ok := in.(*ssa.Range); ok && root(r.X) == ssa.Value(table) {
				return []uint64{ev | evWalked}
			}
			// … or consults what the bitmap holds some other way: walks its iterator, asks it about a document,
			// copies it, hands it to a routine that does (a memo keyed by it, the routine that computes the list)
			if cs, ok := in.(ssa.CallInstruction); ok {
				if f := staticCallee(cs); f != nil && f.Name() != "IsEmpty" && f.Name() != "GetCardinality" {
					for _, a := range cs.Common().Args {
						if root(a) == ssa.Value(except) {
							return []uint64{ev | evWalked}
						}
					}
				}
			}
			return nil
		})
		var condTr condTrFn
		condTr = func(cond ssa.Value, outcome bool, ev uint64, actual func(ssa.Value) ssa.Value) uint64 {
			switch x := cond.(type) {
			case *ssa.UnOp:
				if x.Op == token.NOT {
					return condTr(x.X, !outcome, ev, actual)
				}
			case *ssa.BinOp:
				if (x.Op == token.EQL && outcome) || (x.Op == token.NEQ && !outcome) {
					if isNilConst(x.Y) && root(actual(x.X)) == ssa.Value(except) {
						return ev | evEmpty
					}
					if k, ok := constUint64(x.Y); ok && k == 0 {
						if call, ok := x.X.(*ssa.Call); ok {
							if f := call.Call.StaticCallee(); f != nil && f.Name() == "GetCardinality" && len(call.Call.Args) > 0 && root(actual(call.Call.Args[0])) == ssa.Value(except) {
								return ev | evEmpty
							}
						}
					}
				}
			case *ssa.Call:
				if f := x.Call.StaticCallee(); f != nil && f.Name() == "IsEmpty" && outcome && len(x.Call.Args) > 0 && root(actual(x.Call.Args[0])) == ssa.Value(except) {
					return ev | evEmpty
				}
			}
			return ev
		}
		pa.condTr = condTr
		pa.edgeTr = func(pred *ssa.BasicBlock, succIdx int, ev uint64) uint64 {
			iff, ok := pred.Instrs[len(pred.Instrs)-1].(*ssa.If)
			if !ok || len(pred.Succs) != 2 || pred.Succs[0] == pred.Succs[1] {
				return ev
			}
			return pa.learn(iff.Cond, succIdx == 0, ev)
		}
		pa.run(0)
		labels := map[string]int{}
		for _, ret := range returnsOf(fn) {
			if !pa.reachable(ret.Block()) {
				continue
			}
			okc := true
			for _, ev := range pa.statesBefore(ret) {
				if ev&(evWalked|evEmpty) == 0 {
					okc = false
				}
			}
			c.add2(okc, props, "exclusion-computed/"+funcShortName(fn)+"/"+exitLabel(ret, labels), c.pos(ret), "the list of excluded vector ids is computed from the table on every path on which the exclusion bitmap has not just been found nil or empty",
				"a path returns without walking the table although the exclusion bitmap may hold documents: their vectors would not be excluded", "exit: "+describeInstr(c.p, ret))
		}
	}
	c.add2(n >= 1, props, "exclusion-computed/sites", "-", "the routine that computes the excluded vector ids is found (pinned tree: getVecIDsToExclude)", fmt.Sprintf("found %d", n))
}
