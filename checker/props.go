package main

// Per-property description of what the static check decides and what it does
// not (DESIGN.md §4). Used for evidence files.

type propDesc struct {
	Decides     []string
	NotDecided  []string
	Explain     string
	Assumptions []string
}

var propTable = map[string]propDesc{
	"C01": {
		Decides: []string{
			"R13: the chunk size of postings is derived from (segment chunk mode, postings cardinality, segment document count) at the build writer, the merge writer and the reader alike, in both build-tag configurations",
			"R14c: format constants that the postings encoding depends on have their v16 values",
			"R30: getChunkSize computes the documented v16 chunk size on every region of (mode, cardinality, document count)",
			"R31: readLocation fills every field of the reused Location; reused result slots are cleared before they are handed out",
			"R28: the chunked int coders reused from term to term are Reset after each term is written",
			"R37b: a doc-value coder that is reset or recycled is given its chunk size before it is used again",
			"R32b: a 1-hit dictionary entry is made outside writePostings only by re-encoding a decoded 1-hit entry or after a frequency was found equal to 1 on every way there",
			"R29: every component encoded per location (field, position, start, end, array-position count) is computed from that very location",
			"R29b: the frequency and has-locations flag encoded with a posting are computed inside the loop over the postings",
			"R36: the norm word of a freq/norm record is written exactly when the encoded frequency is non-zero, and every reader (read, skip) consumes it exactly when the decoded frequency is non-zero",
			"R37: the build path's reused int coders are given the term's chunk size (SetChunkSize) after creation / Reset and before the first posting of the term is added",
			"R29c: what is appended per location is computed from that location (no variable carrying the previous location's value round the loop)",
		},
		NotDecided: []string{"which documents/frequencies/norms/locations come back", "sizing of the shared backing arrays by the counting pass", "varint contents"},
		Explain:    "Narrow claim: writer/reader agreement on chunk-size derivation is a necessary condition named in the property's own anchors.",
	},
	"C02": {
		Decides: []string{
			"R19a: in the stored-field visitor loop every later visitor call is dominated by the continue-edge of a branch on the earlier visitor result (stop request honoured on every path)",
			"R19b: every use of a document number to index the stored-offset table is dominated by a guard with truth table {num<numDocs: read, =: skip, >: skip}",
			"R19c: no argument handed to the visitor inside the loop over stored values is a loop-carried variable",
			"R29c: what the builder appends per stored value (array positions) is computed from that value",
			"R26: DocNumbers looks at every given id (loop left early only on error)",
			"R33: the running data offset and buffer of persistStoredFieldValues are handed back as accumulated",
			"R27: stored-document index entries are u64 big endian at storedIndexOffset + 8*docNum on both sides",
			"R27e: the stored block of a document is always snappy-encoded by the writers and always decoded by the reader",
			"R10e: a stored-field accumulator recycled inside its container has every slice field truncated (no such recycling on the pinned tree; kept alive by the self-test)",
			"R38: a grow-only scratch slice (the array-position buffer of the visit context) reaches the visitor only as a cut of the length just decoded",
		},
		NotDecided: []string{"byte-for-byte round trip of values, types, array positions", "DocNumbers' max-key short cut"},
	},
	"C03": {
		Decides: []string{
			"R13: doc-value chunk size derived as getChunkSize(LegacyChunkMode,0,0) at both writers and at the reader",
			"R4: shared docValueReaders are only used through private clones",
			"R20: a reused visit state is validated against the segment and cleared when it differs",
			"R15c: the in-memory and mmap doc-value loaders agree on their effects",
			"R26: both loaders visit every field from the first",
			"R31: loadDvChunk replaces the one-chunk cache together with its key on every successful path",
			"R27: the doc-value trailer is [offset-table length u64][chunk count u64] on both sides",
		},
		NotDecided: []string{"the terms returned", "binary search in chunk headers", "sparse chunks"},
	},
	"C04": {
		Decides: []string{
			"R15a: Persist and WriteTo share the single routine that writes SegmentBase.mem",
			"R14: footer layout (order, widths, roles) in persistFooter and loadConfig equals the frozen v16 table; CRC is folded over every forwarded byte and written last; FooterSize and Version",
			"R15c: loader siblings agree",
			"R13 probe clause: a getChunkSize call used for its error only (a validity probe in the open path) does not fail on ErrChunkSizeZero, which the adaptive modes answer for an empty segment",
		},
		NotDecided: []string{"equality of answers between in-memory and reopened segment"},
	},
	"C05": {
		Decides: []string{
			"R15b: every byte of the merged file passes through the counting writer; reported size is its count after the footer",
			"R17: raw byte copy of stored documents only under fieldsSame and an empty drop bitmap",
			"R24: dropped documents get the sentinel and nothing else; every consumer of the renumbering tests the sentinel first",
			"R16: the field-record offset 0 ('absent' for the reader) cannot be written by the merge (known finding F6 on the no-survivor path)",
			"R25d: the per-field scratch tables of the stored-field merge are reset over the length they were allocated with",
			"R10e: a per-field accumulator struct that is reset between documents truncates every one of its slice fields",
			"R27: the stored-document index entry of a merged document is read back at the same stride by the byte-copy path",
		},
		NotDecided: []string{"consecutive numbering of survivors", "content of carried-over stored data", "DocID/DocNumbers answers"},
	},
	"C06": {
		Decides: []string{
			"R13: postings chunk derivation in the merge writer",
			"R17: byte copy of posting details only under fieldsSame",
			"R24: remapped numbers tested against the drop sentinel before use",
			"R18: section addresses are wired into the field table on the merge path",
			"R25: per-segment input tables and per-field compacted tables are indexed in their own index space",
			"R26: loops over fields and segments are exhaustive",
			"R26c: a boolean carried round a loop over the segments in focus and read afterwards accumulates over them",
			"R28c: in the term loop of the merge the nil-ness / length of the previous term never decides that the collected postings are not written out",
			"R28: per-term accumulators (coders, postings bitmap, last-hit scalars read by the 1-hit decision) are reset after each term",
			"R29: every component encoded per location is computed from that very location",
			"R12: the postings list / iterator reused across all terms of a merge is fully reset",
			"R31/R33/R34: decoders fill reused objects completely; accumulators are threaded; synthesised 1-hit bytes carry the entry's own norm",
			"R32: the 1-hit encoding is chosen exactly under the documented conditions",
			"R36: the norm word of a freq/norm record is written exactly when the encoded frequency is non-zero, and every reader (read, skip) consumes it exactly when the decoded frequency is non-zero",
			"R37: the merge's reused int coders are given the merged term's chunk size after creation / Reset and before the first posting of every term, the first term of a field included (conditions tested twice per iteration are correlated; a loop-carried variable that enters as nil is nil in the first iteration)",
		},
		NotDecided: []string{"merged frequencies/norms/locations/doc values", "enumerator ordering", "1-hit encoding decisions"},
	},
	"C07": {
		Decides: []string{
			"R12: every reuse path resets every field except tabled buffers, and cleans the buffers whose stale content would be read",
			"R11: a decoded postings list's encoding tag describes the entry just decoded",
			"R11b: the bitmap of a postings list is used only after its 1-hit tag was found zero",
			"R12b: a lookup that is given a list or iterator to reuse hands back nil, a fresh object, a sentinel, or the caller's object after it was zeroed as a whole (a miss never looks like the previous hit)",
			"R36: the norm word of a freq/norm record is written exactly when the encoded frequency is non-zero, and every reader (read, skip) consumes it exactly when the decoded frequency is non-zero",
		},
		NotDecided: []string{"lock-step of the three cursors under Next/Advance", "Count arithmetic"},
	},
	"C08": {
		Decides: []string{"R11: the scratch list reused by the dictionary iterator cannot keep a stale 1-hit encoding tag",
			"R11b: Count looks at the bitmap only after the 1-hit tag was found zero (the dictionary iterator reports Count of a reused scratch list)",
			"R32: the merge writes a term 1-hit only with frequency exactly 1 (a 1-hit entry with norm bits 0 would not be recognised, and its count would be whatever the scratch list held)",
			"R28c: in the merge's term loop the nil-ness / length of the previous term never decides that the collected postings are not written out when the term changes (the empty term is a term of the dictionary)"},
		NotDecided: []string{"automaton/range filtering (vellum)", "ordering", "Contains/Cardinality values"},
	},
	"C09": {
		Decides: []string{
			"R14: writer-side and reader-side footer equal the frozen v16 table; format constants have their v16 values",
			"R13: chunk derivation kinds",
			"R30: getChunkSize computes the documented v16 chunk size on every region of (mode, cardinality, document count)",
			"R27: fixed-width big-endian records below the footer (field-table pairs, fields index, stored-document index, doc-value trailer) keep their widths, strides and order on both sides",
			"R27e: stored blocks are always snappy-encoded / decoded (no length-dependent omission)",
			"R36: the norm word of a freq/norm record is written exactly when the encoded frequency is non-zero, and every reader (read, skip) consumes it exactly when the decoded frequency is non-zero",
			"R25/R28b/R32: index spaces of the merged cardinality computation, co-reset of the synonym id maps, 1-hit conditions (what ends up in the file for the same logical content)",
		},
		NotDecided: []string{"the uvarint streams below the footer: section table, postings records, stored blocks, doc-value chunks, thesaurus blocks", "files frozen from the pinned release cannot be read by a static check"},
	},
	"C10": {
		Decides: []string{
			"R10: every field of the pooled builder structs has a re-initialisation point; truncated slices are not re-extended over stale elements; Put only after a successful reset",
			"R1: the pooled interim is singly owned",
			"R37b: a doc-value coder that is recycled through the pooled opaque is given its chunk size before it is used again",
		},
		NotDecided: []string{"that every re-initialisation happens before the first read on every path", "byte equality of outputs"},
	},
	"C11": {
		Decides: []string{
			"R1: pooled scratch contexts are returned at most once and not used after return",
			"R2: shared mutable cache fields are only accessed under their mutex",
			"R3: a published segment is not written outside constructors",
			"R4: shared doc-value readers are only cloned",
			"R5: shared empty sentinels are never written",
		},
		NotDecided: []string{"absence of every data race", "results under interleavings"},
	},
	"C12": {
		Decides: []string{
			"R35a: encodeSynonym and decodeSynonym are inverse: id in the high half, document in the low half, split at bit 32, same order of operands and results",
			"R35b: the synonym iterator hands out a decoded (synonym, document) pair only if there is no exclusion bitmap or the bitmap does not contain that pair's document",
			"R35b': no method of the iterator assigns its own exclusion bitmap; a document may skip the probe only when it is beyond a field that only ever holds Maximum() of that bitmap",
			"R35c: synonym fields stay out of the ordinary term dictionaries: an exclusion check for index.SynonymField is registered at initialisation, the list is written nowhere else, the predicate answers true as soon as one check does, and invertedIndexOpaque.process is called only where it answered false",
			"R12: a reused SynonymsList / SynonymsIterator is fully reset (tabled buffers cleaned)",
			"R31: the reused result slot of the synonym iterator is cleared as a whole before it is handed out",
			"R12b: the thesaurus lookup hands back a reused synonyms list only after it was zeroed as a whole (unknown terms yield empty results)",
		},
		NotDecided: []string{"which (synonym, document) pairs a batch defines", "synonym id assignment and the id->term table", "ascending order of left-hand terms (vellum refuses unsorted insertion; exercised by the pinned tests)", "equality of answers after persist and re-open"},
		Explain:    "Narrow claim: three structural necessary conditions named in the property's own anchors.",
	},
	"C13": {
		Decides: []string{
			"R18: merged thesaurus addresses and field->thesaurus map are wired into the field table",
			"R24: remapped document numbers are tested against the drop sentinel before being encoded",
			"R25/R26: the per-field compacted tables are indexed in their own space; loops over fields and segments are exhaustive",
			"R28b: the synonym-id maps (term->id, id->term) of a field are re-created or cleared together",
			"R28d: a table that outlives a round of the per-field loop and receives ids of a counter that restarts every round is emptied inside that loop (a lazy allocation is not emptying)",
			"R26c: a boolean that summarises a loop over the segments accumulates (the last segment does not decide for all)",
			"R35a: the (id, document) code is built and split at bit 32 with the same operand order",
			"R12: the synonyms list reused across terms is fully reset",
		},
		NotDecided: []string{"surviving (synonym, document) pairs", "id re-assignment"},
		Explain:    "Narrow claim.",
	},
	"C14": {
		Decides:    []string{"R23: wrong-dimension / missing-index queries never reach the engine; the exclusion list computed for this call is passed on the unfiltered path; only ids present in the id->doc map are emitted", "R23c: on every path on which the vector cache hands out an index, the exclusion bitmap of this call has been looked at (the exclusion list handed out with the index depends on it)"},
		NotDecided: []string{"scores, top-k, selector choice, eligible filtering (native library)"},
		Explain:    "Narrow claim.",
	},
	"C15": {
		Decides: []string{
			"R18: vector section address recorded on the merge path and not recorded when nothing survives (non-empty id->doc table on every way to the store, or the writer's count moved since the section started and the routines in between write nothing for an empty table)",
			"R24: vectors of dropped documents are filtered by the sentinel test",
		},
		NotDecided: []string{"which vectors are in the rebuilt index (native library)"},
		Explain:    "Narrow claim.",
	},
	"C16": {
		Decides: []string{
			"R21: cache entry content is independent of the per-call exclusion bitmap",
			"R22: references are taken on every hand-out; eviction only at zero references after removal from the map; single owner of Close",
			"R2: cache fields only under the cache mutex",
			"R22c: what a cache function hands out of a shared entry is read after the entry was completed on that path, not before (no stale snapshot)",
			"R23c: the exclusion list handed out with a cached index depends on this call's exclusion bitmap on every path",
		},
		NotDecided: []string{"timing of the monitor goroutine", "asynchronous close()", "engine-side counters"},
	},
	"C17": {
		Decides: []string{
			"R6: cleanup (close + remove of the same path) on every failure exit; body, footer, Flush and Close each tested before every success exit, for Persist, WriteTo and Merge",
			"R7: no dropped write error; sticky-writer precondition for the unchecked binary.Write calls",
		},
		NotDecided: []string{"that the OS reports the fault", "content of the file after success (C04)"},
	},
	"C18": {
		Decides: []string{
			"R8: every cancellation poll returns the closed error without writing first; a poll dominates the first write of the merge; cancellation exits go through the same cleanup as I/O failures (R6)",
			"R8c: between a poll and the API every function hands the error of a callee that may report cancellation up unchanged (no wrapping, no replacement)",
		},
		NotDecided: []string{"when the channel is observed closed (schedule)"},
	},
	"C19": {
		Decides: []string{
			"R7: no FAISS / section error is dropped; implementations of the section interface agree on propagating their writer's error",
			"R6: every native index is released on every exit",
			"R6f: a function that takes a native index out of its holder releases it on every way out",
			"R7d: where the error of a vector-engine call on the build / merge path is tested, every way on from the failing side ends in a non-nil error return (no recovery that hides the failure)",
		},
		NotDecided: []string{"behaviour of the engine when it fails"},
	},
	"C20": {
		Decides: []string{
			"R9: refs only under the mutex; release exactly at the 1->0 guard; single owner of Unmap/file Close; caches cleared before unmapping; in-memory Close clears caches and returns nil",
			"R9 clear-only-at-last-release: the caches of a file-backed segment are cleared only under the refs == 0 outcome of the release guard",
			"R6: Open's failure paths close",
			"R2: lockset on Segment.refs",
		},
		NotDecided: []string{"that the final release returns no OS error", "/proc state"},
	},
}
