package main

// Sensitivity self-test: each rule must fire on a seeded edit that breaks the
// clause it decides, and name the edited construct. Edits are applied in
// memory (go/packages Overlay); /repo is never written. Results go to the
// evidence file of the thorough tier and never change the verdict on /repo.

import (
	"bytes"
	"encoding/json"
	"flag"
	"fmt"
	"os"
	"os/exec"
	"path/filepath"
	"sort"
	"strings"
	"sync"
)

type edit struct {
	File string
	Old  string
	New  string
	Nth  int // 1-based occurrence; 0 = Old must be unique in the file
}

type mutant struct {
	Harmless bool // behaviour-preserving edit: the rule must stay silent
	ID       string
	Prop     string
	Rule     string
	Vectors  bool
	Edits    []edit
	Expect   string // substring of the key of a non-discharged obligation
	Note     string
	Patch    string // harmless only: a unified diff under /verif (refactors/<area>.diff) applied as a whole; judged by every rule serving the property asked for
}

type mutantResult struct {
	ID       string   `json:"id"`
	Prop     string   `json:"property"`
	Rule     string   `json:"rule"`
	Status   string   `json:"status"` // detected | missed | stale | load-error
	Expect   string   `json:"expect_key_contains"`
	Reported []string `json:"reported,omitempty"`
	Note     string   `json:"note,omitempty"`
	Suite    string   `json:"pinned_suite_on_this_edit,omitempty"` // recorded once by scripts/mutant_suite.sh
}

func applyEdits(repo string, edits []edit) (map[string][]byte, error) {
	return applyEditsOn(repo, edits, map[string][]byte{})
}

func applyEditsOn(repo string, edits []edit, ov map[string][]byte) (map[string][]byte, error) {
	for _, e := range edits {
		path := filepath.Join(repo, e.File)
		cur, ok := ov[path]
		if !ok {
			b, err := os.ReadFile(path)
			if err != nil {
				return nil, err
			}
			cur = b
		}
		n := bytes.Count(cur, []byte(e.Old))
		if n == 0 {
			return nil, fmt.Errorf("stale: %q not found in %s", e.Old, e.File)
		}
		if e.Nth == 0 && n != 1 {
			return nil, fmt.Errorf("stale: %q occurs %d times in %s (expected once)", e.Old, n, e.File)
		}
		if e.Nth > n {
			return nil, fmt.Errorf("stale: %q occurs %d times in %s (wanted #%d)", e.Old, n, e.File, e.Nth)
		}
		idx := 0
		k := e.Nth
		if k == 0 {
			k = 1
		}
		pos := -1
		for i := 0; i < k; i++ {
			j := bytes.Index(cur[idx:], []byte(e.Old))
			pos = idx + j
			idx = pos + len(e.Old)
		}
		out := append([]byte{}, cur[:pos]...)
		out = append(out, []byte(e.New)...)
		out = append(out, cur[pos+len(e.Old):]...)
		ov[path] = out
	}
	return ov, nil
}

// overlayFromPatch applies a unified diff to copies of the files it names
// (in a scratch directory that is removed again) and returns the patched
// contents as an overlay. /repo is not touched.
func overlayFromPatch(repo, patch string) (map[string][]byte, error) {
	b, err := os.ReadFile(patch)
	if err != nil {
		return nil, err
	}
	var files []string
	for _, ln := range strings.Split(string(b), "\n") {
		if strings.HasPrefix(ln, "+++ b/") {
			files = append(files, strings.TrimSpace(strings.TrimPrefix(ln, "+++ b/")))
		}
	}
	if len(files) == 0 {
		return nil, fmt.Errorf("stale: no files named in %s", patch)
	}
	tmp, err := os.MkdirTemp("", "zapxlint-patch-")
	if err != nil {
		return nil, err
	}
	defer os.RemoveAll(tmp)
	for _, f := range files {
		src, err := os.ReadFile(filepath.Join(repo, f))
		if err != nil {
			continue // a file the patch creates
		}
		os.MkdirAll(filepath.Dir(filepath.Join(tmp, f)), 0o755)
		if err := os.WriteFile(filepath.Join(tmp, f), src, 0o644); err != nil {
			return nil, err
		}
	}
	abs, _ := filepath.Abs(patch)
	cmd := exec.Command("git", "apply", "--unsafe-paths", "--directory="+tmp, abs)
	cmd.Dir = tmp
	cmd.Env = append(os.Environ(), "GIT_CEILING_DIRECTORIES=/", "GIT_DIR=/nonexistent")
	if out, err := cmd.CombinedOutput(); err != nil {
		// plain patch(1) as a fallback
		c2 := exec.Command("patch", "-p1", "-s", "-i", abs)
		c2.Dir = tmp
		if out2, err2 := c2.CombinedOutput(); err2 != nil {
			return nil, fmt.Errorf("stale: patch %s does not apply: %s / %s", filepath.Base(patch), strings.TrimSpace(string(out)), strings.TrimSpace(string(out2)))
		}
	}
	ov := map[string][]byte{}
	for _, f := range files {
		nb, err := os.ReadFile(filepath.Join(tmp, f))
		if err != nil {
			return nil, err
		}
		ov[filepath.Join(repo, f)] = nb
	}
	return ov, nil
}

var verifDir = "/verif"

func runMutant(repo string, m mutant) mutantResult {
	res := mutantResult{ID: m.ID, Prop: m.Prop, Rule: m.Rule, Expect: m.Expect, Note: m.Note}
	var ov map[string][]byte
	var err error
	if m.Patch != "" {
		ov, err = overlayFromPatch(repo, filepath.Join(verifDir, m.Patch))
		if err == nil && len(m.Edits) > 0 {
			// a seeded edit on top of the refactored form
			ov, err = applyEditsOn(repo, m.Edits, ov)
		}
	} else {
		ov, err = applyEdits(repo, m.Edits)
	}
	if err != nil {
		res.Status = "stale"
		res.Note = err.Error()
		return res
	}
	cfg := cfgDefault
	if m.Vectors {
		cfg = cfgVectors
	}
	p, err := loadProgramOverlay(repo, cfg, ov)
	if err != nil {
		res.Status = "load-error"
		res.Note = err.Error()
		return res
	}
	defer progRegistry.Delete(p.SSA) // or every edited program stays reachable for the life of the process
	for _, r := range allRules() {
		if m.Rule != "" && r.ID != m.Rule {
			continue
		}
		if m.Rule == "" && m.Prop != "" && !r.serves(m.Prop) {
			continue
		}
		if r.VectorsOnly && !cfg.Vectors {
			continue
		}
		for _, o := range runRule(r, p, m.Prop) {
			if m.Harmless && m.Patch != "" && o.Status != Discharged {
				// a recorded known finding of the unchanged tree is not an alarm about the refactoring
				if kf, err := loadKnown(filepath.Join(verifDir, "known_findings.txt")); err == nil {
					known := false
					for _, k := range kf.Known {
						if k.Key == o.Key {
							known = true
						}
					}
					if known {
						continue
					}
				}
			}
			if o.Status != Discharged {
				res.Reported = append(res.Reported, string(o.Status)+" "+o.Key+" @"+o.Pos)
			}
		}
	}
	sort.Strings(res.Reported)
	if m.Harmless {
		res.Status = "quiet"
		if len(res.Reported) > 0 {
			res.Status = "false-alarm"
		}
		return res
	}
	res.Status = "missed"
	for _, k := range res.Reported {
		if strings.Contains(k, m.Expect) {
			res.Status = "detected"
		}
	}
	return res
}

func runMutants(repo string, ms []mutant, par int) []mutantResult {
	out := make([]mutantResult, len(ms))
	sem := make(chan struct{}, par)
	var wg sync.WaitGroup
	for i, m := range ms {
		wg.Add(1)
		go func(i int, m mutant) {
			defer wg.Done()
			sem <- struct{}{}
			defer func() { <-sem }()
			defer func() {
				if e := recover(); e != nil {
					out[i] = mutantResult{ID: m.ID, Prop: m.Prop, Rule: m.Rule, Status: "load-error", Note: fmt.Sprint("panic: ", e)}
				}
			}()
			out[i] = runMutant(repo, m)
		}(i, m)
	}
	wg.Wait()
	return out
}

// runSelfTest is called by the thorough tier for one property.
func runSelfTest(repo, verif, prop string) interface{} {
	verifDir = verif
	var ms []mutant
	for _, m := range append(mutantTable(), harmlessTable()...) {
		if m.Prop == prop {
			ms = append(ms, m)
		} else if m.Patch != "" && m.Prop == "" {
			m.Prop = prop
			ms = append(ms, m)
		}
	}
	verifDir = verif
	rs := runMutants(repo, ms, 6)
	suite := map[string]string{}
	if b, err := os.ReadFile(filepath.Join(verif, "selftest_suite_outcomes.json")); err == nil {
		json.Unmarshal(b, &suite)
	}
	sum := map[string]int{}
	for i, r := range rs {
		sum[r.Status]++
		rs[i].Suite = suite[r.ID]
	}
	return map[string]interface{}{"applied": len(ms), "detected": sum["detected"], "missed": sum["missed"], "stale": sum["stale"], "load_error": sum["load-error"],
		"harmless_quiet": sum["quiet"], "harmless_false_alarm": sum["false-alarm"], "results": rs}
}

func cmdSelftest(args []string) int {
	fs := flag.NewFlagSet("selftest", flag.ExitOnError)
	repo := fs.String("repo", "/repo", "repository root")
	only := fs.String("only", "", "substring of mutant id / property / rule")
	par := fs.Int("j", 6, "parallel loads")
	vd := fs.String("verif", "/verif", "verification directory (refactoring patches)")
	export := fs.String("export", "", "write the edited files of every (non-stale) mutant under DIR/<id>/ instead of analysing")
	fs.Parse(args)
	verifDir = *vd
	if *export != "" {
		n := 0
		for _, m := range mutantTable() {
			ov, err := applyEdits(*repo, m.Edits)
			if err != nil {
				fmt.Println("stale", m.ID, err)
				continue
			}
			for path, content := range ov {
				rel, _ := filepath.Rel(*repo, path)
				dst := filepath.Join(*export, m.ID, rel)
				os.MkdirAll(filepath.Dir(dst), 0o755)
				os.WriteFile(dst, content, 0o644)
			}
			tag := "default"
			if m.Vectors {
				tag = "vectors"
			}
			os.WriteFile(filepath.Join(*export, m.ID, "CONFIG"), []byte(tag+"\n"), 0o644)
			n++
		}
		fmt.Println("exported", n)
		return 0
	}
	var ms []mutant
	for _, m := range append(mutantTable(), harmlessTable()...) {
		if *only == "" || strings.Contains(m.ID, *only) || m.Prop == *only || m.Rule == *only {
			ms = append(ms, m)
		}
	}
	rs := runMutants(*repo, ms, *par)
	bad := 0
	for _, r := range rs {
		fmt.Printf("%-11s %-4s %-4s %-40s expect=%s\n", r.Status, r.Prop, r.Rule, r.ID, r.Expect)
		if r.Status != "detected" && r.Status != "quiet" {
			bad++
			if r.Note != "" {
				fmt.Printf("           note: %s\n", r.Note)
			}
			for _, k := range r.Reported {
				fmt.Printf("           reported: %s\n", k)
			}
		}
	}
	fmt.Printf("%d edits, %d not as expected\n", len(rs), bad)
	if bad > 0 {
		return 1
	}
	return 0
}
