package main

// R9 REFCOUNT-RELEASE — the mapping is released on the 1->0 transition only.

import (
	"fmt"
	"go/token"
	"go/types"
	"sort"
	"strings"

	"golang.org/x/tools/go/ssa"
)

func cmpInt(op token.Token, x, k int64) (bool, bool) {
	switch op {
	case token.EQL:
		return x == k, true
	case token.NEQ:
		return x != k, true
	case token.LSS:
		return x < k, true
	case token.LEQ:
		return x <= k, true
	case token.GTR:
		return x > k, true
	case token.GEQ:
		return x >= k, true
	}
	return false, false
}

// isLoadOfField: v is `*(&x.f)` of struct sn.
func isLoadOfField(v ssa.Value, sn, fld string) bool {
	s, f, _, ok := loadedField(v)
	return ok && s == sn && f == fld
}

func ruleR9() *Rule {
	return &Rule{
		ID:    "R9",
		Title: "REFCOUNT-RELEASE: the mapping and the descriptor are released exactly at the 1->0 guard, by a single owner",
		Props: []string{"C20"},
		Floor: floorFor("R9"),
		Run: func(c *RuleCtx) {
			p := c.p
			isUnmap := func(f *ssa.Function) bool {
				return f != nil && f.Name() == "Unmap" && f.Pkg != nil && f.Pkg.Pkg.Path() == "github.com/blevesearch/mmap-go"
			}
			// releaser = the zap function that unmaps Segment.mm
			var releasers []*ssa.Function
			var unmapSites, fcloseSites []ssa.CallInstruction
			for _, fn := range p.ZapFuncs {
				for _, cs := range callSites(fn) {
					f := staticCallee(cs)
					if isUnmap(f) {
						unmapSites = append(unmapSites, cs)
						found := false
						for _, r := range releasers {
							if r == fn {
								found = true
							}
						}
						if !found {
							releasers = append(releasers, fn)
						}
					}
					if f != nil && f.String() == "(*os.File).Close" && isLoadOfField(recvOrArg0(cs), "Segment", "f") {
						fcloseSites = append(fcloseSites, cs)
					}
				}
			}
			if !c.check(len(releasers) == 1, "single-releaser", "-", "exactly one zap function unmaps a segment's mapping", fmt.Sprintf("%d functions call MMap.Unmap", len(releasers))) {
				return
			}
			rel0 := releasers[0] // the function that unmaps
			// the release routine may be split (`closeActual` -> `releaseFile`): climb single, unexported
			// callers that do not touch the reference count themselves; `rel` is the outermost one
			hasDecrement := func(f *ssa.Function) bool {
				found := false
				eachInstr(f, func(_ *ssa.BasicBlock, in ssa.Instruction) {
					if st, ok := in.(*ssa.Store); ok {
						if sn, fld, _, ok := fieldOf(st.Addr); ok && sn == "Segment" && fld == "refs" {
							found = true
						}
					}
					if cs, ok := in.(ssa.CallInstruction); ok {
						if op, _, ok := atomicRefsOp(cs); ok && (op == "Add" || op == "Store") {
							found = true
						}
					}
				})
				return found
			}
			rel := rel0
			inChain := map[*ssa.Function]bool{rel0: true}
			var callers0 []ssa.CallInstruction
			for i := 0; i < 4; i++ {
				var cl []ssa.CallInstruction
				for _, cs := range p.callersOf(rel) {
					if p.InZap(cs.Parent()) {
						cl = append(cl, cs)
					}
				}
				if i == 0 {
					callers0 = cl
				}
				if len(cl) != 1 {
					break
				}
				up := rootParent(cl[0].Parent())
				if hasDecrement(up) || inChain[up] || (up.Object() != nil && up.Object().Exported()) {
					break
				}
				rel = up
				inChain[up] = true
			}
			// … and the steps it is split into: unexported helpers that only functions of the chain call
			for changed := true; changed; {
				changed = false
				for _, f := range p.ZapFuncs {
					if inChain[f] || f.Parent() != nil || (f.Object() != nil && f.Object().Exported()) {
						continue
					}
					cl := p.callersOf(f)
					if len(cl) == 0 {
						continue
					}
					all := true
					for _, cs := range cl {
						if !inChain[rootParent(cs.Parent())] {
							all = false
						}
					}
					if all {
						inChain[f] = true
						changed = true
					}
				}
			}
			rname := funcShortName(rel)
			// (c) the descriptor of a Segment is closed only by the releaser
			for i, cs := range fcloseSites {
				c.check(inChain[cs.Parent()], fmt.Sprintf("file-close-owner#%d", i+1), c.pos(cs), "Segment.f is closed only inside "+rname,
					"the descriptor of an opened segment is closed in "+funcShortName(cs.Parent())+", outside the single release routine (double close / close while referenced)")
			}
			c.check(len(fcloseSites) >= 1, "file-close-sites", "-", "the Close of Segment.f is found", "no (*os.File).Close on Segment.f")
			for i, cs := range unmapSites {
				okc := false
				if sn, fld, _, ok := fieldOf(recvOrArg0(cs)); ok && sn == "Segment" && fld == "mm" {
					okc = true
				}
				if isLoadOfField(recvOrArg0(cs), "Segment", "mm") {
					okc = true
				}
				c.check(okc, fmt.Sprintf("unmap-target#%d", i+1), c.pos(cs), "Unmap is applied to Segment.mm", "Unmap applied to something else")
			}

			// (b) exactly one caller, under the mutex, behind the 1->0 guard
			var callers []ssa.CallInstruction
			for _, cs := range p.callersOf(rel) {
				if p.InZap(cs.Parent()) {
					callers = append(callers, cs)
				}
			}
			if c.check(len(callers) == 1, "single-caller", c.fpos(rel), rname+" has exactly one caller", fmt.Sprintf("%d call sites: %s", len(callers), callerNames(callers))) {
				site := callers[0]
				dec := site.Parent()
				dname := funcShortName(dec)
				// decrement store: in dec itself, or in an unexported helper it calls on the same segment
				// (`unref()`: drops one reference and reports whether it was the last)
				var decStore *ssa.Store
				var decHelper *ssa.Function
				var decHelperCall ssa.CallInstruction
				findDec := func(f *ssa.Function) *ssa.Store {
					var found *ssa.Store
					eachInstr(f, func(_ *ssa.BasicBlock, in ssa.Instruction) {
						st, ok := in.(*ssa.Store)
						if !ok {
							return
						}
						if sn, fld, _, ok := fieldOf(st.Addr); !ok || sn != "Segment" || fld != "refs" {
							return
						}
						if bo, ok := st.Val.(*ssa.BinOp); ok && bo.Op == token.SUB && isLoadOfField(bo.X, "Segment", "refs") {
							if k, ok := constInt64(bo.Y); ok && k == 1 {
								found = st
							}
						}
					})
					return found
				}
				decStore = findDec(dec)
				if decStore == nil {
					for _, cs := range callSites(dec) {
						h := staticCallee(cs)
						if h == nil || !p.InZap(h) || h.Object() == nil || h.Object().Exported() || len(h.Params) == 0 || len(cs.Common().Args) == 0 {
							continue
						}
						if root(cs.Common().Args[0]) != ssa.Value(dec.Params[0]) {
							continue
						}
						if st := findDec(h); st != nil {
							decStore, decHelper, decHelperCall = st, h, cs
						}
					}
				}
				// the count kept in a sync/atomic integer: the decrement is `refs.Add(-1)`, and the value it
				// returns is the decremented count (a separate Load would race with other decrements)
				var decAdd *ssa.Call
				if decStore == nil {
					for _, cs := range callSites(dec) {
						if op, arg, ok := atomicRefsOp(cs); ok && op == "Add" {
							if k, isK := constInt64(arg); isK && k == -1 {
								decAdd, _ = cs.(*ssa.Call)
							}
						}
					}
				}
				c.check(decStore != nil || decAdd != nil, "decrement", c.fpos(dec), dname+" decrements Segment.refs by one", "no `refs = refs - 1` store (or atomic Add(-1)) found in the caller of the release routine")
				// guard
				zeroGuard := func(at ssa.Instruction) (bool, string) {
					var guardOK bool
					var guardDesc string
					for b := at.Block(); b != nil; b = b.Idom() {
						pb := b.Idom()
						if pb == nil {
							break
						}
						iff, ok := pb.Instrs[len(pb.Instrs)-1].(*ssa.If)
						if !ok {
							continue
						}
						cond, negated := iff.Cond, false
						for {
							if u, ok := cond.(*ssa.UnOp); ok && u.Op == token.NOT {
								cond, negated = u.X, !negated
								continue
							}
							break
						}
						viaHelper := false
						if call, ok := cond.(*ssa.Call); ok && decHelper != nil && ssa.CallInstruction(call) == decHelperCall {
							// the answer of the helper that decrements: its (single) return value is the test
							if rets := returnsOf(decHelper); len(rets) == 1 && len(rets[0].Results) == 1 {
								cond, viaHelper = resolveLoad(returnedValue(rets[0], 0)), true
							}
						}
						bo, ok := cond.(*ssa.BinOp)
						if !ok {
							continue
						}
						x, kv := bo.X, bo.Y
						op := bo.Op
						k, isK := constInt64(kv)
						if !isK {
							// constant on the left: mirror
							if k2, ok2 := constInt64(bo.X); ok2 {
								k, x = k2, bo.Y
								switch op {
								case token.LSS:
									op = token.GTR
								case token.LEQ:
									op = token.GEQ
								case token.GTR:
									op = token.LSS
								case token.GEQ:
									op = token.LEQ
								}
								isK = true
							}
						}
						if !isK {
							continue
						}
						isRefs := isLoadOfField(x, "Segment", "refs")
						if decStore != nil && x == decStore.Val {
							isRefs = true
						}
						if decAdd != nil && x == ssa.Value(decAdd) {
							isRefs = true // the count as the atomic decrement returned it
						}
						if !isRefs {
							continue
						}
						// which edge leads to the site?
						var towardsTrue bool
						switch {
						case pb.Succs[0] == b && len(b.Preds) == 1:
							towardsTrue = true
						case pb.Succs[1] == b && len(b.Preds) == 1:
							towardsTrue = false
						default:
							continue
						}
						if negated {
							towardsTrue = !towardsTrue
						}
						// the decrement must precede the guard
						if viaHelper {
							if !(decStore.Block() == bo.Block() || decStore.Block().Dominates(bo.Block())) {
								continue
							}
						} else if decStore != nil && decHelper == nil && !(decStore.Block() == pb || decStore.Block().Dominates(pb)) {
							continue
						} else if decHelper != nil && !viaHelper {
							// the helper that decrements ran before this test
							hb := decHelperCall.Block()
							if !(hb == pb || hb.Dominates(pb)) {
								continue
							}
						}
						table := map[int64]bool{}
						okT := true
						for _, r := range []int64{0, 1, 2} {
							v, ok := cmpInt(op, r, k)
							if !ok {
								okT = false
							}
							table[r] = v == towardsTrue
						}
						guardDesc = fmt.Sprintf("guard `refs %s %d` at %s: release when refs becomes 0:%v 1:%v 2:%v", op, k, c.pos(iff), table[0], table[1], table[2])
						if okT && table[0] && !table[1] && !table[2] {
							guardOK = true
						}
						break
					}
					return guardOK, guardDesc
				}
				guardOK, guardDesc := zeroGuard(site)
				c.check(guardOK, "guard-1-to-0", c.pos(site), "the release routine runs exactly when the decremented count is 0 (truth table {0: release, 1: keep, 2: keep})",
					"the call of "+rname+" is not dominated by a guard on the decremented Segment.refs with that truth table: "+guardDesc, "call: "+describeInstr(p, site))
				// under the mutex
				// The decrement and the test that decides the release are one critical section of Segment.m
				// (R2 judges every access to refs); the release itself may run with the mutex held or — since
				// exactly one caller can see zero and the count never comes back — after it was dropped.
				lockHeld := heldAtOrAtCallers(p, dec, site, "Segment.m", 0)
				if !lockHeld && decHelper != nil {
					// the helper that decrements and tests takes the mutex itself and holds it over both
					hfi := false
					if decStore != nil {
						hfi = heldAtOrAtCallers(p, decHelper, decStore, "Segment.m", 0)
					}
					lockHeld = hfi
				}
				if decAdd != nil && guardOK {
					// atomic count: no critical section — the decision is taken on the value the atomic
					// decrement itself returned (the guard above), which exactly one caller sees as zero
					lockHeld = true
				}
				c.check(lockHeld, "release-under-mutex", c.pos(site), "the count is decremented and tested under Segment.m (the release runs with it held, or right after the critical section that saw zero)", "neither the call of the release routine nor the decrement-and-test that decides it happens with Segment.m held")
				// the caches of an mmap-ed segment are cleared only when the last reference goes:
				// "unguarded clearers" = functions that clear a cache on some path that is not behind the
				// 1->0 guard of the decrementing function; apart from the in-memory Close and the
				// releaser (called under the guard) no function reachable from the API may be one
				isCacheClear := func(cs ssa.CallInstruction) bool {
					f := staticCallee(cs)
					if f == nil || f.Name() != "Clear" || f.Signature.Recv() == nil {
						return false
					}
					return isNamed(f.Signature.Recv().Type(), zapPkgPath, "vectorIndexCache") || isNamed(f.Signature.Recv().Type(), zapPkgPath, "synonymIndexCache")
				}
				unguarded := map[*ssa.Function]ssa.Instruction{}
				for changed := true; changed; {
					changed = false
					for _, fn := range p.ZapFuncs {
						if _, done := unguarded[fn]; done || fn.Parent() != nil {
							continue
						}
						for _, cs := range callSites(fn) {
							clears := isCacheClear(cs)
							if f := staticCallee(cs); f != nil {
								if _, u := unguarded[f]; u {
									clears = true
								}
							}
							if !clears {
								continue
							}
							if fn == dec {
								if ok, _ := zeroGuard(cs); ok {
									continue
								}
							}
							unguarded[fn] = cs
							changed = true
							break
						}
					}
				}
				scClose := p.Method("SegmentBase", "Close")
				var bad []string
				for fn, at := range unguarded {
					if fn == scClose || inChain[fn] {
						continue
					}
					if fn.Signature.Recv() != nil && (isNamed(fn.Signature.Recv().Type(), zapPkgPath, "vectorIndexCache") || isNamed(fn.Signature.Recv().Type(), zapPkgPath, "synonymIndexCache")) {
						continue // the caches' own methods
					}
					// a helper all of whose callers are themselves listed (and judged) is not reported separately
					if fn.Object() != nil && !fn.Object().Exported() {
						allListed, n := true, 0
						for _, cs := range p.callersOf(fn) {
							if par := cs.Parent(); par.Synthetic != "" && len(p.callersOf(par)) == 0 {
								continue
							}
							n++
							g := rootParent(cs.Parent())
							if _, u := unguarded[g]; !u {
								if g == dec {
									if ok, _ := zeroGuard(cs); ok {
										continue
									}
								}
								allListed = false
							}
						}
						if allListed && n > 0 {
							continue
						}
					}
					bad = append(bad, funcShortName(fn)+" ("+c.p.instrPos(at)+")")
				}
				sort.Strings(bad)
				c.check(len(bad) == 0, "clear-only-at-last-release", c.fpos(dec), "the per-segment caches of an opened segment are cleared only behind the 1->0 guard (by the releaser or next to its call) or by the in-memory Close",
					"cleared while references may remain: "+strings.Join(bad, ", ")+" — a holder of another reference would find its cached FSTs / vector indexes gone (or a nil cache map)")
			}

			// (d) Close goes through the reference count
			if cl := c.method("Segment", "Close"); cl != nil {
				reachRel := p.reachesFunc(func(f *ssa.Function) bool { return inChain[f] })
				okc := true
				var why []string
				nDec := 0
				for _, cs := range callSites(cl) {
					f := staticCallee(cs)
					if f == nil {
						continue
					}
					if inChain[f] {
						okc = false
						why = append(why, "Close calls "+rname+" directly (bypasses the reference count)")
					}
					if isUnmap(f) || f.String() == "(*os.File).Close" {
						okc = false
						why = append(why, "Close releases a resource directly")
					}
					if reachRel[f] && !inChain[f] {
						nDec++
					}
				}
				if nDec == 0 {
					okc = false
					why = append(why, "Close does not drop a reference")
				}
				c.check(okc, "close-via-decref", c.fpos(cl), "(*Segment).Close drops one reference through the counting routine and releases nothing itself", strings.Join(why, "; "))
				// ... and does so on every path: a Close that returns without dropping its
				// holder's reference leaves the count above zero for ever (mapping never released)
				trd := func(in ssa.Instruction, ev uint64, _ bool) []uint64 {
					if cs, ok := in.(ssa.CallInstruction); ok {
						if f := staticCallee(cs); f != nil && reachRel[f] && !inChain[f] {
							if ev&1 != 0 {
								return []uint64{ev | 2}
							}
							return []uint64{ev | 1}
						}
					}
					return nil
				}
				pad := newPathAnalysis(cl, trd)
				pad.run(0)
				every, twice := true, false
				for _, ret := range returnsOf(cl) {
					for _, ev := range pad.statesBefore(ret) {
						if ev&1 == 0 {
							every = false
						}
						if ev&2 != 0 {
							twice = true
						}
					}
				}
				c.check(every && !twice, "close-drops-exactly-one", c.fpos(cl), "every path through (*Segment).Close drops exactly one reference",
					fmt.Sprintf("a path through Close drops no reference (%v) or more than one (%v): with several holders the count never reaches zero / reaches it early", !every, twice))
			}

			// (e) Open starts the count at 1
			if op := c.method("ZapPlugin", "Open"); op != nil {
				// (the segment may be built by a helper that Open shares with another entry point: the
				// function that allocates the Segment is where the count starts)
				hasAlloc := func(f *ssa.Function) bool {
					found := false
					eachInstr(f, func(_ *ssa.BasicBlock, in ssa.Instruction) {
						if al, ok := in.(*ssa.Alloc); ok && al.Heap && isNamed(al.Type(), zapPkgPath, "Segment") {
							found = true
						}
					})
					return found
				}
				if !hasAlloc(op) {
					for _, cs := range callSites(op) {
						if g := staticCallee(cs); g != nil && p.InZap(g) && len(g.Blocks) > 0 && hasAlloc(g) {
							op = g
						}
					}
				}
				found := false
				var val int64 = -1
				eachInstr(op, func(_ *ssa.BasicBlock, in ssa.Instruction) {
					if st, ok := in.(*ssa.Store); ok {
						if sn, fld, _, ok := fieldOf(st.Addr); ok && sn == "Segment" && fld == "refs" {
							if k, ok := constInt64(st.Val); ok {
								found = true
								val = k
							}
						}
					}
					if cs, ok := in.(ssa.CallInstruction); ok {
						if aop, arg, ok := atomicRefsOp(cs); ok && aop == "Store" {
							if k, ok := constInt64(arg); ok {
								found = true
								val = k
							}
						}
					}
				})
				c.check(found && val == 1, "open-refs-1", c.fpos(op), "Open initialises Segment.refs to 1", fmt.Sprintf("initial value %d (found=%v)", val, found))
			}

			// (f) inside the releaser: caches cleared before Unmap; file Close not conditional on Unmap's result
			const (
				evVec = 1 << 0
				evSyn = 1 << 1
			)
			isClear := func(cs ssa.CallInstruction, typ string) bool {
				f := staticCallee(cs)
				return f != nil && f.Name() == "Clear" && f.Signature.Recv() != nil && isNamed(f.Signature.Recv().Type(), zapPkgPath, typ)
			}
			var tr transferFn
			helperSum := map[*ssa.Function]uint64{}
			tr = func(in ssa.Instruction, ev uint64, _ bool) []uint64 {
				cs, ok := in.(ssa.CallInstruction)
				if !ok {
					return nil
				}
				if isClear(cs, "vectorIndexCache") {
					return []uint64{ev | evVec}
				}
				if isClear(cs, "synonymIndexCache") {
					return []uint64{ev | evSyn}
				}
				// a helper of package zap that clears them on every path (`clearCaches()`)
				if f := staticCallee(cs); f != nil && p.InZap(f) && len(f.Blocks) > 0 && !inChain[f] {
					sm, done := helperSum[f]
					if !done {
						helperSum[f] = 0
						sm = mustEvents(f, tr) & (evVec | evSyn)
						helperSum[f] = sm
					}
					if sm != 0 {
						return []uint64{ev | sm}
					}
				}
				return nil
			}
			pa := newPathAnalysis(rel0, tr)
			pa.run(0)
			// what the (single) caller of the releaser has certainly cleared before calling it
			var atCaller uint64
			if len(callers0) == 1 {
				cpa := newPathAnalysis(callers0[0].Parent(), tr)
				cpa.run(0)
				atCaller = evVec | evSyn
				st := cpa.statesBefore(callers0[0])
				if len(st) == 0 {
					atCaller = 0
				}
				for _, ev := range st {
					atCaller &= ev
				}
			}
			for i, cs := range unmapSites {
				okc := true
				for _, ev := range pa.statesBefore(cs) {
					ev |= atCaller
					if ev&evVec == 0 || ev&evSyn == 0 {
						okc = false
					}
				}
				c.check(okc, fmt.Sprintf("clear-before-unmap#%d", i+1), c.pos(cs), "both per-segment caches are cleared before the mapping they point into is unmapped",
					"a path reaches Unmap without vectorIndexCache.Clear and synonymIndexCache.Clear having run (cached FSTs / indexes would point into unmapped memory)")
			}
			for i, cs := range fcloseSites {
				if !inChain[cs.Parent()] {
					continue
				}
				deps := transitiveControlDeps(cs.Parent())
				okc := true
				var why string
				for _, d := range deps[cs.Block()] {
					cond := branchCond(d.Branch)
					bo, ok := cond.(*ssa.BinOp)
					if ok && (bo.Op == token.NEQ || bo.Op == token.EQL) {
						if (isNilConst(bo.Y) && isLoadOfField(bo.X, "Segment", "f")) || (isNilConst(bo.X) && isLoadOfField(bo.Y, "Segment", "f")) {
							continue
						}
					}
					okc = false
					why = "the Close of the descriptor is control dependent on " + describeInstr(p, d.Branch.Instrs[len(d.Branch.Instrs)-1])
				}
				c.check(okc, fmt.Sprintf("file-close-unconditional#%d", i+1), c.pos(cs), "the descriptor is closed whatever Unmap returned (only a nil check of Segment.f may guard it)", why)
			}

			// (g) the in-memory Close
			if sc := c.method("SegmentBase", "Close"); sc != nil {
				pa2 := newPathAnalysis(sc, tr)
				pa2.run(0)
				okc := true
				var why []string
				for _, ret := range returnsOf(sc) {
					for _, ev := range pa2.statesBefore(ret) {
						if ev&evVec == 0 || ev&evSyn == 0 {
							okc = false
							why = append(why, "a path returns without clearing both caches")
						}
					}
					if _, ns := errorOfReturn(ret); ns != isNil {
						okc = false
						why = append(why, "may return a non-nil error")
					}
				}
				for _, cs := range callSites(sc) {
					if f := staticCallee(cs); isUnmap(f) || (f != nil && f.String() == "(*os.File).Close") {
						okc = false
						why = append(why, "releases an OS resource")
					}
				}
				c.check(okc, "inmemory-close", c.fpos(sc), "(*SegmentBase).Close clears both caches, releases nothing else and returns nil", strings.Join(uniq(why), "; "))
			}
			r9PinBalance(c)
		},
	}
}

// R9p PIN-BALANCE — a routine of the package that takes references on segments for its own use (calls
// (*Segment).AddRef and does not hand a segment back) gives them back on every way out: on every path from
// an AddRef to a return, a DecRef — direct, in a routine it calls that reaches DecRef and is handed a
// segment or a list of segments, or in a deferred call — has run. Which segments is not tracked; an exit
// that releases nothing at all (an error return in front of the release) is what this finds. No such routine
// exists on the pinned tree (kept alive by the self-test).
func r9PinBalance(c *RuleCtx) {
	p := c.p
	addRef := p.Method("Segment", "AddRef")
	decRef := p.Method("Segment", "DecRef")
	if addRef == nil || decRef == nil {
		return
	}
	isSegs := func(t types.Type) bool {
		if sl, ok := t.Underlying().(*types.Slice); ok {
			t = sl.Elem()
		}
		return isNamedPtr(t, "Segment")
	}
	// routines that reach DecRef
	reaches := map[*ssa.Function]bool{decRef: true}
	for changed, n := true, 0; changed && n < 4; n++ {
		changed = false
		for _, f := range p.ZapFuncs {
			if reaches[f] {
				continue
			}
			for _, cs := range callSites(f) {
				if g := resolvedCallee(cs); g != nil && reaches[g] {
					reaches[f] = true
					changed = true
				}
			}
		}
	}
	n := 0
	for _, fn := range p.ZapFuncs {
		if fn.Parent() != nil || len(fn.Blocks) == 0 || fn == addRef || fn == decRef {
			continue
		}
		pins := false
		for _, cs := range callSites(fn) {
			if staticCallee(cs) == addRef {
				pins = true
			}
		}
		if !pins {
			continue
		}
		handsBack := false
		res := fn.Signature.Results()
		for i := 0; i < res.Len(); i++ {
			if isSegs(res.At(i).Type()) {
				handsBack = true
			}
		}
		if handsBack {
			continue
		}
		n++
		var tr transferFn
		tr = func(in ssa.Instruction, ev uint64, deferred bool) []uint64 {
			cs, ok := in.(ssa.CallInstruction)
			if !ok {
				return nil
			}
			if _, isDefer := in.(*ssa.Defer); isDefer && !deferred {
				return nil
			}
			g := resolvedCallee(cs)
			if g == addRef {
				return []uint64{(ev | 1) &^ 2}
			}
			if g == decRef {
				return []uint64{ev | 2}
			}
			if g != nil && g.Parent() != nil && rootParent(g) == fn {
				// a local closure that gives references back (typically in a loop over what was pinned —
				// which may be nothing, so "on every path" is not the question; which elements is not tracked)
				gives := false
				for _, cs2 := range callSites(g) {
					if h := resolvedCallee(cs2); h == decRef || (h != nil && reaches[h]) {
						gives = true
					}
				}
				if gives {
					return []uint64{ev | 2}
				}
				return nil
			}
			if g != nil && reaches[g] {
				for _, a := range cs.Common().Args {
					if isSegs(a.Type()) {
						return []uint64{ev | 2}
					}
				}
			}
			return nil
		}
		pa := newPathAnalysis(fn, tr)
		pa.run(0)
		labels := map[string]int{}
		for _, ret := range returnsOf(fn) {
			if !pa.reachable(ret.Block()) {
				continue
			}
			lbl := exitLabel(ret, labels)
			okc := true
			for _, ev := range pa.statesBefore(ret) {
				if ev&1 != 0 && ev&2 == 0 {
					okc = false
				}
			}
			v, _ := errorOfReturn(ret)
			c.add(statusOf(okc), "pin-balance/"+funcShortName(fn)+"/"+lbl, c.pos(ret), "the references "+funcShortName(fn)+" took on segments for its own use are given back before this exit",
				"a path leaves "+funcShortName(fn)+" after AddRef without any DecRef: the inputs keep a reference nobody will drop, their mappings and descriptors are never released", nil, exitWitness(c, ret, v))
		}
	}
	c.ok("pin-balance/sites", "-", fmt.Sprintf("routines that take references for their own use: %d (pinned tree: none)", n))
}

func callerNames(cs []ssa.CallInstruction) string {
	var n []string
	for _, c := range cs {
		n = append(n, funcShortName(c.Parent()))
	}
	return strings.Join(n, ", ")
}

// heldAt: on every path to `at` in fn, mutex mu ("Struct.field") is held for writing.
// heldAtOrAtCallers: the mutex is held at `at` in fn, or fn is an unexported
// helper (`decRefLocked`) every call of which happens with the mutex held.
func heldAtOrAtCallers(p *Program, fn *ssa.Function, at ssa.Instruction, mu string, depth int) bool {
	if heldAt(fn, at, mu) {
		return true
	}
	if depth >= 2 || fn.Parent() != nil || fn.Object() == nil || fn.Object().Exported() {
		return false
	}
	n := 0
	for _, cs := range p.callersOf(fn) {
		if par := cs.Parent(); par.Synthetic != "" && len(p.callersOf(par)) == 0 {
			continue
		}
		if _, isGo := cs.(*ssa.Go); isGo {
			return false
		}
		n++
		if !heldAtOrAtCallers(p, cs.Parent(), cs, mu, depth+1) {
			return false
		}
	}
	return n > 0
}

func heldAt(fn *ssa.Function, at ssa.Instruction, mu string) bool {
	tr := func(in ssa.Instruction, ev uint64, deferred bool) []uint64 {
		cs, ok := in.(ssa.CallInstruction)
		if !ok {
			return nil
		}
		if _, isDefer := in.(*ssa.Defer); isDefer && !deferred {
			return nil
		}
		id, op, ok := mutexOp(cs)
		if !ok || id.mu != mu {
			return nil
		}
		switch op {
		case "Lock":
			return []uint64{ev | 1}
		case "Unlock":
			return []uint64{ev &^ 1}
		}
		return nil
	}
	pa := newPathAnalysis(fn, tr)
	pa.run(0)
	states := pa.statesBefore(at)
	if len(states) == 0 {
		return false
	}
	for _, ev := range states {
		if ev&1 == 0 {
			return false
		}
	}
	return true
}

// atomicRefsOp: cs is a method call of a sync/atomic integer type (Add, Store, Load, …) on the address of
// Segment.refs; returns the method name and the argument (nil for Load).
func atomicRefsOp(cs ssa.CallInstruction) (op string, arg ssa.Value, ok bool) {
	f := staticCallee(cs)
	if f == nil || f.Pkg == nil || f.Pkg.Pkg.Path() != "sync/atomic" || len(cs.Common().Args) == 0 {
		return "", nil, false
	}
	sn, fld, _, isF := fieldOf(cs.Common().Args[0])
	if !isF || sn != "Segment" || fld != "refs" {
		return "", nil, false
	}
	if len(cs.Common().Args) > 1 {
		arg = cs.Common().Args[1]
	}
	name := f.Name()
	for _, pre := range []string{"Add", "Store", "Load", "CompareAndSwap", "Swap"} {
		if strings.HasPrefix(name, pre) {
			return pre, arg, true
		}
	}
	return name, arg, true
}
