package main

// R35 SYNONYM-CODES — the structural clauses of C12 (thesaurus look-ups).
//
//   (a) encodeSynonym and decodeSynonym are inverse: id in the high half, the
//       document number in the low half, the same shift on both sides;
//   (b) SynonymsIterator hands out a (synonym, document) pair only after the
//       document of that very pair passed the exclusion test;
//   (c) synonym fields are kept out of the ordinary term dictionaries: the
//       synonym section registers an exclusion predicate for index.SynonymField,
//       the predicate list is only ever appended to at package initialisation,
//       and invertedIndexOpaque.process is called only where the predicate
//       said "not excluded".
//
// Not decided: which pairs a batch defines, id assignment, ordering of terms
// (vellum refuses unsorted insertion, which the pinned tests exercise).

import (
	"fmt"
	"go/token"
	"go/types"
	"sort"
	"strings"

	"golang.org/x/tools/go/ssa"
)

func stripConv(v ssa.Value) ssa.Value {
	for i := 0; i < 4; i++ {
		switch x := v.(type) {
		case *ssa.Convert:
			v = x.X
		case *ssa.ChangeType:
			v = x.X
		default:
			return v
		}
	}
	return v
}

// stripLow32 additionally strips a mask that keeps the low 32 bits (x & 0xffffffff): on a value that is
// then converted to 32 bits, or that was shifted right by 32, it changes nothing.
func stripLow32(v ssa.Value) ssa.Value {
	for i := 0; i < 4; i++ {
		v = stripConv(v)
		and, ok := v.(*ssa.BinOp)
		if !ok || and.Op != token.AND {
			return v
		}
		if k, ok := constUint64(and.Y); ok && k == 0xffffffff {
			v = and.X
		} else if k, ok := constInt64(and.Y); ok && k == 0xffffffff {
			v = and.X
		} else if k, ok := constUint64(and.X); ok && k == 0xffffffff {
			v = and.Y
		} else {
			return v
		}
	}
	return stripConv(v)
}

func ruleR35() *Rule {
	return &Rule{
		ID:    "R35",
		Title: "SYNONYM-CODES: (synonym id, document) codes are encoded and decoded consistently, excluded documents are skipped, synonym fields stay out of the term dictionaries",
		Props: []string{"C12", "C13"},
		Floor: floorFor("R35"),
		Run: func(c *RuleCtx) {
			r35Codes(c)
			r35Exclusion(c)
			r35DictionaryExclusion(c)
		},
	}
}

// (a)
func r35Codes(c *RuleCtx) {
	props := []string{"C12", "C13"}
	enc, dec := c.fn("encodeSynonym"), c.fn("decodeSynonym")
	if enc == nil || dec == nil {
		return
	}
	// encode: (conv(p_hi) << K) | conv(p_lo)
	encShift, hiParam, loParam := int64(-1), -1, -1
	if rets := returnsOf(enc); len(rets) == 1 && len(rets[0].Results) == 1 && len(enc.Params) == 2 {
		if or, ok := rets[0].Results[0].(*ssa.BinOp); ok && (or.Op == token.OR || or.Op == token.ADD) {
			for _, pair := range [][2]ssa.Value{{or.X, or.Y}, {or.Y, or.X}} {
				shl, ok := pair[0].(*ssa.BinOp)
				if !ok || shl.Op != token.SHL {
					continue
				}
				k, okk := constInt64(shl.Y)
				if !okk {
					if ku, ok2 := constUint64(shl.Y); ok2 {
						k, okk = int64(ku), true
					}
				}
				hp, ok1 := stripConv(shl.X).(*ssa.Parameter)
				lp, ok2 := stripConv(pair[1]).(*ssa.Parameter)
				if okk && ok1 && ok2 {
					encShift = k
					for i, p := range enc.Params {
						if p == hp {
							hiParam = i
						}
						if p == lp {
							loParam = i
						}
					}
				}
			}
		}
	}
	// decode: results (conv(code >> K'), conv(code)) in some order
	decShift, hiRes, loRes := int64(-1), -1, -1
	if rets := returnsOf(dec); len(rets) == 1 && len(rets[0].Results) == 2 && len(dec.Params) == 1 {
		for i, r := range rets[0].Results {
			v := stripLow32(r)
			if shr, ok := v.(*ssa.BinOp); ok && shr.Op == token.SHR && stripConv(shr.X) == ssa.Value(dec.Params[0]) {
				k, okk := constInt64(shr.Y)
				if !okk {
					if ku, ok2 := constUint64(shr.Y); ok2 {
						k, okk = int64(ku), true
					}
				}
				if okk {
					decShift, hiRes = k, i
				}
			} else if v == ssa.Value(dec.Params[0]) {
				// truncating conversion to 32 bits keeps the low half
				if bt, ok := r.Type().Underlying().(*types.Basic); ok && bt.Kind() == types.Uint32 {
					loRes = i
				}
			}
		}
	}
	shape := encShift >= 0 && decShift >= 0 && hiParam >= 0 && loParam >= 0 && hiRes >= 0 && loRes >= 0
	if !shape {
		c.undecidedP(props, "codes/shape", c.fpos(enc), "encodeSynonym is (a << K) | b and decodeSynonym is (code >> K, low 32 bits of code)", "the functions use an idiom this rule does not read")
		return
	}
	c.add(statusOf(encShift == 32 && decShift == 32), "codes/shift", c.fpos(dec), "both sides split the 64-bit code at bit 32 (the low half is a uint32 document number)",
		fmt.Sprintf("encode shifts by %d, decode by %d", encShift, decShift), props, nil)
	c.add(statusOf(hiParam == hiRes && loParam == loRes), "codes/order", c.fpos(dec), "decodeSynonym returns (id, document) in the order in which encodeSynonym takes them",
		fmt.Sprintf("encode takes the high half as parameter %d and the low half as parameter %d; decode returns the high half as result %d and the low half as result %d", hiParam, loParam, hiRes, loRes), props, nil)
	// call sites of the decoder use result 0 as the id and result 1 as the document: the iterator below
	// call sites of the encoder: the document argument is a 32-bit document number (a conversion of a
	// renumbering-table element or of a loop counter), never the id
	n := 0
	for _, cs := range c.p.callersOf(enc) {
		if c.p.InZap(cs.Parent()) {
			n++
		}
	}
	c.add(statusOf(n >= 2), "codes/encoder-sites", "-", "encodeSynonym is used by the build path and by the merge (pinned tree: 2 call sites)", fmt.Sprintf("found %d", n), props, nil)
}

// (b)
func r35Exclusion(c *RuleCtx) {
	props := []string{"C12"}
	dec := c.fn("decodeSynonym")
	if dec == nil {
		return
	}
	n := 0
	for _, fn := range c.p.ZapFuncs {
		if fn.Signature.Recv() == nil || !isNamed(fn.Signature.Recv().Type(), zapPkgPath, "SynonymsIterator") {
			continue
		}
		var decodes []*ssa.Call
		for _, cs := range callSites(fn) {
			if call, ok := cs.(*ssa.Call); ok && staticCallee(cs) == dec {
				decodes = append(decodes, call)
			}
		}
		if len(decodes) == 0 {
			continue
		}
		recv := fn.Params[0]
		isExcept := func(v ssa.Value) bool {
			sn, fld, base, ok := loadedField(v)
			return ok && sn == "SynonymsIterator" && fld == "except" && root(base) == ssa.Value(recv)
		}
		// the document of the pair decoded last
		docOf := func(v ssa.Value) *ssa.Call {
			if ex, ok := stripConv(v).(*ssa.Extract); ok && ex.Index == 1 {
				if call, ok := ex.Tuple.(*ssa.Call); ok && call.Call.StaticCallee() == dec {
					return call
				}
			}
			return nil
		}
		const evOK = 1
		// a field of the iterator that only ever holds the Maximum() of the bitmap stored in `except`
		isExceptMax := func(v ssa.Value) bool {
			sn, fld, base, ok := loadedField(v)
			if !ok || sn != "SynonymsIterator" || root(base) != ssa.Value(recv) {
				return false
			}
			return r35HoldsMaximumOfExcept(c.p, fld)
		}
		condTr := func(cond ssa.Value, outcome bool, ev uint64, _ func(ssa.Value) ssa.Value) uint64 {
			switch x := cond.(type) {
			case *ssa.BinOp:
				// a document beyond the largest excluded one is not excluded
				for _, pr := range []struct {
					doc, max ssa.Value
					op       token.Token
				}{{x.X, x.Y, x.Op}, {x.Y, x.X, flipCmp(x.Op)}} {
					if docOf(pr.doc) != nil && isExceptMax(pr.max) {
						if (pr.op == token.GTR && outcome) || (pr.op == token.LEQ && !outcome) {
							return ev | evOK
						}
					}
				}
				if (x.Op == token.EQL || x.Op == token.NEQ) && ((isNilConst(x.Y) && isExcept(x.X)) || (isNilConst(x.X) && isExcept(x.Y))) {
					if (x.Op == token.EQL) == outcome {
						return ev | evOK // no exclusion bitmap
					}
				}
			case *ssa.Call:
				if f := x.Call.StaticCallee(); f != nil && f.Name() == "Contains" && len(x.Call.Args) == 2 && isExcept(x.Call.Args[0]) && docOf(x.Call.Args[1]) != nil {
					if !outcome {
						return ev | evOK // this document is not excluded
					}
					return ev &^ evOK
				}
			}
			return ev
		}
		pa := newPathAnalysis(fn, func(in ssa.Instruction, ev uint64, _ bool) []uint64 {
			for _, d := range decodes {
				if ssa.Instruction(d) == in {
					return []uint64{ev &^ evOK} // a new pair: nothing is known about its document yet
				}
			}
			return nil
		})
		pa.condTr = condTr
		pa.edgeTr = func(pred *ssa.BasicBlock, succIdx int, ev uint64) uint64 {
			if iff, ok := pred.Instrs[len(pred.Instrs)-1].(*ssa.If); ok && len(pred.Succs) == 2 {
				return condTr(iff.Cond, succIdx == 0, ev, nil)
			}
			return ev
		}
		pa.run(0)
		k := 0
		for _, ret := range returnsOf(fn) {
			// a return that hands a decoded pair out
			hands := false
			for _, r := range ret.Results {
				if ex, ok := stripConv(r).(*ssa.Extract); ok {
					if call, ok := ex.Tuple.(*ssa.Call); ok && call.Call.StaticCallee() == dec {
						hands = true
					}
				}
			}
			if !hands {
				continue
			}
			n++
			k++
			okc := len(pa.statesBefore(ret)) > 0
			for _, ev := range pa.statesBefore(ret) {
				if ev&evOK == 0 {
					okc = false
				}
			}
			c.add(statusOf(okc), fmt.Sprintf("exclusion/%s#%d", funcShortName(fn), k), c.pos(ret),
				"a decoded (synonym, document) pair is handed out only if there is no exclusion bitmap or the bitmap does not contain that pair's document",
				"a pair can be returned without its document having passed the exclusion test: synonyms defined by excluded (deleted) documents would be reported", props, []string{"exit: " + describeInstr(c.p, ret)})
		}
	}
	c.add(statusOf(n >= 1), "exclusion/sites", "-", "the return that hands out a decoded pair is found (pinned tree: SynonymsIterator.nextSynonym)", fmt.Sprintf("found %d", n), props, nil)
	// the exclusion bitmap an iterator was created with stays in force for the whole iteration: only
	// the function that creates / re-initialises iterators assigns the field
	var writers []string
	for _, fn := range c.p.ZapFuncs {
		isIterMethod := fn.Signature.Recv() != nil && isNamed(fn.Signature.Recv().Type(), zapPkgPath, "SynonymsIterator")
		eachInstr(fn, func(_ *ssa.BasicBlock, in ssa.Instruction) {
			st, ok := in.(*ssa.Store)
			if !ok {
				return
			}
			if sn, fld, base, ok := fieldOf(st.Addr); ok && sn == "SynonymsIterator" && fld == "except" && isIterMethod && root(base) == ssa.Value(fn.Params[0]) {
				writers = append(writers, c.pos(st)+" in "+funcShortName(fn))
			}
		})
	}
	sort.Strings(writers)
	c.add(statusOf(len(writers) == 0), "exclusion/bitmap-stays", "-", "no method of SynonymsIterator assigns its own exclusion bitmap (what the iterator was created with holds for every pair)",
		"the exclusion bitmap is replaced during the iteration: "+strings.Join(writers, "; "), props, nil)
}

func flipCmp(op token.Token) token.Token {
	switch op {
	case token.GTR:
		return token.LSS
	case token.LSS:
		return token.GTR
	case token.GEQ:
		return token.LEQ
	case token.LEQ:
		return token.GEQ
	}
	return op
}

// r35HoldsMaximumOfExcept: every store to SynonymsIterator.<fld> in the package stores the Maximum() of
// the very bitmap that the same function stores into `except` of the same iterator (a whole-struct clear
// zeroes both).
func r35HoldsMaximumOfExcept(p *Program, fld string) bool {
	n := 0
	okAll := true
	for _, fn := range p.ZapFuncs {
		eachInstr(fn, func(_ *ssa.BasicBlock, in ssa.Instruction) {
			st, ok := in.(*ssa.Store)
			if !ok {
				return
			}
			sn, f, base, ok := fieldOf(st.Addr)
			if !ok || sn != "SynonymsIterator" || f != fld {
				return
			}
			n++
			call, ok := st.Val.(*ssa.Call)
			if !ok {
				okAll = false
				return
			}
			callee := call.Call.StaticCallee()
			if callee == nil || callee.Name() != "Maximum" || len(call.Call.Args) != 1 {
				okAll = false
				return
			}
			bm := call.Call.Args[0]
			// the same bitmap goes into except of the same iterator, in the same block
			same := false
			for _, in2 := range st.Block().Instrs {
				if st2, ok := in2.(*ssa.Store); ok {
					if sn2, f2, base2, ok := fieldOf(st2.Addr); ok && sn2 == "SynonymsIterator" && f2 == "except" && root(base2) == root(base) && (sameValue(st2.Val, bm) || sameFieldLoadInBlock(st2.Val, bm)) {
						same = true
					}
				}
			}
			if !same {
				okAll = false
			}
		})
	}
	return n > 0 && okAll
}

// (c)
func r35DictionaryExclusion(c *RuleCtx) {
	props := []string{"C12"}
	p := c.p
	var list, pred *ssa.Global
	for _, m := range p.Zap.Members {
		if g, ok := m.(*ssa.Global); ok {
			switch g.Name() {
			case "invertedTextIndexSectionExclusionChecks":
				list = g
			case "isFieldExcludedFromInvertedTextIndexSection":
				pred = g
			}
		}
	}
	if list == nil || pred == nil {
		c.undecidedP(props, "dict-exclusion/anchors", "-", "the exclusion predicate and its list of checks exist", "package variables not found")
		return
	}
	// the predicate is assigned once (its initialiser) and returns true as soon as one check does
	nStores, body := 0, (*ssa.Function)(nil)
	for _, fn := range p.ZapFuncs {
		eachInstr(fn, func(_ *ssa.BasicBlock, in ssa.Instruction) {
			if st, ok := in.(*ssa.Store); ok && st.Addr == ssa.Value(pred) {
				nStores++
				if f, ok := st.Val.(*ssa.Function); ok {
					body = f
				} else if mc, ok := st.Val.(*ssa.MakeClosure); ok {
					body, _ = mc.Fn.(*ssa.Function)
				}
			}
		})
	}
	okPred := nStores == 1 && body != nil
	why := fmt.Sprintf("%d assignments", nStores)
	if okPred {
		// every return of true is dominated by the true edge of a call of a list element; the fall-through returns false
		ranges := false
		eachInstr(body, func(_ *ssa.BasicBlock, in ssa.Instruction) {
			if u, ok := in.(*ssa.UnOp); ok && u.Op == token.MUL && u.X == ssa.Value(list) {
				ranges = true
			}
		})
		trueOK, nTrue := true, 0
		for _, ret := range returnsOf(body) {
			b, isConst := constBool(ret.Results[0])
			if !isConst {
				trueOK = false
				continue
			}
			if !b {
				continue
			}
			nTrue++
			dom := false
			for blk := ret.Block(); blk != nil; blk = blk.Idom() {
				pb := blk.Idom()
				if pb == nil {
					break
				}
				if iff, ok := pb.Instrs[len(pb.Instrs)-1].(*ssa.If); ok && len(blk.Preds) == 1 && pb.Succs[0] == blk {
					if call, ok := iff.Cond.(*ssa.Call); ok && !call.Call.IsInvoke() && call.Call.StaticCallee() == nil {
						dom = true // a dynamic call of a func value (a check of the list) answered true
					}
				}
			}
			if !dom {
				trueOK = false
			}
		}
		okPred = ranges && trueOK && nTrue >= 1
		why = fmt.Sprintf("ranges over the checks: %v; returns true exactly when a check does: %v", ranges, trueOK && nTrue >= 1)
	}
	c.add(statusOf(okPred), "dict-exclusion/predicate", c.p.Pos(pred.Pos()), "the exclusion predicate is assigned once and answers true as soon as one registered check does", why, props, nil)
	// the synonym section registers a check for index.SynonymField at initialisation; the list is only appended to in init functions
	registered, badWriters := false, []string{}
	for _, fn := range p.ZapFuncs {
		eachInstr(fn, func(_ *ssa.BasicBlock, in ssa.Instruction) {
			st, ok := in.(*ssa.Store)
			if !ok || st.Addr != ssa.Value(list) {
				return
			}
			rp := rootParent(fn)
			if !(rp.Name() == "init" || strings.HasPrefix(rp.Name(), "init#")) {
				badWriters = append(badWriters, funcShortName(fn)+" ("+c.pos(st)+")")
				return
			}
			// append(list, closure): the closure type-asserts its argument to index.SynonymField
			call, ok := st.Val.(*ssa.Call)
			if !ok {
				return
			}
			if b, ok := call.Call.Value.(*ssa.Builtin); !ok || b.Name() != "append" {
				return
			}
			for _, cl := range closuresIn(call.Call.Args[1]) {
				eachInstr(cl, func(_ *ssa.BasicBlock, in2 ssa.Instruction) {
					if ta, ok := in2.(*ssa.TypeAssert); ok && isNamed(ta.AssertedType, "github.com/blevesearch/bleve_index_api", "SynonymField") && ta.CommaOk {
						// and its ok is what is returned
						for _, ret := range returnsOf(cl) {
							if ex, ok := ret.Results[0].(*ssa.Extract); ok && ex.Tuple == ssa.Value(ta) && ex.Index == 1 {
								registered = true
							}
						}
					}
				})
			}
		})
	}
	c.add(statusOf(registered), "dict-exclusion/registered", c.p.Pos(list.Pos()), "at package initialisation the synonym section registers a check that is true exactly for index.SynonymField values",
		"no init function appends a check of the form `_, ok := field.(index.SynonymField); return ok`", props, nil)
	c.add(statusOf(len(badWriters) == 0), "dict-exclusion/list-frozen", c.p.Pos(list.Pos()), "the list of exclusion checks is written only by package initialisation", "written in "+strings.Join(badWriters, ", "), props, nil)
	// the inverted section processes a field only where the predicate said "not excluded"
	proc := c.method("invertedIndexOpaque", "process")
	if proc == nil {
		return
	}
	n := 0
	for _, cs := range p.callersOf(proc) {
		fn := cs.Parent()
		if !p.InZap(fn) {
			continue
		}
		n++
		field := cs.Common().Args[1]
		const evNotExcl = 1
		condTr := func(cond ssa.Value, outcome bool, ev uint64, actual func(ssa.Value) ssa.Value) uint64 {
			call, ok := cond.(*ssa.Call)
			if !ok || call.Call.IsInvoke() {
				return ev
			}
			u, ok := call.Call.Value.(*ssa.UnOp)
			if !ok || u.X != ssa.Value(pred) || len(call.Call.Args) != 1 {
				return ev
			}
			a := call.Call.Args[0]
			if actual != nil {
				a = actual(a)
			}
			if !sameValue(a, field) {
				return ev
			}
			if !outcome {
				return ev | evNotExcl
			}
			return ev &^ evNotExcl
		}
		pa := newPathAnalysis(fn, func(ssa.Instruction, uint64, bool) []uint64 { return nil })
		pa.condTr = condTr
		pa.edgeTr = func(pred *ssa.BasicBlock, succIdx int, ev uint64) uint64 {
			if iff, ok := pred.Instrs[len(pred.Instrs)-1].(*ssa.If); ok && len(pred.Succs) == 2 {
				return condTr(iff.Cond, succIdx == 0, ev, pa.actual)
			}
			return ev
		}
		pa.run(0)
		okc := len(pa.statesBefore(cs)) > 0
		for _, ev := range pa.statesBefore(cs) {
			if ev&evNotExcl == 0 {
				okc = false
			}
		}
		c.add(statusOf(okc), fmt.Sprintf("dict-exclusion/guard/%s#%d", funcShortName(fn), n), c.pos(cs),
			"the inverted section indexes a field's terms only where the exclusion predicate answered false for that field",
			"invertedIndexOpaque.process is reachable for a field without the exclusion predicate having answered false: synonym (and vector) fields would show up in the ordinary term dictionaries", props, []string{"call: " + describeInstr(p, cs)})
	}
	c.add(statusOf(n >= 1), "dict-exclusion/guard/sites", "-", "the call of invertedIndexOpaque.process is found (pinned tree: invertedTextIndexSection.Process)", fmt.Sprintf("found %d", n), props, nil)
}

// closuresIn: the closures stored into the variadic slice v (`append(xs, f)`).
func closuresIn(v ssa.Value) []*ssa.Function {
	var out []*ssa.Function
	sl, ok := v.(*ssa.Slice)
	if !ok {
		return nil
	}
	al, ok := sl.X.(*ssa.Alloc)
	if !ok {
		return nil
	}
	for _, r := range *al.Referrers() {
		ia, ok := r.(*ssa.IndexAddr)
		if !ok {
			continue
		}
		for _, r2 := range *ia.Referrers() {
			if st, ok := r2.(*ssa.Store); ok && st.Addr == ssa.Value(ia) {
				switch f := st.Val.(type) {
				case *ssa.Function:
					out = append(out, f)
				case *ssa.MakeClosure:
					if fn, ok := f.Fn.(*ssa.Function); ok {
						out = append(out, fn)
					}
				}
			}
		}
	}
	return out
}

// sameFieldLoadInBlock: a and b are loads of the same field of the same object in one block, and the
// block stores nothing into that field.
func sameFieldLoadInBlock(a, b ssa.Value) bool {
	sa, fa, ba, ok1 := loadedField(a)
	sb, fb, bb, ok2 := loadedField(b)
	if !ok1 || !ok2 || sa != sb || fa != fb || root(ba) != root(bb) {
		return false
	}
	ia, ok3 := a.(ssa.Instruction)
	ib, ok4 := b.(ssa.Instruction)
	if !ok3 || !ok4 || ia.Block() != ib.Block() {
		return false
	}
	for _, in := range ia.Block().Instrs {
		if st, ok := in.(*ssa.Store); ok {
			if sn, f, _, ok := fieldOf(st.Addr); ok && sn == sa && f == fa {
				return false
			}
		}
	}
	return true
}
