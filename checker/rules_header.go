package main

// R27 clause "section-header": the record a section keeps for one of its fields — what AddrForField() points
// at — is three uvarints in the v16 order [doc values start, doc values end, dictionary / thesaurus offset];
// a section without doc values writes the "not uninverted" marker twice in their place. Decided on the writer
// side only, for the inverted and the synonym section (build and merge): an edit that permutes or extends the
// record on one side is killed by the suite, one that does so consistently on all writers and readers passes
// the suite and breaks C09 — and has to change the writers.
//
// The values are followed, not the spelling: a write may sit in a helper that is handed the writer (its
// parameters stand for the caller's arguments) and may loop over an array literal of the values.

import (
	"fmt"
	"go/token"
	"go/types"
	"math"
	"sort"
	"strings"

	"golang.org/x/tools/go/ssa"
)

type hdrMemoKey struct {
	fn    *ssa.Function
	depth int
}

type hdrItem struct {
	at   ssa.Instruction
	vals []ssa.Value // the uvarints written here, in order; nil: writes something else (a separator)
}

func isCountWriterPtr(t types.Type) bool { return isNamedPtr(t, "CountHashWriter") }

// hdrIsUvarintFlush: w.Write(buf[:n]) with n the result of a PutUvarint.
func hdrIsUvarintFlush(cs ssa.CallInstruction) bool {
	args := cs.Common().Args
	if len(args) < 2 {
		return false
	}
	sl, ok := args[1].(*ssa.Slice)
	if !ok || sl.High == nil {
		return false
	}
	call, ok := sl.High.(*ssa.Call)
	if !ok {
		return false
	}
	f := call.Call.StaticCallee()
	return f != nil && f.String() == "encoding/binary.PutUvarint"
}

// hdrArrayElems: v is an element, at a running index, of an array literal local to the function: the values
// stored at its constant indexes, in index order.
func hdrArrayElems(v ssa.Value) []ssa.Value {
	var arr *ssa.Alloc
	switch x := v.(type) {
	case *ssa.Index:
		if _, isC := x.Index.(*ssa.Const); isC {
			return nil
		}
		if u, ok := x.X.(*ssa.UnOp); ok && u.Op == token.MUL {
			arr, _ = u.X.(*ssa.Alloc)
		}
	case *ssa.UnOp:
		if x.Op == token.MUL {
			if ia, ok := x.X.(*ssa.IndexAddr); ok {
				if _, isC := ia.Index.(*ssa.Const); !isC {
					arr, _ = ia.X.(*ssa.Alloc)
				}
			}
		}
	}
	return hdrAllocElems(arr)
}

// hdrAllocElems: the values stored at the constant indexes of a local array, in index order.
func hdrAllocElems(arr *ssa.Alloc) []ssa.Value {
	if arr == nil || arr.Referrers() == nil {
		return nil
	}
	at, ok := derefType(arr.Type()).Underlying().(*types.Array)
	if !ok {
		return nil
	}
	out := make([]ssa.Value, at.Len())
	for _, r := range *arr.Referrers() {
		ia, ok := r.(*ssa.IndexAddr)
		if !ok || ia.Referrers() == nil {
			continue
		}
		k, isC := ia.Index.(*ssa.Const)
		if !isC {
			continue
		}
		i := int(k.Int64())
		for _, r2 := range *ia.Referrers() {
			if st, ok := r2.(*ssa.Store); ok && st.Addr == ssa.Value(ia) && i >= 0 && i < len(out) {
				if out[i] != nil {
					return nil
				}
				out[i] = st.Val
			}
		}
	}
	for _, o := range out {
		if o == nil {
			return nil
		}
	}
	return out
}

// hdrSliceParamElem: v is an element, at a running index, of a slice parameter (`for _, val := range vals`
// in a variadic helper): that parameter.
func hdrSliceParamElem(v ssa.Value) *ssa.Parameter {
	u, ok := v.(*ssa.UnOp)
	if !ok || u.Op != token.MUL {
		return nil
	}
	ia, ok := u.X.(*ssa.IndexAddr)
	if !ok {
		return nil
	}
	if _, isC := ia.Index.(*ssa.Const); isC {
		return nil
	}
	prm, ok := ia.X.(*ssa.Parameter)
	if !ok {
		return nil
	}
	if _, isSl := prm.Type().Underlying().(*types.Slice); !isSl {
		return nil
	}
	return prm
}

func hdrBefore(a, b ssa.Instruction) bool {
	if a.Block() == b.Block() {
		for _, in := range a.Block().Instrs {
			if in == a {
				return a != b
			}
			if in == b {
				return false
			}
		}
		return false
	}
	return a.Block().Dominates(b.Block())
}

// hdrItems: what fn writes through the counting writer, call by call.
func hdrItems(p *Program, fn *ssa.Function, depth int) (out []hdrItem) {
	if p.hdrMemo == nil {
		p.hdrMemo = map[hdrMemoKey][]hdrItem{}
	}
	if m, ok := p.hdrMemo[hdrMemoKey{fn, depth}]; ok {
		return m
	}
	p.hdrMemo[hdrMemoKey{fn, depth}] = nil // (recursion)
	defer func() { p.hdrMemo[hdrMemoKey{fn, depth}] = out }()
	for _, cs := range callSites(fn) {
		if _, isDefer := cs.(*ssa.Defer); isDefer {
			continue
		}
		callee := staticCallee(cs)
		if callee == nil {
			continue
		}
		switch callee.String() {
		case "encoding/binary.PutUvarint":
			v := cs.Common().Args[1]
			if el := hdrArrayElems(v); el != nil {
				out = append(out, hdrItem{cs, el})
			} else if prm := hdrSliceParamElem(v); prm != nil {
				out = append(out, hdrItem{cs, []ssa.Value{prm}}) // every element of the list handed in
			} else {
				out = append(out, hdrItem{cs, []ssa.Value{v}})
			}
			continue
		}
		if callee.Pkg == p.Zap && callee.Signature.Recv() != nil && isCountWriterPtr(callee.Signature.Recv().Type()) {
			switch callee.Name() {
			case "Write":
				if !hdrIsUvarintFlush(cs) {
					out = append(out, hdrItem{cs, nil})
				}
			}
			continue // Count, Sum32, …: no bytes
		}
		hasW := false
		for _, a := range cs.Common().Args {
			if isCountWriterPtr(a.Type()) {
				hasW = true
			}
		}
		if !p.InZap(callee) || len(callee.Blocks) == 0 || depth >= 2 {
			if hasW {
				out = append(out, hdrItem{cs, nil})
			}
			continue
		}
		// (a routine that is handed the writer, or keeps it in its receiver: read through its body)
		sub := append([]hdrItem(nil), hdrItems(p, callee, depth+1)...)
		if len(sub) == 0 {
			continue
		}
		flat := true
		for _, s := range sub {
			if s.vals == nil {
				flat = false
			}
		}
		sort.SliceStable(sub, func(i, j int) bool { return hdrBefore(sub[i].at, sub[j].at) })
		for i := 0; flat && i+1 < len(sub); i++ {
			if !hdrBefore(sub[i].at, sub[i+1].at) {
				flat = false
			}
		}
		if !flat {
			out = append(out, hdrItem{cs, nil})
			continue
		}
		var vals []ssa.Value
		for _, s := range sub {
			for _, v := range s.vals {
				w := v
				for {
					if cv, ok := w.(*ssa.Convert); ok {
						w = cv.X
						continue
					}
					break
				}
				if prm, ok := w.(*ssa.Parameter); ok && prm.Parent() == callee {
					for i, pp := range callee.Params {
						if pp == prm && i < len(cs.Common().Args) {
							v = cs.Common().Args[i]
						}
					}
				}
				if el := hdrArrayElems(v); el != nil {
					vals = append(vals, el...)
				} else if sl, ok := v.(*ssa.Slice); ok && sl.Low == nil && sl.High == nil {
					// the list of a variadic call
					if al, ok := sl.X.(*ssa.Alloc); ok {
						if el := hdrAllocElems(al); el != nil {
							vals = append(vals, el...)
							continue
						}
					}
					vals = append(vals, v)
				} else {
					vals = append(vals, v)
				}
			}
		}
		out = append(out, hdrItem{cs, vals})
	}
	return out
}

type hdrCont struct {
	base  ssa.Value
	field int // -1: the element itself
}

type hdrRole struct {
	kind      string // "none", "dv", "addr", "other"
	container hdrCont
}

func hdrIsMarker(v ssa.Value) bool {
	for {
		if cv, ok := v.(*ssa.Convert); ok {
			v = cv.X
			continue
		}
		break
	}
	k, ok := constUint64(v)
	return ok && k == math.MaxUint64
}

func hdrFromCount(v ssa.Value, depth int) bool {
	if depth > 6 {
		return false
	}
	switch x := root(v).(type) {
	case *ssa.Convert:
		return hdrFromCount(x.X, depth+1)
	case *ssa.Call:
		f := x.Call.StaticCallee()
		return f != nil && f.Name() == "Count" && f.Signature.Recv() != nil && isCountWriterPtr(f.Signature.Recv().Type())
	}
	return false
}

// hdrContainerOf: the map or slice a value is read from (`m[k]`, `s[i]`, `s[i].start`).
func hdrContainerOf(v ssa.Value) (hdrCont, bool) {
	for {
		if cv, ok := v.(*ssa.Convert); ok {
			v = cv.X
			continue
		}
		break
	}
	switch x := v.(type) {
	case *ssa.Lookup:
		if !x.CommaOk {
			return hdrCont{root(x.X), -1}, true
		}
	case *ssa.Field:
		if lk, ok := x.X.(*ssa.Lookup); ok && !lk.CommaOk {
			return hdrCont{root(lk.X), x.Field}, true
		}
	case *ssa.UnOp:
		if x.Op == token.MUL {
			switch a := x.X.(type) {
			case *ssa.IndexAddr:
				return hdrCont{root(a.X), -1}, true
			case *ssa.FieldAddr:
				if ia, ok := a.X.(*ssa.IndexAddr); ok {
					return hdrCont{root(ia.X), a.Field}, true
				}
			}
		}
	}
	return hdrCont{}, false
}

type hdrStore struct {
	at  ssa.Instruction
	val ssa.Value
}

// hdrFieldOfStruct: what field f of the struct value v was given where v is a composite literal.
func hdrFieldOfStruct(v ssa.Value, f int) ssa.Value {
	u, ok := v.(*ssa.UnOp)
	if !ok || u.Op != token.MUL {
		return nil
	}
	al, ok := u.X.(*ssa.Alloc)
	if !ok || al.Referrers() == nil {
		return nil
	}
	for _, r := range *al.Referrers() {
		fa, ok := r.(*ssa.FieldAddr)
		if !ok || fa.Field != f || fa.Referrers() == nil {
			continue
		}
		for _, r2 := range *fa.Referrers() {
			if st, ok := r2.(*ssa.Store); ok && st.Addr == ssa.Value(fa) {
				return st.Val
			}
		}
	}
	return nil
}

func hdrStoresInto(fn *ssa.Function, c hdrCont) []hdrStore {
	var out []hdrStore
	whole := func(at ssa.Instruction, v ssa.Value) {
		if c.field < 0 {
			out = append(out, hdrStore{at, v})
		} else if fv := hdrFieldOfStruct(v, c.field); fv != nil {
			out = append(out, hdrStore{at, fv})
		}
	}
	eachInstr(fn, func(_ *ssa.BasicBlock, in ssa.Instruction) {
		switch x := in.(type) {
		case *ssa.MapUpdate:
			if root(x.Map) == c.base {
				whole(x, x.Value)
			}
		case *ssa.Store:
			switch a := x.Addr.(type) {
			case *ssa.IndexAddr:
				if root(a.X) == c.base {
					whole(x, x.Val)
				}
			case *ssa.FieldAddr:
				if ia, ok := a.X.(*ssa.IndexAddr); ok && root(ia.X) == c.base && a.Field == c.field {
					out = append(out, hdrStore{x, x.Val})
				}
			}
		}
	})
	return out
}

func hdrRoleOf(fn *ssa.Function, v ssa.Value) hdrRole {
	if hdrIsMarker(v) {
		return hdrRole{kind: "none"}
	}
	if _, isC := v.(*ssa.Const); isC {
		return hdrRole{kind: "other"}
	}
	if _, isSl := v.Type().Underlying().(*types.Slice); isSl {
		return hdrRole{kind: "other"} // a list whose elements are not known here
	}
	if c, ok := hdrContainerOf(v); ok {
		for _, st := range hdrStoresInto(fn, c) {
			if hdrIsMarker(st.val) {
				return hdrRole{"dv", c}
			}
		}
		return hdrRole{"addr", c}
	}
	return hdrRole{kind: "addr"}
}

func r27SectionHeader(c *RuleCtx) {
	props := []string{"C09"}
	nDv, nNone := 0, 0
	fns := append([]*ssa.Function(nil), c.p.ZapFuncs...)
	sort.Slice(fns, func(i, j int) bool { return fns[i].String() < fns[j].String() })
	for _, fn := range fns {
		if fn.Parent() != nil || len(fn.Blocks) == 0 || fn.Synthetic != "" {
			continue
		}
		if strings.Contains(c.p.Fset.Position(fn.Pos()).Filename, "faiss") {
			continue // the vector section has a record of its own (type of optimisation, number of vectors, …)
		}
		items := hdrItems(c.p, fn, 0)
		// the writes that carry a doc-values place (or the marker in its place)
		var marked []hdrItem
		for _, it := range items {
			for _, v := range it.vals {
				if k := hdrRoleOf(fn, v).kind; k == "none" || k == "dv" {
					marked = append(marked, it)
					break
				}
			}
		}
		if len(marked) == 0 {
			continue
		}
		name := funcShortName(fn)
		key := "section-header/writer/" + name
		what := "the per-field record of a section written in " + name + " is [doc values start, doc values end, dictionary offset] as three uvarints (the not-uninverted marker twice where the section has no doc values)"
		sort.SliceStable(marked, func(i, j int) bool { return hdrBefore(marked[i].at, marked[j].at) })
		ordered := true
		for i := 0; i+1 < len(marked); i++ {
			if !hdrBefore(marked[i].at, marked[i+1].at) {
				ordered = false
			}
		}
		if !ordered {
			c.undecidedP(props, key, c.fpos(fn), what, "the writes that carry the doc-values places are not on one path")
			continue
		}
		first, last := marked[0].at, marked[len(marked)-1].at
		sepBetween := func(a, b ssa.Instruction) bool {
			for _, s := range items {
				if s.vals == nil && hdrBefore(a, s.at) && hdrBefore(s.at, b) {
					return true
				}
			}
			return false
		}
		var run []hdrItem
		for _, it := range items {
			if it.vals == nil {
				continue
			}
			isMarked := false
			for _, m := range marked {
				if m.at == it.at {
					isMarked = true
				}
			}
			switch {
			case isMarked:
				run = append(run, it)
			case hdrBefore(it.at, first) && !sepBetween(it.at, first):
				run = append(run, it)
			case hdrBefore(first, it.at) && hdrBefore(it.at, last):
				run = append(run, it)
			case hdrBefore(last, it.at) && !sepBetween(last, it.at):
				run = append(run, it)
			}
		}
		sort.SliceStable(run, func(i, j int) bool { return hdrBefore(run[i].at, run[j].at) })
		var seq []ssa.Value
		for _, it := range run {
			seq = append(seq, it.vals...)
		}
		var roles []hdrRole
		var names []string
		for _, v := range seq {
			r := hdrRoleOf(fn, v)
			roles = append(roles, r)
			names = append(names, r.kind)
		}
		if len(roles) > 0 && roles[0].kind == "dv" {
			nDv++
		} else {
			nNone++
		}
		okc := len(roles) == 3 && (roles[0].kind == "none" || roles[0].kind == "dv") && roles[0].kind == roles[1].kind && roles[2].kind == "addr"
		detail := fmt.Sprintf("the record is written as [%s]", strings.Join(names, ", "))
		if okc && roles[0].kind == "dv" {
			if roles[0].container == roles[1].container {
				okc = false
				detail = "start and end of the doc values are read from the same table"
			} else {
				// where both places are taken from the writer's count in this function: the start is taken first
				var sa, sb ssa.Instruction
				for _, st := range hdrStoresInto(fn, roles[0].container) {
					if hdrFromCount(st.val, 0) {
						sa = st.at
					}
				}
				for _, st := range hdrStoresInto(fn, roles[1].container) {
					if hdrFromCount(st.val, 0) {
						sb = st.at
					}
				}
				if sa != nil && sb != nil && !hdrBefore(sa, sb) {
					okc = false
					detail = "the place written first is taken from the writer's count after the place written second: end and start are swapped"
				}
			}
		}
		c.add2(okc, props, key, c.pos(first), what, detail)
	}
	c.add2(nDv >= 1 && nNone >= 1, props, "section-header/writers", "-", "writers of the per-field section record are found for a section with doc values (inverted) and for one without (synonym); confirmed by hand: two each, build and merge", fmt.Sprintf("found %d with doc values, %d without", nDv, nNone))
}
