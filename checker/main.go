// zapxlint: repository-specific static analysis for blevesearch/zapx (v16).
//
//	zapxlint check  -property C11 [-tier quick|thorough] [-repo /repo] [-verif /verif]
//	zapxlint list   [-repo /repo]            rules, anchors, instance counts per configuration
//	zapxlint replay <violation.json>         re-evaluate one reported obligation
//
// Every verdict is computed from the type-checked source of the repository
// (go/packages -> go/types -> go/ssa -> VTA call graph). Nothing of the
// repository is executed.
package main

import (
	"encoding/json"
	"flag"
	"fmt"
	"golang.org/x/tools/go/ssa"
	"os"
	"path/filepath"
	"sort"
	"strconv"
	"strings"
	"sync"
	"time"
)

func main() {
	if len(os.Args) < 2 {
		usage()
	}
	switch os.Args[1] {
	case "check":
		os.Exit(cmdCheck(os.Args[2:]))
	case "list":
		os.Exit(cmdList(os.Args[2:]))
	case "replay":
		os.Exit(cmdReplay(os.Args[2:]))
	case "sigs":
		os.Exit(cmdSigs(os.Args[2:]))
	case "dump":
		os.Exit(cmdDump(os.Args[2:]))
	case "counts":
		os.Exit(cmdCounts(os.Args[2:]))
	case "selftest":
		os.Exit(cmdSelftest(os.Args[2:]))
	default:
		usage()
	}
}

func usage() {
	fmt.Fprintln(os.Stderr, "usage: zapxlint check -property <id> [-tier quick|thorough] | list | replay <file> | selftest")
	os.Exit(2)
}

func tierConfigs(tier string) []Config {
	if tier == "thorough" {
		return []Config{cfgDefault, cfgVectors, cfgDefaultWindows, cfgVectorsWindows}
	}
	return []Config{cfgDefault, cfgVectors}
}

type configResult struct {
	cfg  Config
	prog *Program
	err  error
	obs  []Obligation
	per  []ruleEvidence
}

// analyse loads every configuration (in parallel) and runs the rules of prop.
func analyse(repo string, cfgs []Config, prop string, rules []*Rule) []*configResult {
	res := make([]*configResult, len(cfgs))
	var wg sync.WaitGroup
	for i, c := range cfgs {
		wg.Add(1)
		go func(i int, c Config) {
			defer wg.Done()
			r := &configResult{cfg: c}
			res[i] = r
			func() {
				defer func() {
					if e := recover(); e != nil {
						r.err = fmt.Errorf("panic while loading: %v", e)
					}
				}()
				r.prog, r.err = loadProgram(repo, c)
			}()
			if r.err != nil {
				return
			}
			for _, rule := range rules {
				if rule.VectorsOnly && !c.Vectors {
					continue
				}
				obs := runRule(rule, r.prog, prop)
				ev := ruleEvidence{ID: rule.ID, Title: rule.Title, Config: c.Name}
				for _, o := range obs {
					ev.Obligations++
					if o.Status == Discharged {
						ev.Discharged++
					}
					ev.Instances = append(ev.Instances, string(o.Status)[:1]+" "+o.Key)
				}
				r.per = append(r.per, ev)
				r.obs = append(r.obs, obs...)
			}
		}(i, c)
	}
	wg.Wait()
	return res
}

func rulesFor(prop string) []*Rule {
	var out []*Rule
	for _, r := range allRules() {
		if r.serves(prop) {
			out = append(out, r)
		}
	}
	return out
}

func cmdCheck(args []string) int {
	fs := flag.NewFlagSet("check", flag.ExitOnError)
	prop := fs.String("property", "", "property id (C01..C20)")
	tier := fs.String("tier", "", "quick|thorough (default: $VERIF_TIER or quick)")
	repo := fs.String("repo", "/repo", "repository root")
	verif := fs.String("verif", "/verif", "verification root (evidence, known findings)")
	noEvidence := fs.Bool("no-evidence", false, "do not write evidence/violation files (used by the self-test)")
	fs.Parse(args)
	if *tier == "" {
		*tier = os.Getenv("VERIF_TIER")
	}
	if *tier != "thorough" {
		*tier = "quick"
	}
	seed, _ := strconv.Atoi(os.Getenv("VERIF_SEED"))
	pd, ok := propTable[*prop]
	if !ok {
		fmt.Fprintf(os.Stderr, "unknown or unclaimed property %q\n", *prop)
		return 2
	}
	t0 := time.Now()
	rules := rulesFor(*prop)
	if len(rules) == 0 {
		fmt.Printf("VIOLATION property=%s replay=-\nno rule serves %s\n", *prop, *prop)
		return 1
	}
	cfgs := tierConfigs(*tier)
	results := analyse(*repo, cfgs, *prop, rules)

	kf, err := loadKnown(filepath.Join(*verif, "known_findings.txt"))
	if err != nil {
		fmt.Printf("VIOLATION property=%s replay=-\ncannot read known findings: %v\n", *prop, err)
		return 1
	}

	var all []Obligation
	var cfgEv []configEvidence
	var ruleEv []ruleEvidence
	loadFailed := false
	for _, r := range results {
		if r.err != nil {
			loadFailed = true
			all = append(all, Obligation{Rule: "LOAD", Key: "LOAD/" + r.cfg.Name, Config: r.cfg.Name, Status: Undecided,
				Pos: "-", What: "configuration loads and type-checks without error", Detail: r.err.Error()})
			continue
		}
		cfgEv = append(cfgEv, configEvidence{Name: r.cfg.Name, Packages: r.prog.NumPkgs, ZapFiles: r.prog.NumFiles,
			ZapFunctions: len(r.prog.ZapFuncs), AllFunctions: r.prog.NumAllFns, CallGraphEdges: r.prog.NumEdges, LoadSeconds: r.prog.LoadSecs})
		ruleEv = append(ruleEv, r.per...)
		all = append(all, r.obs...)
	}
	_ = loadFailed

	// thorough: cross-check CHA-only vs VTA verdicts, and rule sensitivity self-test
	extra := map[string]interface{}{}
	if *tier == "thorough" && !*noEvidence {
		extra["selftest"] = runSelfTest(*repo, *verif, *prop)
		// cross-check: the same rules over the CHA-only call graph (coarser: more
		// callees per interface call). A verdict that differs points at a rule
		// that leans on call-graph precision; reported, never part of the verdict.
		type diff struct {
			Config, Key, VTA, CHA string
		}
		var diffs []diff
		compared := 0
		for _, r := range results {
			if r.err != nil || r.prog == nil {
				continue
			}
			cp := *r.prog
			cp.CG = r.prog.CHA
			cp.summaries = map[string]interface{}{}
			cp.renamed = map[string]*ssa.Function{}
			vta := map[string]Status{}
			for _, o := range r.obs {
				vta[o.Key] = o.Status
			}
			for _, rule := range rules {
				if rule.VectorsOnly && !r.cfg.Vectors {
					continue
				}
				saved := rule.Floor
				rule.Floor = nil
				for _, o := range runRule(rule, &cp, *prop) {
					compared++
					if st, ok := vta[o.Key]; !ok || st != o.Status {
						diffs = append(diffs, diff{r.cfg.Name, o.Key, string(vta[o.Key]), string(o.Status)})
					}
				}
				rule.Floor = saved
			}
		}
		extra["cha_vs_vta"] = map[string]interface{}{"obligations_compared": compared, "differing": diffs}
	}

	// verdicts
	type vio struct {
		o     Obligation
		known *knownFinding
		file  string
	}
	var vios []vio
	discharged := 0
	distinct := map[string]bool{}
	for _, o := range all {
		distinct[o.Key] = true
		if o.Status == Discharged {
			discharged++
			continue
		}
		vios = append(vios, vio{o: o, known: kf.match(*prop, o)})
	}
	// group identical findings across configurations
	sort.SliceStable(vios, func(i, j int) bool {
		if vios[i].o.Key != vios[j].o.Key {
			return vios[i].o.Key < vios[j].o.Key
		}
		return vios[i].o.Config < vios[j].o.Config
	})
	exit := 0
	nviol := 0
	printedKnown := map[string]bool{}
	vioDir := filepath.Join(*verif, "evidence", "violations")
	if !*noEvidence {
		// remove stale violation files of this property
		if ents, err := os.ReadDir(vioDir); err == nil {
			for _, e := range ents {
				if strings.HasPrefix(e.Name(), *prop+"-") {
					os.Remove(filepath.Join(vioDir, e.Name()))
				}
			}
		}
	}
	byKey := map[string][]vio{}
	var keys []string
	for _, v := range vios {
		if _, ok := byKey[v.o.Key]; !ok {
			keys = append(keys, v.o.Key)
		}
		byKey[v.o.Key] = append(byKey[v.o.Key], v)
	}
	for _, k := range keys {
		vs := byKey[k]
		v := vs[0]
		var cfgNames []string
		for _, x := range vs {
			cfgNames = append(cfgNames, x.o.Config)
		}
		if v.known != nil {
			if !printedKnown[k] {
				printedKnown[k] = true
				fmt.Printf("KNOWN-FINDING: property=%s %s %s\n", *prop, k, v.known.What)
			}
			continue
		}
		nviol++
		exit = 1
		file := "-"
		if !*noEvidence {
			file = filepath.Join(vioDir, fmt.Sprintf("%s-%d.json", *prop, nviol))
			writeJSON(file, map[string]interface{}{"property": *prop, "tier": *tier, "obligation": v.o, "configs": cfgNames, "repo": *repo})
		}
		fmt.Printf("VIOLATION property=%s replay=%s\n", *prop, file)
		fmt.Printf("  %s [%s] %s (%s)\n    obligation: %s\n    %s\n", v.o.Key, v.o.Status, v.o.Pos, strings.Join(cfgNames, ","), v.o.What, strings.ReplaceAll(v.o.Detail, "\n", "\n    "))
		for _, w := range v.o.Witness {
			fmt.Printf("    witness: %s\n", w)
		}
	}

	wall := time.Since(t0).Seconds()
	// samples: a few obligations written out
	var samples []interface{}
	for i, o := range all {
		if i%maxInt(1, len(all)/6) == 0 && len(samples) < 8 {
			samples = append(samples, map[string]string{"key": o.Key, "config": o.Config, "status": string(o.Status), "pos": o.Pos, "obligation": o.What})
		}
	}
	if len(samples) == 0 {
		samples = append(samples, "no obligations generated")
	}
	cov := map[string]interface{}{
		"explanation": "Static analysis (go/packages -> go/types -> go/ssa, VTA call graph) of package zap in the listed build configurations. " +
			"Decides the structural clauses listed under 'decides' on every path / call site / field / configuration; does NOT decide the runtime-value clauses listed under 'does_not_decide'. " + pd.Explain,
		"decides":             pd.Decides,
		"does_not_decide":     pd.NotDecided,
		"configurations":      cfgEv,
		"rules":               ruleEv,
		"obligations":         len(all),
		"discharged":          discharged,
		"evaluations":         len(all),
		"distinct_nontrivial": len(distinct),
		"rule":                "one evaluation = one obligation (rule + construct + configuration) decided by dataflow/dominance/call-graph analysis; distinct = distinct rule+construct keys; all are non-trivial in that each names a concrete construct of /repo resolved through type information",
		"samples":             samples,
		"exhaustive":          true,
		"checker_cmd":         "/verif/bin/zapxlint check -property " + *prop + " -tier " + *tier,
		"trusted_base": []string{"go list / go/packages loader", "go/types", "golang.org/x/tools v0.29.0 go/ssa + callgraph/vta + callgraph/cha",
			"the go-faiss stub generator (FAISS functions are opaque externals with their real Go signatures)",
			"the frozen rule tables in /verif/checker (one reason per line)"},
	}
	for k, v := range extra {
		cov[k] = v
	}
	ev := evidence{PropertyID: *prop, Tier: *tier, Seed: seed, Level: "other", Coverage: cov,
		Assumptions: append([]string{
			"level 'other': necessary structural conditions of the property, not the behaviour as a whole",
			"FAISS (C library) and the Go standard library behave as their signatures and documentation say",
			"VERIF_SEED is recorded but unused: the analysis is deterministic",
		}, pd.Assumptions...),
		WallS: wall, Violations: nviol}
	if !*noEvidence {
		if err := writeJSON(filepath.Join(*verif, "evidence", *prop+".json"), ev); err != nil {
			fmt.Printf("VIOLATION property=%s replay=-\ncannot write evidence: %v\n", *prop, err)
			return 1
		}
	}
	fmt.Printf("%s tier=%s configs=%d rules=%d obligations=%d discharged=%d violations=%d known=%d wall=%.1fs\n",
		*prop, *tier, len(cfgs), len(rules), len(all), discharged, nviol, len(printedKnown), wall)
	return exit
}

func maxInt(a, b int) int {
	if a > b {
		return a
	}
	return b
}

func cmdList(args []string) int {
	fs := flag.NewFlagSet("list", flag.ExitOnError)
	repo := fs.String("repo", "/repo", "repository root")
	verbose := fs.Bool("v", false, "print every obligation")
	only := fs.String("rule", "", "only this rule")
	patch := fs.String("patch", "", "apply this unified diff in memory first")
	onlyCfg := fs.String("config", "", "only this configuration (default|vectors)")
	fs.Parse(args)
	status := 0
	var ov map[string][]byte
	if *patch != "" {
		var err error
		if ov, err = overlayFromPatch(*repo, *patch); err != nil {
			fmt.Println(err)
			return 1
		}
	}
	for _, c := range []Config{cfgDefault, cfgVectors} {
		if *onlyCfg != "" && c.Name != *onlyCfg {
			continue
		}
		p, err := loadProgramOverlay(*repo, c, ov)
		if err != nil {
			fmt.Println("LOAD ERROR", c.Name, err)
			return 1
		}
		fmt.Printf("== configuration %s: %d packages, %d zap files, %d zap SSA functions, %d call-graph edges, %.1fs\n",
			c.Name, p.NumPkgs, p.NumFiles, len(p.ZapFuncs), p.NumEdges, p.LoadSecs)
		for _, r := range allRules() {
			if *only != "" && r.ID != *only {
				continue
			}
			if r.VectorsOnly && !c.Vectors {
				continue
			}
			t0 := time.Now()
			obs := runRule(r, p, "")
			n, d := 0, 0
			for _, o := range obs {
				n++
				if o.Status == Discharged {
					d++
				}
			}
			fmt.Printf("%-5s %-60s props=%-22s obligations=%3d discharged=%3d (%.2fs)\n", r.ID, r.Title, strings.Join(r.Props, ","), n, d, time.Since(t0).Seconds())
			for _, o := range obs {
				if o.Status != Discharged {
					status = 1
				}
				if *verbose || o.Status != Discharged {
					fmt.Printf("      [%s] %s  %s\n          %s\n", o.Status, o.Key, o.Pos, o.What)
					if o.Detail != "" {
						fmt.Printf("          -> %s\n", strings.ReplaceAll(o.Detail, "\n", "\n             "))
					}
					for _, w := range o.Witness {
						fmt.Printf("             witness: %s\n", w)
					}
				}
			}
		}
	}
	return status
}

func cmdReplay(args []string) int {
	if len(args) < 1 {
		usage()
	}
	b, err := os.ReadFile(args[0])
	if err != nil {
		fmt.Fprintln(os.Stderr, err)
		return 2
	}
	var v struct {
		Property   string     `json:"property"`
		Obligation Obligation `json:"obligation"`
		Repo       string     `json:"repo"`
	}
	if err := json.Unmarshal(b, &v); err != nil {
		fmt.Fprintln(os.Stderr, err)
		return 2
	}
	if v.Repo == "" {
		v.Repo = "/repo"
	}
	cfg, ok := configByName(v.Obligation.Config)
	if !ok {
		cfg = cfgDefault
	}
	p, err := loadProgram(v.Repo, cfg)
	if err != nil {
		fmt.Println("still failing: ", err)
		return 1
	}
	for _, r := range allRules() {
		if r.ID != v.Obligation.Rule {
			continue
		}
		for _, o := range runRule(r, p, v.Property) {
			if o.Key == v.Obligation.Key {
				fmt.Printf("[%s] %s %s\n  %s\n  %s\n", o.Status, o.Key, o.Pos, o.What, o.Detail)
				for _, w := range o.Witness {
					fmt.Printf("  witness: %s\n", w)
				}
				if o.Status != Discharged {
					return 1
				}
				return 0
			}
		}
	}
	fmt.Println("obligation no longer generated (construct gone)")
	return 1
}

// cmdCounts prints, per rule / configuration / property, how many obligations
// are generated (used to set the instance floors).
func cmdCounts(args []string) int {
	fs := flag.NewFlagSet("counts", flag.ExitOnError)
	repo := fs.String("repo", "/repo", "repository root")
	fs.Parse(args)
	for _, c := range []Config{cfgDefault, cfgVectors} {
		p, err := loadProgram(*repo, c)
		if err != nil {
			fmt.Println(err)
			return 1
		}
		for _, r := range allRules() {
			if r.VectorsOnly && !c.Vectors {
				continue
			}
			// an obligation tagged with a property the rule does not declare would never be checked
			for _, o := range runRule(&Rule{ID: r.ID, Run: r.Run}, p, "") {
				for _, op := range o.Props {
					if !r.serves(op) {
						fmt.Printf("UNDECLARED %s %s serves %s, which the rule does not declare\n", r.ID, o.Key, op)
					}
				}
			}
			for _, prop := range r.Props {
				saved := r.Floor
				r.Floor = nil
				obs := runRule(r, p, prop)
				r.Floor = saved
				fl := 0
				if saved != nil {
					fl = saved(c, prop)
				}
				fmt.Printf("%-4s %-8s %-4s obligations=%3d floor=%3d\n", r.ID, c.Name, prop, len(obs), fl)
			}
		}
	}
	return 0
}

// cmdDump prints the SSA of the named zap functions (debugging aid).
func cmdDump(args []string) int {
	fs := flag.NewFlagSet("dump", flag.ExitOnError)
	repo := fs.String("repo", "/repo", "repository root")
	vec := fs.Bool("vectors", false, "vectors configuration")
	patch := fs.String("patch", "", "apply this unified diff in memory first")
	fs.Parse(args)
	cfg := cfgDefault
	if *vec {
		cfg = cfgVectors
	}
	var ov map[string][]byte
	if *patch != "" {
		var err error
		if ov, err = overlayFromPatch(*repo, *patch); err != nil {
			fmt.Println(err)
			return 1
		}
	}
	p, err := loadProgramOverlay(*repo, cfg, ov)
	if err != nil {
		fmt.Println(err)
		return 1
	}
	for _, fn := range p.ZapFuncs {
		for _, want := range fs.Args() {
			if strings.Contains(funcShortName(fn), want) {
				fn.WriteTo(os.Stdout)
			}
		}
	}
	return 0
}
