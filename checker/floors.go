package main

// Instance floors: the number of obligations each rule generated per
// configuration and property when its instances were confirmed by hand on the
// pinned tree (DESIGN.md §3), scaled by 3/4 so that a harmless refactoring
// that merges a few sites does not raise an alarm while a rule that silently
// stops matching (renamed anchors, rewritten idioms) does. Regenerate with
// `zapxlint counts` after confirming the new instances by reading.
var confirmedCounts = map[string]map[string][2]int{ // rule -> prop -> {default, vectors}
	"R1":  {"C10": {5, 5}, "C11": {11, 11}},
	"R2":  {"C11": {27, 52}, "C16": {2, 42}, "C20": {7, 7}},
	"R3":  {"C11": {24, 24}},
	"R4":  {"C03": {11, 11}, "C11": {11, 11}},
	"R5":  {"C11": {9, 11}},
	"R6":  {"C04": {9, 9}, "C16": {0, 32}, "C17": {34, 34}, "C18": {25, 50}, "C19": {25, 82}, "C20": {9, 9}},
	"R7":  {"C17": {26, 29}, "C19": {22, 38}},
	"R8":  {"C18": {19, 23}},
	"R9":  {"C20": {16, 16}},
	"R10": {"C02": {62, 71}, "C05": {62, 71}, "C10": {62, 71}},
	"R11": {"C07": {10, 10}, "C08": {10, 10}},
	"R12": {"C06": {16, 16}, "C07": {25, 27}, "C12": {10, 10}, "C13": {10, 10}},
	"R13": {"C01": {5, 5}, "C03": {5, 5}, "C04": {1, 1}, "C06": {9, 9}, "C09": {9, 9}},
	"R14": {"C01": {28, 28}, "C04": {28, 28}, "C09": {28, 28}},
	"R15": {"C03": {4, 4}, "C04": {8, 8}, "C05": {2, 2}},
	"R16": {"C05": {2, 2}},
	"R17": {"C05": {5, 5}, "C06": {5, 5}},
	"R18": {"C06": {2, 2}, "C13": {4, 4}, "C15": {0, 3}},
	"R19": {"C02": {7, 7}},
	"R20": {"C03": {2, 2}},
	"R21": {"C16": {0, 4}},
	"R22": {"C16": {0, 19}},
	"R23": {"C14": {0, 22}, "C16": {0, 20}},
	"R24": {"C05": {4, 4}, "C06": {5, 5}, "C13": {2, 2}, "C15": {1, 3}},
	"R25": {"C05": {10, 10}, "C06": {24, 24}, "C09": {17, 17}, "C13": {10, 10}, "C15": {1, 6}},
	"R26": {"C02": {1, 1}, "C03": {4, 4}, "C04": {3, 3}, "C05": {7, 7}, "C06": {6, 6}, "C13": {2, 2}},
	"R27": {"C02": {6, 6}, "C03": {2, 2}, "C04": {3, 3}, "C05": {1, 1}, "C09": {17, 17}},
	"R28": {"C01": {3, 3}, "C06": {15, 15}, "C08": {4, 4}, "C09": {5, 5}, "C13": {6, 6}},
	"R29": {"C01": {7, 7}, "C02": {2, 2}, "C06": {7, 7}},
	"R30": {"C01": {2, 2}, "C09": {2, 2}},
	"R31": {"C01": {2, 2}, "C03": {2, 2}, "C06": {1, 1}, "C07": {3, 3}, "C12": {1, 1}},
	"R32": {"C01": {7, 7}, "C06": {7, 7}, "C08": {7, 7}, "C09": {7, 7}},
	"R33": {"C02": {2, 2}, "C05": {2, 2}, "C06": {1, 1}},
	"R34": {"C06": {2, 2}},
	"R35": {"C12": {11, 11}, "C13": {3, 3}},
	"R36": {"C01": {11, 11}, "C06": {11, 11}, "C07": {3, 3}, "C09": {13, 13}},
	"R37": {"C01": {3, 3}, "C06": {3, 3}, "C10": {0, 0}},
	"R38": {"C02": {6, 7}, "C07": {6, 7}},
}

func floorFor(rule string) func(cfg Config, prop string) int {
	return func(cfg Config, prop string) int {
		m := confirmedCounts[rule]
		if m == nil {
			return 1
		}
		c, ok := m[prop]
		if !ok {
			return 0
		}
		n := c[0]
		if cfg.Vectors {
			n = c[1]
		}
		return half(n)
	}
}

// half: site-count floors guard against a rule going vacuous (its anchors renamed away or rewritten into
// an idiom it does not read), not against one site being removed by a legitimate change — the removal of
// a site that is *required* is the business of an explicit obligation. Round 7 showed exact floors
// alarming on correct optimisations (a pool borrow that is no longer needed, a decode that is skipped);
// since then every floor is half of what was confirmed by hand on the pinned tree, rounded up.
func half(k int) int {
	if k <= 1 {
		return k
	}
	return (k + 1) / 2
}
