package main

// Seeded edits for the sensitivity self-test. Each compiles in its
// configuration; whether the 30 pinned tests still pass on it was checked once
// at development time (DESIGN.md records the table).
func mutantTable() []mutant {
	return []mutant{
		// ---- R6 -----------------------------------------------------------
		{ID: "r6-persist-drop-cleanup", Prop: "C17", Rule: "R6", Expect: "PersistSegmentBase/exit[err=Sync]/cleanup",
			Edits: []edit{{File: "build.go", Old: "\terr = f.Sync()\n\tif err != nil {\n\t\tcleanup()\n", New: "\terr = f.Sync()\n\tif err != nil {\n"}}},
		{ID: "r6-persist-closure-no-remove", Prop: "C17", Rule: "R6", Expect: "PersistSegmentBase/exit[err=",
			Edits: []edit{{File: "build.go", Old: "\t\t_ = os.Remove(path)\n", New: "\t\t_ = path\n"}}},
		{ID: "r6-merge-success-before-flush", Prop: "C17", Rule: "R6", Expect: "mergeSegmentBases/",
			Edits: []edit{{File: "merge.go", Old: "\terr = br.Flush()\n\tif err != nil {\n\t\tcleanup()\n\t\treturn nil, 0, err\n\t}\n", New: ""}}},
		{ID: "r6-merge-ignore-flush-error", Prop: "C17", Rule: "R6", Expect: "mergeSegmentBases/exit[nil]/complete",
			Edits: []edit{{File: "merge.go", Old: "\terr = br.Flush()\n\tif err != nil {\n\t\tcleanup()\n\t\treturn nil, 0, err\n\t}\n", New: "\t_ = br.Flush()\n"}}},
		{ID: "r6-merge-ignore-close-error", Prop: "C17", Rule: "R6", Expect: "mergeSegmentBases/exit[nil]/complete",
			Edits: []edit{{File: "merge.go", Old: "\terr = f.Close()\n\tif err != nil {\n\t\tcleanup()\n\t\treturn nil, 0, err\n\t}\n\n\treturn newDocNums", New: "\t_ = f.Close()\n\n\treturn newDocNums"}}},
		{ID: "r6-merge-skip-cleanup-on-errclosed", Prop: "C18", Rule: "R6", Expect: "mergeSegmentBases/exit[err=mergeToWriter]",
			Edits: []edit{{File: "merge.go", Old: "\tif err != nil {\n\t\tcleanup()\n\t\treturn nil, 0, err\n\t}\n\n\t// passing the sectionsIndexOffset", New: "\tif err != nil {\n\t\tif err != seg.ErrClosed {\n\t\t\tcleanup()\n\t\t}\n\t\treturn nil, 0, err\n\t}\n\n\t// passing the sectionsIndexOffset"}}},
		{ID: "r6-towriter-no-flush-check", Prop: "C17", Rule: "R6", Expect: "persistSegmentBaseToWriter/",
			Edits: []edit{{File: "build.go", Old: "\terr = br.w.Flush()\n\tif err != nil {\n\t\treturn 0, err\n\t}\n", New: "\tbr.w.Flush()\n"}}},
		{ID: "r6-open-drop-close", Prop: "C20", Rule: "R6", Expect: "Open/exit[err=loadFieldsNew]/release",
			Edits: []edit{{File: "segment.go", Old: "\terr = rv.loadFieldsNew()\n\tif err != nil {\n\t\t_ = rv.Close()\n", New: "\terr = rv.loadFieldsNew()\n\tif err != nil {\n"}}},
		{ID: "r6-open-mmap-fail-no-close", Prop: "C20", Rule: "R6", Expect: "Open/exit[err=Map]/release",
			Edits: []edit{{File: "segment.go", Old: "\t\t_ = f.Close()\n\t\treturn nil, err\n", New: "\t\treturn nil, err\n"}}},
		{ID: "r6-vec-drop-free-on-early-return", Prop: "C19", Rule: "R6", Vectors: true, Expect: "mergeAndWriteVectorIndexes/exit[err=ReconstructBatch]/freed",
			Edits: []edit{{File: "section_faiss_vector_index.go", Old: "\t\t\tif err != nil {\n\t\t\t\tfreeReconstructedIndexes(vecIndexes)\n\t\t\t\treturn err\n\t\t\t}\n\t\t\tindexData = append", New: "\t\t\tif err != nil {\n\t\t\t\treturn err\n\t\t\t}\n\t\t\tindexData = append"}}},
		{ID: "r6-vec-drop-free-on-cancel", Prop: "C18", Rule: "R6", Vectors: true, Expect: "mergeAndWriteVectorIndexes/exit[err=ErrClosed]#2/freed",
			Edits: []edit{{File: "section_faiss_vector_index.go", Old: "\t\tif isClosed(closeCh) {\n\t\t\tfreeReconstructedIndexes(vecIndexes)\n\t\t\treturn seg.ErrClosed\n\t\t}\n\n\t\t// reconstruct", New: "\t\tif isClosed(closeCh) {\n\t\t\treturn seg.ErrClosed\n\t\t}\n\n\t\t// reconstruct"}}},
		{ID: "r6-vec-drop-deferred-close", Prop: "C19", Rule: "R6", Vectors: true, Expect: "mergeAndWriteVectorIndexes/IndexFactory/",
			Edits: []edit{{File: "section_faiss_vector_index.go", Old: "\tdefer faissIndex.Close()\n\n\tif indexClass == IndexTypeIVF {\n\t\t// the direct map", New: "\n\tif indexClass == IndexTypeIVF {\n\t\t// the direct map"}}},
	}
}
