package main

// R25 INDEX-SPACE — per-segment tables are indexed in their own index space.
//
// The merge routines keep two families of parallel slices: the inputs, indexed
// by the position of a segment in the `segments` argument (SEG space), and the
// per-field compacted copies that only hold the segments which have the field
// (ACTIVE space: newDocNums, drops, dicts, itrs, thesauri, segmentsInFocus ...;
// built by appending inside the loop over the segments). The enumerator hands
// out ACTIVE indexes. Indexing a SEG slice with an ACTIVE index (or the other
// way round) is right only while every segment has every field.

import (
	"fmt"
	"go/token"
	"go/types"
	"strings"

	"golang.org/x/tools/go/ssa"
)

type idxSpace int

const (
	spUnknown idxSpace = iota
	spSeg
	spActive
	spLow // position in the enumerator's list of iterators standing on the current key
)

func (s idxSpace) String() string {
	return [...]string{"unknown", "segment-position", "active-position", "low-list-position"}[s]
}

// isLowList: v is one of the two parallel slices returned by
// enumerator.GetLowIdxsAndValues().
func isLowList(v ssa.Value) bool {
	ex, ok := root(v).(*ssa.Extract)
	if !ok {
		return false
	}
	call, ok := ex.Tuple.(*ssa.Call)
	if !ok {
		return false
	}
	f := call.Call.StaticCallee()
	return f != nil && f.Name() == "GetLowIdxsAndValues"
}

func isPerSegmentSliceType(t types.Type) bool {
	sl, ok := t.Underlying().(*types.Slice)
	if !ok {
		return false
	}
	e := sl.Elem()
	if isNamed(e, zapPkgPath, "SegmentBase") {
		return true
	}
	if isBitmapPtr(e) {
		_, isPtr := e.Underlying().(*types.Pointer)
		return isPtr
	}
	if s2, ok := e.Underlying().(*types.Slice); ok {
		if b, ok := s2.Elem().Underlying().(*types.Basic); ok && b.Kind() == types.Uint64 {
			return true
		}
	}
	return false
}

// varName: the source-level variable a slice value belongs to.
func varName(v ssa.Value, depth int) string {
	if depth > 6 || v == nil {
		return ""
	}
	switch x := v.(type) {
	case *ssa.Parameter:
		return x.Name()
	case *ssa.FreeVar:
		return x.Name()
	case *ssa.Phi:
		return x.Comment
	case *ssa.Alloc:
		return x.Comment
	case *ssa.UnOp:
		if x.Op == token.MUL {
			switch y := x.X.(type) {
			case *ssa.Alloc:
				return y.Comment
			case *ssa.FreeVar:
				return y.Name()
			}
		}
	case *ssa.Slice:
		return varName(x.X, depth+1)
	case *ssa.MakeSlice:
		return assignedNameAt(x.Parent(), x.Pos())
	case *ssa.Call:
		if b, ok := x.Call.Value.(*ssa.Builtin); ok && b.Name() == "append" {
			return varName(x.Call.Args[0], depth+1)
		}
	}
	return ""
}

type idxCtx struct {
	fn     *ssa.Function // outermost function
	loops  map[*ssa.Function][]*natLoop
	active map[string]bool // names of ACTIVE slices
	seg    map[string]bool // names of SEG slices
	// local tables allocated with the length of a table of known space (`make([]T, len(segments))`):
	// one slot per element of that table, so indexed in its space
	sized map[ssa.Value]idxSpace
	depth int
}

func newIdxCtx(p *Program, fn *ssa.Function, members []*ssa.Function) *idxCtx {
	ic := &idxCtx{fn: fn, loops: map[*ssa.Function][]*natLoop{}, active: map[string]bool{}, seg: map[string]bool{}, sized: map[ssa.Value]idxSpace{}}
	for _, prm := range fn.Params {
		if isPerSegmentSliceType(prm.Type()) {
			ic.seg[prm.Name()] = true
		}
	}
	for _, f := range members {
		ic.loops[f] = naturalLoops(f)
	}
	// ACTIVE: slices appended to inside a loop that ranges over a SEG slice
	for changed := true; changed; {
		changed = false
		for _, f := range members {
			for _, l := range ic.loops[f] {
				rs := l.rangedSlice()
				if rs == nil {
					continue
				}
				sp := ic.sliceSpace(rs)
				if sp == spUnknown {
					continue
				}
				for b := range l.blocks {
					for _, in := range b.Instrs {
						call, ok := in.(*ssa.Call)
						if !ok {
							continue
						}
						if bi, ok := call.Call.Value.(*ssa.Builtin); !ok || bi.Name() != "append" {
							continue
						}
						n := varName(call.Call.Args[0], 0)
						if n == "" || ic.seg[n] || ic.active[n] {
							continue
						}
						// compaction: the append is conditional inside the loop (not every iteration appends)
						if !isSliceOfInterest(call.Type()) {
							continue
						}
						ic.active[n] = true
						changed = true
					}
				}
			}
		}
	}
	for _, f := range members {
		eachInstr(f, func(_ *ssa.BasicBlock, in ssa.Instruction) {
			mk, ok := in.(*ssa.MakeSlice)
			if !ok {
				return
			}
			la := lenArgOf(mk.Len)
			if la == nil {
				return
			}
			if sp := ic.sliceSpace(la); sp == spSeg || sp == spActive {
				// (an ACTIVE table grows while it is filled: a table sized by it at that point is not
				// reliably in its space; only SEG lengths are fixed)
				if sp == spSeg {
					ic.sized[mk] = sp
				}
			}
		})
	}
	return ic
}

func isSliceOfInterest(t types.Type) bool {
	_, ok := t.Underlying().(*types.Slice)
	return ok
}

func (ic *idxCtx) sliceSpace(v ssa.Value) idxSpace {
	if isLowList(v) {
		return spLow
	}
	if sp, ok := ic.sized[root(v)]; ok {
		return sp
	}
	// the result of a helper that makes one slot per element of a table it is handed
	// (`drops := liveDrops(dropsIn)`): in that table's space
	if call, ok := root(v).(*ssa.Call); ok {
		if k := sizedByParam(call.Call.StaticCallee()); k >= 0 && k < len(call.Call.Args) && ic.depth < 3 {
			ic.depth++
			sp := ic.sliceSpace(call.Call.Args[k])
			ic.depth--
			if sp == spSeg {
				return sp
			}
		}
	}
	if u, ok := v.(*ssa.UnOp); ok && u.Op == token.MUL {
		// through the local variable that holds it
		if cell := localCellOfLoad(u); cell != nil {
			sts := cellStores(cell)
			if len(sts) == 1 {
				if sp, ok := ic.sized[root(sts[0].Val)]; ok {
					return sp
				}
			}
		}
	}
	n := varName(v, 0)
	if n == "" {
		n = varName(root(v), 0)
	}
	switch {
	case ic.seg[n]:
		return spSeg
	case ic.active[n]:
		return spActive
	}
	return spUnknown
}

func (ic *idxCtx) indexSpace(v ssa.Value, depth int) idxSpace {
	if depth > 5 || v == nil {
		return spUnknown
	}
	r := root(v)
	switch x := r.(type) {
	case *ssa.Convert:
		return ic.indexSpace(x.X, depth+1)
	case *ssa.Extract:
		if call, ok := x.Tuple.(*ssa.Call); ok {
			if f := call.Call.StaticCallee(); f != nil && f.Name() == "Current" && f.Signature.Recv() != nil && isNamed(f.Signature.Recv().Type(), zapPkgPath, "enumerator") && x.Index == 1 {
				return spActive
			}
		}
	case *ssa.UnOp:
		// element of the enumerator's low-index list
		if x.Op == token.MUL {
			if ia, ok := x.X.(*ssa.IndexAddr); ok {
				if ex, ok := root(ia.X).(*ssa.Extract); ok {
					if call, ok := ex.Tuple.(*ssa.Call); ok {
						if f := call.Call.StaticCallee(); f != nil && f.Name() == "GetLowIdxsAndValues" && ex.Index == 0 {
							return spActive
						}
					}
				}
			}
		}
	case *ssa.BinOp:
		if x.Op == token.ADD {
			if ph, ok := x.X.(*ssa.Phi); ok && ph.Comment == "rangeindex" {
				return ic.loopSpace(ph)
			}
		}
	case *ssa.Phi:
		if x.Comment == "rangeindex" {
			return ic.loopSpace(x)
		}
		// classic for loop `for i := 0; i < len(x); i++`
		return ic.loopSpace(x)
	}
	return spUnknown
}

func (ic *idxCtx) loopSpace(ph *ssa.Phi) idxSpace {
	f := ph.Parent()
	for _, l := range ic.loops[f] {
		if l.header == ph.Block() {
			if rs := l.rangedSlice(); rs != nil {
				return ic.sliceSpace(rs)
			}
		}
	}
	return spUnknown
}

func ruleR25() *Rule {
	return &Rule{
		ID:    "R25",
		Title: "INDEX-SPACE: per-segment input tables and per-field compacted tables are each indexed in their own index space",
		Props: []string{"C06", "C13", "C15", "C05", "C09"},
		Floor: floorFor("R25"),
		Run: func(c *RuleCtx) {
			p := c.p
			propOf := func(fn *ssa.Function) []string {
				n := funcShortName(fn)
				switch {
				case strings.Contains(n, "Synonym"):
					return []string{"C13"}
				case strings.Contains(strings.ToLower(n), "faiss") || strings.Contains(strings.ToLower(n), "vector"):
					return []string{"C15"}
				case strings.Contains(n, "mergeStoredAndRemap") || strings.Contains(n, "computeNewDocCount"):
					return []string{"C05"}
				}
				if strings.Contains(n, "mergeAndPersistInvertedSection") {
					return []string{"C06", "C09"} // also feeds the chunk layout of the merged postings
				}
				return []string{"C06"}
			}
			total := 0
			for _, fn := range p.ZapFuncs {
				if fn.Parent() != nil {
					continue
				}
				hasSeg := false
				for _, prm := range fn.Params {
					if isNamed(derefSliceElem(prm.Type()), zapPkgPath, "SegmentBase") {
						hasSeg = true
					}
				}
				if !hasSeg {
					continue
				}
				members := []*ssa.Function{fn}
				for _, f2 := range p.ZapFuncs {
					if f2.Parent() != nil && rootParent(f2) == fn {
						members = append(members, f2)
					}
				}
				ic := newIdxCtx(p, fn, members)
				counts := map[string]int{}
				for _, f := range members {
					eachInstr(f, func(_ *ssa.BasicBlock, in ssa.Instruction) {
						ia, ok := in.(*ssa.IndexAddr)
						if !ok {
							return
						}
						ss := ic.sliceSpace(ia.X)
						is := ic.indexSpace(ia.Index, 0)
						if ss == spUnknown || is == spUnknown {
							return
						}
						total++
						sname := varName(ia.X, 0)
						if sname == "" {
							sname = varName(root(ia.X), 0)
						}
						counts[sname]++
						key := fmt.Sprintf("%s/%s#%d", funcShortName(fn), sname, counts[sname])
						c.add(statusOf(ss == is), key, c.pos(ia), fmt.Sprintf("in %s, %s (a %s table) is indexed by an index of the same space", funcShortName(f), sname, ss),
							fmt.Sprintf("%s is a %s table but is indexed with a %s index: they coincide only while every input segment has the field; otherwise another segment's entry (renumbering, deletions, dictionary) is used", sname, ss, is),
							propOf(fn), []string{"access: " + describeInstr(p, ia)})
					})
				}
			}
			r25HelperCalls(c, propOf)
			want := 12
			c.check(total >= half(want), "classified-accesses", "-", fmt.Sprintf("indexed accesses whose table and index space are both known are found (at least %d)", want), fmt.Sprintf("found %d", total))
		},
	}
}

func derefSliceElem(t types.Type) types.Type {
	if sl, ok := t.Underlying().(*types.Slice); ok {
		return sl.Elem()
	}
	return t
}

// sizedByParam: every slice H returns (result 0) was made with the length of one and the same slice
// parameter; returns that parameter's index, or -1.
func sizedByParam(h *ssa.Function) int {
	if h == nil || len(h.Blocks) == 0 || h.Signature.Results().Len() == 0 {
		return -1
	}
	if _, ok := h.Signature.Results().At(0).Type().Underlying().(*types.Slice); !ok {
		return -1
	}
	k := -1
	for _, ret := range returnsOf(h) {
		rv := root(returnedValue(ret, 0))
		if isNilConst(rv) {
			continue
		}
		mk, ok := rv.(*ssa.MakeSlice)
		if !ok {
			return -1
		}
		la := lenArgOf(mk.Len)
		if la == nil {
			return -1
		}
		prm, ok := root(la).(*ssa.Parameter)
		if !ok {
			return -1
		}
		pi := -1
		for i, q := range h.Params {
			if q == prm {
				pi = i
			}
		}
		if pi < 0 || (k >= 0 && k != pi) {
			return -1
		}
		k = pi
	}
	return k
}

// helperAccess: in helper H the slice parameter `param` is indexed by an index that is in a fixed space
// (sp != spUnknown), ranges over parameter `over` (>= 0), or is the value `idx` (shared with other accesses).
type helperAccess struct {
	param int
	sp    idxSpace
	over  int
	idx   ssa.Value
	at    *ssa.IndexAddr
}

func helperAccesses(h *ssa.Function) []helperAccess {
	if h == nil || len(h.Blocks) == 0 {
		return nil
	}
	pidx := func(v ssa.Value) int {
		prm, ok := root(v).(*ssa.Parameter)
		if !ok {
			return -1
		}
		for i, q := range h.Params {
			if q == prm {
				if _, isSl := q.Type().Underlying().(*types.Slice); isSl {
					return i
				}
			}
		}
		return -1
	}
	ic := &idxCtx{fn: h, loops: map[*ssa.Function][]*natLoop{h: naturalLoops(h)}, active: map[string]bool{}, seg: map[string]bool{}, sized: map[ssa.Value]idxSpace{}}
	var out []helperAccess
	eachInstr(h, func(_ *ssa.BasicBlock, in ssa.Instruction) {
		ia, ok := in.(*ssa.IndexAddr)
		if !ok {
			return
		}
		pi := pidx(ia.X)
		if pi < 0 {
			return
		}
		acc := helperAccess{param: pi, over: -1, idx: root(ia.Index), at: ia}
		if sp := ic.indexSpace(ia.Index, 0); sp == spActive {
			acc.sp = sp
		}
		// a range / counting loop over another parameter (also when the position is kept in a variable
		// that starts at a constant: `src := -1; for i := range xs { …; src = i }; ys[src]`)
		acc.over = positionOver(h, ic, ia.Index, pidx, 0, map[ssa.Value]bool{})
		out = append(out, acc)
	})
	return out
}

// r25HelperCalls: a merge routine hands its tables to a helper that indexes them; the helper's accesses
// say which of its parameters must be in the same space (indexed by one index, or one indexed by a loop
// over the other) or in the enumerator's (active) space. The arguments at the call are checked against that.
func r25HelperCalls(c *RuleCtx, propOf func(*ssa.Function) []string) {
	p := c.p
	n := 0
	for _, fn := range p.ZapFuncs {
		if fn.Parent() != nil {
			continue
		}
		hasSeg := false
		for _, prm := range fn.Params {
			if isNamed(derefSliceElem(prm.Type()), zapPkgPath, "SegmentBase") {
				hasSeg = true
			}
		}
		if !hasSeg {
			continue
		}
		members := []*ssa.Function{fn}
		for _, f2 := range p.ZapFuncs {
			if f2.Parent() != nil && rootParent(f2) == fn {
				members = append(members, f2)
			}
		}
		ic := newIdxCtx(p, fn, members)
		counts := map[string]int{}
		for _, f := range members {
			for _, cs := range callSites(f) {
				h := staticCallee(cs)
				if h == nil || !p.InZap(h) || h.Parent() != nil || h == fn {
					continue
				}
				args := cs.Common().Args
				accs := append(helperAccesses(h), forwardedAccesses(p, h, 0)...)
				if len(accs) == 0 {
					continue
				}
				spaceOfArg := func(i int) idxSpace {
					if i < 0 || i >= len(args) {
						return spUnknown
					}
					sp := ic.sliceSpace(args[i])
					if sp == spLow {
						return spUnknown
					}
					return sp
				}
				var bad []string
				judged := false
				for i, a := range accs {
					sa := spaceOfArg(a.param)
					if sa == spUnknown {
						continue
					}
					if a.sp != spUnknown {
						judged = true
						if sa != a.sp {
							bad = append(bad, fmt.Sprintf("%s indexes its parameter %s with a %s index (%s), but is handed %s, a %s table", funcShortName(h), h.Params[a.param].Name(), a.sp, p.instrPos(a.at), valText(p, args[a.param]), sa))
						}
					}
					if a.over >= 0 && a.over != a.param {
						if sb := spaceOfArg(a.over); sb != spUnknown {
							judged = true
							if sa != sb {
								bad = append(bad, fmt.Sprintf("%s walks %s and indexes %s with the same position, but is handed a %s and a %s table", funcShortName(h), h.Params[a.over].Name(), h.Params[a.param].Name(), sb, sa))
							}
						}
					}
					for _, b := range accs[i+1:] {
						if b.param == a.param || b.idx != a.idx || a.idx == nil {
							continue
						}
						if sb := spaceOfArg(b.param); sb != spUnknown {
							judged = true
							if sa != sb {
								bad = append(bad, fmt.Sprintf("%s indexes %s and %s with one index, but is handed a %s and a %s table", funcShortName(h), h.Params[a.param].Name(), h.Params[b.param].Name(), sa, sb))
							}
						}
					}
				}
				if !judged {
					continue
				}
				n++
				counts[h.Name()]++
				key := fmt.Sprintf("%s/call/%s#%d", funcShortName(fn), h.Name(), counts[h.Name()])
				c.add(statusOf(len(bad) == 0), key, c.pos(cs), fmt.Sprintf("in %s the tables handed to %s are in the index spaces its accesses need", funcShortName(f), funcShortName(h)),
					"a table of one index space is handed to a helper that indexes it in another: they coincide only while every input segment has the field", propOf(fn), uniq(bad))
			}
		}
	}
	c.okP([]string{"C06", "C13"}, "helper-calls", "-", fmt.Sprintf("calls handing index-space-typed tables to helpers that index them: %d (pinned tree: 4)", n))
}

// positionOver: v is a position in parameter k of h — the index of a loop over it, possibly carried in a
// variable whose other values are constants, or the result of a helper that returns such a position of
// one of its parameters, handed parameter k. Returns k, or -1.
func positionOver(h *ssa.Function, ic *idxCtx, v ssa.Value, pidx func(ssa.Value) int, depth int, seen map[ssa.Value]bool) int {
	if v == nil || depth > 6 || seen[v] {
		return -1
	}
	seen[v] = true
	switch x := stripConv(root(v)).(type) {
	case *ssa.BinOp:
		if x.Op == token.ADD {
			if _, isK := constInt64(x.Y); isK {
				return positionOver(h, ic, x.X, pidx, depth+1, seen)
			}
		}
	case *ssa.Phi:
		for _, l := range ic.loops[h] {
			if l.header == x.Block() {
				if rs := l.rangedSlice(); rs != nil {
					if k := pidx(rs); k >= 0 {
						return k
					}
				}
			}
		}
		k := -1
		for _, e := range x.Edges {
			if _, isK := e.(*ssa.Const); isK || e == ssa.Value(x) {
				continue
			}
			ke := positionOver(h, ic, e, pidx, depth+1, seen)
			if ke < 0 || (k >= 0 && ke != k) {
				return -1
			}
			k = ke
		}
		return k
	case *ssa.Call:
		g := x.Call.StaticCallee()
		if g == nil || len(g.Blocks) == 0 || g == h {
			return -1
		}
		if kg := returnsPositionOf(g); kg >= 0 && kg < len(x.Call.Args) {
			return pidx(x.Call.Args[kg])
		}
	}
	return -1
}

// returnsPositionOf: every non-constant value g returns (first result, an int) is a position in one and
// the same slice parameter of g; returns its index, or -1.
func returnsPositionOf(g *ssa.Function) int {
	if g.Signature.Results().Len() == 0 {
		return -1
	}
	if bt, ok := g.Signature.Results().At(0).Type().Underlying().(*types.Basic); !ok || bt.Info()&types.IsInteger == 0 {
		return -1
	}
	pidx := func(v ssa.Value) int {
		prm, ok := root(v).(*ssa.Parameter)
		if !ok {
			return -1
		}
		for i, q := range g.Params {
			if q == prm {
				if _, isSl := q.Type().Underlying().(*types.Slice); isSl {
					return i
				}
			}
		}
		return -1
	}
	ic := &idxCtx{fn: g, loops: map[*ssa.Function][]*natLoop{g: naturalLoops(g)}, active: map[string]bool{}, seg: map[string]bool{}, sized: map[ssa.Value]idxSpace{}}
	k := -1
	for _, ret := range returnsOf(g) {
		rv := returnedValue(ret, 0)
		if _, isK := root(rv).(*ssa.Const); isK {
			continue
		}
		kr := positionOver(g, ic, rv, pidx, 0, map[ssa.Value]bool{})
		if kr < 0 || (k >= 0 && kr != k) {
			return -1
		}
		k = kr
	}
	return k
}

// forwardedAccesses: the constraints that helper h passes on from the helpers it hands its own slice
// parameters to (`mergeAndWrite(segs, infos, drops)` calls `soleIntact(infos, drops)`, which indexes drops
// by a position in infos).
func forwardedAccesses(p *Program, h *ssa.Function, depth int) []helperAccess {
	if depth > 2 || h == nil || len(h.Blocks) == 0 {
		return nil
	}
	pidx := func(v ssa.Value) int {
		prm, ok := root(v).(*ssa.Parameter)
		if !ok {
			return -1
		}
		for i, q := range h.Params {
			if q == prm {
				return i
			}
		}
		return -1
	}
	var out []helperAccess
	for _, cs := range callSites(h) {
		g := staticCallee(cs)
		if g == nil || !p.InZap(g) || g.Parent() != nil || g == h || len(g.Blocks) == 0 {
			continue
		}
		accs := append(helperAccesses(g), forwardedAccesses(p, g, depth+1)...)
		args := cs.Common().Args
		for _, a := range accs {
			if a.param >= len(args) {
				continue
			}
			pi := pidx(args[a.param])
			if pi < 0 {
				continue
			}
			na := helperAccess{param: pi, sp: a.sp, over: -1, idx: nil, at: a.at}
			if a.over >= 0 && a.over < len(args) {
				na.over = pidx(args[a.over])
			}
			if na.sp != spUnknown || na.over >= 0 {
				out = append(out, na)
			}
		}
	}
	return out
}
