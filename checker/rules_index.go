package main

// R25 INDEX-SPACE — per-segment tables are indexed in their own index space.
//
// The merge routines keep two families of parallel slices: the inputs, indexed
// by the position of a segment in the `segments` argument (SEG space), and the
// per-field compacted copies that only hold the segments which have the field
// (ACTIVE space: newDocNums, drops, dicts, itrs, thesauri, segmentsInFocus ...;
// built by appending inside the loop over the segments). The enumerator hands
// out ACTIVE indexes. Indexing a SEG slice with an ACTIVE index (or the other
// way round) is right only while every segment has every field.

import (
	"fmt"
	"go/token"
	"go/types"
	"strings"

	"golang.org/x/tools/go/ssa"
)

type idxSpace int

const (
	spUnknown idxSpace = iota
	spSeg
	spActive
	spLow // position in the enumerator's list of iterators standing on the current key
)

func (s idxSpace) String() string {
	return [...]string{"unknown", "segment-position", "active-position", "low-list-position"}[s]
}

// isLowList: v is one of the two parallel slices returned by
// enumerator.GetLowIdxsAndValues().
func isLowList(v ssa.Value) bool {
	ex, ok := root(v).(*ssa.Extract)
	if !ok {
		return false
	}
	call, ok := ex.Tuple.(*ssa.Call)
	if !ok {
		return false
	}
	f := call.Call.StaticCallee()
	return f != nil && f.Name() == "GetLowIdxsAndValues"
}

func isPerSegmentSliceType(t types.Type) bool {
	sl, ok := t.Underlying().(*types.Slice)
	if !ok {
		return false
	}
	e := sl.Elem()
	if isNamed(e, zapPkgPath, "SegmentBase") {
		return true
	}
	if isBitmapPtr(e) {
		_, isPtr := e.Underlying().(*types.Pointer)
		return isPtr
	}
	if s2, ok := e.Underlying().(*types.Slice); ok {
		if b, ok := s2.Elem().Underlying().(*types.Basic); ok && b.Kind() == types.Uint64 {
			return true
		}
	}
	return false
}

// varName: the source-level variable a slice value belongs to.
func varName(v ssa.Value, depth int) string {
	if depth > 6 || v == nil {
		return ""
	}
	switch x := v.(type) {
	case *ssa.Parameter:
		return x.Name()
	case *ssa.FreeVar:
		return x.Name()
	case *ssa.Phi:
		return x.Comment
	case *ssa.Alloc:
		return x.Comment
	case *ssa.UnOp:
		if x.Op == token.MUL {
			switch y := x.X.(type) {
			case *ssa.Alloc:
				return y.Comment
			case *ssa.FreeVar:
				return y.Name()
			}
		}
	case *ssa.Slice:
		return varName(x.X, depth+1)
	case *ssa.MakeSlice:
		return assignedNameAt(x.Parent(), x.Pos())
	case *ssa.Call:
		if b, ok := x.Call.Value.(*ssa.Builtin); ok && b.Name() == "append" {
			return varName(x.Call.Args[0], depth+1)
		}
	}
	return ""
}

type idxCtx struct {
	fn     *ssa.Function // outermost function
	loops  map[*ssa.Function][]*natLoop
	active map[string]bool // names of ACTIVE slices
	seg    map[string]bool // names of SEG slices
	// local tables allocated with the length of a table of known space (`make([]T, len(segments))`):
	// one slot per element of that table, so indexed in its space
	sized map[ssa.Value]idxSpace
}

func newIdxCtx(p *Program, fn *ssa.Function, members []*ssa.Function) *idxCtx {
	ic := &idxCtx{fn: fn, loops: map[*ssa.Function][]*natLoop{}, active: map[string]bool{}, seg: map[string]bool{}, sized: map[ssa.Value]idxSpace{}}
	for _, prm := range fn.Params {
		if isPerSegmentSliceType(prm.Type()) {
			ic.seg[prm.Name()] = true
		}
	}
	for _, f := range members {
		ic.loops[f] = naturalLoops(f)
	}
	// ACTIVE: slices appended to inside a loop that ranges over a SEG slice
	for changed := true; changed; {
		changed = false
		for _, f := range members {
			for _, l := range ic.loops[f] {
				rs := l.rangedSlice()
				if rs == nil {
					continue
				}
				sp := ic.sliceSpace(rs)
				if sp == spUnknown {
					continue
				}
				for b := range l.blocks {
					for _, in := range b.Instrs {
						call, ok := in.(*ssa.Call)
						if !ok {
							continue
						}
						if bi, ok := call.Call.Value.(*ssa.Builtin); !ok || bi.Name() != "append" {
							continue
						}
						n := varName(call.Call.Args[0], 0)
						if n == "" || ic.seg[n] || ic.active[n] {
							continue
						}
						// compaction: the append is conditional inside the loop (not every iteration appends)
						if !isSliceOfInterest(call.Type()) {
							continue
						}
						ic.active[n] = true
						changed = true
					}
				}
			}
		}
	}
	for _, f := range members {
		eachInstr(f, func(_ *ssa.BasicBlock, in ssa.Instruction) {
			mk, ok := in.(*ssa.MakeSlice)
			if !ok {
				return
			}
			la := lenArgOf(mk.Len)
			if la == nil {
				return
			}
			if sp := ic.sliceSpace(la); sp == spSeg || sp == spActive {
				// (an ACTIVE table grows while it is filled: a table sized by it at that point is not
				// reliably in its space; only SEG lengths are fixed)
				if sp == spSeg {
					ic.sized[mk] = sp
				}
			}
		})
	}
	return ic
}

func isSliceOfInterest(t types.Type) bool {
	_, ok := t.Underlying().(*types.Slice)
	return ok
}

func (ic *idxCtx) sliceSpace(v ssa.Value) idxSpace {
	if isLowList(v) {
		return spLow
	}
	if sp, ok := ic.sized[root(v)]; ok {
		return sp
	}
	if u, ok := v.(*ssa.UnOp); ok && u.Op == token.MUL {
		// through the local variable that holds it
		if cell := localCellOfLoad(u); cell != nil {
			sts := cellStores(cell)
			if len(sts) == 1 {
				if sp, ok := ic.sized[root(sts[0].Val)]; ok {
					return sp
				}
			}
		}
	}
	n := varName(v, 0)
	if n == "" {
		n = varName(root(v), 0)
	}
	switch {
	case ic.seg[n]:
		return spSeg
	case ic.active[n]:
		return spActive
	}
	return spUnknown
}

func (ic *idxCtx) indexSpace(v ssa.Value, depth int) idxSpace {
	if depth > 5 || v == nil {
		return spUnknown
	}
	r := root(v)
	switch x := r.(type) {
	case *ssa.Convert:
		return ic.indexSpace(x.X, depth+1)
	case *ssa.Extract:
		if call, ok := x.Tuple.(*ssa.Call); ok {
			if f := call.Call.StaticCallee(); f != nil && f.Name() == "Current" && f.Signature.Recv() != nil && isNamed(f.Signature.Recv().Type(), zapPkgPath, "enumerator") && x.Index == 1 {
				return spActive
			}
		}
	case *ssa.UnOp:
		// element of the enumerator's low-index list
		if x.Op == token.MUL {
			if ia, ok := x.X.(*ssa.IndexAddr); ok {
				if ex, ok := root(ia.X).(*ssa.Extract); ok {
					if call, ok := ex.Tuple.(*ssa.Call); ok {
						if f := call.Call.StaticCallee(); f != nil && f.Name() == "GetLowIdxsAndValues" && ex.Index == 0 {
							return spActive
						}
					}
				}
			}
		}
	case *ssa.BinOp:
		if x.Op == token.ADD {
			if ph, ok := x.X.(*ssa.Phi); ok && ph.Comment == "rangeindex" {
				return ic.loopSpace(ph)
			}
		}
	case *ssa.Phi:
		if x.Comment == "rangeindex" {
			return ic.loopSpace(x)
		}
		// classic for loop `for i := 0; i < len(x); i++`
		return ic.loopSpace(x)
	}
	return spUnknown
}

func (ic *idxCtx) loopSpace(ph *ssa.Phi) idxSpace {
	f := ph.Parent()
	for _, l := range ic.loops[f] {
		if l.header == ph.Block() {
			if rs := l.rangedSlice(); rs != nil {
				return ic.sliceSpace(rs)
			}
		}
	}
	return spUnknown
}

func ruleR25() *Rule {
	return &Rule{
		ID:    "R25",
		Title: "INDEX-SPACE: per-segment input tables and per-field compacted tables are each indexed in their own index space",
		Props: []string{"C06", "C13", "C15", "C05", "C09"},
		Floor: floorFor("R25"),
		Run: func(c *RuleCtx) {
			p := c.p
			propOf := func(fn *ssa.Function) []string {
				n := funcShortName(fn)
				switch {
				case strings.Contains(n, "Synonym"):
					return []string{"C13"}
				case strings.Contains(strings.ToLower(n), "faiss") || strings.Contains(strings.ToLower(n), "vector"):
					return []string{"C15"}
				case strings.Contains(n, "mergeStoredAndRemap") || strings.Contains(n, "computeNewDocCount"):
					return []string{"C05"}
				}
				if strings.Contains(n, "mergeAndPersistInvertedSection") {
					return []string{"C06", "C09"} // also feeds the chunk layout of the merged postings
				}
				return []string{"C06"}
			}
			total := 0
			for _, fn := range p.ZapFuncs {
				if fn.Parent() != nil {
					continue
				}
				hasSeg := false
				for _, prm := range fn.Params {
					if isNamed(derefSliceElem(prm.Type()), zapPkgPath, "SegmentBase") {
						hasSeg = true
					}
				}
				if !hasSeg {
					continue
				}
				members := []*ssa.Function{fn}
				for _, f2 := range p.ZapFuncs {
					if f2.Parent() != nil && rootParent(f2) == fn {
						members = append(members, f2)
					}
				}
				ic := newIdxCtx(p, fn, members)
				counts := map[string]int{}
				for _, f := range members {
					eachInstr(f, func(_ *ssa.BasicBlock, in ssa.Instruction) {
						ia, ok := in.(*ssa.IndexAddr)
						if !ok {
							return
						}
						ss := ic.sliceSpace(ia.X)
						is := ic.indexSpace(ia.Index, 0)
						if ss == spUnknown || is == spUnknown {
							return
						}
						total++
						sname := varName(ia.X, 0)
						if sname == "" {
							sname = varName(root(ia.X), 0)
						}
						counts[sname]++
						key := fmt.Sprintf("%s/%s#%d", funcShortName(fn), sname, counts[sname])
						c.add(statusOf(ss == is), key, c.pos(ia), fmt.Sprintf("in %s, %s (a %s table) is indexed by an index of the same space", funcShortName(f), sname, ss),
							fmt.Sprintf("%s is a %s table but is indexed with a %s index: they coincide only while every input segment has the field; otherwise another segment's entry (renumbering, deletions, dictionary) is used", sname, ss, is),
							propOf(fn), []string{"access: " + describeInstr(p, ia)})
					})
				}
			}
			want := 12
			c.check(total >= half(want), "classified-accesses", "-", fmt.Sprintf("indexed accesses whose table and index space are both known are found (at least %d)", want), fmt.Sprintf("found %d", total))
		},
	}
}

func derefSliceElem(t types.Type) types.Type {
	if sl, ok := t.Underlying().(*types.Slice); ok {
		return sl.Elem()
	}
	return t
}
