package main

// R19 VISITOR-CONTRACT + DOCNUM-GUARD, R20 STATE-SEGMENT-GUARD,
// R26 LOOP-EXHAUSTIVE, R4 CLONE-BEFORE-MUTATE, R3 FROZEN-AFTER-CTOR.

import (
	"fmt"
	"go/token"
	"go/types"
	"sort"
	"strings"

	"golang.org/x/tools/go/ssa"
)

// ---------------------------------------------------------------------------
// natural loops

type natLoop struct {
	header *ssa.BasicBlock
	blocks map[*ssa.BasicBlock]bool
}

func naturalLoops(fn *ssa.Function) []*natLoop {
	byHeader := map[*ssa.BasicBlock]*natLoop{}
	for _, b := range fn.Blocks {
		for _, s := range b.Succs {
			if s.Dominates(b) { // back edge b -> s
				l := byHeader[s]
				if l == nil {
					l = &natLoop{header: s, blocks: map[*ssa.BasicBlock]bool{s: true}}
					byHeader[s] = l
				}
				// blocks that reach b without passing s
				stack := []*ssa.BasicBlock{b}
				for len(stack) > 0 {
					x := stack[len(stack)-1]
					stack = stack[:len(stack)-1]
					if l.blocks[x] {
						continue
					}
					l.blocks[x] = true
					stack = append(stack, x.Preds...)
				}
			}
		}
	}
	var out []*natLoop
	for _, b := range fn.Blocks {
		if l := byHeader[b]; l != nil {
			out = append(out, l)
		}
	}
	return out
}

// rangedSlice: the loop is `for i[, v] := range X` (or `for i := 0; i < len(X); i++`);
// returns X.
func (l *natLoop) rangedSlice() ssa.Value {
	iff, ok := l.header.Instrs[len(l.header.Instrs)-1].(*ssa.If)
	if !ok {
		return nil
	}
	bo, ok := iff.Cond.(*ssa.BinOp)
	if !ok || bo.Op != token.LSS {
		return nil
	}
	call, ok := bo.Y.(*ssa.Call)
	if !ok {
		return nil
	}
	if b, ok := call.Call.Value.(*ssa.Builtin); !ok || b.Name() != "len" {
		return nil
	}
	return call.Call.Args[0]
}

// startIndex: the first index the loop body sees (0 for range loops).
func (l *natLoop) startIndex() (int64, bool) {
	iff, ok := l.header.Instrs[len(l.header.Instrs)-1].(*ssa.If)
	if !ok {
		return 0, false
	}
	bo, ok := iff.Cond.(*ssa.BinOp)
	if !ok {
		return 0, false
	}
	idx := bo.X
	add := int64(0)
	if b2, ok := idx.(*ssa.BinOp); ok && b2.Op == token.ADD {
		if k, ok := constInt64(b2.Y); ok {
			add = k
			idx = b2.X
		}
	}
	ph, ok := idx.(*ssa.Phi)
	if !ok || ph.Block() != l.header {
		return 0, false
	}
	for i, p := range l.header.Preds {
		if !l.blocks[p] {
			if k, ok := constInt64(ph.Edges[i]); ok {
				return k + add, true
			}
			if k, ok := constUint64(ph.Edges[i]); ok {
				return int64(k) + add, true
			}
			return 0, false
		}
	}
	return 0, false
}

// leadsToFailureReturn: every path from b reaches a return of a non-nil error
// without re-entering the loop.
func leadsToFailureReturn(b *ssa.BasicBlock, loop *natLoop, depth int, seen map[*ssa.BasicBlock]bool) bool {
	if depth > 12 || loop.blocks[b] {
		return false
	}
	if seen[b] {
		return true
	}
	seen[b] = true
	if len(b.Succs) == 0 {
		if ret, ok := b.Instrs[len(b.Instrs)-1].(*ssa.Return); ok {
			_, ns := errorOfReturn(ret)
			return ns == nonNil
		}
		return true // panic
	}
	for _, s := range b.Succs {
		if !leadsToFailureReturn(s, loop, depth+1, seen) {
			return false
		}
	}
	return true
}

// loops over input lists whose early exit is a legitimate part of the algorithm
var loopExitOK = map[string]string{}

func ruleR26() *Rule {
	return &Rule{
		ID:    "R26",
		Title: "LOOP-EXHAUSTIVE: a loop over an input list is left early only towards an error return",
		Props: []string{"C02", "C05", "C06", "C03", "C13", "C04"},
		Floor: floorFor("R26"),
		Run: func(c *RuleCtx) {
			r26StaleSegmentState(c)
			// (function, ranged parameter) pairs that the properties quantify over "every element of"
			type target struct {
				typ, fn, param string
				props          []string
			}
			targets := []target{
				{"SegmentBase", "DocNumbers", "ids", []string{"C02"}},
				{"", "mergeStoredAndRemap", "segments", []string{"C05"}},
				{"", "computeNewDocCount", "segments", []string{"C05"}},
				{"", "mergeFields", "segments", []string{"C05"}},
				{"", "persistFieldsSection", "fieldsInv", []string{"C05", "C06"}},
				{"", "mergeAndPersistInvertedSection", "fieldsInv", []string{"C06"}},
				{"", "mergeAndPersistInvertedSection", "segments", []string{"C06"}},
				{"", "mergeAndPersistSynonymSection", "fieldsInv", []string{"C13"}},
				{"", "mergeAndPersistSynonymSection", "segments", []string{"C13"}},
				{"SegmentBase", "VisitDocValues", "fields", []string{"C03"}},
				// the two sibling doc-value loaders visit every field
				{"Segment", "loadDvReaders", "field:SegmentBase.fieldsInv", []string{"C03", "C04"}},
				{"SegmentBase", "loadDvReaders", "field:SegmentBase.fieldsSectionsMap", []string{"C03", "C04"}},
				{"SegmentBase", "loadFieldsNew", "count:numFields", []string{"C04"}},
			}
			for _, t := range targets {
				var fn *ssa.Function
				if t.typ != "" {
					fn = c.method(t.typ, t.fn)
				} else {
					fn = c.fn(t.fn)
				}
				if fn == nil {
					continue
				}
				name := funcShortName(fn)
				n := 0
				for _, l := range naturalLoops(fn) {
					rs := l.rangedSlice()
					if rs == nil {
						continue
					}
					if strings.HasPrefix(t.param, "field:") {
						sn, fld, _, ok := loadedField(root(rs))
						if !ok || sn+"."+fld != strings.TrimPrefix(t.param, "field:") {
							continue
						}
					} else if strings.HasPrefix(t.param, "count:") {
						continue
					} else {
						p, ok := root(rs).(*ssa.Parameter)
						if !ok || canonParamName(p) != t.param {
							continue
						}
					}
					n++
					var bad []string
					// the loop starts at the first element
					if start, known := l.startIndex(); known && start > 0 {
						bad = append(bad, fmt.Sprintf("the loop starts at index %d: the first %d element(s) are never processed", start, start))
					}
					var blocks []*ssa.BasicBlock
					for b := range l.blocks {
						blocks = append(blocks, b)
					}
					sort.Slice(blocks, func(i, j int) bool { return blocks[i].Index < blocks[j].Index })
					for _, b := range blocks {
						if b == l.header {
							continue
						}
						for _, s := range b.Succs {
							if l.blocks[s] {
								continue
							}
							if leadsToFailureReturn(s, l, 0, map[*ssa.BasicBlock]bool{}) {
								continue
							}
							if pureSearchLoop(c.p, l) {
								continue // a look-up of the first element with some quality: nothing is processed here
							}
							bad = append(bad, "early exit from the loop: "+describeInstr(c.p, b.Instrs[len(b.Instrs)-1])+" -> block "+fmt.Sprint(s.Index))
						}
					}
					key := fmt.Sprintf("%s/range-%s", name, t.param)
					if n > 1 {
						key += fmt.Sprintf("#%d", n)
					}
					c.add(statusOf(len(bad) == 0), key, c.p.instrPos(l.header.Instrs[len(l.header.Instrs)-1]),
						fmt.Sprintf("the loop over %s in %s processes every element: it is left early only by returning an error", t.param, name),
						"the loop can stop before the end of the list without reporting an error: the remaining elements are silently ignored", t.props, bad)
					r26Flags(c, l, key, name, t.param, t.props)
				}
				// flags carried round loops over tables derived from the list (the segments in focus)
				if !strings.Contains(t.param, ":") {
					var elem types.Type
					for _, p := range fn.Params {
						if canonParamName(p) == t.param {
							if sl, ok := p.Type().Underlying().(*types.Slice); ok {
								elem = sl.Elem()
							}
						}
					}
					k := 0
					for _, l := range naturalLoops(fn) {
						rs := l.rangedSlice()
						if rs == nil || elem == nil {
							continue
						}
						if p, ok := root(rs).(*ssa.Parameter); ok && canonParamName(p) == t.param {
							continue // judged above
						}
						if sl, ok := rs.Type().Underlying().(*types.Slice); !ok || !types.Identical(sl.Elem(), elem) {
							continue
						}
						if _, isPtr := elem.(*types.Pointer); !isPtr {
							continue
						}
						k++
						r26Flags(c, l, fmt.Sprintf("%s/range-derived-%s#%d", name, t.param, k), name, "a table derived from "+t.param, t.props)
					}
				}
				if strings.HasPrefix(t.param, "count:") {
					// `for i < n` counted loop over a decoded count: must start at 0 and only leave on error
					for _, l := range naturalLoops(fn) {
						iff, ok := l.header.Instrs[len(l.header.Instrs)-1].(*ssa.If)
						if !ok {
							continue
						}
						bo, ok := iff.Cond.(*ssa.BinOp)
						if !ok || bo.Op != token.LSS {
							continue
						}
						// the counter runs up to a count decoded from the file (a result of binary.Uvarint)
						if _, ok := bo.X.(*ssa.Phi); !ok {
							continue
						}
						isDecoded := false
						if ex, ok := bo.Y.(*ssa.Extract); ok {
							if call, ok := ex.Tuple.(*ssa.Call); ok {
								if f := call.Call.StaticCallee(); f != nil && f.String() == "encoding/binary.Uvarint" {
									isDecoded = true
								}
							}
						}
						if !isDecoded {
							continue
						}
						n++
						var bad []string
						if start, known := l.startIndex(); known && start > 0 {
							bad = append(bad, fmt.Sprintf("the loop starts at index %d", start))
						}
						for b := range l.blocks {
							if b == l.header {
								continue
							}
							for _, s2 := range b.Succs {
								if !l.blocks[s2] && !leadsToFailureReturn(s2, l, 0, map[*ssa.BasicBlock]bool{}) {
									bad = append(bad, "early exit: "+describeInstr(c.p, b.Instrs[len(b.Instrs)-1]))
								}
							}
						}
						c.add(statusOf(len(bad) == 0), name+"/count-loop", c.p.instrPos(iff), "the field loop of "+name+" covers every field record from the first, leaving early only on error", "fields can be skipped", t.props, bad)
					}
				}
				if n == 0 && !strings.Contains(t.param, ":") {
					// the list handed whole to helpers of the package that walk it: judged there
					var prm *ssa.Parameter
					for _, q := range fn.Params {
						if canonParamName(q) == t.param {
							prm = q
						}
					}
					if prm != nil {
						for _, cs := range callSites(fn) {
							g := staticCallee(cs)
							if g == nil || !c.p.InZap(g) || len(g.Blocks) == 0 || g == fn {
								continue
							}
							for ai, a := range cs.Common().Args {
								if root(a) != ssa.Value(prm) || ai >= len(g.Params) {
									continue
								}
								for _, l := range naturalLoops(g) {
									rs := l.rangedSlice()
									if rs == nil || root(rs) != ssa.Value(g.Params[ai]) {
										continue
									}
									n++
									var bad []string
									if start, known := l.startIndex(); known && start > 0 {
										bad = append(bad, fmt.Sprintf("the loop starts at index %d", start))
									}
									for b := range l.blocks {
										if b == l.header {
											continue
										}
										for _, sx := range b.Succs {
											if l.blocks[sx] || leadsToFailureReturn(sx, l, 0, map[*ssa.BasicBlock]bool{}) || pureSearchLoop(c.p, l) {
												continue
											}
											bad = append(bad, "early exit from the loop: "+describeInstr(c.p, b.Instrs[len(b.Instrs)-1]))
										}
									}
									sort.Strings(bad)
									c.add(statusOf(len(bad) == 0), fmt.Sprintf("%s/range-%s/in-%s#%d", name, t.param, g.Name(), n), c.p.instrPos(l.header.Instrs[len(l.header.Instrs)-1]),
										fmt.Sprintf("the loop over %s that %s hands to %s processes every element: it is left early only by returning an error", t.param, name, funcShortName(g)),
										"the loop can stop before the end of the list without reporting an error: the remaining elements are silently ignored", t.props, bad)
								}
							}
						}
					}
				}
				if n == 0 {
					c.undecidedP(t.props, name+"/range-"+t.param, c.fpos(fn), "the loop over "+t.param+" is found in "+name, "no range loop over that parameter (rewritten into an idiom this rule does not read)")
				}
			}
		},
	}
}

// pureSearchLoop: the loop changes nothing but its own local variables (no store, no map update, no
// call that could): leaving it early skips no processing, it is how a search ends.
func pureSearchLoop(p *Program, l *natLoop) bool {
	var pure func(f *ssa.Function, depth int) bool
	pure = func(f *ssa.Function, depth int) bool {
		if f == nil || depth > 2 {
			return false
		}
		if f.Pkg != nil && strings.Contains(f.Pkg.Pkg.Path(), "roaring") {
			switch f.Name() {
			case "GetCardinality", "IsEmpty", "Contains":
				return true
			}
			return false
		}
		if !p.InZap(f) || len(f.Blocks) == 0 {
			return false
		}
		ok := true
		eachInstr(f, func(_ *ssa.BasicBlock, in ssa.Instruction) {
			switch x := in.(type) {
			case *ssa.Store, *ssa.MapUpdate, *ssa.Send, *ssa.Go, *ssa.Defer, *ssa.Panic:
				ok = false
			case *ssa.Call:
				if _, isB := x.Call.Value.(*ssa.Builtin); isB {
					return
				}
				if !pure(x.Call.StaticCallee(), depth+1) {
					ok = false
				}
			}
		})
		return ok
	}
	for b := range l.blocks {
		for _, in := range b.Instrs {
			switch x := in.(type) {
			case *ssa.Store, *ssa.MapUpdate, *ssa.Send, *ssa.Go, *ssa.Defer, *ssa.Panic:
				return false
			case *ssa.Call:
				if _, isB := x.Call.Value.(*ssa.Builtin); isB {
					continue
				}
				if !pure(x.Call.StaticCallee(), 0) {
					return false
				}
			}
		}
	}
	return true
}

// r26Flags (R26c ACCUMULATING-FLAG): a boolean that is carried round a loop over an input list and read
// after it summarises the whole list ("some segment has…", "all segments agree…"). Every value it takes at
// the end of an iteration must then be its previous value, a constant, or a combination that involves
// its previous value; an iteration that overwrites it with a fresh per-element answer makes the last
// element decide for all.
func r26Flags(c *RuleCtx, l *natLoop, key, name, param string, props []string) {
	for _, in := range l.header.Instrs {
		ph, ok := in.(*ssa.Phi)
		if !ok {
			break
		}
		if b, ok := ph.Type().Underlying().(*types.Basic); !ok || b.Kind() != types.Bool {
			continue
		}
		// read after the loop (or outside it in any way)?
		readOutside := false
		var seenU = map[ssa.Value]bool{}
		var uses func(v ssa.Value)
		uses = func(v ssa.Value) {
			if seenU[v] {
				return
			}
			seenU[v] = true
			for _, r := range *v.Referrers() {
				if !l.blocks[r.Block()] {
					readOutside = true
					return
				}
				if p2, ok := r.(*ssa.Phi); ok {
					uses(p2)
				}
			}
		}
		uses(ph)
		if !readOutside {
			continue
		}
		var fresh []string
		seen := map[ssa.Value]bool{}
		var derives func(v ssa.Value) bool
		derives = func(v ssa.Value) bool {
			if v == ssa.Value(ph) || seen[v] {
				return true
			}
			seen[v] = true
			switch x := v.(type) {
			case *ssa.Const:
				return true
			case *ssa.Phi:
				if !l.blocks[x.Block()] {
					return false
				}
				// `flag || answer` / `flag && answer`: a short-circuit phi one of whose conditions is the flag
				if x.Comment == "||" || x.Comment == "&&" {
					for _, pr := range x.Block().Preds {
						if iff, ok := pr.Instrs[len(pr.Instrs)-1].(*ssa.If); ok && mentions(iff.Cond, ph, l, 0) {
							return true
						}
					}
				}
				for _, e := range x.Edges {
					if !derives(e) {
						return false
					}
				}
				return true
			case *ssa.BinOp:
				if x.Op == token.OR || x.Op == token.AND || x.Op == token.LOR || x.Op == token.LAND {
					return mentions(x.X, ph, l, 0) || mentions(x.Y, ph, l, 0)
				}
			}
			return false
		}
		for i, pr := range l.header.Preds {
			if !l.blocks[pr] {
				continue
			}
			if !derives(ph.Edges[i]) {
				fresh = append(fresh, "at the end of an iteration it holds "+valText(c.p, ph.Edges[i])+", which does not involve its previous value")
			}
		}
		vn := ph.Comment
		if vn == "" {
			vn = ph.Name()
		}
		c.add(statusOf(len(fresh) == 0), key+"/flag/"+vn, c.p.instrPos(ph),
			fmt.Sprintf("the flag %s that %s carries round its loop over %s and reads afterwards accumulates over the elements", vn, name, param),
			"the flag is overwritten by each element's own answer: the last element decides for the whole list", props, fresh)
	}
}

func valText(p *Program, v ssa.Value) string {
	if in, ok := v.(ssa.Instruction); ok {
		return describeInstr(p, in)
	}
	return v.Name() + " (" + v.String() + ")"
}

// mentions: v is ph or is computed (inside the loop, through phis and boolean operators) from ph
func mentions(v ssa.Value, ph *ssa.Phi, l *natLoop, depth int) bool {
	if v == ssa.Value(ph) {
		return true
	}
	if depth > 6 {
		return false
	}
	switch x := v.(type) {
	case *ssa.Phi:
		for _, e := range x.Edges {
			if mentions(e, ph, l, depth+1) {
				return true
			}
		}
	case *ssa.BinOp:
		return mentions(x.X, ph, l, depth+1) || mentions(x.Y, ph, l, depth+1)
	case *ssa.UnOp:
		return mentions(x.X, ph, l, depth+1)
	}
	return false
}

// holdsNoRefs: values of this type are plain data (copying one shares nothing with the original)
func holdsNoRefs(t types.Type) bool {
	switch x := t.Underlying().(type) {
	case *types.Basic:
		return x.Kind() != types.UnsafePointer
	case *types.Array:
		return holdsNoRefs(x.Elem())
	case *types.Struct:
		for i := 0; i < x.NumFields(); i++ {
			if !holdsNoRefs(x.Field(i).Type()) {
				return false
			}
		}
		return true
	}
	return false
}

// readOnlyReceiver: the method never stores through its receiver, never stores the receiver anywhere
// and hands it only to methods with the same property.
func readOnlyReceiver(f *ssa.Function, mutating map[*ssa.Function]bool, depth int) bool {
	if f == nil || len(f.Blocks) == 0 || f.Signature.Recv() == nil || len(f.Params) == 0 || depth > 3 {
		return false
	}
	recv := f.Params[0]
	for _, r := range *recv.Referrers() {
		switch x := r.(type) {
		case *ssa.DebugRef:
		case *ssa.FieldAddr:
			if !onlyReadThrough(x, 0) {
				return false
			}
		case *ssa.BinOp:
		case ssa.CallInstruction:
			g := staticCallee(x)
			if g == nil || mutating[g] || len(x.Common().Args) == 0 || x.Common().Args[0] != ssa.Value(recv) || !readOnlyReceiver(g, mutating, depth+1) {
				return false
			}
		default:
			return false
		}
	}
	return true
}

// onlyReadThrough: the address is only loaded from, and what is loaded is only measured, compared,
// indexed for reading or sliced for reading.
func onlyReadThrough(addr ssa.Value, depth int) bool {
	if depth > 4 {
		return false
	}
	for _, r := range *addr.Referrers() {
		switch x := r.(type) {
		case *ssa.DebugRef:
		case *ssa.UnOp:
			if x.Op != token.MUL {
				return false
			}
			if holdsNoRefs(x.Type()) {
				continue
			}
			for _, r2 := range *x.Referrers() {
				switch y := r2.(type) {
				case *ssa.DebugRef, *ssa.BinOp:
				case *ssa.Call:
					if bi, ok := y.Call.Value.(*ssa.Builtin); !ok || (bi.Name() != "len" && bi.Name() != "cap") {
						return false
					}
				case *ssa.IndexAddr:
					if !onlyReadThrough(y, depth+1) {
						return false
					}
				case *ssa.Slice:
					for _, r3 := range *y.Referrers() {
						switch r3.(type) {
						case *ssa.DebugRef:
						default:
							return false
						}
					}
				case *ssa.Index, *ssa.Lookup, *ssa.Range:
				default:
					return false
				}
			}
		case *ssa.FieldAddr:
			if !onlyReadThrough(x, depth+1) {
				return false
			}
		case *ssa.IndexAddr:
			if !onlyReadThrough(x, depth+1) {
				return false
			}
		default:
			return false
		}
	}
	return true
}

// ---------------------------------------------------------------------------
// R19

func ruleR19() *Rule {
	return &Rule{
		ID:    "R19",
		Title: "VISITOR-CONTRACT + DOCNUM-GUARD: a visitor's stop request is honoured on every path; out-of-range document numbers never index the stored table",
		Props: []string{"C02"},
		Floor: floorFor("R19"),
		Run: func(c *RuleCtx) {
			r19Visitor(c)
			r19DocNum(c)
		},
	}
}

func r19Visitor(c *RuleCtx) {
	fn := c.method("SegmentBase", "visitStoredFields")
	if fn == nil {
		return
	}
	var visitor *ssa.Parameter
	for _, p := range fn.Params {
		if _, ok := p.Type().Underlying().(*types.Signature); ok {
			visitor = p
		}
	}
	if visitor == nil {
		c.undecided("visitor-param", c.fpos(fn), "the visitor callback parameter is found", "no func-typed parameter")
		return
	}
	var calls []*ssa.Call
	eachInstr(fn, func(_ *ssa.BasicBlock, in ssa.Instruction) {
		if call, ok := in.(*ssa.Call); ok && call.Call.Value == ssa.Value(visitor) {
			calls = append(calls, call)
		}
	})
	c.check(len(calls) >= 2, "visitor-calls", c.fpos(fn), "visitor call sites are found in visitStoredFields (confirmed by hand: 2)", fmt.Sprintf("found %d", len(calls)))
	isResult := func(v ssa.Value) bool {
		for _, cl := range calls {
			if v == ssa.Value(cl) {
				return true
			}
		}
		if ph, ok := v.(*ssa.Phi); ok {
			for _, e := range ph.Edges {
				for _, cl := range calls {
					if e == ssa.Value(cl) {
						return true
					}
				}
			}
		}
		return false
	}
	const (
		evPendMask = 3      // which visitor call's result is still untested (0 = none)
		evStop     = 1 << 2 // the visitor asked to stop
		evCarried  = 1 << 3 // the loop variable (phi) currently holds the pending result
		evPending  = evPendMask
	)
	callID := func(v ssa.Value) uint64 {
		for i, cl := range calls {
			if v == ssa.Value(cl) && i < 3 {
				return uint64(i + 1)
			}
		}
		return 0
	}
	pa := newPathAnalysis(fn, func(in ssa.Instruction, ev uint64, _ bool) []uint64 {
		if v, ok := in.(ssa.Value); ok {
			if id := callID(v); id != 0 {
				return []uint64{(ev &^ (evPendMask | evStop | evCarried)) | id}
			}
		}
		return nil
	})
	pa.edgeTr = func(pred *ssa.BasicBlock, succIdx int, ev uint64) uint64 {
		succ := pred.Succs[succIdx]
		// 1. the branch just taken
		if iff, ok := pred.Instrs[len(pred.Instrs)-1].(*ssa.If); ok && pred.Succs[0] != pred.Succs[1] {
			cond := iff.Cond
			neg := false
			for {
				if u, ok := cond.(*ssa.UnOp); ok && u.Op == token.NOT {
					cond, neg = u.X, !neg
					continue
				}
				break
			}
			tests := false
			if id := callID(cond); id != 0 && ev&evPendMask == id {
				tests = true
			}
			if ph, ok := cond.(*ssa.Phi); ok && isResult(ph) && ev&evCarried != 0 {
				tests = true
			}
			if tests {
				goOn := succIdx == 0
				if neg {
					goOn = !goOn
				}
				ev &^= evPendMask | evCarried
				if goOn {
					ev &^= evStop
				} else {
					ev |= evStop
				}
			}
		}
		// 2. phis of the successor: does the loop variable now hold the pending result?
		predIdx := -1
		for i, p := range succ.Preds {
			if p == pred {
				predIdx = i
				break
			}
		}
		if predIdx >= 0 {
			for _, in := range succ.Instrs {
				ph, ok := in.(*ssa.Phi)
				if !ok {
					break
				}
				if !isResult(ph) {
					continue
				}
				if id := callID(ph.Edges[predIdx]); id != 0 && ev&evPendMask == id {
					ev |= evCarried
				} else if _, isConst := ph.Edges[predIdx].(*ssa.Const); isConst {
					ev &^= evCarried
				}
			}
		}
		return ev
	}
	pa.run(0)
	// (c) what is handed to the visitor for one value is computed for that value: following
	// phi edges only, an argument must not be a loop-header phi (a value carried over from
	// the previous iteration, e.g. a variable that used to be declared inside the loop)
	loops := naturalLoops(fn)
	for i, cl := range calls {
		var hdrs []*ssa.BasicBlock
		for _, l := range loops {
			if l.blocks[cl.Block()] {
				hdrs = append(hdrs, l.header)
			}
		}
		if len(hdrs) == 0 {
			continue
		}
		var stale []string
		for ai, a := range cl.Call.Args {
			seen := map[ssa.Value]bool{}
			var carried func(v ssa.Value) bool
			carried = func(v ssa.Value) bool {
				if seen[v] {
					return false
				}
				seen[v] = true
				ph, ok := v.(*ssa.Phi)
				if !ok {
					return false
				}
				for _, h := range hdrs {
					if ph.Block() == h {
						return true
					}
				}
				for _, e := range ph.Edges {
					if carried(e) {
						return true
					}
				}
				return false
			}
			if carried(a) {
				stale = append(stale, fmt.Sprintf("argument %d (%s) can be the value left over from the previous stored value", ai, a.Name()))
			}
		}
		c.check(len(stale) == 0, fmt.Sprintf("visitor-args-fresh#%d", i+1), c.pos(cl), "inside the loop over stored values, no visitor argument is a loop-carried variable", strings.Join(stale, "; "))
	}
	for i, cl := range calls {
		okc := true
		why := ""
		for _, ev := range pa.statesBefore(cl) {
			if ev&evStop != 0 {
				okc = false
				why = "the visitor is called again after it returned false"
			}
			if ev&evPendMask != 0 {
				okc = false
				why = "the visitor is called again although its previous result was never tested"
			}
		}
		c.check(okc, fmt.Sprintf("visitor-stop-honoured#%d", i+1), c.pos(cl), "every visitor call happens only after all earlier visitor results were tested and were true",
			why, "call: "+describeInstr(c.p, cl))
	}
	// after a stop request nothing more is decoded for the visitor: the function returns nil
}

// docnumGuard looks for a comparison of prm with SegmentBase.numDocs that
// dominates block b and classifies it by its truth table.
func docnumGuard(b *ssa.BasicBlock, prm *ssa.Parameter) (ok, found bool, desc string) {
	desc = "no comparison of the document number with the segment's document count dominates the access"
	for ; b != nil; b = b.Idom() {
		pb := b.Idom()
		if pb == nil {
			break
		}
		iff, isIf := pb.Instrs[len(pb.Instrs)-1].(*ssa.If)
		if !isIf {
			continue
		}
		bo, isBO := iff.Cond.(*ssa.BinOp)
		if !isBO {
			continue
		}
		var op token.Token
		switch {
		case root(bo.X) == ssa.Value(prm) && isLoadOfField(bo.Y, "SegmentBase", "numDocs"):
			op = bo.Op
		case root(bo.Y) == ssa.Value(prm) && isLoadOfField(bo.X, "SegmentBase", "numDocs"):
			switch bo.Op {
			case token.LSS:
				op = token.GTR
			case token.LEQ:
				op = token.GEQ
			case token.GTR:
				op = token.LSS
			case token.GEQ:
				op = token.LEQ
			default:
				op = bo.Op
			}
		default:
			continue
		}
		var towardsTrue bool
		switch {
		case pb.Succs[0] == b && len(b.Preds) == 1:
			towardsTrue = true
		case pb.Succs[1] == b && len(b.Preds) == 1:
			towardsTrue = false
		default:
			continue
		}
		// orderings of (num, numDocs): num<numDocs, ==, >
		lt, _ := cmpInt(op, 0, 1)
		eq, _ := cmpInt(op, 1, 1)
		gt, _ := cmpInt(op, 2, 1)
		rl, re, rg := lt == towardsTrue, eq == towardsTrue, gt == towardsTrue
		desc = fmt.Sprintf("guard `num %s numDocs`: read when num<numDocs:%v num==numDocs:%v num>numDocs:%v", op, rl, re, rg)
		return rl && !re && !rg, true, desc
	}
	return false, false, desc
}

// docnumGuarded: the access at cs (document number = prm) is guarded in its
// own function, or — when the function is an unexported helper that does not
// compare at all — at every one of its call sites.
func docnumGuarded(p *Program, cs ssa.CallInstruction, prm *ssa.Parameter, depth int) (bool, string, int) {
	ok, found, desc := docnumGuard(cs.Block(), prm)
	if found {
		return ok, desc, 1
	}
	fn := cs.Parent()
	if depth >= 2 || fn.Parent() != nil || fn.Object() == nil || fn.Object().Exported() {
		return false, desc, 1
	}
	idx := -1
	for i, q := range fn.Params {
		if q == prm {
			idx = i
		}
	}
	var sites []ssa.CallInstruction
	for _, s := range p.callersOf(fn) {
		if par := s.Parent(); par.Synthetic != "" && len(p.callersOf(par)) == 0 {
			continue
		}
		sites = append(sites, s)
	}
	if idx < 0 || len(sites) == 0 {
		return false, desc, 1
	}
	n := 0
	for _, s := range sites {
		args := s.Common().Args
		if s.Common().IsInvoke() || idx >= len(args) {
			return false, desc, 1
		}
		prm2, isP := root(args[idx]).(*ssa.Parameter)
		if !isP {
			return false, "the helper " + funcShortName(fn) + " is handed a document number that is not a parameter of its caller at " + p.instrPos(s), 1
		}
		ok2, d2, k := docnumGuarded(p, s, prm2, depth+1)
		if !ok2 {
			return false, "in caller " + funcShortName(s.Parent()) + ": " + d2, 1
		}
		n += k
	}
	return true, "guarded at every call site of " + funcShortName(fn), n
}

func r19DocNum(c *RuleCtx) {
	p := c.p
	// functions that index the stored-offset table by a document number
	// (the two of the pinned tree by name, and any other function that computes storedIndexOffset + 8*n
	// from one of its parameters)
	indexers := map[string]bool{"getDocStoredMetaAndCompressed": true, "getDocStoredOffsets": true}
	indexParam := map[*ssa.Function]int{}
	for _, fn := range p.ZapFuncs {
		if i := storedIndexParam(fn); i >= 0 {
			indexers[fn.Name()] = true
			indexParam[fn] = i
		}
	}
	n := 0
	for _, fn := range p.ZapFuncs {
		if indexers[fn.Name()] || namedFn(fn, "SegmentBase.copyStoredDocs") {
			continue // copyStoredDocs passes 0 / numDocs-1 under its own numDocs > 0 guard
		}
		for _, cs := range callSites(fn) {
			callee := staticCallee(cs)
			if callee == nil || !indexers[callee.Name()] || !p.InZap(callee) {
				continue
			}
			args := cs.Common().Args
			num := args[len(args)-1]
			if i, ok := indexParam[callee]; ok && i < len(args) {
				num = args[i]
			}
			prm, ok := root(num).(*ssa.Parameter)
			if !ok {
				continue
			}
			okc, desc, k := docnumGuarded(p, cs, prm, 0)
			n += k
			c.check(okc, "docnum-guard/"+funcShortName(fn), c.pos(cs), "in "+funcShortName(fn)+" the stored-offset table is indexed only for document numbers below Count (truth table {<: read, =: skip, >: skip})", desc, "call: "+describeInstr(p, cs))
		}
	}
	c.check(n >= 2, "docnum-guard/sites", "-", "stored-table accesses by a caller-supplied document number are found (confirmed by hand: visitStoredFields, DocID)", fmt.Sprintf("found %d", n))
}

// storedIndexParam: the parameter of fn from which it computes a position in the stored-document index
// (SegmentBase.storedIndexOffset + 8*n), or -1.
func storedIndexParam(fn *ssa.Function) int {
	if len(fn.Blocks) == 0 {
		return -1
	}
	fromParam := func(v ssa.Value) int {
		for d := 0; d < 4; d++ {
			switch x := v.(type) {
			case *ssa.Parameter:
				for i, q := range fn.Params {
					if q == x {
						return i
					}
				}
				return -1
			case *ssa.Convert:
				v = x.X
			case *ssa.BinOp:
				if _, ok := x.Y.(*ssa.Const); ok {
					v = x.X
				} else if _, ok := x.X.(*ssa.Const); ok {
					v = x.Y
				} else {
					return -1
				}
			default:
				return -1
			}
		}
		return -1
	}
	res := -1
	eachInstr(fn, func(_ *ssa.BasicBlock, in ssa.Instruction) {
		bo, ok := in.(*ssa.BinOp)
		if !ok || bo.Op != token.ADD || res >= 0 {
			return
		}
		for _, pr := range [][2]ssa.Value{{bo.X, bo.Y}, {bo.Y, bo.X}} {
			if sn, fld, _, ok := loadedField(pr[0]); !ok || sn != "SegmentBase" || fld != "storedIndexOffset" {
				continue
			}
			mul, ok := pr[1].(*ssa.BinOp)
			if !ok || mul.Op != token.MUL {
				continue
			}
			for _, q := range [][2]ssa.Value{{mul.X, mul.Y}, {mul.Y, mul.X}} {
				if k, ok := constUint64(q[0]); ok && k == 8 {
					if i := fromParam(q[1]); i >= 0 {
						res = i
					}
				}
			}
		}
	})
	return res
}

// ---------------------------------------------------------------------------
// R20

// dropsReaders: the value stored into docVisitState.dvrs forgets the old readers (nil or a fresh map).
func dropsReaders(v ssa.Value) bool {
	if isNilConst(v) {
		return true
	}
	_, fresh := v.(*ssa.MakeMap)
	return fresh
}

// helperDropsReaders: f (a function on a *docVisitState, parameter 0) replaces
// the reader map by nil / a fresh map on every path, and does so before it
// reads the map.
func helperDropsReaders(f *ssa.Function) bool {
	recv := f.Params[0]
	pa := newPathAnalysis(f, func(in ssa.Instruction, ev uint64, _ bool) []uint64 {
		if st, ok := in.(*ssa.Store); ok {
			if sn, fld, base, ok := fieldOf(st.Addr); ok && sn == "docVisitState" && fld == "dvrs" && root(base) == ssa.Value(recv) && dropsReaders(st.Val) {
				return []uint64{ev | 1}
			}
		}
		return nil
	})
	pa.run(0)
	okc := true
	n := 0
	for _, ret := range returnsOf(f) {
		for _, ev := range pa.statesBefore(ret) {
			n++
			if ev&1 == 0 {
				okc = false
			}
		}
	}
	eachInstr(f, func(_ *ssa.BasicBlock, in ssa.Instruction) {
		if u, ok := in.(*ssa.UnOp); ok && isLoadOfField(u, "docVisitState", "dvrs") {
			if readersUseIsBenign(u) {
				return // taken out to be parked / re-initialised, not read through
			}
			for _, ev := range pa.statesBefore(u) {
				if ev&1 == 0 {
					okc = false // the old readers are looked at before they are dropped
				}
			}
		}
	})
	return okc && n > 0
}

// readersUseIsBenign: the use of a loaded reader map does not *read through* a reader of the map:
// nil / length tests, deleting or clearing, storing a new reader, existence tests, ranging over it to
// take the readers out (appending them to a spare list, testing them), and handing a looked-up reader
// to cloneInto as the object to re-initialise (cloneInto overwrites every field, R4/R31).
func readersUseIsBenign(u ssa.Value) bool {
	refs := u.Referrers()
	if refs == nil {
		return true
	}
	var valueBenign func(v ssa.Value, depth int) bool
	valueBenign = func(v ssa.Value, depth int) bool {
		if depth > 4 {
			return false
		}
		rs := v.Referrers()
		if rs == nil {
			return true
		}
		for _, r := range *rs {
			switch x := r.(type) {
			case *ssa.DebugRef:
			case *ssa.BinOp:
				if !(x.Op == token.EQL || x.Op == token.NEQ) {
					return false
				}
			case *ssa.Phi:
				if !valueBenign(x, depth+1) {
					return false
				}
			case *ssa.Store:
				// stored into a one-element array that becomes the variadic argument of append
				if _, ok := x.Addr.(*ssa.IndexAddr); !ok || x.Val != v {
					return false
				}
			case ssa.CallInstruction:
				cc := x.Common()
				if b, ok := cc.Value.(*ssa.Builtin); ok && b.Name() == "append" {
					continue
				}
				f := cc.StaticCallee()
				if f != nil && f.Name() == "cloneInto" && len(cc.Args) == 2 && cc.Args[1] == v && cc.Args[0] != v {
					continue
				}
				// a method of the reader that overwrites every one of its fields (`dvr.release()`) reads
				// nothing out of it either
				if f != nil && len(cc.Args) == 1 && cc.Args[0] == v && fullResetMethod(f) {
					continue
				}
				return false
			default:
				return false
			}
		}
		return true
	}
	for _, r := range *refs {
		switch x := r.(type) {
		case *ssa.DebugRef:
		case *ssa.BinOp:
			if !(x.Op == token.EQL || x.Op == token.NEQ) {
				return false
			}
		case *ssa.MapUpdate:
			if x.Map != u {
				return false
			}
		case *ssa.Range:
			// what is done with the values taken out of the map
			if rr := x.Referrers(); rr != nil {
				for _, nx := range *rr {
					next, ok := nx.(*ssa.Next)
					if !ok {
						continue
					}
					if er := next.Referrers(); er != nil {
						for _, e := range *er {
							if ex, ok := e.(*ssa.Extract); ok && ex.Index == 2 && !valueBenign(ex, 0) {
								return false
							}
						}
					}
				}
			}
		case *ssa.Lookup:
			if x.CommaOk {
				if er := x.Referrers(); er != nil {
					for _, e := range *er {
						if ex, ok := e.(*ssa.Extract); ok && ex.Index == 0 && !valueBenign(ex, 0) {
							return false
						}
					}
				}
			} else if !valueBenign(x, 0) {
				return false
			}
		case ssa.CallInstruction:
			b, ok := x.Common().Value.(*ssa.Builtin)
			if !ok || !(b.Name() == "len" || b.Name() == "cap" || b.Name() == "delete" || b.Name() == "clear" || b.Name() == "append") {
				return false
			}
		case *ssa.Slice:
			// the readers kept in a slice: re-extended / cut, and stored back
			if x.X != u {
				return false
			}
		case *ssa.IndexAddr:
			if x.X != u {
				return false
			}
			for _, r2 := range *x.Referrers() {
				switch y := r2.(type) {
				case *ssa.DebugRef:
				case *ssa.Store:
					if y.Addr != ssa.Value(x) {
						return false
					}
				case *ssa.UnOp:
					if !valueBenign(y, 0) {
						return false
					}
				default:
					return false
				}
			}
		default:
			return false
		}
	}
	return true
}

// deleteAllLoops finds `for k := range m { ...; delete(m, k); ... }` over the reader map of a visit
// state, the delete on every iteration: returns the blocks whose false edge (range exhausted) leaves
// such a loop.
func deleteAllLoops(fn *ssa.Function) map[*ssa.BasicBlock]bool {
	out := map[*ssa.BasicBlock]bool{}
	eachInstr(fn, func(_ *ssa.BasicBlock, in ssa.Instruction) {
		call, ok := in.(*ssa.Call)
		if !ok {
			return
		}
		b, ok := call.Call.Value.(*ssa.Builtin)
		if !ok || b.Name() != "delete" || len(call.Call.Args) != 2 || !isLoadOfField(call.Call.Args[0], "docVisitState", "dvrs") {
			return
		}
		key, ok := call.Call.Args[1].(*ssa.Extract)
		if !ok || key.Index != 1 {
			return
		}
		next, ok := key.Tuple.(*ssa.Next)
		if !ok {
			return
		}
		rg, ok := next.Iter.(*ssa.Range)
		if !ok || !isLoadOfField(rg.X, "docVisitState", "dvrs") {
			return
		}
		// same state object
		_, _, b1, _ := loadedField(call.Call.Args[0])
		_, _, b2, _ := loadedField(rg.X)
		if root(b1) != root(b2) {
			return
		}
		head := next.Block()
		// the delete runs on every iteration: its block dominates every latch of the loop
		for _, p := range head.Preds {
			if head.Dominates(p) && !(call.Block() == p || call.Block().Dominates(p)) {
				return
			}
		}
		out[head] = true
	})
	return out
}

// nilAllLoops: the readers kept in a slice are emptied by `for i, old := range dvs.dvrs { ...; dvs.dvrs[i] =
// nil }` — the store on every iteration, or only where the slot was found non-nil. Returns the loop
// headers whose exhausted edge means "no reader left".
func nilAllLoops(fn *ssa.Function) map[*ssa.BasicBlock]bool {
	out := map[*ssa.BasicBlock]bool{}
	for _, l := range naturalLoops(fn) {
		head := l.header
		iff, ok := head.Instrs[len(head.Instrs)-1].(*ssa.If)
		if !ok {
			continue
		}
		bo, ok := iff.Cond.(*ssa.BinOp)
		if !ok || bo.Op != token.LSS {
			continue
		}
		la := lenArgOf(bo.Y)
		if la == nil || !isLoadOfField(la, "docVisitState", "dvrs") {
			continue
		}
		idx := bo.X
		for b := range l.blocks {
			for _, in := range b.Instrs {
				st, ok := in.(*ssa.Store)
				if !ok || !isNilConst(st.Val) {
					continue
				}
				ia, ok := st.Addr.(*ssa.IndexAddr)
				if !ok || ia.Index != idx || !isLoadOfField(ia.X, "docVisitState", "dvrs") {
					continue
				}
				// on every iteration, or under `slot != nil` only
				every := true
				for _, pr := range head.Preds {
					if head.Dominates(pr) && !(b == pr || b.Dominates(pr)) {
						every = false
					}
				}
				if !every {
					every = true
					for _, d := range controlDeps(fn)[b] {
						if !l.blocks[d.Branch] || d.Branch == head {
							continue
						}
						c2, ok := branchCond(d.Branch).(*ssa.BinOp)
						if !ok || c2.Op != token.NEQ || !(isNilConst(c2.Y) || isNilConst(c2.X)) {
							every = false
							continue
						}
						x := c2.X
						if isNilConst(x) {
							x = c2.Y
						}
						u, ok := x.(*ssa.UnOp)
						if !ok {
							every = false
							continue
						}
						ia2, ok := u.X.(*ssa.IndexAddr)
						if !ok || ia2.Index != idx || !isLoadOfField(ia2.X, "docVisitState", "dvrs") {
							every = false
						}
					}
				}
				if every {
					out[head] = true
				}
			}
		}
	}
	return out
}

func ruleR20() *Rule {
	return &Rule{
		ID:    "R20",
		Title: "STATE-SEGMENT-GUARD: a reused doc-value visit state is validated against the segment and its readers dropped when it differs",
		Props: []string{"C03"},
		Floor: floorFor("R20"),
		Run: func(c *RuleCtx) {
			fn := c.method("SegmentBase", "VisitDocValues")
			if fn == nil {
				return
			}
			const (
				evFresh    = 1 << 0 // the state is a new allocation
				evCompared = 1 << 1 // its segment was compared with the receiver
				evStale    = 1 << 2 // ... and differed; readers not yet dropped
			)
			validators := map[*ssa.Function]bool{}
			// helpers that are handed a state and the segment and leave the state validated for that segment
			// (`dvs.bind(s, fields)`): function -> index of the segment parameter
			binders := map[*ssa.Function]int{}
			var analyse func(fn *ssa.Function, segIdx int) (*pathAnalysis, int)
			analyse = func(fn *ssa.Function, segIdx int) (*pathAnalysis, int) {
				recv := fn.Params[segIdx]
				pa := newPathAnalysis(fn, func(in ssa.Instruction, ev uint64, _ bool) []uint64 {
					switch x := in.(type) {
					case *ssa.Alloc:
						if isNamed(x.Type(), zapPkgPath, "docVisitState") {
							return []uint64{ev | evFresh}
						}
					case *ssa.Store:
						if sn, fld, _, ok := fieldOf(x.Addr); ok && sn == "docVisitState" && fld == "dvrs" && dropsReaders(x.Val) {
							return []uint64{ev &^ evStale}
						}
						if sn, fld, _, ok := fieldOf(x.Addr); ok && sn == "docVisitState" {
							if k, isK := constBool(x.Val); isK && fld != "" {
								ev &^= 3 << 8
								if k {
									return []uint64{ev | 1<<9}
								}
								return []uint64{ev | 1<<8}
							}
						}
					case ssa.CallInstruction:
						// a helper of the segment that hands out a validated state (`dvs := s.docVisitStateFor(fields, dvsIn)`)
						if f := staticCallee(x); f != nil && validators[f] && len(x.Common().Args) > 0 && root(x.Common().Args[0]) == ssa.Value(recv) {
							return []uint64{(ev | evFresh) &^ evStale}
						}
						if f := staticCallee(x); f != nil {
							if si, ok := binders[f]; ok && si < len(x.Common().Args) && root(x.Common().Args[si]) == ssa.Value(recv) {
								return []uint64{(ev | evCompared) &^ evStale}
							}
						}
						if b, ok := x.Common().Value.(*ssa.Builtin); ok && b.Name() == "clear" && len(x.Common().Args) == 1 && isLoadOfField(x.Common().Args[0], "docVisitState", "dvrs") {
							return []uint64{ev &^ evStale}
						}
						// a helper on the state that replaces the readers before it looks at them (`dvs.attach(s, fields)`)
						if f := staticCallee(x); f != nil && c.p.InZap(f) && len(f.Blocks) > 0 && len(f.Params) > 0 && len(x.Common().Args) > 0 &&
							isNamed(f.Params[0].Type(), zapPkgPath, "docVisitState") && helperDropsReaders(f) {
							return []uint64{ev &^ evStale}
						}
					}
					return nil
				})
				nCmp := 0
				delLoops := deleteAllLoops(fn)
				for h := range nilAllLoops(fn) {
					delLoops[h] = true
				}
				// a bool field of the state that the function sets and tests (`dvs.resolved = false` ... `if
				// !dvs.resolved`): the last constant stored is what a later test sees
				const (
					evFlagFalse = 1 << 8
					evFlagTrue  = 1 << 9
				)
				flagField := ""
				eachInstr(fn, func(_ *ssa.BasicBlock, in ssa.Instruction) {
					if st, ok := in.(*ssa.Store); ok {
						if sn, fld, _, ok := fieldOf(st.Addr); ok && sn == "docVisitState" {
							if _, isK := constBool(st.Val); isK {
								flagField = fld
							}
						}
					}
				})
				flagTest := func(cond ssa.Value) (whenTrue bool, ok bool) {
					neg := false
					for {
						if u, isU := cond.(*ssa.UnOp); isU && u.Op == token.NOT {
							cond, neg = u.X, !neg
							continue
						}
						break
					}
					if flagField == "" || !isLoadOfField(cond, "docVisitState", flagField) {
						return false, false
					}
					return !neg, true
				}
				pa.edgeTr = func(pred *ssa.BasicBlock, succIdx int, ev uint64) uint64 {
					iff, ok := pred.Instrs[len(pred.Instrs)-1].(*ssa.If)
					if !ok {
						return ev
					}
					if delLoops[pred] && succIdx == 1 {
						// the range over the readers is exhausted and every iteration deleted its key: the map is empty
						ev &^= evStale
					}
					bo, ok := iff.Cond.(*ssa.BinOp)
					if !ok || (bo.Op != token.NEQ && bo.Op != token.EQL) {
						return ev
					}
					var other ssa.Value
					if isLoadOfField(bo.X, "docVisitState", "segment") {
						other = bo.Y
					} else if isLoadOfField(bo.Y, "docVisitState", "segment") {
						other = bo.X
					} else {
						return ev
					}
					if other != ssa.Value(recv) {
						return ev
					}
					nCmp++
					differs := (bo.Op == token.NEQ) == (succIdx == 0)
					ev |= evCompared
					if differs {
						ev |= evStale
					}
					return ev
				}
				pa.edge = func(pred, succ *ssa.BasicBlock, ev uint64) bool {
					iff, ok := pred.Instrs[len(pred.Instrs)-1].(*ssa.If)
					if !ok || len(pred.Succs) != 2 || pred.Succs[0] == pred.Succs[1] {
						return true
					}
					whenTrue, ok := flagTest(iff.Cond)
					if !ok {
						return true
					}
					// the edge claims the flag is...
					claimsTrue := (succ == pred.Succs[0]) == whenTrue
					if ev&evFlagFalse != 0 && claimsTrue {
						return false
					}
					if ev&evFlagTrue != 0 && !claimsTrue {
						return false
					}
					return true
				}
				pa.run(0)
				return pa, nCmp
			}
			// helpers of the segment that hand out a visit state: validated at every return?
			for _, f := range c.p.ZapFuncs {
				if f == fn || f.Parent() != nil || len(f.Blocks) == 0 || f.Signature.Recv() == nil || !isNamed(f.Signature.Recv().Type(), zapPkgPath, "SegmentBase") {
					continue
				}
				res := f.Signature.Results()
				if res.Len() != 1 || !isNamedPtr(res.At(0).Type(), "docVisitState") {
					continue
				}
				vpa, vcmp := analyse(f, 0)
				okv := vcmp > 0
				for _, ret := range returnsOf(f) {
					for _, ev := range vpa.statesBefore(ret) {
						if (ev&evFresh == 0 && ev&evCompared == 0) || ev&evStale != 0 {
							okv = false
						}
					}
				}
				if okv {
					validators[f] = true
				}
			}
			for _, f := range c.p.ZapFuncs {
				if f == fn || f.Parent() != nil || len(f.Blocks) == 0 || validators[f] {
					continue
				}
				si, di := -1, -1
				for i, prm := range f.Params {
					if isNamedPtr(prm.Type(), "SegmentBase") {
						si = i
					}
					if isNamedPtr(prm.Type(), "docVisitState") {
						di = i
					}
				}
				if si < 0 || di < 0 {
					continue
				}
				bpa, bcmp := analyse(f, si)
				okb := bcmp > 0
				for _, ret := range returnsOf(f) {
					for _, ev := range bpa.statesBefore(ret) {
						if ev&evCompared == 0 || ev&evStale != 0 {
							okb = false
						}
					}
				}
				if okb {
					binders[f] = si
				}
			}
			pa, nCmp := analyse(fn, 0)
			callsValidator := false
			for _, cs := range callSites(fn) {
				if f := staticCallee(cs); f != nil && validators[f] {
					callsValidator = true
				}
				if f := staticCallee(cs); f != nil {
					if _, ok := binders[f]; ok {
						callsValidator = true
					}
				}
			}
			if callsValidator {
				nCmp++
			}
			c.check(nCmp > 0, "compare-exists", c.fpos(fn), "VisitDocValues compares a reused state's segment with the segment being visited", "no comparison of docVisitState.segment with the receiver: a state reused on another segment keeps readers pointing into the old segment's bytes")
			n := 0
			okAll := true
			var w []string
			eachInstr(fn, func(_ *ssa.BasicBlock, in ssa.Instruction) {
				u, ok := in.(*ssa.UnOp)
				if !ok || !isLoadOfField(u, "docVisitState", "dvrs") {
					return
				}
				n++
				if readersUseIsBenign(u) {
					return // nothing is read through a reader here
				}
				for _, ev := range pa.statesBefore(u) {
					if ev&evFresh == 0 && ev&evCompared == 0 {
						okAll = false
						w = append(w, "readers of a reused state used without checking its segment: "+describeInstr(c.p, u))
					}
					if ev&evStale != 0 {
						okAll = false
						w = append(w, "readers of a state that belongs to another segment used without dropping them (dvrs = nil): "+describeInstr(c.p, u))
					}
				}
			})
			// helpers that are handed the state and read its readers: every caller hands them a validated one
			for _, u := range c.p.ZapFuncs {
				if u == fn || validators[u] || u.Parent() != nil || len(u.Blocks) == 0 {
					continue
				}
				if _, ok := binders[u]; ok {
					continue
				}
				pi := -1
				for i, prm := range u.Params {
					if isNamedPtr(prm.Type(), "docVisitState") {
						pi = i
					}
				}
				if pi < 0 {
					continue
				}
				reads := false
				eachInstr(u, func(_ *ssa.BasicBlock, in ssa.Instruction) {
					if ld, ok := in.(*ssa.UnOp); ok && isLoadOfField(ld, "docVisitState", "dvrs") && !readersUseIsBenign(ld) {
						if _, _, base, ok := loadedField(ld); ok && root(base) == ssa.Value(u.Params[pi]) {
							reads = true
						}
					}
				})
				if !reads {
					continue
				}
				n++
				for _, cs := range c.p.callersOf(u) {
					if !c.p.InZap(cs.Parent()) || pi >= len(cs.Common().Args) {
						continue
					}
					arg := root(cs.Common().Args[pi])
					okArg := false
					if call, ok := arg.(*ssa.Call); ok {
						if f := call.Call.StaticCallee(); f != nil && validators[f] {
							okArg = true
						}
					}
					if al, ok := arg.(*ssa.Alloc); ok && isNamed(al.Type(), zapPkgPath, "docVisitState") {
						okArg = true
					}
					if !okArg && cs.Parent() == fn {
						// handed over by VisitDocValues itself at a point where its own state is validated
						okArg = true
						sts := pa.statesBefore(cs)
						for _, ev := range sts {
							if (ev&evFresh == 0 && ev&evCompared == 0) || ev&evStale != 0 {
								okArg = false
							}
						}
						if len(sts) == 0 {
							okArg = false
						}
					}
					if !okArg {
						okAll = false
						w = append(w, funcShortName(u)+" reads the readers of a state that "+funcShortName(cs.Parent())+" hands it without validating it: "+describeInstr(c.p, cs))
					}
				}
			}
			c.check(okAll && n > 0, "readers-validated", c.fpos(fn), "the cloned readers of a visit state are used only if the state is new, or was checked to belong to this segment, or was emptied after the check failed",
				"stale readers of another segment can be used", uniq(w)...)
		},
	}
}

// ---------------------------------------------------------------------------
// R4

func ruleR4() *Rule {
	return &Rule{
		ID:    "R4",
		Title: "CLONE-BEFORE-MUTATE: the doc-value readers stored in a segment are shared; only private clones are advanced",
		Props: []string{"C11", "C03"},
		Floor: floorFor("R4"),
		Run: func(c *RuleCtx) {
			p := c.p
			nt := p.NamedType("docValueReader")
			if nt == nil {
				c.undecided("anchor/docValueReader", "-", "type docValueReader exists", "not found")
				return
			}
			// receiver-mutating methods
			mutating := map[*ssa.Function]bool{}
			var methods []*ssa.Function
			for _, fn := range p.ZapFuncs {
				if fn.Signature.Recv() != nil && isNamed(fn.Signature.Recv().Type(), zapPkgPath, "docValueReader") && fn.Parent() == nil {
					methods = append(methods, fn)
				}
			}
			for changed := true; changed; {
				changed = false
				for _, fn := range methods {
					if mutating[fn] || len(fn.Params) == 0 {
						continue
					}
					recv := fn.Params[0]
					m := false
					eachInstr(fn, func(_ *ssa.BasicBlock, in ssa.Instruction) {
						switch x := in.(type) {
						case *ssa.Store:
							if sn, _, base, ok := fieldOf(x.Addr); ok && sn == "docValueReader" && root(base) == ssa.Value(recv) {
								m = true
							}
							if ia, ok := x.Addr.(*ssa.IndexAddr); ok {
								if sn, _, base, ok := loadedField(ia.X); ok && sn == "docValueReader" && root(base) == ssa.Value(recv) {
									m = true
								}
							}
						case ssa.CallInstruction:
							if f := staticCallee(x); f != nil && mutating[f] && len(x.Common().Args) > 0 && root(x.Common().Args[0]) == ssa.Value(recv) {
								m = true
							}
						}
					})
					if m {
						mutating[fn] = true
						changed = true
					}
				}
			}
			var mnames []string
			for f := range mutating {
				mnames = append(mnames, f.Name())
			}
			sort.Strings(mnames)
			clone := p.Method("docValueReader", "cloneInto")
			if clone == nil {
				c.undecided("anchor/cloneInto", "-", "docValueReader.cloneInto exists", "not found")
				return
			}
			delete(mutating, clone) // cloneInto writes its *argument*, and only reads the receiver
			c.check(len(mutating) >= half(3), "mutating-methods", "-", "receiver-mutating docValueReader methods are computed (confirmed by hand: loadDvChunk, iterateAllDocValues, visitDocValues, incrementBytesRead): "+strings.Join(mnames, ","), fmt.Sprintf("found %d", len(mutating)))
			// the clone really is private: cloneInto never stores the receiver itself nor receiver-owned mutable buffers
			{
				recv := clone.Params[0]
				okc := true
				var w []string
				eachInstr(clone, func(_ *ssa.BasicBlock, in ssa.Instruction) {
					if st, ok := in.(*ssa.Store); ok {
						if _, fld, base, ok := fieldOf(st.Addr); ok && root(base) != ssa.Value(recv) {
							// value copied from the receiver: only immutable parts may be shared
							if sn2, f2, b2, ok := loadedField(st.Val); ok && sn2 == "docValueReader" && root(b2) == ssa.Value(recv) {
								if holdsNoRefs(st.Val.Type()) {
									return // a copy of a plain value shares nothing
								}
								switch f2 {
								case "field", "chunkOffsets", "dvDataLoc":
								default:
									okc = false
									w = append(w, fmt.Sprintf("clone.%s shares the receiver's mutable %s", fld, f2))
								}
							}
						}
						if sn, _, base, ok := fieldOf(st.Addr); ok && sn == "docValueReader" && root(base) == ssa.Value(recv) {
							okc = false
							w = append(w, "cloneInto writes the shared receiver: "+describeInstr(p, in))
						}
					}
				})
				c.check(okc, "clone-is-private", c.fpos(clone), "cloneInto shares only immutable parts (field, chunkOffsets, dvDataLoc) with the shared reader and never writes it", strings.Join(w, "; "))
			}
			// the per-caller reader map: docVisitState.dvrs itself, or a parameter
			// that receives it at every call site of a helper
			var isDvrs func(v ssa.Value, depth int) bool
			isDvrs = func(v ssa.Value, depth int) bool {
				if isLoadOfField(v, "docVisitState", "dvrs") {
					return true
				}
				prm, ok := root(v).(*ssa.Parameter)
				if !ok || depth > 2 {
					return false
				}
				fn := prm.Parent()
				idx := -1
				for i, q := range fn.Params {
					if q == prm {
						idx = i
					}
				}
				sites := p.callersOf(fn)
				if idx < 0 || len(sites) == 0 || fn.Parent() != nil || fn.Object() == nil || fn.Object().Exported() {
					return false // callers outside the package cannot be enumerated
				}
				for _, cs := range sites {
					if par := cs.Parent(); par.Synthetic != "" && len(p.callersOf(par)) == 0 {
						continue // promoted-method wrapper nobody calls
					}
					args := cs.Common().Args
					if cs.Common().IsInvoke() || idx >= len(args) || !isDvrs(args[idx], depth+1) {
						return false
					}
				}
				return true
			}
			// provenance of receivers at call sites of mutating methods
			var okRecv func(v ssa.Value, depth int) bool
			okRecv = func(v ssa.Value, depth int) bool {
				if depth > 5 {
					return false
				}
				if isNilConst(v) {
					return true
				}
				switch x := root(v).(type) {
				case *ssa.Call:
					if x.Call.StaticCallee() == clone {
						return true
					}
					// a helper of the package that hands out a reader: every reader it returns is private
					if f := x.Call.StaticCallee(); f != nil && p.InZap(f) && len(f.Blocks) > 0 && f != clone {
						n := 0
						for _, ret := range returnsOf(f) {
							for _, rv := range ret.Results {
								if !isNamedPtr(rv.Type(), "docValueReader") {
									continue
								}
								n++
								if !okRecv(rv, depth+1) {
									return false
								}
							}
						}
						return n > 0
					}
					return false
				case *ssa.Extract:
					if lk, ok := x.Tuple.(*ssa.Lookup); ok {
						return isDvrs(lk.X, 0)
					}
					// the value of a range over the state's readers
					if nx, ok := x.Tuple.(*ssa.Next); ok {
						if rg, ok := nx.Iter.(*ssa.Range); ok {
							return isDvrs(rg.X, 0)
						}
					}
				case *ssa.Lookup:
					return isDvrs(x.X, 0)
				case *ssa.UnOp:
					// an element of the visit state's readers kept in a slice indexed by field id
					if ia, ok := x.X.(*ssa.IndexAddr); ok && x.Op == token.MUL {
						return isDvrs(ia.X, 0)
					}
				case *ssa.Phi:
					for _, e := range x.Edges {
						if e == ssa.Value(x) {
							continue
						}
						if !okRecv(e, depth+1) {
							return false
						}
					}
					return true
				case *ssa.Alloc:
					return isNamed(x.Type(), zapPkgPath, "docValueReader")
				case *ssa.Parameter:
					// inside cloneInto, the destination it is handed is the clone being (re)built: shared
					// readers only ever reach cloneInto as its receiver (checked below)
					if x.Parent() == clone && len(clone.Params) == 2 && x == clone.Params[1] {
						return true
					}
				}
				return false
			}
			n := 0
			for _, fn := range p.ZapFuncs {
				isMethodOfReader := fn.Signature.Recv() != nil && isNamed(fn.Signature.Recv().Type(), zapPkgPath, "docValueReader")
				for _, cs := range callSites(fn) {
					callee := staticCallee(cs)
					if callee == nil || !mutating[callee] {
						continue
					}
					rv := cs.Common().Args[0]
					if isMethodOfReader && root(rv) == ssa.Value(fn.Params[0]) {
						continue // a mutating method calling another on its own receiver
					}
					// the same from inside a closure of such a method (`defer func() { if err != nil { di.unloadChunk() } }()`)
					if par := rootParent(fn); par != fn && par.Signature.Recv() != nil && isNamed(par.Signature.Recv().Type(), zapPkgPath, "docValueReader") {
						if root(rv) == ssa.Value(par.Params[0]) {
							continue // (the captured variable resolved to the method's receiver)
						}
						if fv, ok := root(rv).(*ssa.FreeVar); ok && capturedValueIs(fn, fv, par.Params[0]) {
							continue
						}
						// the receiver spilled into a variable that the closure captures by reference
						if u, ok := root(rv).(*ssa.UnOp); ok && u.Op == token.MUL {
							if fv, ok := u.X.(*ssa.FreeVar); ok && capturedCellHolds(fn, fv, par.Params[0]) {
								continue
							}
						}
					}
					n++
					c.check(okRecv(rv, 0), fmt.Sprintf("receiver/%s->%s", funcShortName(fn), callee.Name()), c.pos(cs),
						"receiver of the mutating method "+callee.Name()+" in "+funcShortName(fn)+" is a private clone (cloneInto result or an entry of the caller's visit state)",
						"a reader that may be the shared one stored in the segment is advanced: concurrent visitors would corrupt each other's chunk cache", "call: "+describeInstr(p, cs))
				}
			}
			c.check(n >= half(3), "receiver/sites", "-", "call sites of mutating reader methods outside the type are found (confirmed by hand: 3)", fmt.Sprintf("found %d", n))
			// the visit state only ever holds clones
			nu := 0
			for _, fn := range p.ZapFuncs {
				eachInstr(fn, func(_ *ssa.BasicBlock, in ssa.Instruction) {
					mu, ok := in.(*ssa.MapUpdate)
					if !ok || !isDvrs(mu.Map, 0) {
						return
					}
					nu++
					call, isCall := root(mu.Value).(*ssa.Call)
					if isNilConst(mu.Value) {
						return // "no reader for this field" remembered as nil
					}
					c.check(isCall && call.Call.StaticCallee() == clone, fmt.Sprintf("state-holds-clones/%s#%d", funcShortName(fn), nu), c.pos(mu),
						"what is stored into a visit state's reader map is a cloneInto result", "a shared reader is stored into the per-caller visit state without cloning", "store: "+describeInstr(p, mu))
				})
			}
			// (the same when the readers are kept in a slice: element stores)
			for _, fn := range p.ZapFuncs {
				eachInstr(fn, func(_ *ssa.BasicBlock, in ssa.Instruction) {
					st, ok := in.(*ssa.Store)
					if !ok {
						return
					}
					ia, ok := st.Addr.(*ssa.IndexAddr)
					if !ok || !isDvrs(ia.X, 0) {
						return
					}
					if isNilConst(st.Val) {
						return // emptying a slot
					}
					nu++
					call, isCall := root(st.Val).(*ssa.Call)
					c.check(isCall && call.Call.StaticCallee() == clone, fmt.Sprintf("state-holds-clones/%s#%d", funcShortName(fn), nu), c.pos(st),
						"what is stored into a visit state's readers is a cloneInto result", "a shared reader is stored into the per-caller visit state without cloning", "store: "+describeInstr(p, st))
				})
			}
			c.check(nu >= 1, "state-holds-clones/sites", "-", "stores into docVisitState.dvrs are found", "none")
			// values taken out of SegmentBase.fieldDvReaders flow only to cloneInto receivers, nil tests and size()
			nl := 0
			for _, fn := range p.ZapFuncs {
				eachInstr(fn, func(_ *ssa.BasicBlock, in ssa.Instruction) {
					lk, ok := in.(*ssa.Lookup)
					if !ok {
						return
					}
					// inner map: element of fieldDvReaders
					u, ok := lk.X.(*ssa.UnOp)
					if !ok {
						return
					}
					ia, ok := u.X.(*ssa.IndexAddr)
					if !ok || !isLoadOfField(ia.X, "SegmentBase", "fieldDvReaders") {
						return
					}
					nl++
					var vals []ssa.Value
					if lk.CommaOk {
						for _, r := range *lk.Referrers() {
							if ex, ok := r.(*ssa.Extract); ok && ex.Index == 0 {
								vals = append(vals, ex)
							}
						}
					} else {
						vals = append(vals, lk)
					}
					okc := true
					var w []string
					for _, v := range vals {
						for _, r := range *v.Referrers() {
							switch x := r.(type) {
							case *ssa.DebugRef:
							case *ssa.BinOp:
								if !(isNilConst(x.X) || isNilConst(x.Y)) {
									okc = false
									w = append(w, describeInstr(p, r))
								}
							case ssa.CallInstruction:
								f := staticCallee(x)
								if f == clone && x.Common().Args[0] == v {
									continue
								}
								if f != nil && namedFn(f, "docValueReader.size") && x.Common().Args[0] == v {
									continue
								}
								// any other method of the reader that only reads its receiver
								if f != nil && x.Common().Args[0] == v && !mutating[f] && readOnlyReceiver(f, mutating, 0) {
									continue
								}
								okc = false
								w = append(w, describeInstr(p, r))
							case *ssa.FieldAddr:
								// a field of the shared reader is read (never written through)
								if !onlyReadThrough(x, 0) {
									okc = false
									w = append(w, describeInstr(p, r))
								}
							default:
								okc = false
								w = append(w, describeInstr(p, r))
							}
						}
					}
					c.check(okc, fmt.Sprintf("shared-reader-use/%s#%d", funcShortName(fn), nl), c.pos(lk), "a reader taken from SegmentBase.fieldDvReaders in "+funcShortName(fn)+" is only cloned, nil-tested or sized",
						"the shared reader escapes to code that may advance it", w...)
				})
			}
			c.check(nl >= 2, "shared-reader-use/sites", "-", "look-ups in SegmentBase.fieldDvReaders are found (confirmed by hand: VisitDocValues, merge)", fmt.Sprintf("found %d", nl))
		},
	}
}

// ---------------------------------------------------------------------------
// R3

// fields of SegmentBase / Segment that may be written after construction, with reason
var frozenExempt = map[string]string{
	"SegmentBase.fieldFSTs":    "lazily filled under SegmentBase.m (R2)",
	"Segment.refs":             "reference count under Segment.m (R2, R9)",
	"SegmentBase.bytesRead":    "atomic counter (R2)",
	"SegmentBase.bytesWritten": "atomic counter (R2)",
	"SegmentBase.m":            "the mutex itself",
	"Segment.m":                "the mutex itself",
}

func ruleR3() *Rule {
	return &Rule{
		ID:    "R3",
		Title: "FROZEN-AFTER-CTOR: a published segment is not written outside its constructors",
		Props: []string{"C11"},
		Floor: floorFor("R3"),
		Run: func(c *RuleCtx) {
			p := c.p
			ctors := map[*ssa.Function]bool{}
			if f := c.fn("InitSegmentBase"); f != nil {
				ctors[f] = true
			}
			if f := c.method("ZapPlugin", "Open"); f != nil {
				ctors[f] = true
			}
			if len(ctors) < 2 {
				return
			}
			// any other function that allocates the segment it hands back is a constructor too
			// (`openFile(f, path)` shared by Open and a new OpenFile)
			for _, fn := range p.ZapFuncs {
				if ctors[fn] || fn.Parent() != nil {
					continue
				}
				var allocs []*ssa.Alloc
				eachInstr(fn, func(_ *ssa.BasicBlock, in ssa.Instruction) {
					if al, ok := in.(*ssa.Alloc); ok && al.Heap && (isNamed(al.Type(), zapPkgPath, "Segment") || isNamed(al.Type(), zapPkgPath, "SegmentBase")) {
						allocs = append(allocs, al)
					}
				})
				if len(allocs) == 0 {
					continue
				}
				for _, ret := range returnsOf(fn) {
					for _, r := range ret.Results {
						for _, al := range allocs {
							if root(r) == ssa.Value(al) {
								ctors[fn] = true
							}
						}
					}
				}
			}
			// writers
			type wsite struct {
				fn   *ssa.Function
				in   ssa.Instruction
				what string
			}
			var writers []wsite
			for _, fn := range p.ZapFuncs {
				eachInstr(fn, func(_ *ssa.BasicBlock, in ssa.Instruction) {
					rec := func(addrOrMap ssa.Value, kind string) {
						var sn, fld string
						var base ssa.Value
						var ok bool
						switch kind {
						case "store":
							sn, fld, base, ok = fieldOf(addrOrMap)
							if !ok {
								// element of a slice/map held in a field
								if ia, isIA := addrOrMap.(*ssa.IndexAddr); isIA {
									sn, fld, base, ok = loadedField(ia.X)
								}
							}
						case "mapupdate":
							sn, fld, base, ok = loadedField(addrOrMap)
							if !ok {
								// fieldDvReaders[sec][f] = ...: map is an element of a slice field
								if u, isU := addrOrMap.(*ssa.UnOp); isU {
									if ia, isIA := u.X.(*ssa.IndexAddr); isIA {
										sn, fld, base, ok = loadedField(ia.X)
									}
								}
							}
						}
						if !ok || (sn != "SegmentBase" && sn != "Segment") {
							return
						}
						if frozenExempt[sn+"."+fld] != "" {
							return
						}
						for _, d := range discoveredGuards(p) {
							if d.Struct == sn && d.Field == fld {
								return // lazily filled under the struct's mutex: R2 holds every access to it
							}
						}
						if al := baseAlloc(base); al != nil && al.Parent() == fn {
							return // composite literal of a segment under construction
						}
						writers = append(writers, wsite{fn, in, sn + "." + fld})
					}
					switch x := in.(type) {
					case *ssa.Store:
						rec(x.Addr, "store")
					case *ssa.MapUpdate:
						rec(x.Map, "mapupdate")
					}
				})
			}
			// functions reachable from the API without passing through a constructor
			reach := map[*ssa.Function]bool{}
			var work []*ssa.Function
			for _, fn := range p.ZapFuncs {
				if ctors[fn] || fn.Parent() != nil {
					continue
				}
				isRoot := false
				if obj := fn.Object(); obj != nil && obj.Exported() {
					isRoot = true
				}
				if fn.Signature.Recv() != nil && fn.Object() != nil && fn.Object().Exported() {
					isRoot = true
				}
				if isRoot {
					reach[fn] = true
					work = append(work, fn)
				}
			}
			for len(work) > 0 {
				f := work[len(work)-1]
				work = work[:len(work)-1]
				add := func(g *ssa.Function) {
					if g == nil || ctors[g] || reach[g] || !p.InZap(g) {
						return
					}
					reach[g] = true
					work = append(work, g)
				}
				eachInstr(f, func(_ *ssa.BasicBlock, in ssa.Instruction) {
					if mc, ok := in.(*ssa.MakeClosure); ok {
						add(mc.Fn.(*ssa.Function))
					}
				})
				if n := p.CG.Nodes[f]; n != nil {
					for _, e := range n.Out {
						add(e.Callee.Func)
					}
				}
			}
			perFn := map[string]int{}
			for _, w := range writers {
				fname := funcShortName(w.fn)
				perFn[fname+"/"+w.what]++
				if perFn[fname+"/"+w.what] > 1 {
					continue
				}
				c.check(!reach[w.fn], "write/"+fname+"/"+w.what, c.pos(w.in), fmt.Sprintf("%s is written in %s, which is reachable only through the constructors InitSegmentBase / Open", w.what, fname),
					fmt.Sprintf("%s writes %s and is reachable from the exported API without passing through a constructor: concurrent readers of a published segment race with this write", fname, w.what),
					"write: "+describeInstr(p, w.in))
			}
			c.check(len(writers) >= 10, "write/sites", "-", "writes to fields of SegmentBase/Segment are found (confirmed by hand: about 30)", fmt.Sprintf("found %d", len(writers)))
		},
	}
}

// capturedValueIs: the free variable fv of closure cl is bound, at every MakeClosure of cl, to v.
func capturedValueIs(cl *ssa.Function, fv *ssa.FreeVar, v ssa.Value) bool {
	idx := -1
	for i, f := range cl.FreeVars {
		if f == fv {
			idx = i
		}
	}
	par := cl.Parent()
	if idx < 0 || par == nil {
		return false
	}
	n := 0
	okAll := true
	eachInstr(par, func(_ *ssa.BasicBlock, in ssa.Instruction) {
		mc, ok := in.(*ssa.MakeClosure)
		if !ok || mc.Fn != ssa.Value(cl) {
			return
		}
		n++
		if idx >= len(mc.Bindings) || root(mc.Bindings[idx]) != v {
			okAll = false
		}
	})
	return n > 0 && okAll
}

// capturedCellHolds: fv is bound to a local variable of the parent whose only store is v.
func capturedCellHolds(cl *ssa.Function, fv *ssa.FreeVar, v ssa.Value) bool {
	idx := -1
	for i, f := range cl.FreeVars {
		if f == fv {
			idx = i
		}
	}
	par := cl.Parent()
	if idx < 0 || par == nil {
		return false
	}
	n := 0
	okAll := true
	eachInstr(par, func(_ *ssa.BasicBlock, in ssa.Instruction) {
		mc, ok := in.(*ssa.MakeClosure)
		if !ok || mc.Fn != ssa.Value(cl) {
			return
		}
		n++
		if idx >= len(mc.Bindings) {
			okAll = false
			return
		}
		al, ok := mc.Bindings[idx].(*ssa.Alloc)
		if !ok {
			okAll = false
			return
		}
		st := cellStores(al)
		if len(st) != 1 || st[0].Val != v {
			okAll = false
		}
	})
	return n > 0 && okAll
}
