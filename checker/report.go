package main

import (
	"bufio"
	"encoding/json"
	"fmt"
	"os"
	"path/filepath"
	"runtime/debug"
	"sort"
	"strings"

	"golang.org/x/tools/go/ssa"
)

type Status string

const (
	Discharged Status = "discharged"
	Violated   Status = "violated"
	Undecided  Status = "undecided"
)

// Obligation is one decided (or undecidable) instance of a rule. It is keyed
// by rule + construct, never by line number.
type Obligation struct {
	Rule    string   `json:"rule"`
	Key     string   `json:"key"`
	Config  string   `json:"config"`
	Status  Status   `json:"status"`
	Pos     string   `json:"pos"`
	What    string   `json:"what"`
	Detail  string   `json:"detail,omitempty"`
	Witness []string `json:"witness,omitempty"`
	Props   []string `json:"props,omitempty"` // restriction to some of the rule's properties
}

func (o Obligation) servesProp(p string) bool {
	if len(o.Props) == 0 || p == "" {
		return true
	}
	for _, x := range o.Props {
		if x == p {
			return true
		}
	}
	return false
}

// Rule is one repository-specific rule.
type Rule struct {
	ID          string
	Title       string
	Props       []string
	VectorsOnly bool                              // anchors exist only under -tags vectors
	Floor       func(cfg Config, prop string) int // minimal number of obligations confirmed by hand
	Run         func(c *RuleCtx)
}

func (r *Rule) serves(prop string) bool {
	for _, p := range r.Props {
		if p == prop {
			return true
		}
	}
	return false
}

type RuleCtx struct {
	judged     map[*ssa.Function]bool     // scratch of R15b (functions already judged as producers in this run)
	r6Cleanup  map[*ssa.Call]acquirerInfo // scratch of R6: acquisition calls that also hand back a cleanup closure
	r6Fail     map[*ssa.Function]uint64   // scratch of R6: what a delegate has certainly done when it returns an error
	r6FailFlag map[*ssa.Function]bool     // delegates that may leave the owner marked committed although they report a failure
	r6Flushes  map[*ssa.Function]bool     // delegates that flush the buffered writer they are handed next to the file
	p          *Program
	rule       *Rule
	obs        []Obligation
}

func (c *RuleCtx) add(st Status, key, pos, what, detail string, props []string, witness []string) {
	if st == Discharged {
		detail, witness = "", nil
	}
	c.obs = append(c.obs, Obligation{Rule: c.rule.ID, Key: c.rule.ID + "/" + key, Config: c.p.Cfg.Name,
		Status: st, Pos: pos, What: what, Detail: detail, Witness: witness, Props: props})
}

func (c *RuleCtx) ok(key, pos, what string) { c.add(Discharged, key, pos, what, "", nil, nil) }
func (c *RuleCtx) bad(key, pos, what, detail string, witness ...string) {
	c.add(Violated, key, pos, what, detail, nil, witness)
}
func (c *RuleCtx) undecided(key, pos, what, detail string) {
	c.add(Undecided, key, pos, what, detail, nil, nil)
}

// okP/badP restrict the obligation to some properties of the rule.
func (c *RuleCtx) okP(props []string, key, pos, what string) {
	c.add(Discharged, key, pos, what, "", props, nil)
}
func (c *RuleCtx) badP(props []string, key, pos, what, detail string, witness ...string) {
	c.add(Violated, key, pos, what, detail, props, witness)
}
func (c *RuleCtx) undecidedP(props []string, key, pos, what, detail string) {
	c.add(Undecided, key, pos, what, detail, props, nil)
}

// check records a decided obligation.
func (c *RuleCtx) check(cond bool, key, pos, what, detailIfBad string, witness ...string) bool {
	if cond {
		c.ok(key, pos, what)
	} else {
		c.bad(key, pos, what, detailIfBad, witness...)
	}
	return cond
}

// fn resolves a package-level function anchor; an unresolved anchor is an
// undecided obligation (never a silent pass).
func (c *RuleCtx) fn(name string) *ssa.Function {
	f := c.p.Func(name)
	if f == nil || len(f.Blocks) == 0 {
		f = c.p.resolveRenamed(name)
	}
	if f == nil || len(f.Blocks) == 0 {
		f = c.p.resolveInlined(name)
	}
	if f == nil || len(f.Blocks) == 0 {
		c.undecided("anchor/"+name, "-", "anchor function "+name+" resolves", "function "+name+" not found in package zap (renamed or removed): the rule cannot locate its construct")
		return nil
	}
	return c.p.throughForwarders(f)
}

func (c *RuleCtx) method(typ, name string) *ssa.Function {
	f := c.p.Method(typ, name)
	if f == nil || len(f.Blocks) == 0 {
		f = c.p.resolveRenamed(typ + "." + name)
	}
	if f == nil || len(f.Blocks) == 0 {
		f = c.p.resolveInlined(typ + "." + name)
	}
	if f == nil || len(f.Blocks) == 0 {
		c.undecided("anchor/"+typ+"."+name, "-", "anchor method "+typ+"."+name+" resolves", "method "+typ+"."+name+" not found in package zap (renamed or removed): the rule cannot locate its construct")
		return nil
	}
	return c.p.throughForwarders(f)
}

// throughForwarders: an anchor whose body has become a thin forwarder — it builds its arguments (an options
// literal), calls one function of the package and returns that call's results — stands for the function
// it forwards to (`Foo(a, b)` kept for compatibility next to `FooWithOptions(a, b, opts)`).
func (p *Program) throughForwarders(f *ssa.Function) *ssa.Function {
	for i := 0; i < 3; i++ {
		g := forwardTarget(p, f)
		if g == nil {
			return f
		}
		f = g
	}
	return f
}

func forwardTarget(p *Program, f *ssa.Function) *ssa.Function {
	if f == nil || len(f.Blocks) != 1 {
		return nil
	}
	var call *ssa.Call
	var ret *ssa.Return
	for _, in := range f.Blocks[0].Instrs {
		switch x := in.(type) {
		case *ssa.Call:
			if _, isB := x.Call.Value.(*ssa.Builtin); isB {
				return nil
			}
			if call != nil {
				return nil
			}
			call = x
		case *ssa.Return:
			ret = x
		case *ssa.Alloc, *ssa.FieldAddr, *ssa.Store, *ssa.UnOp, *ssa.DebugRef, *ssa.Extract, *ssa.MakeInterface, *ssa.ChangeType, *ssa.Convert:
		default:
			return nil
		}
	}
	if call == nil || ret == nil {
		return nil
	}
	g := call.Call.StaticCallee()
	if g == nil || !p.InZap(g) || len(g.Blocks) == 0 || g == f {
		return nil
	}
	// only the compatibility idiom: the target's name extends the anchor's (Foo -> FooWithOptions, fooCtx)
	if !strings.HasPrefix(strings.ToLower(g.Name()), strings.ToLower(f.Name())) || len(g.Name()) == len(f.Name()) {
		return nil
	}
	// every parameter is handed on, every result comes from the call
	for _, prm := range f.Params {
		handed := false
		for _, a := range call.Call.Args {
			if root(a) == ssa.Value(prm) {
				handed = true
			}
			// … or sits in the options literal that is handed on
			if u, ok := a.(*ssa.UnOp); ok {
				if al, ok := u.X.(*ssa.Alloc); ok {
					for _, r := range *al.Referrers() {
						if fa, ok := r.(*ssa.FieldAddr); ok {
							for _, r2 := range *fa.Referrers() {
								if st, ok := r2.(*ssa.Store); ok && root(st.Val) == ssa.Value(prm) {
									handed = true
								}
							}
						}
					}
				}
			}
		}
		if !handed {
			return nil
		}
	}
	for _, r := range ret.Results {
		switch x := r.(type) {
		case *ssa.Extract:
			if x.Tuple != ssa.Value(call) {
				return nil
			}
		case *ssa.Call:
			if x != call {
				return nil
			}
		default:
			return nil
		}
	}
	if len(ret.Results) == 0 {
		return nil
	}
	return g
}

func (c *RuleCtx) pos(in ssa.Instruction) string { return c.p.instrPos(in) }
func (c *RuleCtx) fpos(fn *ssa.Function) string  { return c.p.Pos(fn.Pos()) }

// runRule executes a rule on one program, converting panics of the checker
// into undecided obligations.
func runRule(r *Rule, p *Program, prop string) (obs []Obligation) {
	ctx := &RuleCtx{p: p, rule: r}
	defer func() {
		if e := recover(); e != nil {
			st := string(debug.Stack())
			lines := strings.Split(st, "\n")
			if len(lines) > 14 {
				lines = lines[:14]
			}
			ctx.undecided("checker-panic", "-", "rule runs to completion", fmt.Sprintf("checker panic: %v\n%s", e, strings.Join(lines, "\n")))
			obs = ctx.obs
		}
	}()
	// file-owner types: which fields stand for the file and its path (owners.go); the table lives for the
	// duration of this rule only
	if r.ID == "R6" || r.ID == "R7" || r.ID == "R15" {
		p.owners = fileOwners(p)
		defer clearAliases(p.SSA)
	}
	r.Run(ctx)
	var sel []Obligation
	for _, o := range ctx.obs {
		if o.servesProp(prop) {
			sel = append(sel, o)
		}
		// an obligation tagged with a property its rule does not declare would never be run for that
		// property: a bookkeeping mistake in the checker, reported rather than silently skipped
		for _, op := range o.Props {
			if len(r.Props) > 0 && !r.serves(op) {
				sel = append(sel, Obligation{Rule: r.ID, Key: r.ID + "/props-undeclared/" + op, Config: p.Cfg.Name, Status: Undecided, Pos: "-",
					What: "every property an obligation serves is declared by its rule", Detail: o.Key + " serves " + op + ", which " + r.ID + " does not declare"})
			}
		}
	}
	if r.Floor != nil {
		fl := r.Floor(p.Cfg, prop)
		n := 0
		for _, o := range sel {
			if !strings.Contains(o.Key, "/anchor/") {
				n++
			}
		}
		if n < fl {
			sel = append(sel, Obligation{Rule: r.ID, Key: r.ID + "/instance-floor", Config: p.Cfg.Name, Status: Undecided,
				Pos: "-", What: fmt.Sprintf("rule matches at least %d instances (confirmed by hand on the pinned tree)", fl),
				Detail: fmt.Sprintf("only %d instances matched: the rule has gone (partly) vacuous — constructs it was written for were renamed, removed or rewritten into an idiom it does not recognise", n)})
		}
	}
	sort.SliceStable(sel, func(i, j int) bool { return sel[i].Key < sel[j].Key })
	return sel
}

// ---------------------------------------------------------------------------
// known findings

type knownFinding struct {
	Property string
	Key      string
	What     string
}

type knownFile struct {
	Known []knownFinding
	Fixed []string
}

// known_findings.txt, line oriented:
//
//	known: property=C05 key=R16/... <what fails>
//	fixed: property=C11 <commit> <what failed>
func loadKnown(path string) (*knownFile, error) {
	kf := &knownFile{}
	f, err := os.Open(path)
	if err != nil {
		if os.IsNotExist(err) {
			return kf, nil
		}
		return nil, err
	}
	defer f.Close()
	sc := bufio.NewScanner(f)
	sc.Buffer(make([]byte, 1<<20), 1<<20)
	for sc.Scan() {
		line := strings.TrimSpace(sc.Text())
		if line == "" || strings.HasPrefix(line, "#") {
			continue
		}
		switch {
		case strings.HasPrefix(line, "known:"):
			rest := strings.TrimSpace(strings.TrimPrefix(line, "known:"))
			k := knownFinding{}
			fields := strings.Fields(rest)
			var what []string
			for _, fl := range fields {
				switch {
				case strings.HasPrefix(fl, "property=") && k.Property == "":
					k.Property = strings.TrimPrefix(fl, "property=")
				case strings.HasPrefix(fl, "key=") && k.Key == "":
					k.Key = strings.TrimPrefix(fl, "key=")
				default:
					what = append(what, fl)
				}
			}
			k.What = strings.Join(what, " ")
			if k.Property == "" || k.Key == "" {
				return nil, fmt.Errorf("%s: malformed known line: %q", path, line)
			}
			kf.Known = append(kf.Known, k)
		case strings.HasPrefix(line, "fixed:"):
			kf.Fixed = append(kf.Fixed, line)
		default:
			return nil, fmt.Errorf("%s: unrecognised line: %q", path, line)
		}
	}
	return kf, sc.Err()
}

func (kf *knownFile) match(prop string, o Obligation) *knownFinding {
	for i := range kf.Known {
		k := &kf.Known[i]
		if k.Property == prop && k.Key == o.Key {
			return k
		}
	}
	return nil
}

// ---------------------------------------------------------------------------
// evidence

type ruleEvidence struct {
	ID          string   `json:"id"`
	Title       string   `json:"title"`
	Config      string   `json:"config"`
	Obligations int      `json:"obligations"`
	Discharged  int      `json:"discharged"`
	Instances   []string `json:"instances"`
}

type configEvidence struct {
	Name           string  `json:"name"`
	Packages       int     `json:"packages_loaded"`
	ZapFiles       int     `json:"zap_files"`
	ZapFunctions   int     `json:"zap_ssa_functions"`
	AllFunctions   int     `json:"all_ssa_functions"`
	CallGraphEdges int     `json:"callgraph_edges_vta"`
	LoadSeconds    float64 `json:"load_s"`
}

type evidence struct {
	PropertyID  string                 `json:"property_id"`
	Tier        string                 `json:"tier"`
	Seed        int                    `json:"seed"`
	Level       string                 `json:"level"`
	Coverage    map[string]interface{} `json:"coverage"`
	Assumptions []string               `json:"assumptions"`
	WallS       float64                `json:"wall_s"`
	Violations  int                    `json:"violations"`
}

func writeJSON(path string, v interface{}) error {
	if err := os.MkdirAll(filepath.Dir(path), 0o755); err != nil {
		return err
	}
	b, err := json.MarshalIndent(v, "", " ")
	if err != nil {
		return err
	}
	tmp := path + ".tmp"
	if err := os.WriteFile(tmp, append(b, '\n'), 0o644); err != nil {
		return err
	}
	return os.Rename(tmp, path)
}
