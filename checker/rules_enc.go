package main

// R37 ENCODER-TYPESTATE (C01, C06)
//
// A chunkedIntCoder is created once per field loop (or per function) with a
// placeholder chunk size and reused for every term: Reset() empties it but
// keeps the chunk size of the previous term. The reader derives the chunk size
// of a term from that term's cardinality, so the writer must have called
// SetChunkSize since the coder was created or last Reset before it adds the
// first posting of a term:
//
//      created / Reset  --SetChunkSize-->  sized  --Add*-->  sized
//      Add in state "not sized since creation/Reset" is the violation.
//
// Decided on E-path per coder. A callee (closure capturing the coder's
// variable, or function that is handed the coder) is summarised by the same
// analysis: does it add before sizing (then the caller must be sized at the
// call), and in which state does it leave the coder on its non-failing
// returns. Two things about the merge's term loop are understood, both
// general:
//   * a condition tested twice in one iteration (the same SSA value, or two
//     calls of bytes.Equal on the same SSA operands) has the same outcome both
//     times (knowledge is dropped on a back edge of a loop that contains the
//     test);
//   * `v == nil` on a loop-carried variable that enters the loop as the nil
//     constant is true as long as no back edge of that loop has been taken.
// Not decided: that SetChunkSize is given the right size (R13), and the
// converse typestate ("SetChunkSize only right after Reset"): the pinned
// merge re-sizes a coder in use with the same size when the empty term occurs
// in two segments.

import (
	"fmt"
	"go/ast"
	"go/token"
	"go/types"
	"sort"

	"golang.org/x/tools/go/ssa"
)

const (
	encSized  = uint64(1) << 0
	encKnowLo = 8 // knowledge and iteration bits start here
)

func ruleR37() *Rule {
	return &Rule{
		ID:    "R37",
		Title: "ENCODER-TYPESTATE: a reused chunked int coder is given the term's chunk size after it was created or reset and before the first posting is added",
		Props: []string{"C01", "C06", "C10"},
		Floor: floorFor("R37"),
		Run:   runR37,
	}
}

func isIntCoderPtr(t types.Type) bool {
	p, ok := t.Underlying().(*types.Pointer)
	return ok && isNamed(p.Elem(), zapPkgPath, "chunkedIntCoder")
}

// encRef identifies one coder inside one function: the cell of the variable
// holding it (an Alloc, or the FreeVar of a closure), or the value itself (a
// parameter, or the constructor's result when the variable is not captured).
type encRef struct {
	cell ssa.Value // *ssa.Alloc or *ssa.FreeVar of type **chunkedIntCoder
	val  ssa.Value // value of type *chunkedIntCoder
}

func (r encRef) is(v ssa.Value) bool {
	for i := 0; i < 6; i++ {
		if r.val != nil && v == r.val {
			return true
		}
		switch x := v.(type) {
		case *ssa.UnOp:
			if x.Op == token.MUL {
				return r.cell != nil && x.X == r.cell
			}
			return false
		case *ssa.ChangeType:
			v = x.X
		case *ssa.Phi:
			// every edge denotes the coder
			if len(x.Edges) == 0 {
				return false
			}
			for _, e := range x.Edges {
				if e == v || !r.is(e) {
					return false
				}
			}
			return true
		default:
			return false
		}
	}
	return false
}

type encSummary struct {
	needsSized bool // some Add is reachable inside before any SetChunkSize
	addPos     ssa.Instruction
	exit       int // state on non-failing returns: 0 as on entry, 1 not sized, 2 sized
	busy       bool
}

type encAnalyser struct {
	c    *RuleCtx
	memo map[string]*encSummary
}

func (a *encAnalyser) key(fn *ssa.Function, ref encRef) string {
	k := fn.String()
	if ref.cell != nil {
		k += "|c:" + ref.cell.Name()
	}
	if ref.val != nil {
		k += "|v:" + ref.val.Name()
	}
	return k
}

// refIn maps the coder at a call site to its identity inside the callee.
func (a *encAnalyser) refIn(call ssa.CallInstruction, callee *ssa.Function, ref encRef) (encRef, bool) {
	cc := call.Common()
	// handed over as an argument
	args := cc.Args
	params := callee.Params
	if len(args) == len(params) {
		for i, arg := range args {
			if ref.is(arg) {
				return encRef{val: params[i]}, true
			}
		}
	}
	// captured by the closure
	if ref.cell != nil {
		if mc, ok := root(cc.Value).(*ssa.MakeClosure); ok && mc.Fn == callee {
			for i, b := range mc.Bindings {
				if b == ref.cell && i < len(callee.FreeVars) {
					return encRef{cell: callee.FreeVars[i]}, true
				}
			}
		}
	}
	return encRef{}, false
}

type encFinding struct {
	at     ssa.Instruction
	detail string
}

// analyse runs the typestate of one coder through fn. init is the state at
// entry (0 or encSized). It returns the findings (adds in the unsized state)
// and the states at the non-failing returns.
func (a *encAnalyser) analyse(fn *ssa.Function, ref encRef, init uint64) (finds []encFinding, exits []uint64, truncated bool) {
	if len(fn.Blocks) == 0 {
		return nil, nil, false
	}
	// --- conditions tested more than once per iteration -------------------
	type class struct {
		def *ssa.BasicBlock
		bit uint
	}
	classOf := map[ssa.Value]*class{}
	byKey := map[string]*class{}
	nextBit := uint(encKnowLo)
	stripNot := func(v ssa.Value) (ssa.Value, bool) {
		neg := false
		for {
			if u, ok := v.(*ssa.UnOp); ok && u.Op == token.NOT {
				v, neg = u.X, !neg
				continue
			}
			return v, neg
		}
	}
	condKey := func(v ssa.Value) string {
		if call, ok := v.(*ssa.Call); ok {
			if f := call.Call.StaticCallee(); f != nil && f.Pkg != nil && f.Pkg.Pkg.Path() == "bytes" && (f.Name() == "Equal") {
				k := "bytes.Equal"
				for _, arg := range call.Call.Args {
					k += "," + arg.Name()
					if _, isConst := arg.(*ssa.Const); isConst {
						k += arg.String()
					}
				}
				return k
			}
		}
		if _, isConst := v.(*ssa.Const); isConst {
			return ""
		}
		return "v:" + v.Name()
	}
	count := map[string]int{}
	for _, b := range fn.Blocks {
		if iff, ok := b.Instrs[len(b.Instrs)-1].(*ssa.If); ok {
			cv, _ := stripNot(iff.Cond)
			if k := condKey(cv); k != "" {
				count[k]++
			}
		}
	}
	for _, b := range fn.Blocks {
		if iff, ok := b.Instrs[len(b.Instrs)-1].(*ssa.If); ok {
			cv, _ := stripNot(iff.Cond)
			k := condKey(cv)
			if k == "" || count[k] < 2 || nextBit+2 > 60 {
				continue
			}
			cl := byKey[k]
			if cl == nil {
				def := b
				if in, ok := cv.(ssa.Instruction); ok {
					def = in.Block()
				}
				cl = &class{def: def, bit: nextBit}
				nextBit += 2
				byKey[k] = cl
			}
			classOf[cv] = cl
		}
	}
	// --- loop-carried variables that enter their loop as nil ---------------
	iterBit := map[*ssa.BasicBlock]uint{}
	nilPhi := map[*ssa.Phi]bool{}
	eachInstr(fn, func(b *ssa.BasicBlock, in ssa.Instruction) {
		ph, ok := in.(*ssa.Phi)
		if !ok || nextBit+1 > 60 {
			return
		}
		fromOutsideNil, hasBack := true, false
		for i, e := range ph.Edges {
			if b.Dominates(b.Preds[i]) {
				hasBack = true
			} else if !isNilConst(e) {
				fromOutsideNil = false
			}
		}
		if hasBack && fromOutsideNil {
			nilPhi[ph] = true
			if _, ok := iterBit[b]; !ok {
				iterBit[b] = nextBit
				nextBit++
			}
		}
	})
	nilTest := func(cond ssa.Value) (*ssa.Phi, bool, bool) { // phi, outcome-when-nil, ok
		bo, ok := cond.(*ssa.BinOp)
		if !ok || (bo.Op != token.EQL && bo.Op != token.NEQ) {
			return nil, false, false
		}
		var ph *ssa.Phi
		if p, ok := bo.X.(*ssa.Phi); ok && isNilConst(bo.Y) {
			ph = p
		} else if p, ok := bo.Y.(*ssa.Phi); ok && isNilConst(bo.X) {
			ph = p
		}
		if ph == nil || !nilPhi[ph] {
			return nil, false, false
		}
		return ph, bo.Op == token.EQL, true
	}

	var pa *pathAnalysis
	tr := func(in ssa.Instruction, ev uint64, deferred bool) []uint64 {
		call, ok := in.(ssa.CallInstruction)
		if !ok {
			return nil
		}
		if _, isGo := in.(*ssa.Go); isGo {
			return nil
		}
		if _, isDefer := in.(*ssa.Defer); isDefer && !deferred {
			return nil
		}
		cc := call.Common()
		if f := cc.StaticCallee(); f != nil && f.Signature.Recv() != nil && len(cc.Args) > 0 && ref.is(cc.Args[0]) && isIntCoderPtr(f.Signature.Recv().Type()) {
			switch f.Name() {
			case "SetChunkSize":
				return []uint64{ev | encSized}
			case "Reset":
				return []uint64{ev &^ encSized}
			}
			return nil
		}
		callee := resolvedCallee(call)
		if callee == nil || len(callee.Blocks) == 0 {
			return nil
		}
		inner, ok := a.refIn(call, callee, ref)
		if !ok {
			return nil
		}
		s := a.summary(callee, inner)
		switch s.exit {
		case 1:
			return []uint64{ev &^ encSized}
		case 2:
			return []uint64{ev | encSized}
		}
		return nil
	}
	pa = newPathAnalysis(fn, tr)
	pa.edge = func(pred, succ *ssa.BasicBlock, ev uint64) bool {
		iff, ok := pred.Instrs[len(pred.Instrs)-1].(*ssa.If)
		if !ok || len(pred.Succs) != 2 || pred.Succs[0] == pred.Succs[1] {
			return true
		}
		outcome := succ == pred.Succs[0]
		cv, neg := stripNot(iff.Cond)
		if neg {
			outcome = !outcome
		}
		if cl := classOf[cv]; cl != nil {
			knownT, knownF := ev&(1<<cl.bit) != 0, ev&(1<<(cl.bit+1)) != 0
			if (knownT && !outcome) || (knownF && outcome) {
				return false
			}
		}
		if ph, whenNil, ok := nilTest(cv); ok {
			if bit, ok := iterBit[ph.Block()]; ok && ev&(1<<bit) == 0 {
				// still in the first iteration: the variable is nil
				if outcome != whenNil {
					return false
				}
			}
		}
		return true
	}
	pa.edgeTr = func(pred *ssa.BasicBlock, succIdx int, ev uint64) uint64 {
		succ := pred.Succs[succIdx]
		if iff, ok := pred.Instrs[len(pred.Instrs)-1].(*ssa.If); ok && len(pred.Succs) == 2 && pred.Succs[0] != pred.Succs[1] {
			outcome := succIdx == 0
			cv, neg := stripNot(iff.Cond)
			if neg {
				outcome = !outcome
			}
			if cl := classOf[cv]; cl != nil {
				if outcome {
					ev |= 1 << cl.bit
				} else {
					ev |= 1 << (cl.bit + 1)
				}
			}
		}
		if succ.Dominates(pred) {
			// back edge: conditions computed inside this loop are computed anew
			for _, cl := range byKey {
				if succ.Dominates(cl.def) {
					ev &^= 3 << cl.bit
				}
			}
			if bit, ok := iterBit[succ]; ok {
				ev |= 1 << bit
			}
		} else if bit, ok := iterBit[succ]; ok {
			// entering the loop from outside
			ev &^= 1 << bit
		}
		return ev
	}
	pa.run(init)
	seen := map[ssa.Instruction]bool{}
	pa.visit(func(in ssa.Instruction, t tuple) {
		if t.ev&encSized != 0 || seen[in] {
			return
		}
		call, ok := in.(ssa.CallInstruction)
		if !ok {
			return
		}
		if _, isDefer := in.(*ssa.Defer); isDefer {
			return
		}
		cc := call.Common()
		if f := cc.StaticCallee(); f != nil && f.Signature.Recv() != nil && len(cc.Args) > 0 && ref.is(cc.Args[0]) && isIntCoderPtr(f.Signature.Recv().Type()) {
			if f.Name() == "Add" || f.Name() == "AddBytes" {
				seen[in] = true
				finds = append(finds, encFinding{at: in, detail: f.Name() + " on a coder whose chunk size was not set since it was created or reset"})
			}
			return
		}
		callee := resolvedCallee(call)
		if callee == nil || len(callee.Blocks) == 0 {
			return
		}
		inner, ok := a.refIn(call, callee, ref)
		if !ok {
			return
		}
		if s := a.summary(callee, inner); s.needsSized {
			seen[in] = true
			d := funcShortName(callee) + " adds postings to a coder whose chunk size was not set since it was created or reset"
			if s.addPos != nil {
				d += " (" + a.c.pos(s.addPos) + ")"
			}
			finds = append(finds, encFinding{at: in, detail: d})
		}
	})
	// states at the non-failing returns
	exitSeen := map[uint64]bool{}
	for _, ret := range returnsOf(fn) {
		if _, ns := errorOfReturn(ret); ns == nonNil {
			continue
		}
		for _, ev := range pa.statesBefore(ret) {
			s := ev & encSized
			if !exitSeen[s] {
				exitSeen[s] = true
				exits = append(exits, s)
			}
		}
	}
	sort.Slice(exits, func(i, j int) bool { return exits[i] < exits[j] })
	return finds, exits, pa.truncated
}

func (a *encAnalyser) summary(fn *ssa.Function, ref encRef) *encSummary {
	k := a.key(fn, ref)
	if s := a.memo[k]; s != nil {
		return s // a recursive call sees the neutral summary
	}
	s := &encSummary{busy: true}
	a.memo[k] = s
	finds, exitsU, _ := a.analyse(fn, ref, 0)
	if len(finds) > 0 {
		s.needsSized = true
		s.addPos = finds[0].at
	}
	_, exitsS, _ := a.analyse(fn, ref, encSized)
	allSized := func(xs []uint64) bool {
		for _, x := range xs {
			if x&encSized == 0 {
				return false
			}
		}
		return len(xs) > 0
	}
	noneSized := func(xs []uint64) bool {
		for _, x := range xs {
			if x&encSized != 0 {
				return false
			}
		}
		return len(xs) > 0
	}
	switch {
	case allSized(exitsU):
		s.exit = 2
	case allSized(exitsS) && noneSized(exitsU):
		s.exit = 0 // leaves it as it found it
	case len(exitsS) == 0 && len(exitsU) == 0:
		s.exit = 0
	default:
		s.exit = 1 // may leave it reset
	}
	s.busy = false
	return s
}

// assignedName: the variable a call's result is assigned to in the source (`x := f()`), if any.
func assignedName(fn *ssa.Function, call *ssa.Call) string {
	return assignedNameAt(fn, call.Pos())
}

// assignedNameAt: the variable the call expression whose '(' is at pos is assigned to.
func assignedNameAt(fn *ssa.Function, pos token.Pos) string {
	syn := fn.Syntax()
	if syn == nil {
		return ""
	}
	name := ""
	ast.Inspect(syn, func(n ast.Node) bool {
		var lhs, rhs []ast.Expr
		switch x := n.(type) {
		case *ast.AssignStmt:
			lhs, rhs = x.Lhs, x.Rhs
		case *ast.ValueSpec:
			for _, id := range x.Names {
				lhs = append(lhs, id)
			}
			rhs = x.Values
		default:
			return true
		}
		if len(lhs) != len(rhs) {
			return true
		}
		for i, r := range rhs {
			if ce, ok := r.(*ast.CallExpr); ok && ce.Lparen == pos {
				if id, ok := lhs[i].(*ast.Ident); ok {
					name = id.Name
				}
			}
		}
		return true
	})
	return name
}

func runR37(c *RuleCtx) {
	r37ContentCoder(c)
	ctor := c.fn("newChunkedIntCoder")
	if ctor == nil {
		return
	}
	a := &encAnalyser{c: c, memo: map[string]*encSummary{}}
	n := 0
	for _, cs := range c.p.callersOf(ctor) {
		call, ok := cs.(*ssa.Call)
		if !ok {
			continue
		}
		fn := call.Parent()
		if !c.p.InZap(fn) {
			continue
		}
		// the variable that holds the coder, if it lives in a cell
		ref := encRef{val: call}
		name := ""
		for _, r := range *call.Referrers() {
			if st, ok := r.(*ssa.Store); ok && st.Val == ssa.Value(call) {
				if al, ok := st.Addr.(*ssa.Alloc); ok {
					ref = encRef{cell: al, val: call}
					name = al.Comment
				}
			}
		}
		if name == "" {
			name = assignedName(fn, call)
		}
		if name == "" {
			name = "unnamed"
		}
		// the build path serves C01, the merge (a function that is handed the input segments) C06
		props := []string{"C01"}
		for _, prm := range fn.Params {
			if sl, ok := prm.Type().Underlying().(*types.Slice); ok {
				if pt, ok := sl.Elem().Underlying().(*types.Pointer); ok && isNamed(pt.Elem(), zapPkgPath, "SegmentBase") {
					props = []string{"C06"}
				}
			}
		}
		finds, _, truncated := a.analyse(fn, ref, 0)
		n++
		key := "sized-before-add/" + funcShortName(fn) + "/" + name
		what := "every path to an Add on this coder has called SetChunkSize since the coder was created or last Reset"
		if truncated {
			c.undecidedP(props, key, c.pos(call), what, "path analysis truncated")
			continue
		}
		if len(finds) == 0 {
			c.okP(props, key, c.pos(call), what)
			continue
		}
		var wit []string
		for _, f := range finds {
			wit = append(wit, c.pos(f.at)+": "+f.detail)
		}
		c.badP(props, key, c.pos(finds[0].at), what,
			"a posting can be added while the coder still has the placeholder chunk size (or the previous term's): the reader derives the chunk size from this term's cardinality and will look in the wrong chunk", wit...)
	}
	c.add(statusOf(n >= half(4)), "sized-before-add/sites", "-", "the reused int coders are found (pinned tree: tfEncoder and locEncoder in writeDicts and in mergeAndPersistInvertedSection)", fmt.Sprintf("found %d", n), []string{"C01", "C06"}, nil)
}

// r37ContentCoder (R37b): the same typestate for the doc-value coder. A chunkedContentCoder that is Reset
// keeps the chunk table (chunkLens) sized for its previous use; before it is used again — a posting
// added, or the coder handed back by a function that recycles it — SetChunkSize must have been called
// (directly, or by a method of the coder that does so on every path). The pinned tree only ever resets
// a coder it is about to drop, so this has nothing to say there; it speaks when coders are recycled.
func r37ContentCoder(c *RuleCtx) {
	p := c.p
	props := []string{"C01", "C06", "C10"}
	isCC := func(t types.Type) bool {
		pt, ok := t.Underlying().(*types.Pointer)
		return ok && isNamed(pt.Elem(), zapPkgPath, "chunkedContentCoder")
	}
	// methods of the coder that size it on every path
	sizes := map[*ssa.Function]bool{}
	for changed := true; changed; {
		changed = false
		for _, fn := range p.ZapFuncs {
			if sizes[fn] || fn.Signature.Recv() == nil || !isCC(fn.Signature.Recv().Type()) || len(fn.Blocks) == 0 {
				continue
			}
			if fn.Name() == "SetChunkSize" {
				sizes[fn] = true
				changed = true
				continue
			}
			recv := fn.Params[0]
			pa := newPathAnalysis(fn, func(in ssa.Instruction, ev uint64, _ bool) []uint64 {
				if cs, ok := in.(ssa.CallInstruction); ok {
					if f := staticCallee(cs); f != nil && sizes[f] && len(cs.Common().Args) > 0 && root(cs.Common().Args[0]) == ssa.Value(recv) {
						return []uint64{ev | 1}
					}
				}
				return nil
			})
			pa.run(0)
			all, n := true, 0
			for _, ret := range returnsOf(fn) {
				for _, ev := range pa.statesBefore(ret) {
					n++
					if ev&1 == 0 {
						all = false
					}
				}
			}
			if all && n > 0 {
				sizes[fn] = true
				changed = true
			}
		}
	}
	same := func(a, b ssa.Value) bool {
		if a == b || root(a) == root(b) {
			return true
		}
		s1, f1, b1, ok1 := loadedField(a)
		s2, f2, b2, ok2 := loadedField(b)
		return ok1 && ok2 && s1 == s2 && f1 == f2 && root(b1) == root(b2)
	}
	n := 0
	// a function that hands out a coder it keeps in a field (a recycled one) sizes it on every path:
	// whoever reset it is somewhere else
	for _, fn := range p.ZapFuncs {
		if fn.Signature.Recv() != nil && isCC(fn.Signature.Recv().Type()) {
			continue
		}
		for _, ret := range returnsOf(fn) {
			for _, r := range ret.Results {
				if !isCC(r.Type()) {
					continue
				}
				sn, fld, _, ok := loadedField(root(r))
				if !ok {
					continue
				}
				x := root(r)
				pa := newPathAnalysis(fn, func(in ssa.Instruction, ev uint64, _ bool) []uint64 {
					switch y := in.(type) {
					case ssa.CallInstruction:
						if f := staticCallee(y); f != nil && sizes[f] && len(y.Common().Args) > 0 && same(y.Common().Args[0], x) {
							return []uint64{ev | 1}
						}
					case *ssa.Store:
						if s2, f2, _, ok := fieldOf(y.Addr); ok && s2 == sn && f2 == fld {
							if call, ok := y.Val.(*ssa.Call); ok {
								if f := call.Call.StaticCallee(); f != nil && namedFn(f, "newChunkedContentCoder") {
									return []uint64{ev | 1}
								}
							}
							return []uint64{ev &^ 1}
						}
					}
					return nil
				})
				pa.run(0)
				okc := len(pa.statesBefore(ret)) > 0
				for _, ev := range pa.statesBefore(ret) {
					if ev&1 == 0 {
						okc = false
					}
				}
				n++
				c.add(statusOf(okc), fmt.Sprintf("content-coder/handed-out/%s#%d", funcShortName(fn), n), c.pos(ret),
					"the doc-value coder that "+funcShortName(fn)+" keeps in "+sn+"."+fld+" and hands out was created on this path or given its chunk size (SetChunkSize) on it",
					"a recycled coder is handed out on a path that does not size it: it keeps the chunk table of its previous use", props, nil)
			}
		}
	}
	for _, fn := range p.ZapFuncs {
		if fn.Signature.Recv() != nil && isCC(fn.Signature.Recv().Type()) {
			continue // the coder's own methods
		}
		var resets []ssa.CallInstruction
		for _, cs := range callSites(fn) {
			if f := staticCallee(cs); f != nil && f.Name() == "Reset" && f.Signature.Recv() != nil && isCC(f.Signature.Recv().Type()) {
				resets = append(resets, cs)
			}
		}
		for _, rs := range resets {
			x := rs.Common().Args[0]
			const evUnsized = 1
			// where the coder comes from in this function: a constructor or a helper that hands one out
			// (judged on its own) — passing that point, the coder is as that function left it
			var origin ssa.Instruction
			switch d := root(x).(type) {
			case *ssa.Call:
				origin = d
			case *ssa.Extract:
				if call, ok := d.Tuple.(*ssa.Call); ok {
					origin = call
				}
			}
			// created in this very function for this build: Reset zeroes the chunk table and the sizing
			// parameters (chunk mode, document count) are the same for every use here
			if oc, ok := origin.(*ssa.Call); ok {
				if f := oc.Call.StaticCallee(); f != nil && namedFn(f, "newChunkedContentCoder") {
					continue
				}
			}
			if localCoder(x, 0, map[ssa.Value]bool{}) {
				continue // (a local variable that only ever holds coders made here, or nil)
			}
			pa := newPathAnalysis(fn, func(in ssa.Instruction, ev uint64, _ bool) []uint64 {
				if origin != nil && in == origin {
					return []uint64{ev &^ evUnsized}
				}
				cs, ok := in.(ssa.CallInstruction)
				if !ok {
					return nil
				}
				if cs == rs {
					return []uint64{ev | evUnsized}
				}
				f := staticCallee(cs)
				if f == nil || len(cs.Common().Args) == 0 || !same(cs.Common().Args[0], x) {
					return nil
				}
				if sizes[f] {
					return []uint64{ev &^ evUnsized}
				}
				return nil
			})
			pa.run(0)
			var bad []string
			for _, cs := range callSites(fn) {
				f := staticCallee(cs)
				if f == nil || f.Name() != "Add" || len(cs.Common().Args) == 0 || !same(cs.Common().Args[0], x) {
					continue
				}
				for _, ev := range pa.statesBefore(cs) {
					if ev&evUnsized != 0 {
						bad = append(bad, "added to after Reset without SetChunkSize: "+describeInstr(p, cs))
						break
					}
				}
			}
			for _, ret := range returnsOf(fn) {
				for _, r := range ret.Results {
					if !isCC(r.Type()) || !same(r, x) {
						continue
					}
					for _, ev := range pa.statesBefore(ret) {
						if ev&evUnsized != 0 {
							bad = append(bad, "handed back after Reset without SetChunkSize: "+describeInstr(p, ret))
							break
						}
					}
				}
			}
			n++
			c.add(statusOf(len(bad) == 0), fmt.Sprintf("content-coder/%s#%d", funcShortName(fn), n), c.pos(rs),
				"a doc-value coder that "+funcShortName(fn)+" resets is given its chunk size again (SetChunkSize) before it is added to or handed back",
				"the recycled coder keeps the chunk table of its previous use: the number of chunk offsets written, and which chunk a document falls into, follow the previous segment", props, uniq(bad))
		}
	}
}

// localCoder: every value the variable can hold is nil or the result of newChunkedContentCoder in this
// function (through phis and local cells).
func localCoder(v ssa.Value, depth int, seen map[ssa.Value]bool) bool {
	if depth > 6 {
		return false
	}
	if seen[v] {
		return true
	}
	seen[v] = true
	switch x := v.(type) {
	case *ssa.Const:
		return x.IsNil()
	case *ssa.Call:
		f := x.Call.StaticCallee()
		return f != nil && namedFn(f, "newChunkedContentCoder")
	case *ssa.Phi:
		for _, e := range x.Edges {
			if !localCoder(e, depth+1, seen) {
				return false
			}
		}
		return true
	case *ssa.UnOp:
		if x.Op != token.MUL {
			return false
		}
		al := cellOf(x.X)
		if al == nil {
			return false
		}
		sts := cellStores(al)
		if len(sts) == 0 {
			return false
		}
		for _, st := range sts {
			if !localCoder(st.Val, depth+1, seen) {
				return false
			}
		}
		return true
	}
	return false
}
