package main

// R10 "clean at use": a field of a pooled builder that Reset does not touch is still harmless when its
// only users bring it into a defined state before they read it:
//
//   map field     every read of the map (look-up, ranging for its values, handing it to a closure that
//                 reads it) comes after the map was emptied on that path — clear(m), or a loop
//                 `for k := range m { delete(m, k) }` that deletes on every iteration;
//   slice field   the field is only ever (re)made, measured (cap/len) and resliced; a reslice [:0] is
//                 always fine (what is read was appended); a reslice [:len(X)] is fine when a loop over
//                 X (or over the reslice) assigns element [i] on every iteration that completes, and
//                 every read of an element comes after that loop's normal exit.
//
// This is "written before read on every path of its only users" for the two shapes in which kept scratch
// is actually written; anything else stays undecided here and is reported by R10 as before.

import (
	"go/token"
	"go/types"

	"golang.org/x/tools/go/ssa"
)

// fieldAddrsOf: every FieldAddr of struct sn / field index fi in package zap.
func fieldAddrsOf(p *Program, sn string, fi int) []*ssa.FieldAddr {
	var out []*ssa.FieldAddr
	for _, fn := range p.ZapFuncs {
		eachInstr(fn, func(_ *ssa.BasicBlock, in ssa.Instruction) {
			fa, ok := in.(*ssa.FieldAddr)
			if !ok || fa.Field != fi {
				return
			}
			if pt, ok := fa.X.Type().Underlying().(*types.Pointer); ok && isNamed(pt.Elem(), zapPkgPath, sn) {
				out = append(out, fa)
			}
		})
	}
	return out
}

func cleanAtUse(p *Program, sn string, st *types.Struct, fi int) (bool, string) {
	accs := fieldAddrsOf(p, sn, fi)
	if len(accs) == 0 {
		return false, ""
	}
	switch st.Field(fi).Type().Underlying().(type) {
	case *types.Map:
		return mapCleanAtUse(p, accs)
	case *types.Slice:
		return sliceCleanAtUse(p, accs)
	}
	return false, ""
}

// aliasesOf: the loaded value v and every load of a local variable cell that holds it (in the function
// and, through captured variables, in its closures).
func aliasesOf(v ssa.Value) (vals []ssa.Value, cells []*ssa.Alloc, ok bool) {
	vals = []ssa.Value{v}
	refs := v.Referrers()
	if refs == nil {
		return vals, nil, true
	}
	for _, r := range *refs {
		st, isSt := r.(*ssa.Store)
		if !isSt || st.Val != v {
			continue
		}
		al, isAl := st.Addr.(*ssa.Alloc)
		if !isAl {
			return nil, nil, false // stored somewhere else: escapes
		}
		cells = append(cells, al)
	}
	return vals, cells, true
}

func mapCleanAtUse(p *Program, accs []*ssa.FieldAddr) (bool, string) {
	byFn := map[*ssa.Function][]*ssa.FieldAddr{}
	for _, fa := range accs {
		byFn[fa.Parent()] = append(byFn[fa.Parent()], fa)
	}
	for fn, fas := range byFn {
		// the map values in play in fn: loads of the field, and loads of local cells holding such a load
		isMap := map[ssa.Value]bool{}
		cellSet := map[*ssa.Alloc]bool{}
		for _, fa := range fas {
			for _, r := range *fa.Referrers() {
				switch x := r.(type) {
				case *ssa.UnOp:
					isMap[x] = true
					_, cells, ok := aliasesOf(x)
					if !ok {
						return false, ""
					}
					for _, c := range cells {
						cellSet[c] = true
					}
				case *ssa.Store:
					if x.Addr != ssa.Value(fa) {
						return false, ""
					}
					if _, fresh := x.Val.(*ssa.MakeMap); !fresh && !isNilConst(x.Val) {
						return false, ""
					}
				case *ssa.DebugRef:
				default:
					return false, ""
				}
			}
		}
		// every cell holds nothing but the field's map
		for c := range cellSet {
			for _, st := range cellStores(c) {
				if !isMap[st.Val] {
					return false, ""
				}
			}
		}
		isAlias := func(v ssa.Value) bool {
			if isMap[v] {
				return true
			}
			if u, ok := v.(*ssa.UnOp); ok && u.Op == token.MUL {
				if c := cellOf(u.X); c != nil && cellSet[c] {
					return true
				}
			}
			return false
		}
		// closures of fn that read the map
		readsInClosure := map[*ssa.Function]bool{}
		for _, f2 := range p.ZapFuncs {
			if f2.Parent() == nil || rootParent(f2) != fn {
				continue
			}
			eachInstr(f2, func(_ *ssa.BasicBlock, in ssa.Instruction) {
				switch x := in.(type) {
				case *ssa.Lookup:
					if isAlias(x.X) {
						readsInClosure[f2] = true
					}
				case *ssa.Range:
					if isAlias(x.X) {
						readsInClosure[f2] = true
					}
				}
			})
		}
		// delete-all loops over an alias
		delExit := map[*ssa.BasicBlock]bool{}
		eachInstr(fn, func(_ *ssa.BasicBlock, in ssa.Instruction) {
			call, ok := in.(*ssa.Call)
			if !ok {
				return
			}
			b, ok := call.Call.Value.(*ssa.Builtin)
			if !ok || b.Name() != "delete" || len(call.Call.Args) != 2 || !isAlias(call.Call.Args[0]) {
				return
			}
			key, ok := call.Call.Args[1].(*ssa.Extract)
			if !ok || key.Index != 1 {
				return
			}
			next, ok := key.Tuple.(*ssa.Next)
			if !ok {
				return
			}
			rg, ok := next.Iter.(*ssa.Range)
			if !ok || !isAlias(rg.X) {
				return
			}
			head := next.Block()
			for _, pr := range head.Preds {
				if head.Dominates(pr) && !(call.Block() == pr || call.Block().Dominates(pr)) {
					return
				}
			}
			delExit[head] = true
		})
		isDeleteRange := func(rg *ssa.Range) bool {
			for _, r := range *rg.Referrers() {
				if nx, ok := r.(*ssa.Next); ok && delExit[nx.Block()] {
					return true
				}
			}
			return false
		}
		pa := newPathAnalysis(fn, func(in ssa.Instruction, ev uint64, _ bool) []uint64 {
			if call, ok := in.(*ssa.Call); ok {
				if b, ok := call.Call.Value.(*ssa.Builtin); ok && b.Name() == "clear" && len(call.Call.Args) == 1 && isAlias(call.Call.Args[0]) {
					return []uint64{ev | 1}
				}
			}
			if st, ok := in.(*ssa.Store); ok {
				// the field was just made afresh
				if fa, ok := st.Addr.(*ssa.FieldAddr); ok {
					for _, f := range fas {
						if f.Field == fa.Field && f.X.Type() == fa.X.Type() {
							if _, fresh := st.Val.(*ssa.MakeMap); fresh {
								return nil // a fresh map for a nil field says nothing about a non-nil one
							}
						}
					}
				}
			}
			return nil
		})
		pa.edgeTr = func(pred *ssa.BasicBlock, succIdx int, ev uint64) uint64 {
			if delExit[pred] && succIdx == 1 {
				ev |= 1
			}
			return ev
		}
		pa.run(0)
		if pa.truncated {
			return false, ""
		}
		okAll := true
		eachInstr(fn, func(_ *ssa.BasicBlock, in ssa.Instruction) {
			read := false
			switch x := in.(type) {
			case *ssa.Lookup:
				read = isAlias(x.X)
			case *ssa.Range:
				read = isAlias(x.X) && !isDeleteRange(x)
			case *ssa.MakeClosure:
				if f2, ok := x.Fn.(*ssa.Function); ok && readsInClosure[f2] {
					read = true
				}
			case ssa.CallInstruction:
				// the map handed to somebody else
				for _, a := range x.Common().Args {
					if isAlias(a) {
						if b, ok := x.Common().Value.(*ssa.Builtin); ok && (b.Name() == "delete" || b.Name() == "len" || b.Name() == "clear") {
							continue
						}
						okAll = false
					}
				}
			}
			if !read {
				return
			}
			for _, ev := range pa.statesBefore(in) {
				if ev&1 == 0 {
					okAll = false
				}
			}
		})
		if !okAll {
			return false, ""
		}
	}
	return true, "every read of the map comes after it was emptied (delete-all loop / clear) by its user"
}

func lenArgOf(v ssa.Value) ssa.Value {
	call, ok := v.(*ssa.Call)
	if !ok {
		return nil
	}
	if b, ok := call.Call.Value.(*ssa.Builtin); !ok || b.Name() != "len" {
		return nil
	}
	return call.Call.Args[0]
}

func sliceCleanAtUse(p *Program, accs []*ssa.FieldAddr) (bool, string) {
	sameLoadedField := func(a, b ssa.Value) bool {
		s1, f1, b1, ok1 := loadedField(a)
		s2, f2, b2, ok2 := loadedField(b)
		return ok1 && ok2 && s1 == s2 && f1 == f2 && (root(b1) == root(b2) || sameValue(resolveLoad(b1), resolveLoad(b2)))
	}
	for _, fa := range accs {
		fn := fa.Parent()
		for _, r := range *fa.Referrers() {
			switch x := r.(type) {
			case *ssa.DebugRef:
			case *ssa.Store:
				if x.Addr != ssa.Value(fa) {
					return false, ""
				}
				if _, mk := x.Val.(*ssa.MakeSlice); !mk && !isNilConst(x.Val) {
					return false, ""
				}
			case *ssa.UnOp:
				if x.Referrers() == nil {
					continue
				}
				for _, u := range *x.Referrers() {
					switch y := u.(type) {
					case *ssa.DebugRef:
					case *ssa.Call:
						b, ok := y.Call.Value.(*ssa.Builtin)
						if !ok || !(b.Name() == "cap" || b.Name() == "len") {
							return false, ""
						}
					case *ssa.Slice:
						if y.X != ssa.Value(x) || y.Low != nil {
							return false, ""
						}
						if h, ok := constInt64(y.High); ok && h == 0 {
							continue // truncated: whatever is read later was appended
						}
						lx := lenArgOf(y.High)
						if lx == nil {
							return false, ""
						}
						if !elementsAssignedBeforeRead(fn, y, lx, sameLoadedField) {
							return false, ""
						}
					default:
						return false, ""
					}
				}
			default:
				return false, ""
			}
		}
	}
	return true, "its only user reslices it and assigns every element before any is read"
}

// elementsAssignedBeforeRead: v = field[:len(X)]; a loop over X (same loaded field) or over v with index i
// stores v[i] in a block that dominates every latch, and every element read of v is dominated by the
// loop's normal exit.
func elementsAssignedBeforeRead(fn *ssa.Function, v *ssa.Slice, lenArg ssa.Value, sameField func(a, b ssa.Value) bool) bool {
	// the re-extension written straight back into the field it came from, followed at once by a loop over
	// the field that assigns every element (`x.f = x.f[:n]; for i := range x.f { x.f[i] = 0 }`)
	if st := onlyStoredBack(v); st != nil {
		return fieldAssignedRightAfter(fn, st)
	}
	// v must not escape: only indexed, ranged over, measured
	var stores []*ssa.Store
	var reads []ssa.Instruction
	for _, r := range *v.Referrers() {
		switch x := r.(type) {
		case *ssa.DebugRef:
		case *ssa.IndexAddr:
			for _, r2 := range *x.Referrers() {
				switch y := r2.(type) {
				case *ssa.Store:
					if y.Addr == ssa.Value(x) {
						stores = append(stores, y)
					} else {
						return false
					}
				case *ssa.UnOp:
					// reading an element only to truncate it (`v[i] = v[i][:0]`) reads nothing of it
					onlyTruncated := y.Referrers() != nil && len(*y.Referrers()) > 0
					if onlyTruncated {
						for _, r3 := range *y.Referrers() {
							sl, isSl := r3.(*ssa.Slice)
							if _, isDbg := r3.(*ssa.DebugRef); isDbg {
								continue
							}
							if !isSl || sl.X != ssa.Value(y) || sl.Low != nil {
								onlyTruncated = false
								break
							}
							if h, ok := constInt64(sl.High); !ok || h != 0 {
								onlyTruncated = false
								break
							}
						}
					}
					if !onlyTruncated {
						reads = append(reads, y)
					}
				case *ssa.DebugRef:
				default:
					return false
				}
			}
		case *ssa.Call:
			b, ok := x.Call.Value.(*ssa.Builtin)
			if !ok || !(b.Name() == "len" || b.Name() == "cap") {
				return false
			}
		case *ssa.Range:
			reads = append(reads, x)
		case *ssa.Phi:
			// the variable goes on as this value: whatever reads it there must come after the loop
			reads = append(reads, x)
		case *ssa.Store:
			// stored back into the field / a local variable: same
			if x.Val != ssa.Value(v) {
				return false
			}
			reads = append(reads, x)
		default:
			return false
		}
	}
	for _, st := range stores {
		ia := st.Addr.(*ssa.IndexAddr)
		// the index is the induction variable of a counting loop bounded by len(X) / len(v)
		idx := ia.Index
		var head *ssa.BasicBlock
		if refs := idx.Referrers(); refs != nil {
			for _, r := range *refs {
				bo, ok := r.(*ssa.BinOp)
				if !ok || bo.Op != token.LSS || bo.X != idx {
					continue
				}
				la := lenArgOf(bo.Y)
				if la == nil {
					continue
				}
				if la == ssa.Value(v) || sameField(la, lenArg) {
					head = bo.Block()
				}
			}
		}
		if head == nil {
			continue
		}
		// the store runs on every iteration that completes
		okLatch := true
		for _, pr := range head.Preds {
			if head.Dominates(pr) && !(st.Block() == pr || st.Block().Dominates(pr)) {
				okLatch = false
			}
		}
		if !okLatch {
			continue
		}
		// the loop's normal exit: the successor of the header that is outside the loop
		var exit *ssa.BasicBlock
		var loop *natLoop
		for _, l := range naturalLoops(fn) {
			if l.header == head {
				loop = l
			}
		}
		if loop == nil {
			continue
		}
		for _, s := range head.Succs {
			if !loop.blocks[s] {
				exit = s
			}
		}
		if exit == nil {
			continue
		}
		okReads := true
		for _, rd := range reads {
			if !(exit == rd.Block() || exit.Dominates(rd.Block())) {
				okReads = false
			}
		}
		if okReads {
			return true
		}
	}
	return false
}

// onlyStoredBack: the only use of the reslice v is a store into the very field it was loaded from.
func onlyStoredBack(v *ssa.Slice) *ssa.Store {
	s1, f1, b1, ok := loadedField(v.X)
	if !ok {
		return nil
	}
	var st *ssa.Store
	for _, r := range *v.Referrers() {
		switch x := r.(type) {
		case *ssa.DebugRef:
		case *ssa.Store:
			s2, f2, b2, ok := fieldOf(x.Addr)
			if !ok || x.Val != ssa.Value(v) || s1 != s2 || f1 != f2 || root(b1) != root(b2) || st != nil {
				return nil
			}
			st = x
		default:
			return nil
		}
	}
	return st
}

// fieldAssignedRightAfter: control goes from the store straight (unconditional jumps only) into a loop
// `for i := range <the field>` whose body assigns element [i] of the field on every iteration.
func fieldAssignedRightAfter(fn *ssa.Function, st *ssa.Store) bool {
	sn, fld, base, _ := fieldOf(st.Addr)
	isField := func(v ssa.Value) bool {
		s2, f2, b2, ok := loadedField(v)
		return ok && s2 == sn && f2 == fld && root(b2) == root(base)
	}
	// nothing but loads / len between the store and the loop header
	b := st.Block()
	for i := 0; i < 3 && len(b.Succs) == 1; i++ {
		b = b.Succs[0]
		var loop *natLoop
		for _, l := range naturalLoops(fn) {
			if l.header == b {
				loop = l
			}
		}
		if loop == nil {
			continue
		}
		// the loop is bounded by len(field) and stores field[idx]
		iff, ok := b.Instrs[len(b.Instrs)-1].(*ssa.If)
		if !ok {
			return false
		}
		bo, ok := iff.Cond.(*ssa.BinOp)
		if !ok || bo.Op != token.LSS {
			return false
		}
		la := lenArgOf(bo.Y)
		if la == nil || !isField(la) {
			return false
		}
		idx := bo.X
		found := false
		for blk := range loop.blocks {
			for _, in := range blk.Instrs {
				est, ok := in.(*ssa.Store)
				if !ok {
					continue
				}
				ia, ok := est.Addr.(*ssa.IndexAddr)
				if !ok || ia.Index != idx || !isField(ia.X) {
					continue
				}
				dom := true
				for _, pr := range b.Preds {
					if b.Dominates(pr) && !(blk == pr || blk.Dominates(pr)) {
						dom = false
					}
				}
				if dom {
					found = true
				}
			}
		}
		return found
	}
	return false
}
